#!/bin/sh
# Builds the framework offline from files on disk: Lean model + proofs + fmodel, harness binaries.
set -e
cd "$(dirname "$0")"
export CARGO_NET_OFFLINE=true
python3 tools/extract_params.py > /dev/null
(cd lean && lake build FastraceModel fmodel)
python3 tools/build_all.py
