import FastraceModel.Model.Codec
import FastraceModel.Lemmas.Codec
import FastraceModel.Props.ParamsOk
import FastraceModel.Props.C12
import FastraceModel.Props.C20
import FastraceModel.Driver.Codec
import FastraceModel.Driver.Report
import FastraceModel.Props.C19
