import FastraceModel.Model.Codec
import FastraceModel.Lemmas.Codec
