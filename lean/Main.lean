import FastraceModel.Driver.Codec
import FastraceModel.Driver.Report
open Fastrace.Driver

/-- line-protocol driver: first line `mode <m>`, then one request per line -/
partial def loop (h : IO.FS.Stream) (out : IO.FS.Stream) (step : String → String) : IO Unit := do
  let line ← h.getLine
  if line.isEmpty then return ()
  out.putStrLn (step line)
  loop h out step

def main : IO Unit := do
  let stdin ← IO.getStdin
  let stdout ← IO.getStdout
  let first ← stdin.getLine
  match words first with
  | ["mode", "codec"] => loop stdin stdout codecStep
  | ["mode", "report"] => loop stdin stdout reportStep
  | _ => IO.eprintln "fmodel: unknown mode"; IO.Process.exit 2
