import FastraceModel.Driver.Codec
import FastraceModel.Driver.Report
import FastraceModel.Driver.Seq
import FastraceModel.Driver.Spsc
import FastraceModel.Driver.Macro
open Fastrace.Driver

/-- line-protocol driver: first line `mode <m>`, then one request per line -/
partial def loop (h : IO.FS.Stream) (out : IO.FS.Stream) (step : String → String) : IO Unit := do
  let line ← h.getLine
  if line.isEmpty then return ()
  out.putStrLn (step line)
  loop h out step

partial def loopSt {σ : Type} (h : IO.FS.Stream) (out : IO.FS.Stream) (step : σ → String → σ × String) (st : σ) : IO Unit := do
  let line ← h.getLine
  if line.isEmpty then return ()
  let (st, o) := step st line
  out.putStrLn o
  loopSt h out step st

def main : IO Unit := do
  let stdin ← IO.getStdin
  let stdout ← IO.getStdout
  let first ← stdin.getLine
  match words first with
  | ["mode", "codec"] => loop stdin stdout codecStep
  | ["mode", "report"] => loop stdin stdout reportStep
  | ["mode", "macro"] => loop stdin stdout macroStep
  | ["mode", "spsc"] => loopSt stdin stdout spscStep ⟨none, false⟩
  | ["mode", "off"] => loop stdin stdout offStep
  | ["mode", "seq"] => loopSt stdin stdout seqStep { sys := Fastrace.Sys.init, nthreads := 0 }
  | _ => IO.eprintln "fmodel: unknown mode"; IO.Process.exit 2
