import FastraceModel.Lemmas.FlowCycle
import FastraceModel.Lemmas.NoReporter
import FastraceModel.Props.C01
import FastraceModel.Lemmas.Sound

/-!
# End to end over whole programs (C01, C09, C08): nothing accepted is lost or duplicated

The theorems of `Props/C01.lean` speak about one collector cycle and one drained batch.  This
file composes them, over **every program of the model** (`run Sys.init p` — every operation,
every thread, every placement of whole and stepped collector cycles, overload, thread exit),
with the history variables of `Sys.g`:

* `E2E_conservation` — in every reachable state, for every weight function (so: for the
  multiplicity of every single command), the commands the channels accepted are exactly the
  commands in flight + consumed by the processing loops + drained without a reporter + lost by
  `Sender::drop` on a full ring (finding D3).  Nothing else ever leaves a channel.
* `E2E_overflow_only_signals` — an overflow list only holds finish / cancel signals; a span set
  is either accepted into the ring at once or refused because the ring is full (C09's
  "omission only").
* `E2E_default_reports_consumed` — in the default configuration (no `setReporter true` in the
  program) the records reported so far are, up to order, exactly the records of the span sets
  consumed so far, one copy per token item: reported exactly once, nothing invented.
* `E2E_flush_delivers` — after a `flush` (a whole cycle) no span set is in flight: every span
  set a channel ever accepted has been consumed, hence (default configuration) reported
  exactly once — "at the latest when a `flush()` called afterwards returns".

What is *not* here: that a submit is *accepted* unless the ring is full is `sendCmd_accepts`
below (per call); the wall-clock clause; the memory model of `rtrb`.
-/
namespace Fastrace
open List

/-! ### the default configuration: reported = records of consumed -/

structure Dflt (s : Sys) : Prop where
  nc : s.coll.cancelable = false
  flushed : Flushed s.coll
  nodup : KeysNodup s.coll
  rep : (s.g.reported.map Record.core).Perm ((submitted (submitsOf s.g.consumed)).flatMap (collectionCores id))

theorem Dflt.init : Dflt Sys.init := by
  refine ⟨rfl, ?_, ?_, ?_⟩
  · intro e he; simp [Sys.init] at he
  · simp [KeysNodup, Coll.keys, Sys.init]
  · simp [Sys.init, submitsOf, submitted]

theorem Dflt.of_step {s s' : Sys} (h : Dflt s) (st : Step s s') : Dflt s' := by
  refine ⟨?_, ?_, ?_, ?_⟩
  · rw [st.coll]; exact h.nc
  · rw [st.coll]; exact h.flushed
  · rw [st.coll]; exact h.nodup
  · rw [st.consumed, st.reported]; exact h.rep

theorem submitsOf_append (a b : List Cmd) : submitsOf (a ++ b) = submitsOf a ++ submitsOf b := by
  simp [submitsOf, List.filterMap_append]

theorem submitted_append (a b : List (SpanSet × Token)) : submitted (a ++ b) = submitted a ++ submitted b := by
  simp [submitted, List.flatMap_append]

theorem Dflt.finishCycle {s : Sys} (h : Dflt s) (kept : List (Nat × Ring Cmd)) (buf buf2 : List Cmd) :
    Dflt (s.finishCycle kept buf buf2).1 := by
  have f0 : (s.finishCycle kept buf buf2).1.coll = (cycleProcess id s.coll (s.cycleBatch buf buf2)).1 := rfl
  have f5 : (s.finishCycle kept buf buf2).1.g =
      if s.coll.hasReporter then
        { s.g with consumed := s.cycleBatch buf buf2 ++ s.g.consumed,
                   reported := (cycleProcess id s.coll (s.cycleBatch buf buf2)).2.getD [] ++ s.g.reported }
      else { s.g with discarded := s.cycleBatch buf buf2 ++ (s.cycleSplit buf buf2).2 ++ buf2.filter Cmd.isCommit ++ s.g.discarded } := rfl
  generalize s.cycleBatch buf buf2 = batch at f0 f5
  cases hr : s.coll.hasReporter with
  | false =>
    rw [hr] at f5
    have e := cycleProcess_noReporter id s.coll batch hr
    refine ⟨?_, ?_, ?_, ?_⟩
    · rw [f0, e]; exact h.nc
    · rw [f0, e]; exact h.flushed
    · rw [f0, e]; exact h.nodup
    · rw [f5]; exact h.rep
  | true =>
    rw [hr] at f5
    obtain ⟨recs, e2, p, fl, nd⟩ := C01_cycle_reports_everything_once id s.coll batch hr h.nc h.flushed h.nodup
    refine ⟨?_, ?_, ?_, ?_⟩
    · rw [f0, cycleProcess_cancelable]; exact h.nc
    · rw [f0]; exact fl
    · rw [f0]; exact nd
    · rw [f5]
      simp only [if_true, e2, Option.getD_some, List.map_append, submitsOf_append, submitted_append, List.flatMap_append]
      exact List.Perm.append p h.rep

theorem Dflt.finishCycleP {s : Sys} (h : Dflt s) (kept : List (Nat × Ring Cmd)) (buf buf2 : List Cmd) :
    Dflt (s.finishCycleP kept buf buf2).1 := by
  unfold Sys.finishCycleP
  split
  · have := h.finishCycle kept buf (buf2 ++ (takeParked (s.deferred ++ commitsOf buf) s.parkedCancels).1.map Cmd.drop)
    exact ⟨this.nc, this.flushed, this.nodup, this.rep⟩
  · exact h.finishCycle kept buf buf2

theorem Dflt.withCyc {s : Sys} (h : Dflt s) (c : Option CycState) : Dflt { s with cyc := c } :=
  ⟨h.nc, h.flushed, h.nodup, h.rep⟩

/-- the per-thread order logs are not read by `Dflt` -/
theorem Dflt.withDrained {s : Sys} (h : Dflt s) (l : List (Nat × Cmd)) : Dflt (s.withG { s.g with drainedBy := l }) :=
  ⟨h.nc, h.flushed, h.nodup, h.rep⟩

theorem Dflt.cycStep {s : Sys} (h : Dflt s) : Dflt s.cycStep.1 := by
  unfold Sys.cycStep
  split
  · exact h
  · split
    · exact h.finishCycleP _ _ _
    · split
      · first | exact h.withCyc _ | exact (h.withDrained _).withCyc _
      · dsimp only
        split <;> first | exact h.withCyc _ | exact (h.withDrained _).withCyc _
    · first | exact h.withCyc _ | exact (h.withDrained _).withCyc _
    · first | exact h.withCyc _ | exact (h.withDrained _).withCyc _
    · dsimp only
      split
      · split <;> first | exact h.withCyc _ | exact (h.withDrained _).withCyc _
      · split
        · split <;> first | exact h.withCyc _ | exact (h.withDrained _).withCyc _
        · first | exact h.withCyc _ | exact (h.withDrained _).withCyc _

theorem Dflt.cycBegin {s : Sys} (h : Dflt s) : Dflt s.cycBegin.1 := by
  unfold Sys.cycBegin
  split
  · exact h
  · split <;> exact h.withCyc _

/-- every operation except `set_reporter(.., cancelable(true))` keeps the default-mode invariant -/
theorem exec_dflt (s : Sys) (t : Nat) (op : Op) (hop : op ≠ .setReporter true) (h : Dflt s) : Dflt (exec s t op).1 := by
  cases hc : op.isCollectorOp with
  | false => exact h.of_step (exec_step s t op hc)
  | true =>
    cases op with
    | setReporter c =>
      cases c with
      | true => exact absurd rfl hop
      | false =>
        simp only [exec]
        exact ⟨rfl, h.flushed, h.nodup, h.rep⟩
    | cycle =>
      simp only [exec]
      split
      · exact h
      · exact (h.withDrained _).finishCycleP _ _ _
    | flush =>
      simp only [exec]
      split
      · exact h
      · exact (h.withDrained _).finishCycleP _ _ _
    | cycBegin => simp only [exec]; exact h.cycBegin
    | cycStep => simp only [exec]; exact h.cycStep
    | _ => cases hc

def Program.isDefault (p : Program) : Prop := ∀ x ∈ p, x.2 ≠ Op.setReporter true

theorem run_dflt (p : Program) (s : Sys) (hp : Program.isDefault p) (h : Dflt s) : Dflt (run s p).1 := by
  induction p generalizing s with
  | nil => exact h
  | cons x rest ih =>
    obtain ⟨t, op⟩ := x
    simp only [run]
    exact ih _ (fun y hy => hp y (by simp [hy])) (exec_dflt s t op (hp (t, op) (by simp)) h)

/-! ### nothing is invented, in either configuration -/

/-- "is a copy (one per token item) of a span set the processing loops have been handed" -/
def Consumed (s : Sys) (col : Collection) : Prop := col ∈ submitted (submitsOf s.g.consumed)

structure Sound (s : Sys) : Prop where
  buf : ColsIn (Consumed s) s.coll
  rep : RecsFrom id (Consumed s) s.g.reported

theorem Sound.init : Sound Sys.init :=
  ⟨by intro col hc; simp [Sys.init, allCols] at hc, by intro k hk; simp [Sys.init] at hk⟩

theorem Sound.of_fields {s s' : Sys} (h : Sound s) (h1 : allCols s'.coll.active = allCols s.coll.active)
    (h2 : s'.g.consumed = s.g.consumed) (h3 : s'.g.reported = s.g.reported) : Sound s' := by
  refine ⟨?_, ?_⟩
  · intro col hc
    rw [h1] at hc
    show col ∈ submitted (submitsOf s'.g.consumed)
    rw [h2]
    exact h.buf col hc
  · intro k hk
    rw [h3] at hk
    obtain ⟨col, hc, hk⟩ := h.rep k hk
    exact ⟨col, by show col ∈ submitted (submitsOf s'.g.consumed); rw [h2]; exact hc, hk⟩

theorem Sound.of_step {s s' : Sys} (h : Sound s) (st : Step s s') : Sound s' :=
  h.of_fields (by rw [st.coll]) st.consumed st.reported

theorem Sound.finishCycle {s : Sys} (h : Sound s) (kept : List (Nat × Ring Cmd)) (buf buf2 : List Cmd) :
    Sound (s.finishCycle kept buf buf2).1 := by
  have f0 : (s.finishCycle kept buf buf2).1.coll = (cycleProcess id s.coll (s.cycleBatch buf buf2)).1 := rfl
  have f5 : (s.finishCycle kept buf buf2).1.g =
      if s.coll.hasReporter then
        { s.g with consumed := s.cycleBatch buf buf2 ++ s.g.consumed,
                   reported := (cycleProcess id s.coll (s.cycleBatch buf buf2)).2.getD [] ++ s.g.reported }
      else { s.g with discarded := s.cycleBatch buf buf2 ++ (s.cycleSplit buf buf2).2 ++ buf2.filter Cmd.isCommit ++ s.g.discarded } := rfl
  generalize s.cycleBatch buf buf2 = batch at f0 f5
  cases hr : s.coll.hasReporter with
  | false =>
    rw [hr] at f5
    simp only [Bool.false_eq_true, if_false] at f5
    have e := cycleProcess_noReporter id s.coll batch hr
    exact h.of_fields (by rw [f0, e]) (by rw [f5]) (by rw [f5])
  | true =>
    rw [hr] at f5
    simp only [if_true] at f5
    -- everything that was a copy of a consumed span set still is, and so are the copies this batch submits
    have mono : ∀ col, (Consumed s col ∨ col ∈ submitted (submitsOf batch)) →
        col ∈ submitted (submitsOf (batch ++ s.g.consumed)) := by
      intro col hc
      rw [submitsOf_append, submitted_append, List.mem_append]
      rcases hc with hc | hc
      · exact .inr hc
      · exact .inl hc
    obtain ⟨a, b⟩ := cycle_sound (P := fun col => col ∈ submitted (submitsOf (batch ++ s.g.consumed))) id s.coll batch
      (fun col hc => mono col (.inl (h.buf col hc))) (fun col hc => mono col (.inr hc))
    refine ⟨?_, ?_⟩
    · intro col hc
      rw [f0] at hc
      show col ∈ submitted (submitsOf (s.finishCycle kept buf buf2).1.g.consumed)
      rw [f5]
      exact a col hc
    · intro k hk
      rw [f5] at hk
      simp only [List.map_append, List.mem_append] at hk
      show ∃ col, col ∈ submitted (submitsOf (s.finishCycle kept buf buf2).1.g.consumed) ∧ _
      rw [f5]
      rcases hk with hk | hk
      · cases hrep : (cycleProcess id s.coll batch).2 with
        | none => rw [hrep] at hk; simp at hk
        | some recs =>
          rw [hrep] at hk
          exact b recs hrep k (by simpa using hk)
      · obtain ⟨col, hc, hk⟩ := h.rep k hk
        exact ⟨col, mono col (.inl hc), hk⟩

theorem Sound.finishCycleP {s : Sys} (h : Sound s) (kept : List (Nat × Ring Cmd)) (buf buf2 : List Cmd) :
    Sound (s.finishCycleP kept buf buf2).1 := by
  unfold Sys.finishCycleP
  split
  · have := h.finishCycle kept buf (buf2 ++ (takeParked (s.deferred ++ commitsOf buf) s.parkedCancels).1.map Cmd.drop)
    exact this.of_fields rfl rfl rfl
  · exact h.finishCycle kept buf buf2

theorem Sound.withCyc {s : Sys} (h : Sound s) (c : Option CycState) : Sound { s with cyc := c } := h.of_fields rfl rfl rfl
theorem Sound.withDrained {s : Sys} (h : Sound s) (l : List (Nat × Cmd)) : Sound (s.withG { s.g with drainedBy := l }) :=
  h.of_fields rfl rfl rfl

theorem Sound.cycStep {s : Sys} (h : Sound s) : Sound s.cycStep.1 := by
  unfold Sys.cycStep
  split
  · exact h
  · split
    · exact h.finishCycleP _ _ _
    · split
      · first | exact h.withCyc _ | exact (h.withDrained _).withCyc _
      · dsimp only
        split <;> first | exact h.withCyc _ | exact (h.withDrained _).withCyc _
    · first | exact h.withCyc _ | exact (h.withDrained _).withCyc _
    · first | exact h.withCyc _ | exact (h.withDrained _).withCyc _
    · dsimp only
      split
      · split <;> first | exact h.withCyc _ | exact (h.withDrained _).withCyc _
      · split
        · split <;> first | exact h.withCyc _ | exact (h.withDrained _).withCyc _
        · first | exact h.withCyc _ | exact (h.withDrained _).withCyc _

/-- every operation keeps the invariant — in either configuration, also across `set_reporter` calls -/
theorem exec_sound (s : Sys) (t : Nat) (op : Op) (h : Sound s) : Sound (exec s t op).1 := by
  cases hc : op.isCollectorOp with
  | false => exact h.of_step (exec_step s t op hc)
  | true =>
    cases op with
    | setReporter c => simp only [exec]; exact h.of_fields rfl rfl rfl
    | cycle =>
      simp only [exec]
      split
      · exact h
      · exact (h.withDrained _).finishCycleP _ _ _
    | flush =>
      simp only [exec]
      split
      · exact h
      · exact (h.withDrained _).finishCycleP _ _ _
    | cycBegin =>
      simp only [exec]
      unfold Sys.cycBegin
      split
      · exact h
      · split <;> exact h.withCyc _
    | cycStep => simp only [exec]; exact h.cycStep
    | _ => cases hc

theorem run_sound (p : Program) (s : Sys) (h : Sound s) : Sound (run s p).1 := by
  induction p generalizing s with
  | nil => exact h
  | cons x rest ih =>
    obtain ⟨t, op⟩ := x
    simp only [run]
    exact ih _ (exec_sound s t op h)

/-! ### the whole-program statements -/

/-- **nothing is invented, whatever the program and the configuration** (default, cancelable, or
    switching between them): every record ever reported is a record of a copy of a span set that the
    processing loops were handed — which, by `E2E_conservation`, some channel accepted — and
    everything the collector still buffers is such a copy too -/
theorem E2E_nothing_invented (p : Program) :
    let s := (run Sys.init p).1
    (∀ k ∈ s.g.reported.map Record.core, ∃ col ∈ submitted (submitsOf s.g.consumed), k ∈ collectionCores id col) ∧
    (∀ col ∈ allCols s.coll.active, col ∈ submitted (submitsOf s.g.consumed)) := by
  have h := run_sound p Sys.init Sound.init
  exact ⟨fun k hk => by obtain ⟨col, hc, hk⟩ := h.rep k hk; exact ⟨col, hc, hk⟩, h.buf⟩


/-- **conservation**: for every program and every weight function that counts span sets per token item,
    accepted (+ the cancel commands the collector derived from `PARKED_CANCELS`, D21)
      = in flight + consumed + discarded (no reporter) + lost at exit (D3) -/
theorem E2E_conservation (p : Program) (w : Cmd → Nat) (hw : Additive w) :
    let s := (run Sys.init p).1
    wsum w s.g.accepted + wsum w (s.g.injected.map Cmd.drop)
      = s.flow w + (wsum w s.g.consumed + wsum w s.g.discarded + wsum w s.g.lostAtExit) :=
  (run_chan p Sys.init ChanInv.init).cons w hw

theorem count_eq_wsum (c : Cmd) (l : List Cmd) : wsum (fun x => if x = c then 1 else 0) l = l.count c := by
  induction l with
  | nil => rfl
  | cons x xs ih =>
    simp only [wsum_cons, ih, List.count_cons]
    by_cases hx : x = c <;> simp [hx] <;> omega

def Cmd.isSubmit : Cmd → Bool
  | .submit _ _ => true
  | _ => false

theorem additive_indicator (c : Cmd) (hc : c.isSubmit = false) : Additive (fun x => if x = c then 1 else 0) := by
  intro sp tok
  have h1 : (Cmd.submit sp tok = c) = False := by
    apply eq_false; intro e; rw [← e] at hc; cases hc
  have h2 : ∀ it : TokenItem, (Cmd.submit sp [it] = c) = False := by
    intro it; apply eq_false; intro e; rw [← e] at hc; cases hc
  simp only [h1, h2, if_false]
  clear h1 h2
  induction tok with
  | nil => rfl
  | cons x xs ih => simpa using ih

/-- the same for the multiplicity of a single start / finish / cancel command -/
theorem E2E_conservation_count (p : Program) (c : Cmd) (hc : c.isSubmit = false) :
    let s := (run Sys.init p).1
    s.g.accepted.count c + (s.g.injected.map Cmd.drop).count c = s.flow (fun x => if x = c then 1 else 0)
      + (s.g.consumed.count c + s.g.discarded.count c + s.g.lostAtExit.count c) := by
  have := E2E_conservation p (fun x => if x = c then 1 else 0) (additive_indicator c hc)
  simp only [count_eq_wsum] at this
  exact this

/-- the number of copies of the collection `col` (span set, trace id, parent id) that a command submits -/
def colW (col : Collection) : Cmd → Nat
  | .submit sp tok => (tok.filter fun it => decide ((⟨sp, it.traceId, it.parentId⟩ : Collection) = col)).length
  | _ => 0

theorem colW_additive (col : Collection) : Additive (colW col) := by
  intro sp tok
  simp only [colW]
  induction tok with
  | nil => rfl
  | cons x xs ih =>
    by_cases hx : (⟨sp, x.traceId, x.parentId⟩ : Collection) = col <;> simp [List.filter, hx] at ih ⊢ <;> omega

theorem wsum_colW (col : Collection) (l : List Cmd) : wsum (colW col) l = (submitted (submitsOf l)).count col := by
  induction l with
  | nil => rfl
  | cons x xs ih =>
    cases x with
    | submit sp tok =>
      have e : submitsOf (Cmd.submit sp tok :: xs) = (sp, tok) :: submitsOf xs := rfl
      rw [wsum_cons, ih, e]
      simp only [submitted, List.flatMap_cons, List.count_append, colW]
      congr 1
      clear ih e
      induction tok with
      | nil => rfl
      | cons y ys ihy =>
        simp only [List.map_cons, List.count_cons, List.filter]
        by_cases hy : (⟨sp, y.traceId, y.parentId⟩ : Collection) = col
        · simp only [hy, decide_true, List.length_cons, beq_self_eq_true, if_true]
          omega
        · have : ((⟨sp, y.traceId, y.parentId⟩ : Collection) == col) = false := by simp [hy]
          simp only [hy, decide_false, this, Bool.false_eq_true, if_false]
          omega
    | start id => simpa [submitsOf, colW] using ih
    | drop id => simpa [submitsOf, colW] using ih
    | commit id => simpa [submitsOf, colW] using ih

/-- … and for the multiplicity of every single span-set copy (span set, trace id, parent id) -/
theorem E2E_conservation_collections (p : Program) (col : Collection) :
    let s := (run Sys.init p).1
    (submitted (submitsOf s.g.accepted)).count col = s.flow (colW col)
      + ((submitted (submitsOf s.g.consumed)).count col + (submitted (submitsOf s.g.discarded)).count col
         + (submitted (submitsOf s.g.lostAtExit)).count col) := by
  have := E2E_conservation p (colW col) (colW_additive col)
  have hz : ∀ l : List Nat, submitsOf (l.map Cmd.drop) = [] := by
    intro l; induction l with
    | nil => rfl
    | cons x xs ih => simpa [submitsOf] using ih
  simp only [wsum_colW, hz, submitted, List.flatMap_nil, List.count_nil, Nat.add_zero] at this
  exact this

/-- an overflow list only ever holds finish / cancel signals -/
theorem E2E_overflow_only_signals (p : Program) (t : Nat) :
    ∀ c ∈ ((run Sys.init p).1.th t).pending, c.isSignal = true :=
  (run_chan p Sys.init ChanInv.init).sig' t

/-- **default configuration**: what has been reported is, up to order, exactly the records of the span
    sets consumed, one copy per token item -/
theorem E2E_default_reports_consumed (p : Program) (hp : Program.isDefault p) :
    let s := (run Sys.init p).1
    (s.g.reported.map Record.core).Perm ((submitted (submitsOf s.g.consumed)).flatMap (collectionCores id)) :=
  (run_dflt p Sys.init hp Dflt.init).rep

/-! ### after a flush nothing is in flight -/

theorem wsum_zero_of_signals (w : Cmd → Nat) (hw : ∀ c, c.isSignal = true → w c = 0) (l : List Cmd)
    (hl : ∀ c ∈ l, c.isSignal = true) : wsum w l = 0 := by
  induction l with
  | nil => rfl
  | cons x xs ih =>
    simp only [wsum_cons]
    rw [hw x (hl x (by simp)), ih (fun c hc => hl c (by simp [hc]))]

theorem pendW_zero (w : Cmd → Nat) (hw : ∀ c, c.isSignal = true → w c = 0) (ths : List (Nat × Th))
    (h : ∀ e ∈ ths, ∀ c ∈ e.2.pending, c.isSignal = true) : pendW w ths = 0 := by
  induction ths with
  | nil => rfl
  | cons e es ih =>
    simp only [pendW_cons]
    rw [wsum_zero_of_signals w hw _ (h e (by simp)), ih (fun x hx => h x (by simp [hx]))]

/-- the entries of the thread table are what `Sys.th` returns for their first occurrence; to
    avoid reasoning about duplicates the invariant is stated on the table itself -/
def TableSig (s : Sys) : Prop := ∀ e ∈ s.threads, ∀ c ∈ e.2.pending, c.isSignal = true

theorem drainAll_empty (rxs : List (Nat × Ring Cmd)) : ∀ e ∈ (drainAll rxs).1, e.2.q = [] := by
  induction rxs with
  | nil => intro e he; cases he
  | cons x rest ih =>
    obtain ⟨t, ⟨q, cap, alive⟩⟩ := x
    cases alive
    · simpa [drainAll, Ring.drain] using ih
    · intro e he
      simp only [drainAll, Ring.drain, if_true, List.mem_cons] at he
      rcases he with rfl | he
      · rfl
      · exact ih e he

theorem ringsW_zero (w : Cmd → Nat) (rs : List (Nat × Ring Cmd)) (h : ∀ e ∈ rs, e.2.q = []) : ringsW w rs = 0 := by
  induction rs with
  | nil => rfl
  | cons e es ih =>
    simp only [ringsW_cons]
    rw [h e (by simp), ih (fun x hx => h x (by simp [hx]))]
    rfl

/-- a whole cycle leaves every ring empty -/
theorem Sys.cycle_rings_empty (s : Sys) : s.cycle.1.cyc = none ∧ ∀ e ∈ s.cycle.1.rxs, e.2.q = [] := by
  obtain ⟨f1, f2, _⟩ := Sys.finishCycleP_fields
    (s.withG { s.g with drainedBy := (drainAllTagged s.rxs).reverse ++ s.g.drainedBy }) (drainAll s.rxs).1 (drainAll s.rxs).2 []
  refine ⟨f1, ?_⟩
  show ∀ e ∈ ((s.withG _).finishCycleP (drainAll s.rxs).1 (drainAll s.rxs).2 []).1.rxs, _
  rw [f2]
  exact drainAll_empty s.rxs

/-! ### a reporter installed by the first operation: nothing is ever discarded -/

structure HasRep (s : Sys) : Prop where
  has : s.coll.hasReporter = true
  none : s.g.discarded = []

theorem HasRep.of_step {s s' : Sys} (h : HasRep s) (st : Step s s') : HasRep s' :=
  ⟨by rw [st.coll]; exact h.has, by rw [st.discarded]; exact h.none⟩

theorem HasRep.finishCycle {s : Sys} (h : HasRep s) (kept : List (Nat × Ring Cmd)) (buf buf2 : List Cmd) :
    HasRep (s.finishCycle kept buf buf2).1 := by
  have f0 : (s.finishCycle kept buf buf2).1.coll = (cycleProcess id s.coll (s.cycleBatch buf buf2)).1 := rfl
  have f5 : (s.finishCycle kept buf buf2).1.g =
      if s.coll.hasReporter then
        { s.g with consumed := s.cycleBatch buf buf2 ++ s.g.consumed,
                   reported := (cycleProcess id s.coll (s.cycleBatch buf buf2)).2.getD [] ++ s.g.reported }
      else { s.g with discarded := s.cycleBatch buf buf2 ++ (s.cycleSplit buf buf2).2 ++ buf2.filter Cmd.isCommit ++ s.g.discarded } := rfl
  refine ⟨?_, ?_⟩
  · rw [f0, cycleProcess_hasReporter]; exact h.has
  · rw [f5, h.has]; exact h.none

theorem HasRep.finishCycleP {s : Sys} (h : HasRep s) (kept : List (Nat × Ring Cmd)) (buf buf2 : List Cmd) :
    HasRep (s.finishCycleP kept buf buf2).1 := by
  unfold Sys.finishCycleP
  split
  · have := h.finishCycle kept buf (buf2 ++ (takeParked (s.deferred ++ commitsOf buf) s.parkedCancels).1.map Cmd.drop)
    exact ⟨this.has, this.none⟩
  · exact h.finishCycle kept buf buf2

theorem HasRep.withCyc {s : Sys} (h : HasRep s) (c : Option CycState) : HasRep { s with cyc := c } := ⟨h.has, h.none⟩
theorem HasRep.withDrained {s : Sys} (h : HasRep s) (l : List (Nat × Cmd)) : HasRep (s.withG { s.g with drainedBy := l }) :=
  ⟨h.has, h.none⟩

theorem HasRep.cycStep {s : Sys} (h : HasRep s) : HasRep s.cycStep.1 := by
  unfold Sys.cycStep
  split
  · exact h
  · split
    · exact h.finishCycleP _ _ _
    · split
      · first | exact h.withCyc _ | exact (h.withDrained _).withCyc _
      · dsimp only
        split <;> first | exact h.withCyc _ | exact (h.withDrained _).withCyc _
    · first | exact h.withCyc _ | exact (h.withDrained _).withCyc _
    · first | exact h.withCyc _ | exact (h.withDrained _).withCyc _
    · dsimp only
      split
      · split <;> first | exact h.withCyc _ | exact (h.withDrained _).withCyc _
      · split
        · split <;> first | exact h.withCyc _ | exact (h.withDrained _).withCyc _
        · first | exact h.withCyc _ | exact (h.withDrained _).withCyc _

theorem exec_hasRep (s : Sys) (t : Nat) (op : Op) (h : HasRep s) : HasRep (exec s t op).1 := by
  cases hc : op.isCollectorOp with
  | false => exact h.of_step (exec_step s t op hc)
  | true =>
    cases op with
    | setReporter c => simp only [exec]; exact ⟨rfl, h.none⟩
    | cycle =>
      simp only [exec]
      split
      · exact h
      · exact (h.withDrained _).finishCycleP _ _ _
    | flush =>
      simp only [exec]
      split
      · exact h
      · exact (h.withDrained _).finishCycleP _ _ _
    | cycBegin =>
      simp only [exec]
      unfold Sys.cycBegin
      split
      · exact h
      · split <;> exact h.withCyc _
    | cycStep => simp only [exec]; exact h.cycStep
    | _ => cases hc

theorem run_hasRep (p : Program) (s : Sys) (h : HasRep s) : HasRep (run s p).1 := by
  induction p generalizing s with
  | nil => exact h
  | cons x rest ih =>
    obtain ⟨t, op⟩ := x
    simp only [run]
    exact ih _ (exec_hasRep s t op h)

/-! ### `flush()`: afterwards no span set is in flight -/

theorem run_snoc (s : Sys) (p : Program) (t : Nat) (op : Op) :
    (run s (p ++ [(t, op)])).1 = (exec (run s p).1 t op).1 := by
  induction p generalizing s with
  | nil => simp [run]
  | cons x rest ih =>
    obtain ⟨t', op'⟩ := x
    simp only [List.cons_append, run]
    exact ih _

/-- with no cycle in progress, every ring empty and nothing carried over, only finish / cancel signals
    are in flight -/
theorem ChanInv.quiescent_flow {s : Sys} (h : ChanInv s) (hc : s.cyc = none) (hr : ∀ e ∈ s.rxs, e.2.q = [])
    (hcar : ∀ c ∈ s.carried, c.isSignal = true)
    (w : Cmd → Nat) (hw : ∀ c, c.isSignal = true → w c = 0) : s.flow w = 0 := by
  unfold Sys.flow
  rw [hc, wsum_zero_of_signals w hw _ hcar]
  have h1 : cycW w none s.rxs = 0 := ringsW_zero w s.rxs hr
  have h2 := pendW_zero w hw s.threads h.sig
  have h3 : wsum w (s.deferred.map Cmd.commit) = 0 :=
    wsum_zero_of_signals w hw _ (by intro c hc; simp only [List.mem_map] at hc; obtain ⟨i, _, rfl⟩ := hc; rfl)
  omega

theorem splitSecond_drops_signals (cb : Bool) (c1 c2 : Coll) (cm : List Nat) (l : List Nat) :
    ∀ c ∈ (splitSecond cb c1 c2 cm (l.map Cmd.drop)).2, c.isSignal = true := by
  induction l with
  | nil => intro c hc; cases hc
  | cons x xs ih =>
    simp only [List.map_cons, splitSecond]
    split
    · exact ih
    · intro c hc
      simp only [List.mem_cons] at hc
      rcases hc with rfl | hc
      · rfl
      · exact ih c hc

/-- processing after an empty second pass carries nothing over but cancel commands it derived itself -/
theorem Sys.finishCycleP_carried (s : Sys) (kept : List (Nat × Ring Cmd)) (buf : List Cmd) :
    ∀ c ∈ (s.finishCycleP kept buf []).1.carried, c.isSignal = true := by
  unfold Sys.finishCycleP
  split
  · rename_i hr
    show ∀ c ∈ (if s.coll.hasReporter then (s.cycleSplit buf ([] ++ _)).2 else []), _
    rw [if_pos hr, List.nil_append]
    unfold Sys.cycleSplit
    exact splitSecond_drops_signals _ _ _ _ _
  · rename_i hr
    show ∀ c ∈ (if s.coll.hasReporter then (s.cycleSplit buf []).2 else []), _
    rw [if_neg hr]
    intro c hc; cases hc

theorem Sys.cycle_carried (s : Sys) : ∀ c ∈ s.cycle.1.carried, c.isSignal = true :=
  Sys.finishCycleP_carried _ _ _

/-- **after `flush()` returns** (with no stepped cycle in progress when it is called), for every weight that
    counts span sets per token item and ignores finish / cancel signals: everything a channel ever accepted
    has been handed to the processing loops (or drained while no reporter was installed) — nothing is in
    flight, nothing was lost -/
theorem E2E_flush_delivers (p : Program) (t : Nat) (hq : (run Sys.init p).1.cyc = none)
    (w : Cmd → Nat) (hadd : Additive w) (hw : ∀ c, c.isSignal = true → w c = 0) :
    let s := (run Sys.init (p ++ [(t, .flush)])).1
    wsum w s.g.accepted = wsum w s.g.consumed + wsum w s.g.discarded := by
  intro s
  have hs : s = ((run Sys.init p).1.cycle).1 := by
    show (run Sys.init (p ++ [(t, .flush)])).1 = _
    rw [run_snoc]
    simp only [exec, hq, Option.isSome_none, Bool.false_eq_true, if_false]
  have hchan : ChanInv s := by
    show ChanInv (run Sys.init (p ++ [(t, .flush)])).1
    exact run_chan _ _ ChanInv.init
  have hflow := hchan.quiescent_flow (by rw [hs]; exact (Sys.cycle_rings_empty _).1) (by rw [hs]; exact (Sys.cycle_rings_empty _).2)
    (by rw [hs]; exact Sys.cycle_carried _) w hw
  have hlost := wsum_zero_of_signals w hw _ hchan.lost
  have hinj : wsum w (s.g.injected.map Cmd.drop) = 0 :=
    wsum_zero_of_signals w hw _ (by intro c hc; simp only [List.mem_map] at hc; obtain ⟨i, _, rfl⟩ := hc; rfl)
  have := hchan.cons w hadd
  simp only [Ghost.out] at this
  omega

/-- after a flush every trace start a channel accepted has been consumed -/
theorem E2E_flush_delivers_starts (p : Program) (t : Nat) (hq : (run Sys.init p).1.cyc = none) (id : Nat) :
    let s := (run Sys.init (p ++ [(t, .flush)])).1
    s.g.accepted.count (.start id) = s.g.consumed.count (.start id) + s.g.discarded.count (.start id) := by
  have := E2E_flush_delivers p t hq (fun x => if x = .start id then 1 else 0) (additive_indicator _ rfl)
    (by intro c hc; cases c <;> simp_all [Cmd.isSignal])
  simp only [count_eq_wsum] at this
  exact this

/-- after a flush every span-set copy a channel accepted has been consumed: the collections submitted by the
    accepted commands are, up to order, those submitted by the consumed (and discarded) ones -/
theorem E2E_flush_delivers_collections (p : Program) (t : Nat) (hq : (run Sys.init p).1.cyc = none) :
    let s := (run Sys.init (p ++ [(t, .flush)])).1
    (submitted (submitsOf s.g.accepted)).Perm
      (submitted (submitsOf s.g.consumed) ++ submitted (submitsOf s.g.discarded)) := by
  intro s
  rw [List.perm_iff_count]
  intro col
  have := E2E_flush_delivers p t hq (colW col) (colW_additive col)
    (by intro c hc; cases c <;> simp_all [Cmd.isSignal, colW])
  simp only [wsum_colW] at this
  rw [List.count_append]
  exact this

/-- **C01, end to end, default configuration.**  For every program whose first operation installs a reporter
    with the default configuration and which never switches to `cancelable(true)`: when a `flush()` (called
    with no stepped cycle in progress) returns, the records reported so far are — up to order — exactly the
    records of every span set any channel ever accepted, one copy per token item: every accepted span set has
    been delivered **exactly once**; nothing is missing, duplicated or invented.  (A span set is *not*
    accepted only when the thread's ring is full: `Ring.send`, C09.) -/
theorem E2E_default_flush_exactly_once (t0 : Nat) (p : Program) (t : Nat) (hp : Program.isDefault p)
    (hq : (run Sys.init ((t0, .setReporter false) :: p)).1.cyc = none) :
    let s := (run Sys.init ((t0, .setReporter false) :: p ++ [(t, .flush)])).1
    (s.g.reported.map Record.core).Perm ((submitted (submitsOf s.g.accepted)).flatMap (collectionCores id)) := by
  intro s
  have hp' : Program.isDefault ((t0, .setReporter false) :: p ++ [(t, .flush)]) := by
    intro x hx
    simp only [List.cons_append, List.mem_cons, List.mem_append, List.mem_nil_iff, or_false] at hx
    rcases hx with rfl | hx | rfl
    · intro e; cases e
    · exact hp x hx
    · intro e; cases e
  have hrep := E2E_default_reports_consumed _ hp'
  have hdel := E2E_flush_delivers_collections ((t0, .setReporter false) :: p) t hq
  have hnone : s.g.discarded = [] := by
    show (run Sys.init ((t0, .setReporter false) :: p ++ [(t, .flush)])).1.g.discarded = []
    simp only [List.cons_append, run]
    exact (run_hasRep _ _ ⟨rfl, rfl⟩).none
  have hperm : (submitted (submitsOf s.g.accepted)).Perm (submitted (submitsOf s.g.consumed)) := by
    have h1 : (submitted (submitsOf s.g.accepted)).Perm
        (submitted (submitsOf s.g.consumed) ++ submitted (submitsOf s.g.discarded)) := hdel
    rw [hnone] at h1
    simpa [submitsOf, submitted] using h1
  refine List.Perm.trans hrep ?_
  exact (hperm.flatMap_right _).symm

/-! ### non-vacuity: a concrete program meets the hypotheses, and something is delivered -/

def demoProgram : Program :=
  [(0, .spawn), (1, .spawn), (0, .root "r" "root" 7 0 true), (0, .child1 "c" "child" "r"), (1, .drop "c"), (0, .drop "r")]

example : Program.isDefault demoProgram := by
  intro x hx
  simp only [demoProgram, List.mem_cons, List.mem_nil_iff, or_false] at hx
  rcases hx with rfl | rfl | rfl | rfl | rfl | rfl <;> (intro e; cases e)
example : (run Sys.init ((0, .setReporter false) :: demoProgram)).1.cyc = none := by rfl
example : (run Sys.init ((0, .setReporter false) :: demoProgram ++ [(0, .flush)])).1.g.accepted.length = 4 := by decide
example : (run Sys.init ((0, .setReporter false) :: demoProgram ++ [(0, .flush)])).1.g.reported.length = 2 := by decide
/-- `E2E_nothing_invented` speaks about non-empty reports in the cancelable configuration too -/
example : (run Sys.init ((0, .setReporter true) :: demoProgram ++ [(0, .flush)])).1.g.reported.length = 2 := by decide
example : (run Sys.init ((0, .setReporter true) :: demoProgram ++ [(0, .flush)])).1.coll.cancelable = true := by decide

end Fastrace
