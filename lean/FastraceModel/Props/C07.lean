import FastraceModel.Lemmas.FrameBlocks
import FastraceModel.Props.C10
import FastraceModel.Props.C11

/-!
# C07 — tracing calls never panic, block or deadlock the host

The model's functions are total; what has to be proved is that the places where the **Rust**
code would panic are never reached with the offending values.  Those places are: slice
indexing by a `LocalSpanHandle`, the `debug_assert`s of `span_queue.rs` /
`local_span_stack.rs` / `span.rs` (tests and the harness run debug builds), `token[0]`
(removed by the D6 fix), the `RefCell` borrow of the span stack (user closures now run outside
it, D7 fix), the guard of a scope that could not be registered (D8 fix).

* `C07_local_drop_asserts` / `C07_scope_drop_asserts`: in every well-nested program, when a
  `LocalSpan` / `LocalParentGuard` / `LocalCollector` is dropped, its handle is in range, the
  epochs agree, `next_parent_id` is the span being closed, the scope's token is present —
  i.e. every assertion on that path holds.  (Consequences of the frame theorem C10.)
* `C07_current_local_parent_total`, `C07_scope_at_limit`, `C07_queue_at_limit`,
  `C07_closure_runs_outside_borrow`: the four repaired / limit paths.
* `C07_send_bounded`: `send` / `force_send` perform at most `pending + 1` ring pushes and
  never wait.

Partial (stated, not provable in a functional model): absence of blocking in the allocator /
OS, lock ordering of `parking_lot` (`GLOBAL_COLLECTOR` is only taken by collector cycles and
`set_reporter`; `SPSC_RXS` only by a thread's first command and by the drain — never nested
the other way round; source-level observation).  The implementation side is checked with
`catch_unwind` and a per-call deadline on every generated call sequence, including calls made
from thread-local destructors.
-/
namespace Fastrace

/-- the assertions on `LocalSpan::drop`: epoch equality (`exit_span`), index in range and
    `next_parent_id == Some(span.id)` (`finish_span`) -/
theorem C07_local_drop_asserts (l l1 l2 : SpanLine) (c c1 : Ctr) (n : String) (h : LocalHandle)
    (hs : l.startSpan c n = some (l1, h, c1)) (hp : 1 ≤ c.pref) (hz : l.queue.nextParent ≠ some 0)
    (he : LineExt l1 l2) :
    l2.epoch = h.epoch ∧ ∃ sp : RawSpan, l2.queue.spans[h.index]? = some sp ∧ l2.queue.nextParent = some sp.id := by
  obtain ⟨e1, _, _, _, e5, e6, _, e8⟩ := SpanLine.enter_exit_ext l c n l1 h c1 hs hp hz
  obtain ⟨f1, _, _, f4, _, f6⟩ := he
  have hidx : l1.queue.spans[h.index]? = some (newLocalRaw c l.queue.nextParent n) := by
    rw [e8, e5]; simp
  obtain ⟨sp', hsp', hid, _⟩ := f6 _ _ hidx
  refine ⟨by rw [f1, e1, e5], sp', hsp', ?_⟩
  rw [f4, e6, hid]; rfl

/-- the assertions on dropping a scope guard: a current span line exists, its epoch is the
    guard's (`unregister_and_collect`), so the spans are returned, and for a
    `LocalParentGuard` the token is present (`debug_assert!(token.is_some())`) -/
theorem C07_scope_drop_asserts (newl : SpanLine) (lines lines2 : List SpanLine)
    (he : LinesExt (newl :: lines) lines2) :
    ∃ l2 ls2, lines2 = l2 :: ls2 ∧ l2.epoch = newl.epoch ∧ l2.token = newl.token ∧
      (l2.collect newl.epoch).isSome := by
  obtain ⟨l2, ls2, h1, h2, _⟩ := linesExt_cons_left he
  exact ⟨l2, ls2, h1, h2.1, h2.2.1, by simp [SpanLine.collect, h2.1]⟩

/-- `current_local_parent()` is total: no index into an empty token (D6) -/
theorem C07_current_local_parent_total (s : Sys) (t : Nat) :
    ∃ c, exec s t .ctxLocal = (s, .ctx c) := by
  rw [C11_local]; exact ⟨_, rfl⟩

/-- at the scope limit `set_local_parent` yields a no-op guard whose drop does nothing (D8) -/
theorem C07_scope_at_limit (s : Sys) (t : Nat) (v : String) (sp : SpanInner)
    (hv : assocGet s.spans v = some (some sp)) (hfull : (s.th t).stack.lines.length ≥ (s.th t).stack.cap) :
    (exec s t (.scope v)).1.th t = { s.th t with guards := .scope none :: (s.th t).guards } ∧
    ((exec (exec s t (.scope v)).1 t .close).1.th t) = s.th t := by
  have h1 : (exec s t (.scope v)).1.th t = { s.th t with guards := .scope none :: (s.th t).guards } := by
    simp [exec, hv, Stack.registerLine, hfull, Sys.th_setTh_same]
  refine ⟨h1, ?_⟩
  have := close_noop (exec s t (.scope v)).1 t (.scope none) (s.th t).guards (by rw [h1]) (Or.inl rfl)
  rw [this.1, h1]

/-- at the per-scope span limit a local span is a no-op: nothing recorded, no id drawn -/
theorem C07_queue_at_limit (q : SpanQueue) (c : Ctr) (n : String) (p : Option Props) (kvs : Props)
    (hfull : q.spans.length ≥ q.cap) :
    q.startSpan c n = none ∧ q.addEvent c n p = (q, c) ∧ q.addProps c kvs = (q, c) := by
  simp [SpanQueue.startSpan, SpanQueue.addEvent, SpanQueue.addProps, hfull]

/-- the user closure of `LocalSpan::with_properties` runs on the *unborrowed* state, before the
    properties are stored (D7): the operation is literally "run the closure, then store" -/
theorem C07_closure_runs_outside_borrow (s : Sys) (t : Nat) (cl : Closure) (h : LocalHandle) (gs : List Guard)
    (hg : (s.th t).guards = .localSpan (some h) :: gs) :
    exec s t (.lWithProps cl) =
      (let s1 := s.runClosure t cl
       s1.setTh t { s1.th t with stack := (s1.th t).stack.withProps h cl.kvs }, .closure true) := by
  simp [exec, hg]

/-- `send` / `force_send` are bounded: the replay loop pushes each parked value at most once
    (it is structural on the parked list) and the result is returned without waiting -/
theorem C07_send_bounded {α : Type} (r : Ring α) (pending : List α) :
    (r.replay pending).2.length ≤ pending.length ∧
    (r.replay pending).1.q.length ≤ r.q.length + pending.length := by
  induction pending generalizing r with
  | nil => simp [Ring.replay]
  | cons x xs ih =>
    simp only [Ring.replay]
    cases hp : r.push x with
    | none => simp
    | some r' =>
      simp only
      obtain ⟨h1, h2⟩ := ih r'
      have : r'.q.length = r.q.length + 1 := by
        unfold Ring.push at hp
        split at hp
        · cases hp; simp
        · cases hp
      exact ⟨by simp; omega, by simp; omega⟩

end Fastrace
