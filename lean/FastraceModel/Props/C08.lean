import FastraceModel.Lemmas.Cycle
import FastraceModel.Model.Api
import FastraceModel.Props.ParamsOk

/-!
# C08 — the collector keeps state only for unfinished traces and live threads

Per-trace half, proved for **every** collector state and **every** drained batch (hence for
every history and every placement of cycles): after a cycle the set of retained collect ids
is exactly `(old ∪ started) \ committed \ (dropped, when cancelable)`.  Consequences:
a trace whose commit (or, cancelable, drop) has been consumed is not retained; ids are only
ever introduced by their `start`; the retained set never exceeds the started-and-unterminated
traces.  Per-thread half: a receiver whose producer is gone leaves the registry in the cycle
that finds its ring empty (`drainAll`), so registered receivers ≤ live threads + exited
threads with unread commands.

A `start` processed in a *later* batch than its trace's commit (the two travel through different
threads' queues) would re-create an entry that nothing removes — the theorem below makes that
explicit: the entry exists iff the id is started in a batch that does not also commit it.  The
drain therefore has to hand over the start no later than the commit: that was defect D4, repaired
in /repo by the second drain pass (`C03_second_pass_collects_all`; a commit first seen in the
second pass waits for the next cycle, by which time the start, pushed before it, has been drained).
-/
namespace Fastrace

/-- **retention is exactly started-minus-terminated** -/
theorem C08_retained_ids (conv : Nat → Nat) (c : Coll) (batch : List Cmd) (h : c.hasReporter = true) (x : Nat) :
    x ∈ (cycleProcess conv c batch).1.keys ↔
      (x ∈ c.keys ∨ x ∈ startsOf batch) ∧ (c.cancelable = true → x ∉ dropsOf batch) ∧ x ∉ commitsOf batch :=
  cycleProcess_keys conv c batch h x

/-- a trace whose root's commit is consumed in a cycle is gone after that cycle, even when its
    start is in the same batch -/
theorem C08_commit_releases (conv : Nat → Nat) (c : Coll) (batch : List Cmd) (h : c.hasReporter = true) (id : Nat)
    (hc : id ∈ commitsOf batch) : id ∉ (cycleProcess conv c batch).1.keys := by
  rw [cycleProcess_keys conv c batch h]; exact fun ⟨_, _, h3⟩ => h3 hc

/-- cancelable: a consumed `cancel()` releases the trace -/
theorem C08_drop_releases (conv : Nat → Nat) (c : Coll) (batch : List Cmd) (h : c.hasReporter = true) (id : Nat)
    (hcan : c.cancelable = true) (hd : id ∈ dropsOf batch) : id ∉ (cycleProcess conv c batch).1.keys := by
  rw [cycleProcess_keys conv c batch h]; exact fun ⟨_, h2, _⟩ => h2 hcan hd

/-- nothing is retained that was not started: no entry appears out of thin air -/
theorem C08_only_started (conv : Nat → Nat) (c : Coll) (batch : List Cmd) (h : c.hasReporter = true) (x : Nat)
    (hx : x ∈ (cycleProcess conv c batch).1.keys) : x ∈ c.keys ∨ x ∈ startsOf batch :=
  ((cycleProcess_keys conv c batch h x).mp hx).1

/-- over any sequence of batches: an id is retained at the end only if some batch started it
    and no later-or-same batch committed it -/
theorem C08_history (conv : Nat → Nat) (batches : List (List Cmd)) (c : Coll) (h : c.hasReporter = true) (x : Nat)
    (hx : x ∈ (batches.foldl (fun c b => (cycleProcess conv c b).1) c).keys) :
    x ∈ c.keys ∨ ∃ b ∈ batches, x ∈ startsOf b := by
  induction batches generalizing c with
  | nil => exact Or.inl hx
  | cons b bs ih =>
    have hr : (cycleProcess conv c b).1.hasReporter = true := by
      rw [cycleProcess_hasReporter]; exact h
    rcases ih _ hr hx with h1 | ⟨b', hb', hs⟩
    · rcases C08_only_started conv c b h x h1 with h2 | h2
      · exact Or.inl h2
      · exact Or.inr ⟨b, by simp, h2⟩
    · exact Or.inr ⟨b', by simp [hb'], hs⟩

/-! ### receivers of exited threads -/

/-- a receiver whose producer is gone is not kept by a drain (its ring is emptied into the
    batch first); a live thread's receiver is kept -/
theorem C08_drain_removes_dead (rxs : List (Nat × Ring Cmd)) :
    ∀ e ∈ (drainAll rxs).1, e.2.producerAlive = true ∧ e.2.q = [] := by
  induction rxs with
  | nil => simp [drainAll]
  | cons hd tl ih =>
    obtain ⟨t, r⟩ := hd
    simp only [drainAll, Ring.drain]
    intro e he
    by_cases hk : r.producerAlive = true
    · simp only [hk, if_true, List.mem_cons] at he
      rcases he with rfl | he
      · exact ⟨rfl, rfl⟩
      · exact ih e he
    · simp only [hk, if_false] at he
      exact ih e he

/-- and the drain loses nothing: the batch is every ring's content, in registry order -/
theorem C08_drain_batch (rxs : List (Nat × Ring Cmd)) : (drainAll rxs).2 = rxs.flatMap (·.2.q) := by
  induction rxs with
  | nil => simp [drainAll]
  | cons hd tl ih =>
    obtain ⟨t, r⟩ := hd
    simp [drainAll, Ring.drain, ih]

/-! non-vacuity: why the drain must not hand over a commit before its start (D4, repaired) — at the level of batches a start processed after its commit stays -/
example : (cycleProcess id (cycleProcess id ⟨false, true, []⟩ [.commit 0]).1 [.start 0]).1.keys = [0] := by
  decide

end Fastrace
