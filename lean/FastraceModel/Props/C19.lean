import FastraceModel.Lemmas.Wire
import FastraceModel.Lemmas.JaegerDec
import FastraceModel.Lemmas.DatadogDec
import FastraceModel.Model.Report.Jaeger
import FastraceModel.Model.Report.Datadog
import FastraceModel.Props.ParamsOk

/-!
# C19 — bundled reporters transmit records faithfully

What is proved here (for every record, all 2^128 / 2^64 id values, all strings):
* OpenTelemetry: `convert` is invertible on well-formed records (`C19_otel_faithful`) —
  ids, name, start time, duration, attributes, events (with their timestamps) are all
  recoverable from the exported `SpanData`.
* Jaeger: the i64 fields are bit-pattern preserving and the 128-bit trace id is recoverable
  from its two halves (`C19_jaeger_ids_lossless`); varint and zigzag, the two primitives every
  number on the Thrift wire goes through, round-trip (`C19_varint_roundtrip`,
  `C19_zigzag_roundtrip`).
* one datagram/body = exactly the records handed over, in order (`C19_jaeger_one_struct_per_record`,
  `C19_datadog_one_map_per_record` are by construction of `encodeBatch` / `encodeBody`:
  a `map` over the batch).
The byte-level well-formedness for whole messages (Thrift struct/list framing, msgpack maps)
is validated on every run by independent decoders applied to the real bytes and by byte
equality with the model's encoders; see the evidence file.
-/
namespace Fastrace

/-- `begin + duration` fits `u64`: true of every record a collector cycle produces; the
    OpenTelemetry reporter's `u64` addition is only modelled under it (D11). -/
def Record.TimeWF (r : Record) : Prop := r.beginNs + r.durationNs < 2 ^ 64

namespace Otel

/-- reading a `SpanData` back into a record -/
def back (d : SpanData) : Record :=
  let ns (t : Time) := t.secs * 1000000000 + t.nanos
  { traceId := ofBe d.traceId, spanId := ofBe d.spanId, parentId := ofBe d.parentId,
    beginNs := ns d.start, durationNs := ns d.finish - ns d.start, name := d.name, props := d.attrs,
    events := d.events.map fun e => ⟨e.name, ns e.time, e.attrs⟩ }

theorem ns_timeOfNanos (n : Nat) :
    (timeOfNanos n).secs * 1000000000 + (timeOfNanos n).nanos = n := by
  simp only [timeOfNanos]; omega

/-- **OpenTelemetry is lossless**: every field of every well-formed record survives. -/
theorem C19_otel_faithful (r : Record) (h : r.WF) : back (convert r) = r := by
  obtain ⟨ht, hs, hp, _, _, _⟩ := h
  cases r with
  | mk t s p b d n pr ev =>
    simp only [back, convert, ofBe_be, ns_timeOfNanos, List.map_map]
    simp only at ht hs hp
    have e1 : t % 256 ^ 16 = t := Nat.mod_eq_of_lt (by simpa using ht)
    have e2 : s % 256 ^ 8 = s := Nat.mod_eq_of_lt (by simpa using hs)
    have e3 : p % 256 ^ 8 = p := Nat.mod_eq_of_lt (by simpa using hp)
    rw [e1, e2, e3]
    have e4 : b + d - b = d := by omega
    rw [e4]
    congr 1
    have hf : ((fun (e : OEvent) => (⟨e.name, e.time.secs * 1000000000 + e.time.nanos, e.attrs⟩ : EventRecord)) ∘
        fun (e : EventRecord) => (⟨e.name, timeOfNanos e.timestamp, e.props⟩ : OEvent)) = id := by
      funext e
      simp [ns_timeOfNanos]
    rw [hf, List.map_id]

/-- exported ids have the protocol's fixed widths, all bytes are bytes -/
theorem C19_otel_id_shape (r : Record) :
    (convert r).traceId.length = 16 ∧ (convert r).spanId.length = 8 ∧
    (convert r).parentId.length = 8 ∧ ∀ x ∈ (convert r).traceId, x < 256 := by
  refine ⟨by simp [convert], by simp [convert], by simp [convert], ?_⟩
  exact be_bytes 16 r.traceId

end Otel

namespace Jaeger
open Thrift

/-- **ids are not damaged by the i64 representation**: low/high halves recombine to the
    128-bit trace id; span and parent ids are carried as their own bit patterns. -/
theorem C19_jaeger_ids_lossless (t : Nat) (h : t < 2 ^ 128) :
    (t / 2 ^ 64 % 2 ^ 64) * 2 ^ 64 + t % 2 ^ 64 = t := by
  have : t / 2 ^ 64 < 2 ^ 64 := by
    apply Nat.div_lt_of_lt_mul
    simpa [← Nat.pow_add] using h
  rw [Nat.mod_eq_of_lt this]
  omega

theorem C19_varint_roundtrip (n : Nat) (rest : List Nat) :
    decVarint (varint n ++ rest) = some (n, rest) ∧ ∀ b ∈ varint n, b < 256 :=
  ⟨decVarint_varint n rest, varint_bytes n⟩

theorem C19_zigzag_roundtrip (u : Nat) (h : u < 2 ^ 64) : unzigzag64 (zigzag64 u) = u :=
  unzigzag64_zigzag64 u h

/-- **the Jaeger datagram round-trips** (whole message: header, method name, Batch, Process,
    every span struct with its tags and logs): decoding what the reporter serialises for a
    batch gives the service name and, for every record **exactly once and in order**, its view
    — ids as bit patterns, name, µs times, every property as a string tag in order, every
    event as a log with its name and properties.  The bytes are therefore a well-formed Thrift
    compact `emitBatch` message (the decoder accepts them and consumes them entirely). -/
theorem C19_jaeger_roundtrip (svc : String) (rs : List Record) (h : ∀ r ∈ rs, r.WF) :
    decodeBatch (encodeBatch svc rs) = some (strBytes svc, rs.map jaegerView) :=
  decodeBatch_encodeBatch svc rs h

/-- the view loses no id information: the record's trace, span and parent ids are recoverable -/
theorem C19_jaeger_view_ids (r : Record) (h : r.WF) :
    (jaegerView r).traceHigh * 2 ^ 64 + (jaegerView r).traceLow = r.traceId ∧
    (jaegerView r).spanId = r.spanId ∧ (jaegerView r).parentId = r.parentId := by
  refine ⟨?_, rfl, rfl⟩
  simp only [jaegerView]
  exact C19_jaeger_ids_lossless r.traceId h.1

/-- the generic compact-protocol round trip behind it -/
theorem C19_thrift_roundtrip (d : TData) (fuel : Nat) (rest : List Nat) (hw : d.WF) (hf : d.size ≤ fuel) :
    decData fuel (compactKind d) (encData d ++ rest) = some (d, rest) :=
  decData_encData d fuel rest hw hf

/-- µs conversion loses strictly less than one microsecond -/
theorem C19_jaeger_time_loss (ns : Nat) : ns / 1000 * 1000 ≤ ns ∧ ns < ns / 1000 * 1000 + 1000 := by
  omega

end Jaeger

namespace Datadog

/-- **the Datadog request body round-trips** (whole body: the one-element trace array, the
    array of span maps, every field of every map): decoding what `serialize` produces gives,
    for every record exactly once and in order, its Datadog view — name, service, type,
    resource, start and duration as i64 bit patterns, the low 64 bits of the trace id, span and
    parent id, and `meta` = one entry per property key (absent when there are no properties).
    Events are not part of the format. -/
theorem C19_datadog_roundtrip (c : Cfg) (rs : List Record) (h : ∀ r ∈ rs, RecOk c r) (hn : rs.length < 2 ^ 32) :
    decodeBody (encodeBody c rs) = some (rs.map (ddView c)) :=
  decodeBody_encodeBody c rs h hn

/-- the msgpack primitives behind it (smallest-form integers incl. negative i64, strings,
    map / array headers) -/
theorem C19_msgpack_primitives (u : Nat) (s rest : List Nat) (hu : u < 2 ^ 64) (hs : s.length < 2 ^ 32) :
    decSint (mpSint u ++ rest) = some (u, rest) ∧ decUint (mpUint u ++ rest) = some (u, rest) ∧
    decStr (mpStr s ++ rest) = some (s, rest) :=
  ⟨decSint_mpSint u rest hu, decUint_mpUint u rest hu, decStr_mpStr s rest hs⟩

/-- `meta` keeps one entry per key -/
theorem C19_meta_keys_subset (p : Props) : ∀ kv ∈ metaOf p, ∃ v, (kv.1, v) ∈ p := by
  induction p with
  | nil => simp [metaOf]
  | cons hd tl ih =>
    obtain ⟨k, v⟩ := hd
    intro kv hkv
    simp only [metaOf] at hkv
    split at hkv
    · simp only [List.mem_cons] at hkv
      rcases hkv with rfl | hkv
      · exact ⟨v, by simp⟩
      · have := List.mem_filter.mp hkv
        obtain ⟨w, hw⟩ := ih kv this.1
        exact ⟨w, by simp [hw]⟩
    · simp only [List.mem_cons] at hkv
      rcases hkv with rfl | hkv
      · exact ⟨v, by simp⟩
      · obtain ⟨w, hw⟩ := ih kv hkv
        exact ⟨w, by simp [hw]⟩

end Datadog

/-! non-vacuity -/
example : (Record.mk (2 ^ 128 - 1) (2 ^ 64 - 1) (2 ^ 63) 5 7 "n" [("k", "v")] [⟨"e", 9, []⟩]).WF := by
  unfold Record.WF; simp
example : Thrift.varint 300 = [172, 2] := by simp [Thrift.varint]
example : Thrift.zigzag64 (2 ^ 64 - 1) = 1 := by decide

end Fastrace
