import FastraceModel.Lemmas.Assoc
import FastraceModel.Lemmas.Cycle
import FastraceModel.Lemmas.ProvExec

/-!
# C02 — delivered records reproduce the program's span tree

The tree is reproduced by three mechanisms, each proved here for all inputs:

1. **ids** (`SpanId::next_id`): within a thread the first 2³²−1 ids are non-zero and pairwise
   distinct; ids of threads with different prefixes never coincide.
2. **tokens** carry the parent at creation: a child's token item names its parent span's own
   id (`issueToken`); inside a local-parent scope the token names the innermost open local span,
   else the span set as local parent (`SpanLine.currentToken`); a new local span's `parent_id`
   is the innermost open local span or zero (`SpanQueue.startSpan`), and closing a local span
   makes its parent the innermost again (`SpanQueue.finishSpan`).
3. **the collector stamps**: every record produced from a span set under a token item has that
   item's trace id; its parent id is the raw parent, or the item's parent where the raw parent
   is zero; ids, names and order are untouched by attachment mounting
   (`C02_cycle_records_from_collections`, `postprocess_core`).  This holds for every batch and
   every collector state, i.e. wherever cycles fall.
-/
namespace Fastrace

/-! ### 1. ids -/

/-- the `n`-th id drawn by a thread -/
def Ctr.idAfter (c : Ctr) (n : Nat) : Nat := c.pref * 2 ^ 32 + (c.suffix + n) % 2 ^ 32

/-- the generator state after `n` draws -/
def Ctr.after (c : Ctr) : Nat → Ctr
  | 0 => c
  | n + 1 => (c.after n).nextId.2

theorem Ctr.after_spec (c : Ctr) (hs : c.suffix < 2 ^ 32) (n : Nat) :
    (c.after n).suffix = (c.suffix + n) % 2 ^ 32 ∧ (c.after n).pref = c.pref := by
  induction n with
  | zero => exact ⟨by simp [Ctr.after]; omega, rfl⟩
  | succ n ih =>
    obtain ⟨h1, h2⟩ := ih
    refine ⟨?_, ?_⟩
    · simp only [Ctr.after, Ctr.nextId, h1]; omega
    · simp only [Ctr.after, Ctr.nextId, h2]

/-- the `(n+1)`-th call of `next_id` on a thread returns `idAfter (n+1)` -/
theorem C02_nth_id (c : Ctr) (hs : c.suffix < 2 ^ 32) (n : Nat) :
    (c.after n).nextId.1 = c.idAfter (n + 1) := by
  obtain ⟨h1, h2⟩ := c.after_spec hs n
  simp only [Ctr.nextId, Ctr.idAfter, h1, h2]
  congr 1
  omega

/-- ids are non-zero: as long as the 32-bit counter has not wrapped to zero, or the thread
    prefix is non-zero -/
theorem C02_id_nonzero (c : Ctr) (n : Nat) (h : 0 < c.pref ∨ (c.suffix + n) % 2 ^ 32 ≠ 0) :
    c.idAfter n ≠ 0 := by
  unfold Ctr.idAfter
  rcases h with h | h
  · have : 0 < c.pref * 2 ^ 32 := Nat.mul_pos h (by decide)
    omega
  · omega

/-- ids of one thread are pairwise distinct for fewer than 2³² draws -/
theorem C02_ids_distinct_in_thread (c : Ctr) (i j : Nat) (hij : i < j) (hj : j - i < 2 ^ 32) :
    c.idAfter i ≠ c.idAfter j := by
  unfold Ctr.idAfter
  intro h
  have h' : (c.suffix + i) % 2 ^ 32 = (c.suffix + j) % 2 ^ 32 := by omega
  omega

/-- ids of threads with different prefixes never coincide (prefixes are 32-bit) -/
theorem C02_ids_distinct_across_threads (c d : Ctr) (i j : Nat) (hp : c.pref ≠ d.pref) :
    c.idAfter i ≠ d.idAfter j := by
  unfold Ctr.idAfter
  intro h
  have h1 : (c.suffix + i) % 2 ^ 32 < 2 ^ 32 := Nat.mod_lt _ (by decide)
  have h2 : (d.suffix + j) % 2 ^ 32 < 2 ^ 32 := Nat.mod_lt _ (by decide)
  apply hp
  omega

/-! ### 2. tokens -/

/-- a token issued by a span names that span's own id as parent, in every parent's trace -/
theorem C02_issueToken (sp : SpanInner) :
    (issueToken sp).map (fun it => (it.traceId, it.collectId, it.isSampled, it.parentId))
      = sp.token.map (fun it => (it.traceId, it.collectId, it.isSampled, sp.raw.id)) := by
  simp [issueToken, List.map_map, Function.comp_def]

/-- one copy per parent: a multi-parent span's token is the concatenation of its recording
    parents' issued tokens, in order -/
theorem C02_childN_token (s : Sys) (t : Nat) (v n : String) (ps : List String)
    (hp : ∀ p ∈ ps, (assocGet s.spans p).isSome) (hne : (ps.flatMap s.tokenOfVar).isEmpty = false) :
    ∃ inner, assocGet (exec s t (.childN v n ps)).1.spans v = some (some inner) ∧
      inner.token = ps.flatMap s.tokenOfVar := by
  have : (ps.any fun p => (assocGet s.spans p).isNone) = false := by
    simp only [List.any_eq_false]
    intro p hp'
    have := hp p hp'
    cases h : assocGet s.spans p <;> simp_all
  simp [exec, this, hne, Sys.newSpan, assocGet_assocSet_same]

/-- a span created from no recording parent at all (every parent a no-op span, or no parent) is a
    no-op span (defect D16, repaired: it used to be a live span with an empty token) -/
theorem C02_childN_noop (s : Sys) (t : Nat) (v n : String) (ps : List String)
    (hp : ∀ p ∈ ps, (assocGet s.spans p).isSome) (he : (ps.flatMap s.tokenOfVar).isEmpty = true) :
    assocGet (exec s t (.childN v n ps)).1.spans v = some none := by
  have : (ps.any fun p => (assocGet s.spans p).isNone) = false := by
    simp only [List.any_eq_false]
    intro p hp'
    have := hp p hp'
    cases h : assocGet s.spans p <;> simp_all
  simp [exec, this, he, assocGet_assocSet_same]

/-- inside a scope the parent is the innermost open local span, else the scope's span -/
theorem C02_currentToken_parent (l : SpanLine) (tok : Token) (h : l.token = some tok) :
    l.currentToken = some (tok.map fun it => { it with parentId := l.queue.nextParent.getD it.parentId }) := by
  simp [SpanLine.currentToken, h]

/-- a new local span is a child of the innermost open local span (zero = "of the scope") and
    becomes the innermost one -/
theorem C02_startSpan (q : SpanQueue) (c : Ctr) (name : String) (q' : SpanQueue) (idx : Nat) (c' : Ctr)
    (h : q.startSpan c name = some (q', idx, c')) :
    q'.spans = q.spans ++ [{ id := c.nextId.1, parentId := q.nextParent.getD 0, beginT := c.nextId.2.now.1,
                             name := name, props := none, kind := .span, endT := 0 }] ∧
    q'.nextParent = some c.nextId.1 ∧ idx = q.spans.length := by
  unfold SpanQueue.startSpan at h
  split at h
  · cases h
  · simp only [Option.some.injEq, Prod.mk.injEq] at h
    obtain ⟨rfl, rfl, rfl⟩ := h
    exact ⟨rfl, rfl, rfl⟩

/-- closing a local span restores its parent as the innermost one (ids are non-zero) -/
theorem C02_finishSpan_restores (q : SpanQueue) (c : Ctr) (idx : Nat) (sp : RawSpan)
    (h : q.spans[idx]? = some sp) :
    (q.finishSpan c idx).1.nextParent = (if sp.parentId = 0 then none else some sp.parentId) := by
  simp [SpanQueue.finishSpan, h]

/-! ### 3. the collector -/

/-- for every collector state and batch: the records handed to the reporter, up to mounted
    attachments, are exactly the cores of the collections post-processed in this cycle —
    in the cancelable configuration those of the committed ids -/
theorem C02_postprocess_cores (conv : Nat → Nat) (cols : List Collection) (committed : List Record) (d : Danglings) :
    (postprocess conv cols committed d).1.map Record.core
      = committed.map Record.core ++ cols.flatMap (collectionCores conv) :=
  postprocess_core conv cols committed d

/-- every record of a collection has the collection's (= the token item's) trace id, and its
    parent is the raw parent or — for the roots of the set — the token item's parent -/
theorem C02_collection_stamps (conv : Nat → Nat) (col : Collection) :
    ∀ k ∈ collectionCores conv col, k.traceId = col.traceId ∧
      (k.parentId = col.parentId ∨
        ∃ raw, (match col.spans with | .span r => [r] | .locals l _ => l).contains raw ∧
          raw.parentId ≠ 0 ∧ k.parentId = raw.parentId ∧ k.spanId = raw.id) := by
  intro k hk
  unfold collectionCores at hk
  cases hs : col.spans with
  | span raw =>
    simp only [hs, spanCore] at hk
    cases hk2 : raw.kind <;> simp only [hk2] at hk <;> simp at hk
    subst hk; exact ⟨rfl, Or.inl rfl⟩
  | locals spans endT =>
    simp only [hs, List.mem_flatMap, localCore] at hk
    obtain ⟨raw, hraw, hk⟩ := hk
    cases hk2 : raw.kind <;> simp only [hk2] at hk <;> simp at hk
    subst hk
    refine ⟨rfl, ?_⟩
    by_cases hz : raw.parentId = 0
    · simp [hz]
    · right
      exact ⟨raw, by simp [hraw], hz, by simp [hz], rfl⟩

/-! ### 4. whole programs: trace ids come from roots -/

/-- **for every program, every delivered record's trace id is one supplied when a (sampled)
    root was created** — no operation, on any thread, under any placement of collector cycles,
    overload or thread exit, invents or alters a trace id (invariant `Prov`, `Lemmas/Prov*.lean`) -/
theorem C02_trace_ids_from_roots (p : Program) :
    ∀ o ∈ (run Sys.init p).2, ∀ rs, o = .report (some rs) → ∀ r ∈ rs, r.traceId ∈ sampledRootTraces p :=
  fun o ho rs hrs => (run_prov_init p o ho).1 rs hrs

/-! non-vacuity -/
example : (Ctr.mk 7 0 0).idAfter 1 = 7 * 2 ^ 32 + 1 := by decide
example : (Ctr.mk 0 (2 ^ 32 - 1) 0).idAfter 1 = 0 := by decide   -- the excluded wrap (D12)

end Fastrace
