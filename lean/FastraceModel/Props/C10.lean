import FastraceModel.Lemmas.FrameBlocks
import FastraceModel.Props.C16

/-!
# C10 — local parent scopes nest and restore exactly

`C10_frame`: for **every** well-nested piece of a thread's program — scopes opened by
`set_local_parent`, local spans, local collectors, nested to any depth and in any order, with
arbitrary other operations in between (span creation, attachments, closures that re-enter the
API, collector cycles, operations of *other* threads including their own scopes) — the
thread's local context after the piece is exactly what it was before: same open scopes, same
tokens, same sampling decisions, same innermost open local span in every scope.  Everything a
later operation can observe of the local context is a function of that frame
(`C10_observations_of_frame`).  Holds at the limits too (a scope or span that could not be
registered is a no-op on both sides).

`C10_other_threads`: an operation never changes another thread's local state.
`C10_inert`: with no local parent in scope, local-span operations do nothing.
-/
namespace Fastrace

/-- well-nested programs of thread `t`, with anything else in between -/
inductive Blk where
  | op (t' : Nat) (o : Op)                         -- any operation of any thread (see `Blk.ok`)
  | scope (v : String) (body : List Blk)           -- `let g = v.set_local_parent(); body; drop(g)`
  | localSpan (n : String) (body : List Blk)       -- `let s = LocalSpan::enter…(n); body; drop(s)`
  | collector (body : List Blk) (fin : Option String)  -- `LocalCollector::start(); body; drop / collect()`
  | adCall (a call result : String) (body : List Blk)  -- one method call on an adapter; `body` = what the inner does

mutual
def Blk.flat (t : Nat) : Blk → Program
  | .op t' o => [(t', o)]
  | .scope v body => (t, .scope v) :: (Blk.flatList t body ++ [(t, .close)])
  | .localSpan n body => (t, .localEnter n) :: (Blk.flatList t body ++ [(t, .close)])
  | .collector body fin =>
    (t, .collectorStart) :: (Blk.flatList t body ++ [(t, match fin with | none => Op.close | some x => Op.collect x)])
  | .adCall a call result body => (t, .adPoll a call) :: (Blk.flatList t body ++ [(t, .adEnd a result)])
def Blk.flatList (t : Nat) : List Blk → Program
  | [] => []
  | b :: bs => Blk.flat t b ++ Blk.flatList t bs
end

mutual
/-- single operations are of another thread, or do not open/close a guard of thread `t` -/
def Blk.ok (t : Nat) : Blk → Bool
  | .op t' o => t' != t || isPlain o
  | .scope _ body => Blk.okList t body
  | .localSpan _ body => Blk.okList t body
  | .collector body _ => Blk.okList t body
  | .adCall _ _ _ body => Blk.okList t body
def Blk.okList (t : Nat) : List Blk → Bool
  | [] => true
  | b :: bs => Blk.ok t b && Blk.okList t bs
end

theorem linesExt_cons_left {a : SpanLine} {as b : List SpanLine} (h : LinesExt (a :: as) b) :
    ∃ b0 bs, b = b0 :: bs ∧ LineExt a b0 ∧ LinesExt as bs := by
  cases b with
  | nil => exact h.elim
  | cons b0 bs => exact ⟨b0, bs, rfl, h.1, h.2⟩

theorem all_append_isOk (a b : List Obs) (h : (a ++ b).all Obs.isOk = true) :
    a.all Obs.isOk = true ∧ b.all Obs.isOk = true := by
  simpa [List.all_append] using h

theorem pres_of_loc_eq {th th2 th3 : Th} (st : Stack) (gs : List Guard)
    (hloc : th3.loc = (st, gs, th2.pref)) (hgs : gs = th.guards) (hl : LinesExt th.stack.lines st.lines)
    (hc : st.cap = th.stack.cap) (hp : th2.pref = th.pref) : Pres th th3 := by
  simp only [Th.loc, Prod.mk.injEq] at hloc
  obtain ⟨h1, h2, h3⟩ := hloc
  exact ⟨h2.trans hgs, h1 ▸ hl, by rw [h1]; exact hc, h3.trans hp⟩

mutual
/-- **the frame theorem** -/
theorem C10_frame (t : Nat) : ∀ (b : Blk) (s : Sys), b.ok t = true →
    (runO s (b.flat t)).all Obs.isOk = true → Good (s.th t) →
    Pres (s.th t) ((runS s (b.flat t)).th t)
  | .op t' o, s, hok, _, hg => by
    simp only [Blk.flat, runS_cons, runS_nil]
    simp only [Blk.ok, Bool.or_eq_true, bne_iff_ne, ne_eq] at hok
    by_cases e : t' = t
    · subst e
      rcases hok with h | h
      · exact (h rfl).elim
      · exact exec_plain_pres s t' o h hg
    · rw [exec_th_other s t' t o (fun h => e h.symm)]
      exact Pres.refl _
  | .scope v body, s, hok, hobs, hg => by
    simp only [Blk.flat, runS_cons, runO_cons, List.all_cons, Bool.and_eq_true] at hobs ⊢
    simp only [Blk.ok] at hok
    obtain ⟨ho1, hrest⟩ := hobs
    rw [runO_append] at hrest
    obtain ⟨hob, _⟩ := all_append_isOk _ _ hrest
    rw [runS_append]
    generalize hs1 : (exec s t (.scope v)).1 = s1 at *
    have hopen := scope_open s t v ho1
    simp only [hs1] at hopen
    rcases hopen with h1 | ⟨tok, h1⟩
    · have hg1 : Good (s1.th t) := by rw [h1]; exact hg
      have ih := C10_frameList t body s1 hok hob hg1
      generalize runS s1 (Blk.flatList t body) = s2 at *
      have hg2 : (s2.th t).guards = .scope none :: (s.th t).guards := by rw [ih.1, h1]
      obtain ⟨hc, _⟩ := close_noop s2 t _ _ hg2 (Or.inl rfl)
      simp only [runS_cons, runS_nil]
      rw [hc]
      refine ⟨rfl, ?_, ?_, ?_⟩
      · have := ih.2.1; rw [h1] at this; exact this
      · have := ih.2.2.1; rw [h1] at this; exact this
      · have := ih.2.2.2; rw [h1] at this; exact this
    · have hg1 : Good (s1.th t) := by
        rw [h1]
        refine ⟨hg.1, ?_⟩
        intro l hl
        simp only [List.mem_cons] at hl
        rcases hl with rfl | hl
        · simp [SpanLine.new, SpanQueue.withCapacity]
        · exact hg.2 l hl
      have ih := C10_frameList t body s1 hok hob hg1
      generalize runS s1 (Blk.flatList t body) = s2 at *
      have hg2 : (s2.th t).guards = .scope (some (s.th t).stack.nextEpoch) :: (s.th t).guards := by rw [ih.1, h1]
      have hl2 := ih.2.1
      rw [h1] at hl2
      obtain ⟨l2, ls2, hl2e, _, hls⟩ := linesExt_cons_left hl2
      obtain ⟨hc, _⟩ := close_pops s2 t _ _ l2 ls2 _ (Or.inl rfl) hg2 hl2e
      simp only [runS_cons, runS_nil]
      refine pres_of_loc_eq _ _ hc rfl hls ?_ ?_
      · have := ih.2.2.1; rw [h1] at this; exact this
      · have := ih.2.2.2; rw [h1] at this; exact this
  | .localSpan n body, s, hok, hobs, hg => by
    simp only [Blk.flat, runS_cons, runO_cons, List.all_cons, Bool.and_eq_true] at hobs ⊢
    simp only [Blk.ok] at hok
    obtain ⟨_, hrest⟩ := hobs
    rw [runO_append] at hrest
    obtain ⟨hob, _⟩ := all_append_isOk _ _ hrest
    rw [runS_append]
    have hopen := local_open s t n
    generalize hs1 : (exec s t (.localEnter n)).1 = s1 at *
    simp only at hopen
    rcases hopen with h1 | ⟨l, ls, l1, h, c1, hl, hst, hl1, hc1, hgd1, hp1⟩
    · have hg1 : Good (s1.th t) := by rw [h1]; exact hg
      have ih := C10_frameList t body s1 hok hob hg1
      generalize runS s1 (Blk.flatList t body) = s2 at *
      have hg2 : (s2.th t).guards = .localSpan none :: (s.th t).guards := by rw [ih.1, h1]
      obtain ⟨hc, _⟩ := close_noop s2 t _ _ hg2 (Or.inr (Or.inl rfl))
      simp only [runS_cons, runS_nil]
      rw [hc]
      refine ⟨rfl, ?_, ?_, ?_⟩
      · have := ih.2.1; rw [h1] at this; exact this
      · have := ih.2.2.1; rw [h1] at this; exact this
      · have := ih.2.2.2; rw [h1] at this; exact this
    · have hpref : 1 ≤ (s.ctr t).pref := hg.1
      have hz : l.queue.nextParent ≠ some 0 := hg.2 l (by rw [hl]; simp)
      obtain ⟨e1, e2, e3, e4, e5, e6, e7, e8⟩ := SpanLine.enter_exit_ext l (s.ctr t) n l1 h c1 hst hpref hz
      have hg1 : Good (s1.th t) := by
        refine ⟨hp1 ▸ hg.1, ?_⟩
        rw [hl1]
        intro x hx
        simp only [List.mem_cons] at hx
        rcases hx with rfl | hx
        · rw [e6]; intro e; exact e7 (Option.some.inj e)
        · exact hg.2 x (by rw [hl]; simp [hx])
      have ih := C10_frameList t body s1 hok hob hg1
      generalize runS s1 (Blk.flatList t body) = s2 at *
      have hg2 : (s2.th t).guards = .localSpan (some h) :: (s.th t).guards := by rw [ih.1, hgd1]
      have hl2 := ih.2.1
      rw [hl1] at hl2
      obtain ⟨l2, ls2, hl2e, hle, hls⟩ := linesExt_cons_left hl2
      obtain ⟨c2, hc, _⟩ := close_local s2 t h _ l2 ls2 hg2 hl2e
      simp only [runS_cons, runS_nil]
      refine pres_of_loc_eq _ _ hc rfl ?_ ?_ ?_
      · rw [hl]
        exact ⟨SpanLine.finish_after_ext l l1 l2 (s.ctr t) c1 c2 n h hst hpref hz hle, hls⟩
      · exact ih.2.2.1.trans hc1
      · exact ih.2.2.2.trans hp1
  | .collector body fin, s, hok, hobs, hg => by
    simp only [Blk.flat, runS_cons, runO_cons, List.all_cons, Bool.and_eq_true] at hobs ⊢
    simp only [Blk.ok] at hok
    obtain ⟨_, hrest⟩ := hobs
    rw [runO_append] at hrest
    obtain ⟨hob, _⟩ := all_append_isOk _ _ hrest
    rw [runS_append]
    have hopen := collector_open s t
    generalize hs1 : (exec s t .collectorStart).1 = s1 at *
    simp only at hopen
    rcases hopen with h1 | h1
    · have hg1 : Good (s1.th t) := by rw [h1]; exact hg
      have ih := C10_frameList t body s1 hok hob hg1
      generalize runS s1 (Blk.flatList t body) = s2 at *
      have hg2 : (s2.th t).guards = .collector none :: (s.th t).guards := by rw [ih.1, h1]
      simp only [runS_cons, runS_nil]
      cases fin with
      | none =>
        obtain ⟨hc, _⟩ := close_noop s2 t _ _ hg2 (Or.inr (Or.inr rfl))
        simp only
        rw [hc]
        refine ⟨rfl, ?_, ?_, ?_⟩
        · have := ih.2.1; rw [h1] at this; exact this
        · have := ih.2.2.1; rw [h1] at this; exact this
        · have := ih.2.2.2; rw [h1] at this; exact this
      | some x =>
        obtain ⟨hc, _⟩ := collect_noop s2 t x _ hg2
        simp only
        refine pres_of_loc_eq _ _ hc rfl ?_ ?_ ?_
        · have := ih.2.1; rw [h1] at this; exact this
        · have := ih.2.2.1; rw [h1] at this; exact this
        · have := ih.2.2.2; rw [h1] at this; exact this
    · have hg1 : Good (s1.th t) := by
        rw [h1]
        refine ⟨hg.1, ?_⟩
        intro l hl
        simp only [List.mem_cons] at hl
        rcases hl with rfl | hl
        · simp [SpanLine.new, SpanQueue.withCapacity]
        · exact hg.2 l hl
      have ih := C10_frameList t body s1 hok hob hg1
      generalize runS s1 (Blk.flatList t body) = s2 at *
      have hg2 : (s2.th t).guards = .collector (some (s.th t).stack.nextEpoch) :: (s.th t).guards := by rw [ih.1, h1]
      have hl2 := ih.2.1
      rw [h1] at hl2
      obtain ⟨l2, ls2, hl2e, _, hls⟩ := linesExt_cons_left hl2
      simp only [runS_cons, runS_nil]
      cases fin with
      | none =>
        obtain ⟨hc, _⟩ := close_pops s2 t _ _ l2 ls2 _ (Or.inr rfl) hg2 hl2e
        simp only
        refine pres_of_loc_eq _ _ hc rfl hls ?_ ?_
        · have := ih.2.2.1; rw [h1] at this; exact this
        · have := ih.2.2.2; rw [h1] at this; exact this
      | some x =>
        obtain ⟨hc, _⟩ := collect_pops s2 t x _ _ l2 ls2 hg2 hl2e
        simp only
        refine pres_of_loc_eq _ _ hc rfl hls ?_ ?_
        · have := ih.2.2.1; rw [h1] at this; exact this
        · have := ih.2.2.2; rw [h1] at this; exact this
  | .adCall a call result body, s, hok, hobs, hg => by
    simp only [Blk.flat, runS_cons, runO_cons, List.all_cons, Bool.and_eq_true] at hobs ⊢
    simp only [Blk.ok] at hok
    obtain ⟨ho1, hrest⟩ := hobs
    rw [runO_append] at hrest
    obtain ⟨hob, hlast⟩ := all_append_isOk _ _ hrest
    rw [runS_append]
    simp only [exec] at ho1
    have hopen := adPoll_open s t a call ho1
    have hs1e : (exec s t (.adPoll a call)).1 = (s.adPoll t a call).1 := by simp only [exec]
    rw [hs1e] at hob hlast ⊢
    generalize (s.adPoll t a call).1 = s1 at *
    simp only at hopen
    have hend : ∀ s2 : Sys, (runO s2 [(t, Op.adEnd a result)]).all Obs.isOk = true → (s2.adEnd t a result).2.isOk = true := by
      intro s2 h
      simpa [runO_cons, exec] using h
    have hrun : ∀ s2 : Sys, (runS s2 [(t, Op.adEnd a result)]) = (s2.adEnd t a result).1 := by
      intro s2; simp only [runS_cons, runS_nil, exec]
    rcases hopen with h1 | ⟨tok, h1⟩ | h1 | ⟨l, ls, l1, h, c1, n, hl, hst, hl1, hc1, hgd1, hp1⟩
    · have hg1 : Good (s1.th t) := by rw [h1]; exact hg
      have ih := C10_frameList t body s1 hok hob hg1
      generalize runS s1 (Blk.flatList t body) = s2 at *
      obtain ⟨g, gs, hgg, hloc⟩ := adEnd_loc s2 t a result (hend s2 hlast)
      have hg2 : (s2.th t).guards = .scope none :: (s.th t).guards := by rw [ih.1, h1]
      rw [hg2] at hgg
      obtain ⟨rfl, rfl⟩ := List.cons.inj hgg
      rw [closeGuard_noop _ _ _ (Or.inl rfl), Sys.th_setTh_same] at hloc
      rw [hrun]
      refine pres_of_loc_eq (s2.th t).stack _ hloc rfl ?_ ?_ ?_
      · have := ih.2.1; rw [h1] at this; exact this
      · have := ih.2.2.1; rw [h1] at this; exact this
      · have := ih.2.2.2; rw [h1] at this; exact this
    · have hg1 : Good (s1.th t) := by
        rw [h1]
        refine ⟨hg.1, ?_⟩
        intro x hx
        simp only [List.mem_cons] at hx
        rcases hx with rfl | hx
        · simp [SpanLine.new, SpanQueue.withCapacity]
        · exact hg.2 x hx
      have ih := C10_frameList t body s1 hok hob hg1
      generalize runS s1 (Blk.flatList t body) = s2 at *
      obtain ⟨g, gs, hgg, hloc⟩ := adEnd_loc s2 t a result (hend s2 hlast)
      have hg2 : (s2.th t).guards = .scope (some (s.th t).stack.nextEpoch) :: (s.th t).guards := by rw [ih.1, h1]
      rw [hg2] at hgg
      obtain ⟨rfl, rfl⟩ := List.cons.inj hgg
      have hl2 := ih.2.1
      rw [h1] at hl2
      obtain ⟨l2, ls2, hl2e, _, hls⟩ := linesExt_cons_left hl2
      rw [closeGuard_pops _ t _ _ (Or.inl rfl) l2 ls2 (by rw [Sys.th_setTh_same]; exact hl2e), Sys.th_setTh_same] at hloc
      rw [hrun]
      refine pres_of_loc_eq _ _ hloc rfl hls ?_ ?_
      · have := ih.2.2.1; rw [h1] at this; exact this
      · have := ih.2.2.2; rw [h1] at this; exact this
    · have hg1 : Good (s1.th t) := by rw [h1]; exact hg
      have ih := C10_frameList t body s1 hok hob hg1
      generalize runS s1 (Blk.flatList t body) = s2 at *
      obtain ⟨g, gs, hgg, hloc⟩ := adEnd_loc s2 t a result (hend s2 hlast)
      have hg2 : (s2.th t).guards = .localSpan none :: (s.th t).guards := by rw [ih.1, h1]
      rw [hg2] at hgg
      obtain ⟨rfl, rfl⟩ := List.cons.inj hgg
      rw [closeGuard_noop _ _ _ (Or.inr (Or.inl rfl)), Sys.th_setTh_same] at hloc
      rw [hrun]
      refine pres_of_loc_eq (s2.th t).stack _ hloc rfl ?_ ?_ ?_
      · have := ih.2.1; rw [h1] at this; exact this
      · have := ih.2.2.1; rw [h1] at this; exact this
      · have := ih.2.2.2; rw [h1] at this; exact this
    · have hpref : 1 ≤ (s.ctr t).pref := hg.1
      have hz : l.queue.nextParent ≠ some 0 := hg.2 l (by rw [hl]; simp)
      obtain ⟨e1, e2, e3, e4, e5, e6, e7, e8⟩ := SpanLine.enter_exit_ext l (s.ctr t) n l1 h c1 hst hpref hz
      have hg1 : Good (s1.th t) := by
        refine ⟨hp1 ▸ hg.1, ?_⟩
        rw [hl1]
        intro x hx
        simp only [List.mem_cons] at hx
        rcases hx with rfl | hx
        · rw [e6]; intro e; exact e7 (Option.some.inj e)
        · exact hg.2 x (by rw [hl]; simp [hx])
      have ih := C10_frameList t body s1 hok hob hg1
      generalize runS s1 (Blk.flatList t body) = s2 at *
      obtain ⟨g, gs, hgg, hloc⟩ := adEnd_loc s2 t a result (hend s2 hlast)
      have hg2 : (s2.th t).guards = .localSpan (some h) :: (s.th t).guards := by rw [ih.1, hgd1]
      rw [hg2] at hgg
      obtain ⟨rfl, rfl⟩ := List.cons.inj hgg
      have hl2 := ih.2.1
      rw [hl1] at hl2
      obtain ⟨l2, ls2, hl2e, hle, hls⟩ := linesExt_cons_left hl2
      rw [closeGuard_local _ t h l2 ls2 (by rw [Sys.th_setTh_same]; exact hl2e), Sys.th_setTh_same] at hloc
      rw [hrun]
      refine pres_of_loc_eq _ _ hloc rfl ?_ ?_ ?_
      · rw [hl]
        exact ⟨SpanLine.finish_after_ext l l1 l2 (s.ctr t) c1 _ n h hst hpref hz hle, hls⟩
      · exact ih.2.2.1.trans hc1
      · exact ih.2.2.2.trans hp1
theorem C10_frameList (t : Nat) : ∀ (bs : List Blk) (s : Sys), Blk.okList t bs = true →
    (runO s (Blk.flatList t bs)).all Obs.isOk = true → Good (s.th t) →
    Pres (s.th t) ((runS s (Blk.flatList t bs)).th t)
  | [], s, _, _, _ => by simp only [Blk.flatList, runS_nil]; exact Pres.refl _
  | b :: bs, s, hok, hobs, hg => by
    simp only [Blk.okList, Bool.and_eq_true] at hok
    simp only [Blk.flatList] at hobs ⊢
    rw [runO_append] at hobs
    obtain ⟨h1, h2⟩ := all_append_isOk _ _ hobs
    rw [runS_append]
    have p1 := C10_frame t b s hok.1 h1 hg
    have p2 := C10_frameList t bs (runS s (b.flat t)) hok.2 h2 (hg.of_pres p1)
    exact p1.trans p2
end

/-- corollary in the property's words: the frame — and hence `current_local_parent()`, the
    token of a subsequently created span, and the scope / parent a subsequent local span,
    event or property attaches to — is restored -/
theorem C10_frame_restored (t : Nat) (b : Blk) (s : Sys) (hok : b.ok t = true)
    (hobs : (runO s (b.flat t)).all Obs.isOk = true) (hg : Good (s.th t)) :
    ((runS s (b.flat t)).th t).stack.frame = (s.th t).stack.frame ∧
    ((runS s (b.flat t)).th t).guards = (s.th t).guards :=
  ⟨(C10_frame t b s hok hobs hg).frame, (C10_frame t b s hok hobs hg).1⟩

/-- what later operations see of the local context depends on the frame only -/
theorem C10_observations_of_frame (a b : Stack) (h : a.frame = b.frame) :
    a.currentToken = b.currentToken ∧ a.isSampled = b.isSampled := by
  unfold Stack.frame at h
  unfold Stack.currentToken Stack.isSampled
  cases ha : a.lines with
  | nil =>
    rw [ha] at h
    cases hb : b.lines with
    | nil => exact ⟨rfl, rfl⟩
    | cons _ _ => rw [hb] at h; cases h
  | cons l ls =>
    rw [ha] at h
    cases hb : b.lines with
    | nil => rw [hb] at h; cases h
    | cons m ms =>
      rw [hb] at h
      simp only [List.map_cons, List.cons.injEq, Prod.mk.injEq] at h
      obtain ⟨⟨_, h2, h3, h4⟩, _⟩ := h
      exact ⟨by simp [SpanLine.currentToken, h2, h4], h3⟩

/-- **only the calling thread** -/
theorem C10_other_threads (s : Sys) (t t2 : Nat) (op : Op) (h : t2 ≠ t) :
    (exec s t op).1.th t2 = s.th t2 := exec_th_other s t t2 op h

/-- with no local parent in scope, local-span operations are inert -/
theorem C10_inert (s : Sys) (t : Nat) (hs : (s.th t).stack.lines = []) (name : String) (cl : Closure) :
    exec s t (.lAddProps cl) = (s, .closure false) ∧ exec s t .ctxLocal = (s, .ctx none) ∧
    ((exec s t (.localEnter name)).1.th t).stack = (s.th t).stack :=
  let h := C16_local_inert s t hs name cl none
  ⟨h.1, h.2.1, h.2.2.2.1⟩

/-- the hypothesis `Good` holds for every thread of the initial state (prefix `t+1`, no scope) -/
theorem C10_good_initially (t : Nat) : Good (Sys.init.th t) := by
  simp [Good, Sys.init, Sys.th, natGet, Th.fresh, Stack.withCapacity]

/-! non-vacuity: a nested program satisfying `ok`, run from a state with a reporter -/
example : (Blk.scope "r" [.localSpan "a" [.op 0 (.lAddEvent "e" none), .scope "r" [.op 1 .close]],
    .collector [.localSpan "b" []] (some "x"), .adCall "f" "poll" "pending" [.localSpan "c" []]]).ok 0 = true := by decide

end Fastrace
