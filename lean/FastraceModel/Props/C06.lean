import FastraceModel.Lemmas.Collector

/-!
# C06 — properties and events are delivered on the span they were attached to

The collector parks every attachment (an `Event` / `Properties` pseudo-span) under the id of
its target and mounts parked items when a record with that id is post-processed.  Proved
here, for every record list, every parked map and every string content:

* parking keeps arrival order per target and does not disturb other targets
  (`C06_park_order`);
* mounting gives **each record exactly the items parked under its own id**, in arrival
  order, appended after the properties/events it already has, and removes them from the map,
  so they cannot be mounted a second time; items for ids not in this call stay parked,
  untouched (`C06_mount_exact`) — under the hypothesis that the records of one
  post-processing call have pairwise distinct ids (`DistinctIds`);
* keys, values and names are never inspected or changed (the functions are parametric in the
  strings: they only move them).

`DistinctIds` is exactly what open finding D10 violates (one span set delivered twice into
one trace: all items go to the first copy — `C06_D10_witness`).
-/
namespace Fastrace

def Danglings.at (d : Danglings) (k : Nat) : List Dangling := (d.find? k).getD []

theorem Danglings.at_push_same (d : Danglings) (k : Nat) (item : Dangling) :
    (d.push k item).at k = d.at k ++ [item] := by
  induction d with
  | nil => simp [Danglings.push, Danglings.at, Danglings.find?, List.find?]
  | cons hd tl ih =>
    obtain ⟨k', items⟩ := hd
    by_cases h : k' = k
    · simp [Danglings.push, Danglings.at, Danglings.find?, List.find?, h]
    · have hb : (k' == k) = false := by simp [h]
      simp only [Danglings.push, h, if_false]
      simp only [Danglings.at, Danglings.find?, List.find?, hb] at ih ⊢
      exact ih

theorem Danglings.at_push_other (d : Danglings) (k k2 : Nat) (item : Dangling) (hne : k2 ≠ k) :
    (d.push k item).at k2 = d.at k2 := by
  induction d with
  | nil =>
    have : (k == k2) = false := by simp; exact fun h => hne h.symm
    simp [Danglings.push, Danglings.at, Danglings.find?, List.find?, this]
  | cons hd tl ih =>
    obtain ⟨k', items⟩ := hd
    by_cases h : k' = k
    · subst h
      have : (k' == k2) = false := by simp; exact fun h => hne h.symm
      simp [Danglings.push, Danglings.at, Danglings.find?, List.find?, this]
    · simp only [Danglings.push, h, if_false]
      by_cases h2 : k' = k2
      · simp [Danglings.at, Danglings.find?, List.find?, h2]
      · have hb : (k' == k2) = false := by simp [h2]
        simp only [Danglings.at, Danglings.find?, List.find?, hb] at ih ⊢
        exact ih

/-- **parking**: per target, arrival order is kept; other targets are not disturbed -/
theorem C06_park_order (d : Danglings) (k : Nat) (item : Dangling) :
    (d.push k item).at k = d.at k ++ [item] ∧ ∀ k2, k2 ≠ k → (d.push k item).at k2 = d.at k2 :=
  ⟨Danglings.at_push_same d k item, fun k2 h => Danglings.at_push_other d k k2 item h⟩

theorem Danglings.at_remove_other (d : Danglings) (k k2 : Nat) (hne : k2 ≠ k) :
    (d.remove k).at k2 = d.at k2 := by
  induction d with
  | nil => rfl
  | cons hd tl ih =>
    obtain ⟨k', items⟩ := hd
    by_cases h : k' = k
    · have h1 : (k' != k) = false := by simp [h]
      have h2 : (k' == k2) = false := by simp [h]; exact fun e => hne e.symm
      simp only [Danglings.remove, List.filter, h1]
      simp only [Danglings.at, Danglings.find?, List.find?, h2]
      exact ih
    · have h1 : (k' != k) = true := by simp [h]
      simp only [Danglings.remove, List.filter, h1]
      by_cases h3 : k' = k2
      · simp [Danglings.at, Danglings.find?, List.find?, h3]
      · have h4 : (k' == k2) = false := by simp [h3]
        simp only [Danglings.at, Danglings.find?, List.find?, h4]
        exact ih

theorem Danglings.at_remove_same (d : Danglings) (k : Nat) : (d.remove k).at k = [] := by
  induction d with
  | nil => rfl
  | cons hd tl ih =>
    obtain ⟨k', items⟩ := hd
    by_cases h : k' = k
    · have h1 : (k' != k) = false := by simp [h]
      simp only [Danglings.remove, List.filter, h1]
      exact ih
    · have h1 : (k' != k) = true := by simp [h]
      have h2 : (k' == k) = false := by simp [h]
      simp only [Danglings.remove, List.filter, h1]
      simp only [Danglings.at, Danglings.find?, List.find?, h2]
      exact ih

theorem Danglings.at_of_find_none (d : Danglings) (k : Nat) (h : d.find? k = none) : d.at k = [] := by
  simp [Danglings.at, h]

/-- the records of one post-processing call have pairwise distinct span ids -/
def DistinctIds (rs : List Record) : Prop := (rs.map (·.spanId)).Nodup

/-- **mounting is exact**: each record gets precisely the items parked under its id, in
    order; what is parked under other ids is left exactly as it was -/
theorem C06_mount_exact (rs : List Record) (d : Danglings) (h : DistinctIds rs) :
    (mountDanglings rs d).1 = rs.map (fun r => (d.at r.spanId).foldl applyDangling r) ∧
    (∀ k, k ∉ rs.map (·.spanId) → (mountDanglings rs d).2.at k = d.at k) ∧
    (∀ k, k ∈ rs.map (·.spanId) → (mountDanglings rs d).2.at k = []) := by
  induction rs generalizing d with
  | nil => simp [mountDanglings]
  | cons r rs ih =>
    have hnd : DistinctIds rs := (List.nodup_cons.mp h).2
    have hnot : r.spanId ∉ rs.map (·.spanId) := (List.nodup_cons.mp h).1
    simp only [mountDanglings]
    cases hf : d.find? r.spanId with
    | some items =>
      simp only
      obtain ⟨ih1, ih2, ih3⟩ := ih (d.remove r.spanId) hnd
      have hat : d.at r.spanId = items := by simp [Danglings.at, hf]
      refine ⟨?_, ?_, ?_⟩
      · simp only [List.map_cons, hat, ih1]
        congr 1
        apply List.map_congr_left
        intro r' hr'
        have : r'.spanId ≠ r.spanId := fun e => hnot (e ▸ List.mem_map_of_mem hr')
        rw [Danglings.at_remove_other _ _ _ this]
      · intro k hk
        simp only [List.map_cons, List.mem_cons, not_or] at hk
        rw [ih2 k hk.2, Danglings.at_remove_other _ _ _ hk.1]
      · intro k hk
        simp only [List.map_cons, List.mem_cons] at hk
        rcases hk with rfl | hk
        · rw [ih2 _ hnot]
          exact Danglings.at_remove_same d _
        · exact ih3 k hk
    | none =>
      simp only
      obtain ⟨ih1, ih2, ih3⟩ := ih d hnd
      have hat : d.at r.spanId = [] := Danglings.at_of_find_none d _ hf
      refine ⟨?_, ?_, ?_⟩
      · simp [hat, ih1]
      · intro k hk
        simp only [List.map_cons, List.mem_cons, not_or] at hk
        exact ih2 k hk.2
      · intro k hk
        simp only [List.map_cons, List.mem_cons] at hk
        rcases hk with rfl | hk
        · rw [ih2 _ hnot]; exact hat
        · exact ih3 k hk

/-- what mounting a list of parked items does to a record: properties are appended in order,
    events are appended in order, nothing else changes -/
def propsOf : List Dangling → Props
  | [] => []
  | .props p :: rest => p ++ propsOf rest
  | .event _ :: rest => propsOf rest
def eventsOf : List Dangling → List EventRecord
  | [] => []
  | .event e :: rest => e :: eventsOf rest
  | .props _ :: rest => eventsOf rest

theorem C06_apply_items (items : List Dangling) (r : Record) :
    (items.foldl applyDangling r).props = r.props ++ propsOf items ∧
    (items.foldl applyDangling r).events = r.events ++ eventsOf items ∧
    (items.foldl applyDangling r).core = r.core := by
  induction items generalizing r with
  | nil => simp [propsOf, eventsOf]
  | cons it rest ih =>
    obtain ⟨h1, h2, h3⟩ := ih (applyDangling r it)
    simp only [List.foldl]
    rw [h1, h2, h3]
    cases it with
    | event e => simp [applyDangling, propsOf, eventsOf, Record.core]
    | props p => simp [applyDangling, propsOf, eventsOf, Record.core]

/-- D20, the open finding (release-build face): `LocalSpan::with_properties` looks at the current span line only.  When a
    newer scope has been opened since the local span was entered, the current line's epoch is not the handle's and the
    properties are dropped — whatever the line the span lives on.  (With debug assertions the call panics instead; the
    unit test `unmatched_span_line_add_properties` of the baseline suite pins that, so the code stays as it is.) -/
theorem C06_D20_dropped_under_newer_scope (st : Stack) (newer : SpanLine) (below : List SpanLine) (h : LocalHandle) (kvs : Props)
    (hl : st.lines = newer :: below) (hne : newer.epoch ≠ h.epoch) :
    (st.withProps h kvs).lines = st.lines := by
  unfold Stack.withProps
  rw [hl]
  dsimp only
  have : newer.withProps h kvs = newer := by
    simp [SpanLine.withProps, hne]
  simp [this]

/-- D10, the open finding: two copies of one span in one call — the first takes everything -/
theorem C06_D10_witness :
    let r : Record := ⟨1, 7, 0, 0, 0, "s", [], []⟩
    (mountDanglings [r, r] [(7, [.props [("k", "v")], .props [("k", "v")]])]).1.map (·.props)
      = [[("k", "v"), ("k", "v")], []] := by
  decide

/-! non-vacuity of `DistinctIds` -/
example : DistinctIds [⟨1, 7, 0, 0, 0, "a", [], []⟩, ⟨1, 8, 7, 0, 0, "b", [], []⟩] := by
  simp [DistinctIds]

end Fastrace
