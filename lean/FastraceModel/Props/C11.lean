import FastraceModel.Lemmas.Assoc
import FastraceModel.Lemmas.Collector
import FastraceModel.Props.C12
import FastraceModel.Lemmas.ProvExec

/-!
# C11 — extracted span contexts identify the right span
-/
namespace Fastrace

/-- `SpanContext::from_span`: trace id and sampling flag of the **first** parent's trace, the
    span's **own** id; `None` for a no-op span and for a span created from only no-op parents
    (empty token).  State unchanged. -/
theorem C11_from_span (s : Sys) (t : Nat) (v : String) (sp : SpanInner)
    (h : assocGet s.spans v = some (some sp)) :
    exec s t (.ctxOf v) = (s, .ctx (match sp.token with
      | [] => none
      | it :: _ => some ⟨it.traceId, sp.raw.id, it.isSampled⟩)) := by
  simp only [exec, h, issueToken, ctxOfToken]
  cases sp.token <;> rfl

theorem C11_from_noop (s : Sys) (t : Nat) (v : String) (h : assocGet s.spans v = some none) :
    exec s t (.ctxOf v) = (s, .ctx none) := by
  simp [exec, h]

/-- `SpanContext::current_local_parent`: with no scope `None`; in a `LocalCollector` scope
    `None`; otherwise the first item of the scope's token with the innermost open local span
    (if any) as span id. No panic for an empty token (D6 fix): `None`. -/
theorem C11_local (s : Sys) (t : Nat) :
    exec s t .ctxLocal = (s, .ctx (match (s.th t).stack.lines with
      | [] => none
      | l :: _ => match l.token with
        | none => none
        | some [] => none
        | some (it :: _) => some ⟨it.traceId, l.queue.nextParent.getD it.parentId, it.isSampled⟩)) := by
  simp only [exec, Stack.currentToken]
  cases hl : (s.th t).stack.lines with
  | nil => rfl
  | cons l ls =>
    simp only [SpanLine.currentToken]
    cases ht : l.token with
    | none => rfl
    | some tok => cases tok <;> rfl

/-- a root created from a context carries exactly that context in its token … -/
theorem C11_root_token (s : Sys) (t : Nat) (v n : String) (tr sp : Nat) (b : Bool)
    (hr : s.reporterReady = true) (hc : s.cyc = none) :
    ∃ inner, assocGet (exec s t (.root v n tr sp b)).1.spans v = some (some inner) ∧
      inner.token.map (fun it => (it.traceId, it.parentId, it.isSampled)) = [(tr, sp, b)] := by
  have hl : s.regLocked = false := by simp [Sys.regLocked, hc]
  simp only [exec, Sys.rootOp, hr, hl]
  cases b <;> simp [Sys.newSpan, assocGet_assocSet_same]

/-- … and the collector stamps a token item's `(trace, parent)` on the record: the record of
    a thread-safe span under item `(trace, parent)` has that trace id and that parent id.
    Together: a root created from `ctx` is delivered in trace `ctx.trace` under `ctx.span`. -/
theorem C11_record_of_item (conv : Nat → Nat) (raw : RawSpan) (trace parent : Nat) (hk : raw.kind = .span) :
    collectionCores conv ⟨.span raw, trace, parent⟩ =
      [⟨trace, raw.id, parent, conv raw.beginT, conv raw.endT - conv raw.beginT, raw.name⟩] := by
  simp [collectionCores, spanCore, hk]

/-- the same through a traceparent round trip (C12) -/
theorem C11_via_traceparent (c : SpanContext) (h : c.WF) :
    decodeTraceparent (encodeTraceparent c) = some c := C12_decode_encode c h

/-- **a root created from an extracted context continues that span's trace under that span**:
    `Span::root(name, SpanContext::from_span(&p)?)` — directly or after the context travelled as a
    traceparent string (`C11_via_traceparent`) — creates a root whose token names the first
    parent trace of `p`, `p`'s own id as parent, and that trace's sampling decision; by
    `C11_record_of_item` its record is delivered in that trace under `p` -/
theorem C11_rootFrom_token (s : Sys) (t : Nat) (v n p : String) (tp : Bool) (sp : SpanInner) (it : TokenItem) (rest : Token)
    (hp : assocGet s.spans p = some (some sp)) (htok : sp.token = it :: rest)
    (hr : s.reporterReady = true) (hc : s.cyc = none) :
    ∃ inner, assocGet (exec s t (.rootFrom v n p tp)).1.spans v = some (some inner) ∧
      inner.token.map (fun x => (x.traceId, x.parentId, x.isSampled)) = [(it.traceId, sp.raw.id, it.isSampled)] := by
  have hl : s.regLocked = false := by simp [Sys.regLocked, hc]
  simp only [exec, hp, issueToken, htok, List.map_cons, ctxOfToken, Sys.rootOp, hr, hl]
  cases it.isSampled <;> simp [Sys.newSpan, assocGet_assocSet_same]

/-- **whole programs**: whatever the program, a context extracted anywhere (from a span handle or
    from the local parent) names a trace that some `root` operation of the program created, with
    that root's sampling decision -/
theorem C11_context_belongs_to_a_root (p : Program) :
    ∀ o ∈ (run Sys.init p).2, ∀ c, o = .ctx (some c) →
      c.traceId ∈ sampledRootTraces p ∨ c.traceId ∈ unsampledRootTraces p := by
  intro o ho c hc
  have h := (run_prov_init p o ho).2 c hc
  cases hs : c.sampled with
  | true => exact .inl (h.1 hs)
  | false => exact .inr (h.2 hs)

end Fastrace
