import FastraceModel.Model.Report.Jaeger
import FastraceModel.Props.ParamsOk

/-!
# C20 — the Jaeger reporter sends every span once in packets below the UDP limit

`tryReportLoop` is `JaegerReporter::try_report` over an **arbitrary** size function `enc` and
limit `max`; the theorems hold for every batch, every size distribution, every limit.
Termination is part of the definition (well-founded on `(remaining, spans_per_batch)`), so
"the call terminates" is discharged by Lean accepting `tryReportLoop`.
-/
namespace Fastrace.Jaeger

variable {α : Type}

def Out.items : Out α → List α
  | .sent c => c
  | .skipped s => [s]

/-- loop-level partition: from any reachable loop state (`perBatch ≥ 1`) the outputs, in
    order, are exactly the remaining spans — nothing lost, duplicated or reordered -/
theorem tryReportLoop_partition (enc : List α → Nat) (max : Nat) (rest : List α) (perBatch : Nat)
    (hp : 1 ≤ perBatch) :
    (tryReportLoop enc max rest perBatch).flatMap Out.items = rest := by
  fun_induction tryReportLoop enc max rest perBatch with
  | case1 => rfl
  | case2 pb x xs hb => exfalso; omega
  | case3 pb x xs hb hmax hle ih => simp [Out.items, ih hp]
  | case4 pb x xs hb hmax hle ih => exact ih (by omega)
  | case5 pb x xs hb hmax ih =>
    simp only [List.flatMap_cons, Out.items, ih hp]
    exact List.take_append_drop _ _

/-- **partition**: datagram contents and skipped spans, interleaved in emission order, are the
    input batch -/
theorem C20_partition (enc : List α → Nat) (max : Nat) (spans : List α) :
    (tryReport enc max spans).flatMap Out.items = spans := by
  cases spans with
  | nil => simp [tryReport, tryReportLoop]
  | cons x xs => exact tryReportLoop_partition enc max (x :: xs) _ (by simp)

/-- **size**: every datagram is strictly below the limit -/
theorem C20_sizes (enc : List α → Nat) (max : Nat) (rest : List α) (perBatch : Nat) :
    ∀ c, Out.sent c ∈ tryReportLoop enc max rest perBatch → enc c < max := by
  fun_induction tryReportLoop enc max rest perBatch with
  | case1 => simp
  | case2 => simp
  | case3 pb x xs hb hmax hle ih => intro c hc; simp at hc; exact ih c hc
  | case4 pb x xs hb hmax hle ih => exact ih
  | case5 pb x xs hb hmax ih =>
    intro c hc
    simp only [List.mem_cons, Out.sent.injEq] at hc
    rcases hc with rfl | hc
    · omega
    · exact ih c hc

/-- **only oversize spans are skipped**: a skipped span does not fit in a datagram alone -/
theorem C20_skipped_only_oversize (enc : List α → Nat) (max : Nat) (rest : List α) (perBatch : Nat)
    (hp : 1 ≤ perBatch) :
    ∀ s, Out.skipped s ∈ tryReportLoop enc max rest perBatch → max ≤ enc [s] := by
  fun_induction tryReportLoop enc max rest perBatch with
  | case1 => simp
  | case2 => simp
  | case3 pb x xs hb hmax hle ih =>
    intro s hs
    simp only [List.mem_cons, Out.skipped.injEq] at hs
    rcases hs with rfl | hs
    · have h1 : min pb (xs.length + 1) = 1 := by omega
      rw [h1] at hmax
      simpa using hmax
    · exact ih hp s hs
  | case4 pb x xs hb hmax hle ih => exact ih (by omega)
  | case5 pb x xs hb hmax ih => intro s hs; simp at hs; exact ih hp s hs

/-- every datagram carries at least one span -/
theorem C20_sent_nonempty (enc : List α → Nat) (max : Nat) (rest : List α) (perBatch : Nat) :
    ∀ c, Out.sent c ∈ tryReportLoop enc max rest perBatch → c ≠ [] := by
  fun_induction tryReportLoop enc max rest perBatch with
  | case1 => simp
  | case2 => simp
  | case3 pb x xs hb hmax hle ih => intro c hc; simp at hc; exact ih c hc
  | case4 pb x xs hb hmax hle ih => exact ih
  | case5 pb x xs hb hmax ih =>
    intro c hc
    simp only [List.mem_cons, Out.sent.injEq] at hc
    rcases hc with rfl | hc
    · have : 0 < min pb (xs.length + 1) := Nat.pos_of_ne_zero hb
      intro h
      have := congrArg List.length h
      simp at this
      omega
    · exact ih c hc

/-- **a span that fits alone is transmitted exactly once**: it is never skipped, and by the
    partition identity each position of the batch occurs in exactly one output -/
theorem C20_fitting_never_skipped (enc : List α → Nat) (max : Nat) (spans : List α) (s : α)
    (hfit : enc [s] < max) : Out.skipped s ∉ tryReport enc max spans := by
  intro h
  cases spans with
  | nil => simp [tryReport, tryReportLoop] at h
  | cons x xs =>
    have := C20_skipped_only_oversize enc max (x :: xs) _ (by simp) s h
    omega

/-- the instance the reporter uses: size = length of the Thrift encoding, limit = the
    regenerated `MAX_UDP_PACKAGE_SIZE`, which is at most 8000 -/
theorem C20_real_sizes (svc : String) (rs : List Record) :
    ∀ d ∈ datagrams svc rs, d.length < 8000 := by
  intro d hd
  simp only [datagrams, List.mem_filterMap] at hd
  obtain ⟨o, ho, hod⟩ := hd
  cases o with
  | skipped s => simp at hod
  | sent c =>
    simp only [Option.some.injEq] at hod
    subst hod
    have := C20_sizes (fun c => (encodeBatch svc c).length) Consts.maxUdp rs rs.length c ho
    simpa [Consts.maxUdp] using this

/-! non-vacuity: a batch where halving, sending and skipping all happen -/
example : tryReport (fun c : List Nat => c.sum) 10 [3, 4, 5, 12, 1, 1] =
    [.sent [3], .sent [4], .sent [5], .skipped 12, .sent [1], .sent [1]] := by
  simp +decide [tryReport, tryReportLoop]
example : tryReport (fun c : List Nat => c.sum) 10 [1, 2, 3, 4, 5, 6] =
    [.sent [1, 2, 3], .sent [4], .sent [5], .sent [6]] := by
  simp +decide [tryReport, tryReportLoop]

end Fastrace.Jaeger
