import FastraceModel.Props.C10

/-!
# C13 — future adapters scope spans to polls and completion

The adapter methods are modelled by `Sys.adPoll` (method entered, guard created, inner about
to run) and `Sys.adEnd` (inner returned `result`, method returns); what the inner future does
in between is an arbitrary well-nested program (`Blk`), possibly on another thread than the
previous poll.

* `C13_local_parent_during_poll` — during the poll the adapter's span is the local parent:
  the current token is the span's issued token;
* `C13_context_restored` — whatever the inner does (well-nested), after the poll the thread's
  local context is exactly what it was before (frame theorem, `Blk.adCall`);
* `C13_finishes_iff` / `C13_finish_once` / `C13_drop_finishes_if_held` — the span is finished
  exactly when the future completes (`Ready`) or the adapter is dropped while still holding it,
  and never twice: after a finishing call the adapter holds no span;
* `C13_guard_before_span` — on completion the guard is dropped (submitting the final poll's
  local spans) **before** the span is submitted and, for a root, committed (D5 fix): with
  per-thread FIFO (C09) and C03_whole the final poll's spans are part of the delivered trace
  in both configurations;
* `C13_enter_on_poll` — `enter_on_poll` opens exactly one local span per poll, under the local
  parent in effect, and closes it when the poll returns.
-/
namespace Fastrace

/-- during the poll, the span is the local parent -/
theorem C13_local_parent_during_poll (s : Sys) (t : Nat) (a call : String) (ad : Adapter) (sp : SpanInner)
    (ha : assocGet s.adapters a = some ad) (hk : ad.kind ≠ .enterOnPoll) (hs : ad.span = some (some sp))
    (hroom : (s.th t).stack.lines.length < (s.th t).stack.cap) :
    ((s.adPoll t a call).1.th t).stack.currentToken = some (issueToken sp) := by
  unfold Sys.adPoll
  simp only [ha]
  have hreg : (s.th t).stack.registerLine (some (issueToken sp)) =
      some ({ (s.th t).stack with lines := SpanLine.new Consts.spanQueueSize (s.th t).stack.nextEpoch (some (issueToken sp)) :: (s.th t).stack.lines,
                                  nextEpoch := (s.th t).stack.nextEpoch + 1 }, (s.th t).stack.nextEpoch) := by
    simp [Stack.registerLine, Nat.not_le.mpr hroom]
  cases hkk : ad.kind with
  | enterOnPoll => exact (hk hkk).elim
  | inSpan | stream | sink =>
    all_goals
      simp only [hs, hreg, Sys.th_setTh_same, Stack.currentToken, SpanLine.currentToken, SpanLine.new,
        SpanQueue.withCapacity, Option.map_some, Option.getD_none]
      congr 1
      induction issueToken sp with
      | nil => rfl
      | cons x xs ih => simp [ih]

/-- the thread's previous local context is restored after every poll, whatever (well-nested)
    the inner future does, on whichever thread it is polled -/
theorem C13_context_restored (t : Nat) (a call result : String) (body : List Blk) (s : Sys)
    (hok : Blk.okList t body = true)
    (hobs : (runO s ((Blk.adCall a call result body).flat t)).all Obs.isOk = true) (hg : Good (s.th t)) :
    ((runS s ((Blk.adCall a call result body).flat t)).th t).stack.frame = (s.th t).stack.frame ∧
    ((runS s ((Blk.adCall a call result body).flat t)).th t).guards = (s.th t).guards :=
  C10_frame_restored t (.adCall a call result body) s (by simpa [Blk.ok] using hok) hobs hg

/-- which results finish a future adapter's span -/
theorem C13_finishes_iff (call result : String) :
    adFinishes .inSpan call result = (call == "poll" && result != "pending") ∧
    adFinishes .enterOnPoll call result = false := ⟨rfl, rfl⟩

/-- after a call that finishes, the adapter holds no span (so nothing can be finished twice);
    after a call that does not, it holds what it held -/
theorem C13_finish_once (s : Sys) (t : Nat) (a result call : String) (ad : Adapter) (g : Guard) (gs : List Guard)
    (ha : assocGet s.adapters a = some ad) (hg : (s.th t).guards = g :: gs) (hc : ad.inCall = some call) :
    ∃ ad', assocGet (s.adEnd t a result).1.adapters a = some ad' ∧ ad'.inCall = none ∧
      ad'.span = (if adFinishes ad.kind call result then none else ad.span) := by
  unfold Sys.adEnd
  simp only [ha, hg, hc]
  split
  · cases ad.span with
    | none => exact ⟨_, assocGet_assocSet_same _ _ _, rfl, rfl⟩
    | some sv =>
      refine ⟨{ ad with span := none, inCall := none }, ?_, rfl, rfl⟩
      dsimp only
      rw [Sys.dropSpanVal_adapters]
      exact assocGet_assocSet_same _ _ _
  · exact ⟨_, assocGet_assocSet_same _ _ _, rfl, rfl⟩

/-- dropping the adapter finishes the span iff the adapter still holds it -/
theorem C13_drop_finishes_if_held (s : Sys) (t : Nat) (a : String) (ad : Adapter)
    (ha : assocGet s.adapters a = some ad) :
    (exec s t (.adDrop a)).1 =
      (match ad.span with
       | some sv => ({ s with adapters := assocDel s.adapters a } : Sys).dropSpanVal t sv
       | none => { s with adapters := assocDel s.adapters a }) := by
  simp only [exec, ha]
  cases ad.span <;> rfl

/-- **the guard goes first**: when a call finishes the adapter, the state after it is
    "close the guard (submits the scope's local spans), then drop the span (submit, and commit
    for a root)" — in this order, in the calling thread's queue -/
theorem C13_guard_before_span (s : Sys) (t : Nat) (a result call : String) (ad : Adapter) (g : Guard) (gs : List Guard)
    (sv : SpanVal) (ha : assocGet s.adapters a = some ad) (hg : (s.th t).guards = g :: gs)
    (hc : ad.inCall = some call) (hs : ad.span = some sv) (hf : adFinishes ad.kind call result = true) :
    (s.adEnd t a result).1 =
      (let s1 := (s.setTh t { s.th t with guards := gs }).closeGuard t g
       ({ s1 with adapters := assocSet s1.adapters a { ad with span := none, inCall := none } } : Sys).dropSpanVal t sv) := by
  unfold Sys.adEnd
  simp only [ha, hg, hc, hf, hs, if_true]

/-- `enter_on_poll`: the poll opens one local span named as configured, under the local parent
    in effect (the current span line), exactly like `LocalSpan::enter_with_local_parent` -/
theorem C13_enter_on_poll (s : Sys) (t : Nat) (a call : String) (ad : Adapter)
    (ha : assocGet s.adapters a = some ad) (hk : ad.kind = .enterOnPoll) :
    ((s.adPoll t a call).1.th t).loc = ((exec s t (.localEnter ad.name)).1.th t).loc := by
  unfold Sys.adPoll
  simp only [ha, hk, exec]
  cases (s.th t).stack.enterSpan (s.ctr t) ad.name with
  | none => dsimp only; rw [Sys.th_setTh_same, Sys.th_setTh_same]
  | some r =>
    dsimp only
    rw [Sys.putCtr_loc, Sys.putCtr_loc, Sys.th_setTh_same, Sys.th_setTh_same]

end Fastrace
