import FastraceModel.Lemmas.Collector

/-!
# C17 — detached local spans attach identically wherever they are pushed
-/
namespace Fastrace

/-- `to_span_records(ctx)` **is** what post-processing the same set under a token item
    `(ctx.trace, ctx.span)` delivers (same functions, fresh attachment map) -/
theorem C17_to_records_is_postprocess (conv : Nat → Nat) (spans : List RawSpan) (endT trace parent : Nat) :
    toSpanRecords conv spans endT trace parent
      = (postprocess conv [⟨.locals spans endT, trace, parent⟩] [] []).1 := by
  simp [toSpanRecords, postprocess, amendCollection]

/-- the part of a record that must be identical in every copy -/
def copyView (k : Core) : Nat × String × Nat × Nat := (k.spanId, k.name, k.beginNs, k.durationNs)

/-- **copies are identical**: pushing the same set under any two parents (any traces) yields
    records with the same ids, names, begin times and durations, in the same order; every
    copy is in its parent's trace -/
theorem C17_copies_identical (conv : Nat → Nat) (spans : List RawSpan) (endT t1 p1 t2 p2 : Nat) :
    (collectionCores conv ⟨.locals spans endT, t1, p1⟩).map copyView
      = (collectionCores conv ⟨.locals spans endT, t2, p2⟩).map copyView ∧
    (∀ k ∈ collectionCores conv ⟨.locals spans endT, t1, p1⟩, k.traceId = t1) := by
  constructor
  · simp only [collectionCores]
    induction spans with
    | nil => rfl
    | cons raw rest ih =>
      simp only [List.flatMap_cons, List.map_append, ih]
      congr 1
      unfold localCore
      cases raw.kind <;> simp [copyView]
  · intro k hk
    simp only [collectionCores, List.mem_flatMap, localCore] at hk
    obtain ⟨raw, _, hk⟩ := hk
    cases hk2 : raw.kind <;> simp only [hk2] at hk <;> simp at hk
    subst hk; rfl

/-- the roots of the set hang under the parent it was pushed to; inner spans keep their
    recorded parent -/
theorem C17_parents (conv : Nat → Nat) (endT trace parent : Nat) (raw : RawSpan) (hk : raw.kind = .span) :
    (localCore conv endT trace parent raw).map (·.parentId)
      = [if raw.parentId = 0 then parent else raw.parentId] := by
  simp [localCore, hk]

/-- a span still open when the set was collected ends at the collection time -/
theorem C17_open_span_closed_at_collect (conv : Nat → Nat) (endT trace parent : Nat) (raw : RawSpan)
    (hk : raw.kind = .span) (ho : raw.endT = 0) :
    (localCore conv endT trace parent raw).map (·.durationNs) = [conv endT - conv raw.beginT] := by
  simp [localCore, hk, ho]

end Fastrace
