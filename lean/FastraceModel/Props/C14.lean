import FastraceModel.Props.C13

/-!
# C14 — Stream and Sink adapters scope spans the same way

The Stream/Sink adapter of `fastrace-futures` is the same `InSpan { inner, span: Option<Span> }`
with more methods; in the model all of them go through `Sys.adPoll` / `Sys.adEnd`, which are
kind-agnostic except for *which result finishes the span*.  So the theorems of C13
(`C13_local_parent_during_poll`, `C13_context_restored`, `C13_finish_once`,
`C13_guard_before_span`, `C13_drop_finishes_if_held`) apply verbatim to `poll_next`,
`poll_ready`, `start_send`, `poll_flush` and `poll_close`; what is specific is the table below.
-/
namespace Fastrace

/-- a stream's span finishes exactly when `poll_next` yields `None` -/
theorem C14_stream_finishes_iff (call result : String) :
    adFinishes .stream call result = (call == "poll_next" && result == "none") := rfl

/-- a sink's span finishes exactly when `poll_close` is `Ready` (`Ok` or `Err`), never on
    `poll_ready` / `start_send` / `poll_flush` -/
theorem C14_sink_finishes_iff (call result : String) :
    adFinishes .sink call result = (call == "poll_close" && result != "pending") := rfl

theorem C14_sink_other_calls_never_finish (result : String) :
    adFinishes .sink "poll_ready" result = false ∧ adFinishes .sink "start_send" result = false ∧
    adFinishes .sink "poll_flush" result = false := by
  simp [adFinishes]

theorem C14_stream_items_never_finish : adFinishes .stream "poll_next" "item" = false ∧
    adFinishes .stream "poll_next" "pending" = false := by
  simp [adFinishes]

/-- the span is the local parent during **every** stream / sink call -/
theorem C14_local_parent_during_call (s : Sys) (t : Nat) (a call : String) (ad : Adapter) (sp : SpanInner)
    (ha : assocGet s.adapters a = some ad) (hk : ad.kind = .stream ∨ ad.kind = .sink) (hs : ad.span = some (some sp))
    (hroom : (s.th t).stack.lines.length < (s.th t).stack.cap) :
    ((s.adPoll t a call).1.th t).stack.currentToken = some (issueToken sp) :=
  C13_local_parent_during_poll s t a call ad sp ha (by rcases hk with h | h <;> rw [h] <;> decide) hs hroom

/-- and the previous local context is restored after it -/
theorem C14_context_restored (t : Nat) (a call result : String) (body : List Blk) (s : Sys)
    (hok : Blk.okList t body = true)
    (hobs : (runO s ((Blk.adCall a call result body).flat t)).all Obs.isOk = true) (hg : Good (s.th t)) :
    ((runS s ((Blk.adCall a call result body).flat t)).th t).stack.frame = (s.th t).stack.frame :=
  (C13_context_restored t a call result body s hok hobs hg).1

end Fastrace
