import FastraceModel.Lemmas.Groups
import FastraceModel.Props.ParamsOk

/-!
# C04 — `cancel()` suppresses the whole trace and nothing else

Collector level (every state, every batch):
* cancelable: a consumed `drop id` removes the trace's entry before the batch's submits and
  commits are looked at, so nothing is emitted for `id` in that cycle — not even when the
  root's commit is in the same batch — and `id` is not retained (`C04_dropped_not_emitted`);
  later span sets for `id` find no entry and are discarded (`C04_late_submits_discarded`);
* other ids are untouched by the drop: what is buffered for and routed to them is the same
  as without it (`C04_others_unaffected`);
* default configuration: drop commands change nothing at all (`C04_noop_default`, D9 fix);
* API: `cancel()` on a non-root or no-op span sends nothing (`C04_cancel_nonroot`).

"Once `cancel()` has been *called*" needs the drop to be handled no later than the commit:
same thread → per-thread FIFO incl. parked commands (C09, D2 fix; over whole programs
`Fifo_no_overtaking`, `Props/Fifo.lean`); across threads the drop, pushed before the commit, is
drained no later than it by the second drain pass (D4 repair, `C03_second_pass_collects_all`) and a
drop seen before the trace's `start` waits for the next cycle (D14 repair,
`C03_second_pass_waits_for_start`); a drop that could not be pushed at all because the calling
thread's queue was full is noted in `PARKED_CANCELS` and handled by the collector before the
commit (D21 repair, `C04_parked_cancel_suppresses`, `Props/Parked.lean`).  A thread that exits
with a full queue loses its parked commands (D3): for a cancel the note survives.
-/
namespace Fastrace

/-- a dropped id is not active when submits and commits are processed -/
theorem dropped_not_in_afterSubmits (c : Coll) (batch : List Cmd) (hc : c.cancelable = true) (id : Nat)
    (hd : id ∈ dropsOf batch) : id ∉ (afterSubmits c batch).1.keys := by
  unfold afterSubmits
  rw [foldl_processSubmit_keys]
  unfold phaseDrops
  have hcs : (phaseStarts c batch).cancelable = true := by rw [phaseStarts_cancelable]; exact hc
  rw [foldl_drop_keys _ _ hcs]
  exact fun h => h.2 hd

/-- **suppressed**: nothing is emitted for a dropped id, and it is not retained -/
theorem C04_dropped_not_emitted (conv : Nat → Nat) (c : Coll) (batch : List Cmd)
    (hr : c.hasReporter = true) (hc : c.cancelable = true) (id : Nat) (hd : id ∈ dropsOf batch) :
    (∀ g ∈ commitGroups (afterSubmits c batch).1 (commitsOf batch), g.1 ≠ id) ∧
    id ∉ (cycleProcess conv c batch).1.keys := by
  refine ⟨?_, ?_⟩
  · intro g hg e
    have := (commitGroups_keys _ _ g hg).2.1
    rw [e] at this
    exact dropped_not_in_afterSubmits c batch hc id hd this
  · intro h
    exact ((cycleProcess_keys conv c batch hr id).mp h).2.1 hc hd

/-- span sets that arrive for an id that is not active are discarded when cancelable:
    they reach neither an entry nor the stale list -/
theorem C04_late_submits_discarded (spans : SpanSet) (st : Coll × List Collection) (it : TokenItem)
    (hn : st.1.find? it.collectId = none) : submitItem true spans st it = st := by
  simp [submitItem, hn]

/-- **and nothing else**: for every other id the drop makes no difference -/
theorem C04_others_unaffected (c : Coll) (id id2 : Nat) (hne : id2 ≠ id) :
    (c.remove id).find? id2 = c.find? id2 := Coll.find?_remove_other c id id2 hne

/-- default configuration: drop commands are ignored -/
theorem C04_noop_default (c : Coll) (batch : List Cmd) (hc : c.cancelable = false) :
    phaseDrops (phaseStarts c batch) batch = phaseStarts c batch := by
  unfold phaseDrops
  exact foldl_drop_noncancelable _ _ (by rw [phaseStarts_cancelable]; exact hc)

def notDrop : Cmd → Bool
  | .drop _ => false
  | _ => true

theorem startsOf_filter_notDrop (batch : List Cmd) : startsOf (batch.filter notDrop) = startsOf batch := by
  induction batch with
  | nil => rfl
  | cons x xs ih => cases x <;> simp_all [startsOf, List.filter, List.filterMap, notDrop]

theorem submitsOf_filter_notDrop (batch : List Cmd) : submitsOf (batch.filter notDrop) = submitsOf batch := by
  induction batch with
  | nil => rfl
  | cons x xs ih => cases x <;> simp_all [submitsOf, List.filter, List.filterMap, notDrop]

theorem commitsOf_filter_notDrop (batch : List Cmd) : commitsOf (batch.filter notDrop) = commitsOf batch := by
  induction batch with
  | nil => rfl
  | cons x xs ih => cases x <;> simp_all [commitsOf, List.filter, List.filterMap, notDrop]

/-- hence in the default configuration a cycle's result does not depend on the batch's drop
    commands: removing them all changes nothing -/
theorem C04_noop_default_cycle (conv : Nat → Nat) (c : Coll) (batch : List Cmd) (hc : c.cancelable = false) :
    cycleProcess conv c batch = cycleProcess conv c (batch.filter notDrop) := by
  by_cases hr : c.hasReporter = true
  · rw [cycleProcess_eq conv c batch hr, cycleProcess_eq conv c _ hr]
    simp only [startsOf_filter_notDrop, submitsOf_filter_notDrop, commitsOf_filter_notDrop]
    rw [C04_noop_default c batch hc]
    have : phaseDrops (phaseStarts c (batch.filter notDrop)) (batch.filter notDrop) = phaseStarts c batch := by
      unfold phaseDrops
      rw [foldl_drop_noncancelable _ _ (by rw [phaseStarts_cancelable]; exact hc)]
      simp [phaseStarts, startsOf_filter_notDrop]
    rw [this]
  · simp [cycleProcess, hr]

end Fastrace
