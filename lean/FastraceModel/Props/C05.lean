import FastraceModel.Lemmas.Assoc
import FastraceModel.Lemmas.Cycle
import FastraceModel.Lemmas.ProvExec

/-!
# C05 — unsampled traces are never delivered and the decision propagates

* the sampling flag of a token item is only ever **copied** (`issueToken`,
  `SpanLine.currentToken`), never changed;
* an unsampled root sends no `start` and carries the reserved collect id;
* `submit_spans` removes unsampled items and sends nothing if none remain — so no command
  that reaches the collector mentions an unsampled item, and a span with sampled and
  unsampled parents is submitted for exactly its sampled parents;
* the collector only emits records under the `(trace, parent)` of submitted items (C02 §3).

These step facts are composed into one **whole-program theorem**
(`C05_only_sampled_roots_delivered`): for every program over the modelled API (all operations of
`Model/Api.lean`: spans, multi-parent spans, local scopes, collectors, adapters, thread exit,
overload, stepped collector drains — any interleaving of any number of threads) every record of
every report carries a trace id that was supplied to a **sampled** `root` operation of that
program.  The proof is an invariant (`Prov`, `Lemmas/Prov*.lean`) over all places that can hold a
token or a command — span handles, adapters, span lines, rings, overflow lists, the drain buffer,
buffered collections — preserved by every operation.
-/
namespace Fastrace

/-- tokens issued by a span copy every item's trace id, collect id and sampling flag -/
theorem C05_issue_copies_flag (sp : SpanInner) :
    (issueToken sp).map (fun it => (it.traceId, it.collectId, it.isSampled))
      = sp.token.map (fun it => (it.traceId, it.collectId, it.isSampled)) := by
  simp [issueToken, List.map_map, Function.comp_def]

/-- so does the token of the current scope -/
theorem C05_scope_copies_flag (l : SpanLine) (tok : Token) (h : l.token = some tok) :
    ∃ tok', l.currentToken = some tok' ∧
      tok'.map (fun it => (it.traceId, it.collectId, it.isSampled))
        = tok.map (fun it => (it.traceId, it.collectId, it.isSampled)) := by
  refine ⟨tok.map fun it => { it with parentId := l.queue.nextParent.getD it.parentId }, ?_, ?_⟩
  · simp [SpanLine.currentToken, h]
  · simp [List.map_map, Function.comp_def]

/-- a scope records local spans iff **some** parent is sampled -/
theorem C05_scope_sampled_any (cap epoch : Nat) (tok : Token) :
    (SpanLine.new cap epoch (some tok)).isSampled = tok.any (·.isSampled) := rfl

/-- an unsampled scope records nothing: local spans, events, properties leave it unchanged
    and draw no id -/
theorem C05_unsampled_scope_inert (l : SpanLine) (c : Ctr) (n : String) (p : Option Props) (kvs : Props)
    (h : l.isSampled = false) :
    l.startSpan c n = none ∧ l.addEvent c n p = (l, c) ∧ l.addProps c kvs = (l, c) := by
  simp [SpanLine.startSpan, SpanLine.addEvent, SpanLine.addProps, h]

/-- an unsampled root sends **nothing** on creation (no `start`), and its token item is the
    unsampled one with the reserved collect id -/
theorem C05_unsampled_root (s : Sys) (t : Nat) (v n : String) (tr sp : Nat) (hr : s.reporterReady = true) :
    (exec s t (.root v n tr sp false)).1.rxs = s.rxs ∧
    (exec s t (.root v n tr sp false)).1.nextCollect = s.nextCollect ∧
    ∃ inner, assocGet (exec s t (.root v n tr sp false)).1.spans v = some (some inner) ∧
      inner.token = [⟨tr, sp, Consts.notSampledCollectId, true, false⟩] := by
  simp [exec, Sys.rootOp, hr, Sys.newSpan, assocGet_assocSet_same]

/-- **the filter**: what `submit_spans` hands to the channel contains sampled items only, in
    order, and nothing is handed over when no item is sampled -/
theorem C05_submit_filters (s : Sys) (t : Nat) (spans : SpanSet) (tok : Token) :
    s.submitSpans t spans tok =
      if (tok.filter (·.isSampled)).isEmpty then s
      else s.sendCmd t (.submit spans (tok.filter (·.isSampled))) false := by
  simp [Sys.submitSpans]

theorem C05_filter_sampled_only (tok : Token) : ∀ it ∈ tok.filter (·.isSampled), it.isSampled = true := by
  intro it h; exact (List.mem_filter.mp h).2

/-- a span all of whose parents are unsampled submits nothing when it finishes -/
theorem C05_all_unsampled_silent (s : Sys) (t : Nat) (spans : SpanSet) (tok : Token)
    (h : ∀ it ∈ tok, it.isSampled = false) : s.submitSpans t spans tok = s := by
  have : tok.filter (·.isSampled) = [] := by
    apply List.filter_eq_nil_iff.mpr
    intro it hit; simp [h it hit]
  simp [Sys.submitSpans, this]

/-- contexts carry the flag of the item they are read from -/
theorem C05_ctx_flag (tok : Token) (it : TokenItem) (rest : Token) (h : tok = it :: rest) :
    ctxOfToken tok = some ⟨it.traceId, it.parentId, it.isSampled⟩ := by
  subst h; rfl

/-- the collector never invents a trace id: every record core of a cycle's collections has
    the trace id of its collection, which is the trace id of a submitted (hence sampled) item -/
theorem C05_records_only_for_submitted (conv : Nat → Nat) (col : Collection) :
    ∀ k ∈ collectionCores conv col, k.traceId = col.traceId := by
  intro k hk
  unfold collectionCores at hk
  cases hs : col.spans with
  | span raw =>
    simp only [hs, spanCore] at hk
    cases hk2 : raw.kind <;> simp only [hk2] at hk <;> simp at hk
    subst hk; rfl
  | locals spans endT =>
    simp only [hs, List.mem_flatMap, localCore] at hk
    obtain ⟨raw, _, hk⟩ := hk
    cases hk2 : raw.kind <;> simp only [hk2] at hk <;> simp at hk
    subst hk; rfl

/-- **whatever the program, only sampled roots' traces reach the reporter**: every record of
    every report returned by any operation of any program carries a trace id supplied to a
    `root … sampled=true` operation of that program -/
theorem C05_only_sampled_roots_delivered (p : Program) :
    ∀ o ∈ (run Sys.init p).2, ∀ rs, o = .report (some rs) → ∀ r ∈ rs, r.traceId ∈ sampledRootTraces p :=
  fun o ho rs hrs => (run_prov_init p o ho).1 rs hrs

/-- **the sampling decision propagates to every extracted context, whatever the program**:
    a context returned by `SpanContext::from_span` / `current_local_parent` anywhere in any
    program carries `sampled = true` only with the trace id of a sampled root, and
    `sampled = false` only with the trace id of an unsampled root -/
theorem C05_contexts_carry_decision (p : Program) :
    ∀ o ∈ (run Sys.init p).2, ∀ c, o = .ctx (some c) →
      (c.sampled = true → c.traceId ∈ sampledRootTraces p) ∧ (c.sampled = false → c.traceId ∈ unsampledRootTraces p) :=
  fun o ho c hc => (run_prov_init p o ho).2 c hc

/-- a context of a trace that has no sampled root says `sampled = false` -/
theorem C05_unsampled_context (p : Program) (tr : Nat) (h : tr ∉ sampledRootTraces p) :
    ∀ o ∈ (run Sys.init p).2, ∀ c, o = .ctx (some c) → c.traceId = tr → c.sampled = false := by
  intro o ho c hc htr
  cases hs : c.sampled with
  | false => rfl
  | true => exact absurd (htr ▸ (C05_contexts_carry_decision p o ho c hc).1 hs) h

/-- **an unsampled trace produces no reporter output at all**: if no sampled root of the
    program uses trace id `tr` (the trace's roots are all created with `sampled = false`), no
    report of the program ever contains a record of trace `tr` — not the root, no descendant
    on any thread, no local span, no attached set, no copy of a multi-parent span -/
theorem C05_unsampled_trace_silent (p : Program) (tr : Nat)
    (h : ∀ x ∈ p, ∀ v n sp, x.2 ≠ .root v n tr sp true) :
    ∀ o ∈ (run Sys.init p).2, ∀ rs, o = .report (some rs) → ∀ r ∈ rs, r.traceId ≠ tr := by
  intro o ho rs hrs r hr e
  have := C05_only_sampled_roots_delivered p o ho rs hrs r hr
  rw [e] at this
  obtain ⟨x, hx, hin⟩ := List.mem_flatMap.mp this
  cases hop : x.2 with
  | root v n t2 sp b =>
    rw [hop] at hin
    cases b with
    | true =>
      simp only [opTraces, List.mem_singleton] at hin
      subst hin
      exact h x hx v n sp hop
    | false => simp [opTraces] at hin
  | _ => rw [hop] at hin; simp [opTraces] at hin

/-! non-vacuity of the whole-program theorems: a program with a sampled trace (7) and an
unsampled one (9, with a child); the one report holds trace 7 only -/
def c05Prog : Program :=
  [(0, .spawn), (0, .setReporter false), (0, .root "a" "ra" 7 0 true), (0, .root "b" "rb" 9 0 false),
   (0, .child1 "c" "cb" "b"), (0, .drop "c"), (0, .drop "b"), (0, .drop "a"), (0, .cycle)]
example : ((run Sys.init c05Prog).2.filterMap fun | .report (some rs) => some (rs.map (·.traceId)) | _ => none)
    = [[7]] := by decide
example : sampledRootTraces c05Prog = [7] ∧ unsampledRootTraces c05Prog = [9] := by decide
/-- … and a context extracted from the unsampled trace's child says (9, sampled = false) -/
example : ((run Sys.init (c05Prog.take 5 ++ [(0, .ctxOf "c")])).2.filterMap fun
    | .ctx (some c) => some (c.traceId, c.sampled) | _ => none) = [(9, false)] := by decide

/-! non-vacuity: a mixed parent set keeps its sampled parent only -/
example : ([⟨1, 2, 0, false, true⟩, ⟨3, 4, Consts.notSampledCollectId, false, false⟩] : Token).filter (·.isSampled)
    = [⟨1, 2, 0, false, true⟩] := by decide

end Fastrace
