import FastraceModel.Lemmas.Codec

/-!
# C12 — traceparent and id text codecs round-trip and never panic

Statements only (helper lemmas live in `Lemmas/Codec.lean`).  All model functions are total,
which is the model-side reading of "never panics"; the implementation side of that clause is
checked by the correspondence harness under `catch_unwind`.
-/
namespace Fastrace

/-- a context whose fields fit their Rust types -/
def SpanContext.WF (c : SpanContext) : Prop := c.traceId < 2 ^ 128 ∧ c.spanId < 2 ^ 64

/-- **round trip**: for every context (all 2^128 × 2^64 × 2), decoding the encoding gives it
    back. -/
theorem C12_decode_encode (c : SpanContext) (h : c.WF) :
    decodeTraceparent (encodeTraceparent c) = some c := by
  obtain ⟨ht, hs⟩ := h
  have e1 : splitOn dash (encodeTraceparent c)
      = [['0','0'], toHexFixed 32 c.traceId, toHexFixed 16 c.spanId,
         toHexFixed 2 (if c.sampled then 1 else 0)] := by
    have e0 : encodeTraceparent c = ['0','0'] ++ dash :: (toHexFixed 32 c.traceId ++ dash ::
        (toHexFixed 16 c.spanId ++ dash :: toHexFixed 2 (if c.sampled then 1 else 0))) := by
      simp [encodeTraceparent]
    rw [e0]
    rw [splitOn_append_sep dash ['0','0'] _ (by decide)]
    rw [splitOn_append_sep dash _ _ (toHexFixed_no_dash 32 _)]
    rw [splitOn_append_sep dash _ _ (toHexFixed_no_dash 16 _)]
    rw [splitOn_no_sep dash _ (toHexFixed_no_dash 2 _)]
  have p1 : parseRadix16 128 (toHexFixed 32 c.traceId) = some c.traceId :=
    parseRadix16_toHexFixed 128 32 _ (by decide) (by simpa using ht) (by decide)
  have p2 : parseRadix16 64 (toHexFixed 16 c.spanId) = some c.spanId :=
    parseRadix16_toHexFixed 64 16 _ (by decide) (by simpa using hs) (by decide)
  have p3 : parseRadix16 8 (toHexFixed 2 (if c.sampled then 1 else 0))
      = some (if c.sampled then 1 else 0) :=
    parseRadix16_toHexFixed 8 2 _ (by decide) (by cases c.sampled <;> decide) (by decide)
  unfold decodeTraceparent
  rw [e1]
  simp only [p1, p2, p3, if_true]
  cases c with
  | mk t s b => cases b <;> simp

/-- **fixed shape**: 55 characters, `00-` + 32 + `-` + 16 + `-` + 2, dashes exactly at
    2, 35, 52, every other character a lowercase hex digit. -/
theorem C12_encode_shape (c : SpanContext) :
    (encodeTraceparent c).length = 55 ∧
    ∃ t s f : List Char,
      encodeTraceparent c = ['0','0'] ++ [dash] ++ t ++ [dash] ++ s ++ [dash] ++ f ∧
      t.length = 32 ∧ s.length = 16 ∧ f.length = 2 ∧
      (∀ x ∈ t, isLowerHex x = true) ∧ (∀ x ∈ s, isLowerHex x = true) ∧
      (∀ x ∈ f, isLowerHex x = true) := by
  refine ⟨by simp [encodeTraceparent], toHexFixed 32 c.traceId, toHexFixed 16 c.spanId,
    toHexFixed 2 (if c.sampled then 1 else 0), rfl, by simp, by simp, by simp,
    toHexFixed_lower _ _, toHexFixed_lower _ _, toHexFixed_lower _ _⟩

/-- **decode, fully characterised**: the decoder answers `some c` exactly when the text has
    exactly four dash-separated fields, the first is `00`, and the other three are
    hexadecimal numerals fitting 128 / 64 / 8 bits; `c` carries those values and the low bit
    of the flags. `HexFits` is defined without the parser (see `Lemmas/Codec.lean`); its
    reading of "a hexadecimal number" is Rust's `from_str_radix`: one optional leading `+`,
    upper- or lower-case digits, any number of leading zeros. -/
theorem C12_decode_some_iff (s : List Char) (c : SpanContext) :
    decodeTraceparent s = some c ↔
      ∃ t p f fv, splitOn dash s = [['0','0'], t, p, f] ∧
        HexFits 128 t c.traceId ∧ HexFits 64 p c.spanId ∧ HexFits 8 f fv ∧
        c.sampled = (fv % 2 == 1) := by
  unfold decodeTraceparent
  constructor
  · intro h
    split at h
    · rename_i v t p f hsplit
      split at h
      · rename_i hv
        subst hv
        split at h
        · cases h
        · rename_i tv ht
          split at h
          · cases h
          · rename_i pv hp
            split at h
            · cases h
            · rename_i fv hf
              cases h
              exact ⟨t, p, f, fv, hsplit, (parseRadix16_eq_some_iff _ _ _).mp ht,
                (parseRadix16_eq_some_iff _ _ _).mp hp, (parseRadix16_eq_some_iff _ _ _).mp hf, rfl⟩
      · cases h
    · cases h
  · rintro ⟨t, p, f, fv, hsplit, ht, hp, hf, hs⟩
    rw [hsplit]
    simp only [if_true]
    rw [(parseRadix16_eq_some_iff _ _ _).mpr ht, (parseRadix16_eq_some_iff _ _ _).mpr hp,
      (parseRadix16_eq_some_iff _ _ _).mpr hf]
    cases c; simp_all

/-- **decode returns `None`** whenever the text is not four fields, the version is not `00`,
    or a field is not a fitting hexadecimal numeral (contrapositive of the above, spelled out
    because it is the clause the property states). -/
theorem C12_decode_none (s : List Char)
    (h : ¬ ∃ t p f, splitOn dash s = [['0','0'], t, p, f] ∧
          (∃ v, HexFits 128 t v) ∧ (∃ v, HexFits 64 p v) ∧ (∃ v, HexFits 8 f v)) :
    decodeTraceparent s = none := by
  cases hd : decodeTraceparent s with
  | none => rfl
  | some c =>
    obtain ⟨t, p, f, fv, hs, ht, hp, hf, _⟩ := (C12_decode_some_iff s c).mp hd
    exact absurd ⟨t, p, f, hs, ⟨_, ht⟩, ⟨_, hp⟩, ⟨_, hf⟩⟩ h

/-- `TraceId`: `Display` then `FromStr` (and serde, which uses the same two string
    functions) is the identity; the text is 32 lowercase hex digits. -/
theorem C12_traceId_roundtrip (n : Nat) (h : n < 2 ^ 128) :
    parseTraceId (displayTraceId n) = some n ∧ (displayTraceId n).length = 32 ∧
      ∀ x ∈ displayTraceId n, isLowerHex x = true :=
  ⟨parseRadix16_toHexFixed 128 32 n (by decide) (by simpa using h) (by decide), by simp [displayTraceId],
    toHexFixed_lower _ _⟩

theorem C12_spanId_roundtrip (n : Nat) (h : n < 2 ^ 64) :
    parseSpanId (displaySpanId n) = some n ∧ (displaySpanId n).length = 16 ∧
      ∀ x ∈ displaySpanId n, isLowerHex x = true :=
  ⟨parseRadix16_toHexFixed 64 16 n (by decide) (by simpa using h) (by decide), by simp [displaySpanId],
    toHexFixed_lower _ _⟩

/-! non-vacuity: concrete instances of the hypotheses, and the leniency that the model shares
with `from_str_radix` (documented, D13) -/
example : (SpanContext.mk (2 ^ 128 - 1) (2 ^ 64 - 1) true).WF := by unfold SpanContext.WF; decide
example : decodeTraceparent "00-0af7651916cd43dd8448eb211c80319c-b7ad6b7169203331-01".toList
    = some ⟨0x0af7651916cd43dd8448eb211c80319c, 0xb7ad6b7169203331, true⟩ := by decide
example : decodeTraceparent "00-+F-+1-+1".toList = some ⟨15, 1, true⟩ := by decide
example : decodeTraceparent "00--1-1".toList = none := by decide
example : decodeTraceparent "01-1-1-1".toList = none := by decide
example : decodeTraceparent "00-1-1-1-".toList = none := by decide
example : decodeTraceparent "00-1-1-100".toList = none := by decide

end Fastrace
