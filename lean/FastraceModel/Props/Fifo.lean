import FastraceModel.Lemmas.FifoCycle
import FastraceModel.Props.E2E

/-!
# Per-thread order of the command channel (C09, C04)

For **every program** (any interleaving of any operations on any number of threads, with stepped
collector cycles in between), and every thread that has not exited:

    what the thread's channel accepted, oldest first
      = what the collector has popped from that thread's ring, oldest first
        ++ what is in the ring ++ what is parked in the overflow list.

So nothing a live thread's channel accepted is dropped, duplicated or overtaken on its way to
the collector (C09), and in particular a cancel is popped before the commit the same thread
sent after it (C04).  No bound on the program, the number of threads or the queue contents.
-/
namespace Fastrace

/-- what thread `t`'s channel accepted, oldest first -/
def Sys.acceptedOf (s : Sys) (t : Nat) : List Cmd := (byT t s.g.acceptedBy).reverse
/-- what the collector has popped from thread `t`'s ring, oldest first -/
def Sys.drainedOf (s : Sys) (t : Nat) : List Cmd := (byT t s.g.drainedBy).reverse

theorem Fifo_invariant (p : Program) : FifoInv (run Sys.init p).1 :=
  run_fifo p Sys.init ChanInv.init FifoInv.init

/-- **accepted = drained ++ ring ++ overflow, in order, for every live thread** -/
theorem Fifo_per_thread_order (p : Program) (t : Nat) (ha : ((run Sys.init p).1.th t).alive = true) :
    (run Sys.init p).1.acceptedOf t
      = (run Sys.init p).1.drainedOf t ++ (run Sys.init p).1.ringQ t ++ ((run Sys.init p).1.th t).pending :=
  (Fifo_invariant p).order t ha

/-- what has been popped is a prefix of what was accepted: no command of a live thread is
    dropped, duplicated or overtaken by a later one -/
theorem Fifo_drained_is_prefix (p : Program) (t : Nat) (ha : ((run Sys.init p).1.th t).alive = true) :
    (run Sys.init p).1.drainedOf t <+: (run Sys.init p).1.acceptedOf t := by
  rw [Fifo_per_thread_order p t ha, List.append_assoc]
  exact List.prefix_append _ _

/-- the `i`-th command popped from a live thread's ring is the `i`-th command its channel accepted -/
theorem Fifo_same_position (p : Program) (t : Nat) (ha : ((run Sys.init p).1.th t).alive = true)
    (i : Nat) (hi : i < ((run Sys.init p).1.drainedOf t).length) :
    ((run Sys.init p).1.drainedOf t)[i]? = ((run Sys.init p).1.acceptedOf t)[i]? := by
  obtain ⟨rest, hrest⟩ := Fifo_drained_is_prefix p t ha
  rw [← hrest, List.getElem?_append_left hi]

/-- **no overtaking (C04: a cancel is consumed no later than the commit sent after it):** if a
    live thread's channel accepted `a` and later `b`, and `b` has been popped, then `a` was
    popped before it -/
theorem Fifo_no_overtaking (p : Program) (t : Nat) (ha : ((run Sys.init p).1.th t).alive = true)
    (pre mid post : List Cmd) (a b : Cmd)
    (hacc : (run Sys.init p).1.acceptedOf t = pre ++ a :: mid ++ b :: post)
    (hb : pre.length + 1 + mid.length < ((run Sys.init p).1.drainedOf t).length) :
    ∃ rest, (run Sys.init p).1.drainedOf t = pre ++ a :: mid ++ b :: rest := by
  obtain ⟨tail, htail⟩ := Fifo_drained_is_prefix p t ha
  generalize (run Sys.init p).1.drainedOf t = d at *
  generalize (run Sys.init p).1.acceptedOf t = acc at *
  subst hacc
  -- d is a prefix of pre ++ a :: mid ++ b :: post longer than pre ++ a :: mid
  have hlen : (pre ++ a :: mid ++ [b]).length ≤ d.length := by simp; omega
  have h1 : d ++ tail = (pre ++ a :: mid ++ [b]) ++ post := by rw [htail]; simp
  have hp : (pre ++ a :: mid ++ [b]) <+: d := by
    have hd : d <+: (pre ++ a :: mid ++ [b]) ++ post := ⟨tail, h1⟩
    have hx : (pre ++ a :: mid ++ [b]) <+: (pre ++ a :: mid ++ [b]) ++ post := List.prefix_append _ _
    exact List.prefix_of_prefix_length_le hx hd hlen
  obtain ⟨rest, hrest⟩ := hp
  exact ⟨rest, by rw [← hrest]; simp⟩

/-- every command a live thread's channel accepted is, at any moment, in exactly one place -/
theorem Fifo_count (p : Program) (t : Nat) (ha : ((run Sys.init p).1.th t).alive = true) :
    ((run Sys.init p).1.acceptedOf t).length
      = ((run Sys.init p).1.drainedOf t).length + ((run Sys.init p).1.ringQ t).length
        + ((run Sys.init p).1.th t).pending.length := by
  rw [Fifo_per_thread_order p t ha]; simp; omega

/-- at most one ring per thread, and only registered threads have one -/
theorem Fifo_one_ring_per_thread (p : Program) : (run Sys.init p).1.ringKeys.Nodup :=
  (Fifo_invariant p).nodup

/-! ### non-vacuity -/

def fifoDemo : Program :=
  (0, .setReporter false) :: demoProgram ++ [(0, .cycBegin), (0, .cycStep), (1, .spawn)]

example : ((run Sys.init fifoDemo).1.th 0).alive = true := by decide
example : ((run Sys.init fifoDemo).1.acceptedOf 0).length = 3 := by decide
example : ((run Sys.init fifoDemo).1.drainedOf 0).length = 3 := by decide
example : ((run Sys.init fifoDemo).1.acceptedOf 1).length = 1 := by decide
example : ((run Sys.init fifoDemo).1.ringQ 1).length = 1 := by decide

end Fastrace
