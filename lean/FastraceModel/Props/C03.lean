import FastraceModel.Lemmas.Groups
import FastraceModel.Lemmas.SecondPass
import FastraceModel.Props.ParamsOk

/-!
# C03 — cancelable mode holds a trace until its root finishes, then delivers it whole

Collector level, for **every** collector state and **every** drained batch, hence for every
history of batches: with `cancelable(true)` the report of a cycle is exactly the buffered span
sets of the collect ids whose `commit` is in that batch.

* `C03_only_at_commit` — nothing of a trace is reported in a cycle that does not consume the
  trace's commit (in particular: nothing before the root finishes);
* `C03_single_report` — each id is emitted at most once per cycle and is not retained
  afterwards, so nothing of it can be reported later;
* `C03_whole` — what is emitted for the id is everything buffered for it in earlier cycles
  followed by everything the batch routes to it, in arrival order: every span set whose
  submit was drained no later than the commit is in that one report.

"Every span that *finished* before the root" additionally needs its submit to be drained no
later than the commit.  Within one thread that follows from FIFO queues (C09).  Across threads
the queues are drained one after another, and a commit popped from a queue visited late could
be younger than a submit pushed meanwhile to a queue visited earlier: defect D4, repaired in
/repo by a **second drain pass** (commits first seen in the second pass wait for the next
cycle).  `C03_second_pass_collects_all` states what the second pass does, step by step: it
moves everything the retained receivers' rings hold into this cycle's batch.  Since whatever
was pushed before a commit was pushed is in its ring before that commit is popped in the first
pass, hence before the second pass begins, the batch of a cycle contains every command that
happened-before any commit it processes.  That last temporal step is an argument about the
real-time order of pushes, exercised by stepped cycles (corpus `C0x/D4-*.txt`), not a Lean
theorem.  D14 (a command consumed one cycle before its trace's *start*) is repaired: commands
first seen in the second pass wait for the next cycle unless a commit of this cycle needs them
(`C03_second_pass_waits_for_start`, `Sys.carried`; DESIGN.md §0.3).
-/
namespace Fastrace

/-- the span sets emitted by a cancelable cycle, grouped by collect id -/
def cancelableEmitted (c : Coll) (batch : List Cmd) : List (Nat × List Collection) :=
  commitGroups (afterSubmits c batch).1 (commitsOf batch)

/-- the report of a cancelable cycle is exactly the emitted groups (up to mounted attachments) -/
theorem C03_report_is_emitted (conv : Nat → Nat) (c : Coll) (batch : List Cmd)
    (hr : c.hasReporter = true) (hc : c.cancelable = true) :
    ∃ recs, (cycleProcess conv c batch).2 = some recs ∧
      recs.map Record.core = (cancelableEmitted c batch).flatMap (fun g => g.2.flatMap (collectionCores conv)) :=
  cancelable_cycle_records conv c batch hr hc

/-- **held until the commit**: a group is emitted only for an id committed in this batch -/
theorem C03_only_at_commit (c : Coll) (batch : List Cmd) :
    ∀ g ∈ cancelableEmitted c batch, g.1 ∈ commitsOf batch :=
  fun g hg => (commitGroups_keys _ _ g hg).1

/-- a cycle whose batch contains no commit reports nothing at all -/
theorem C03_no_commit_no_records (conv : Nat → Nat) (c : Coll) (batch : List Cmd)
    (hr : c.hasReporter = true) (hc : c.cancelable = true) (hn : commitsOf batch = []) :
    (cycleProcess conv c batch).2 = some [] := by
  obtain ⟨recs, h1, h2⟩ := C03_report_is_emitted conv c batch hr hc
  have : cancelableEmitted c batch = [] := by simp [cancelableEmitted, hn, commitGroups]
  rw [this] at h2
  simp only [List.flatMap_nil, List.map_eq_nil_iff] at h2
  rw [h1, h2]

/-- **single report**: each id at most once in a report, and gone afterwards -/
theorem C03_single_report (conv : Nat → Nat) (c : Coll) (batch : List Cmd) (hr : c.hasReporter = true) :
    ((cancelableEmitted c batch).map (·.1)).Nodup ∧
    ∀ id ∈ commitsOf batch, id ∉ (cycleProcess conv c batch).1.keys :=
  ⟨commitGroups_nodup _ _, fun id hid h => ((cycleProcess_keys conv c batch hr id).mp h).2.2 hid⟩

/-- **whole**: the group of a committed id is what was buffered for it before plus what this
    batch routes to it, in arrival order -/
theorem C03_whole (c : Coll) (batch : List Cmd) :
    ∀ g ∈ cancelableEmitted c batch,
      g.2 = (phaseDrops (phaseStarts c batch) batch).colsOf g.1 ++ routed g.1 (submitsOf batch) := by
  intro g hg
  obtain ⟨_, hk, hcols⟩ := commitGroups_keys _ _ g hg
  rw [hcols]
  unfold afterSubmits at hk ⊢
  have hk1 : g.1 ∈ (phaseDrops (phaseStarts c batch) batch, ([] : List Collection)).1.keys :=
    (foldl_processSubmit_keys _ _ _).mp hk
  exact foldl_processSubmit_colsOf _ _ _ hk1

/-- a trace that is not committed in this batch keeps accumulating: nothing is lost while it
    is held -/
theorem C03_held_accumulates (c : Coll) (batch : List Cmd) (id : Nat)
    (hid : id ∈ (phaseDrops (phaseStarts c batch) batch).keys) :
    (afterSubmits c batch).1.colsOf id
      = (phaseDrops (phaseStarts c batch) batch).colsOf id ++ routed id (submitsOf batch) :=
  foldl_processSubmit_colsOf _ _ _ hid

/-! non-vacuity: start + two submits + commit in one batch → one report with both span sets;
the same without the commit → empty report, both held -/
example :
    let raw (i : Nat) : RawSpan := ⟨i, 0, 1, "s", none, .span, 2⟩
    let tok : Token := [⟨9, 0, 0, true, true⟩]
    ((cycleProcess id ⟨true, true, []⟩ [.start 0, .submit (.span (raw 1)) tok, .submit (.span (raw 2)) tok, .commit 0]).2.map
        (·.map (·.spanId))) = some [1, 2] ∧
    ((cycleProcess id ⟨true, true, []⟩ [.start 0, .submit (.span (raw 1)) tok, .submit (.span (raw 2)) tok]).2.map
        (·.map (·.spanId))) = some [] := by
  decide

/-! ### the second drain pass (D4 repair) -/

/-- **the second pass collects everything the retained receivers hold**: from the moment the
    first pass is over (phase `atRx2`, all retained receivers still to revisit, distinct
    threads), `kept.length` collector steps later the cycle is about to process and report, the
    first-pass buffer is untouched, every retained ring is empty, and the second-pass buffer
    holds exactly what those rings held, in registry and ring order.  `Sys.finishCycle` then
    takes from it everything except commits, which become the next cycle's deferred commits. -/
theorem C03_second_pass_collects_all (s : Sys) (cs : CycState) (hc : s.cyc = some cs)
    (hp : cs.phase = .atRx2) (ht : cs.todo2 = keysOf cs.kept) (hn : (keysOf cs.kept).Nodup) (hne : cs.kept ≠ []) :
    ∃ cs', (stepN cs.kept.length s).cyc = some cs' ∧ cs'.phase = .atReport ∧ cs'.buf = cs.buf ∧
      cs'.kept = cs.kept.map (fun e => (e.1, { e.2 with q := [] })) ∧
      cs'.buf2 = cs.buf2 ++ cs.kept.flatMap (·.2.q) := by
  have hne' : keysOf cs.kept ≠ [] := by
    cases hk : cs.kept with
    | nil => exact absurd hk hne
    | cons a b => simp [keysOf]
  obtain ⟨cs', e1, e2, e3, e4⟩ := stepN_second_pass (keysOf cs.kept) s cs hc hp ht hne'
  have hlen : (keysOf cs.kept).length = cs.kept.length := by simp [keysOf]
  rw [hlen] at e1
  rw [pass2_collects cs.kept cs.buf2 hn] at e4
  simp only [Prod.mk.injEq] at e4
  exact ⟨cs', e1, e2, e3, e4.1, e4.2⟩

/-- what the cycle then does with the two buffers: the batch is the deferred commits, what the
    previous cycle carried over, the first pass, and of the second pass what `splitSecond` lets
    through — never its commits; those become the deferred commits of the next cycle (when a
    reporter is installed), and what `splitSecond` holds back becomes the next cycle's `carried` -/
theorem C03_finish_defers_second_pass_commits (s : Sys) (kept : List (Nat × Ring Cmd)) (buf buf2 : List Cmd) :
    (s.finishCycle kept buf buf2).1.deferred = (if s.coll.hasReporter then commitsOf buf2 else []) ∧
    (s.finishCycle kept buf buf2).1.carried = (if s.coll.hasReporter then (s.cycleSplit buf buf2).2 else []) ∧
    (s.finishCycle kept buf buf2).2 = (cycleProcess id s.coll (s.cycleBatch buf buf2)).2 :=
  ⟨rfl, rfl, rfl⟩

/-- the second pass never lets a commit through -/
theorem C03_split_no_commit (cb : Bool) (c1 c2 : Coll) (cm : List Nat) (l : List Cmd) :
    commitsOf (splitSecond cb c1 c2 cm l).1 = [] ∧ commitsOf (splitSecond cb c1 c2 cm l).2 = [] := by
  induction l with
  | nil => exact ⟨rfl, rfl⟩
  | cons x xs ih =>
    cases x with
    | start id => simpa [splitSecond, commitsOf] using ih
    | commit id => simpa [splitSecond] using ih
    | drop id =>
      simp only [splitSecond]
      split <;> simpa [commitsOf] using ih
    | submit sp tok =>
      simp only [splitSecond]
      constructor
      · split
        · exact ih.1
        · simpa [commitsOf] using ih.1
      · split
        · exact ih.2
        · simpa [commitsOf] using ih.2

/-- **D14 repair**: a cancel or a span set first seen in the second pass whose trace has not been started
    (its start command is still in a channel) is not consumed by this cycle — it is carried -/
theorem C03_second_pass_waits_for_start (cb : Bool) (c1 c2 : Coll) (cm : List Nat) (l : List Cmd) :
    (∀ id, Cmd.drop id ∈ (splitSecond cb c1 c2 cm l).1 → c1.known id = true) ∧
    (∀ sp tok, Cmd.submit sp tok ∈ (splitSecond cb c1 c2 cm l).1 → ∀ it ∈ tok, c2.known it.collectId = true) := by
  induction l with
  | nil => exact ⟨by simp [splitSecond], by simp [splitSecond]⟩
  | cons x xs ih =>
    cases x with
    | start id =>
      simp only [splitSecond]
      exact ⟨fun i hi => ih.1 i (by simpa using hi), fun sp tok hi => ih.2 sp tok (by simpa using hi)⟩
    | commit id => simpa [splitSecond] using ih
    | drop id =>
      simp only [splitSecond]
      split
      · rename_i hk
        refine ⟨fun i hi => ?_, fun sp tok hi => ih.2 sp tok (by simpa using hi)⟩
        simp only [List.mem_cons, Cmd.drop.injEq] at hi
        rcases hi with rfl | hi
        · exact hk
        · exact ih.1 i hi
      · exact ih
    | submit sp tok =>
      simp only [splitSecond]
      split
      · exact ih
      · refine ⟨fun i hi => ih.1 i (by simpa using hi), fun sp' tok' hi => ?_⟩
        simp only [List.mem_cons, Cmd.submit.injEq] at hi
        rcases hi with ⟨rfl, rfl⟩ | hi
        · intro it hit
          have := (List.mem_filter.mp hit).2
          simp only [carryItem, Bool.not_eq_true', Bool.or_eq_false_iff, Bool.not_eq_false'] at this
          exact this.1
        · exact ih.2 sp' tok' hi

/-! non-vacuity: two retained receivers, the second pass picks up what arrived meanwhile -/
example :
    let cs : CycState := { phase := .atRx2, todo := [], kept := [(0, ⟨[.commit 7], 4, true⟩), (1, ⟨[.start 9], 4, true⟩)],
                           buf := [], todo2 := [0, 1] }
    let s : Sys := { Sys.init with cyc := some cs }
    ((stepN 2 s).cyc.map fun c => (c.buf2, c.kept.map (·.2.q))) = some ([.commit 7, .start 9], [[], []]) := by
  decide

end Fastrace
