import FastraceModel.Lemmas.Groups
import FastraceModel.Props.ParamsOk

/-!
# C03 — cancelable mode holds a trace until its root finishes, then delivers it whole

Collector level, for **every** collector state and **every** drained batch, hence for every
history of batches: with `cancelable(true)` the report of a cycle is exactly the buffered span
sets of the collect ids whose `commit` is in that batch.

* `C03_only_at_commit` — nothing of a trace is reported in a cycle that does not consume the
  trace's commit (in particular: nothing before the root finishes);
* `C03_single_report` — each id is emitted at most once per cycle and is not retained
  afterwards, so nothing of it can be reported later;
* `C03_whole` — what is emitted for the id is everything buffered for it in earlier cycles
  followed by everything the batch routes to it, in arrival order: every span set whose
  submit was drained no later than the commit is in that one report.

Partial: "every span that *finished* before the root" additionally needs its submit to be
drained no later than the commit.  Within one thread that follows from FIFO queues (C09);
across threads it is the consistent-cut hypothesis that the sequential drain does not provide
(open finding D4) — `C03_whole` states the conclusion relative to what was drained.
-/
namespace Fastrace

/-- the span sets emitted by a cancelable cycle, grouped by collect id -/
def cancelableEmitted (c : Coll) (batch : List Cmd) : List (Nat × List Collection) :=
  commitGroups (afterSubmits c batch).1 (commitsOf batch)

/-- the report of a cancelable cycle is exactly the emitted groups (up to mounted attachments) -/
theorem C03_report_is_emitted (conv : Nat → Nat) (c : Coll) (batch : List Cmd)
    (hr : c.hasReporter = true) (hc : c.cancelable = true) :
    ∃ recs, (cycleProcess conv c batch).2 = some recs ∧
      recs.map Record.core = (cancelableEmitted c batch).flatMap (fun g => g.2.flatMap (collectionCores conv)) :=
  cancelable_cycle_records conv c batch hr hc

/-- **held until the commit**: a group is emitted only for an id committed in this batch -/
theorem C03_only_at_commit (c : Coll) (batch : List Cmd) :
    ∀ g ∈ cancelableEmitted c batch, g.1 ∈ commitsOf batch :=
  fun g hg => (commitGroups_keys _ _ g hg).1

/-- a cycle whose batch contains no commit reports nothing at all -/
theorem C03_no_commit_no_records (conv : Nat → Nat) (c : Coll) (batch : List Cmd)
    (hr : c.hasReporter = true) (hc : c.cancelable = true) (hn : commitsOf batch = []) :
    (cycleProcess conv c batch).2 = some [] := by
  obtain ⟨recs, h1, h2⟩ := C03_report_is_emitted conv c batch hr hc
  have : cancelableEmitted c batch = [] := by simp [cancelableEmitted, hn, commitGroups]
  rw [this] at h2
  simp only [List.flatMap_nil, List.map_eq_nil_iff] at h2
  rw [h1, h2]

/-- **single report**: each id at most once in a report, and gone afterwards -/
theorem C03_single_report (conv : Nat → Nat) (c : Coll) (batch : List Cmd) (hr : c.hasReporter = true) :
    ((cancelableEmitted c batch).map (·.1)).Nodup ∧
    ∀ id ∈ commitsOf batch, id ∉ (cycleProcess conv c batch).1.keys :=
  ⟨commitGroups_nodup _ _, fun id hid h => ((cycleProcess_keys conv c batch hr id).mp h).2.2 hid⟩

/-- **whole**: the group of a committed id is what was buffered for it before plus what this
    batch routes to it, in arrival order -/
theorem C03_whole (c : Coll) (batch : List Cmd) :
    ∀ g ∈ cancelableEmitted c batch,
      g.2 = (phaseDrops (phaseStarts c batch) batch).colsOf g.1 ++ routed g.1 (submitsOf batch) := by
  intro g hg
  obtain ⟨_, hk, hcols⟩ := commitGroups_keys _ _ g hg
  rw [hcols]
  unfold afterSubmits at hk ⊢
  have hk1 : g.1 ∈ (phaseDrops (phaseStarts c batch) batch, ([] : List Collection)).1.keys :=
    (foldl_processSubmit_keys _ _ _).mp hk
  exact foldl_processSubmit_colsOf _ _ _ hk1

/-- a trace that is not committed in this batch keeps accumulating: nothing is lost while it
    is held -/
theorem C03_held_accumulates (c : Coll) (batch : List Cmd) (id : Nat)
    (hid : id ∈ (phaseDrops (phaseStarts c batch) batch).keys) :
    (afterSubmits c batch).1.colsOf id
      = (phaseDrops (phaseStarts c batch) batch).colsOf id ++ routed id (submitsOf batch) :=
  foldl_processSubmit_colsOf _ _ _ hid

/-! non-vacuity: start + two submits + commit in one batch → one report with both span sets;
the same without the commit → empty report, both held -/
example :
    let raw (i : Nat) : RawSpan := ⟨i, 0, 1, "s", none, .span, 2⟩
    let tok : Token := [⟨9, 0, 0, true, true⟩]
    ((cycleProcess id ⟨true, true, []⟩ [.start 0, .submit (.span (raw 1)) tok, .submit (.span (raw 2)) tok, .commit 0]).2.map
        (·.map (·.spanId))) = some [1, 2] ∧
    ((cycleProcess id ⟨true, true, []⟩ [.start 0, .submit (.span (raw 1)) tok, .submit (.span (raw 2)) tok]).2.map
        (·.map (·.spanId))) = some [] := by
  decide

end Fastrace
