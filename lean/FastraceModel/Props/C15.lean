import FastraceModel.Model.Macro
import FastraceModel.Props.C13
import FastraceModel.Props.ParamsOk

/-!
# C15 — `#[trace]` changes nothing but adds exactly one span per call

What Lean carries (decision logic, all argument combinations and all strings):

* `C15_rejections`: the attribute is rejected exactly for: empty `name`; `name` with
  `short_name`; `properties` with `enter_on_poll`; `enter_on_poll` on a non-async function —
  and accepted otherwise (duplicate arguments / keys are syntax-level rejections of the
  parser, covered by the repository's trybuild test);
* `C15_name`: the span name is the configured name, else the bare identifier with
  `short_name`, else `func_path!()`;
* `C15_wrapper`: sync → a `LocalSpan` guard around the unchanged block; async → `in_span` on a
  `Span::enter_with_local_parent`, or `enter_on_poll` (no properties), `.await`ed for an
  `async fn` and not for an async-trait wrapper;
* `C15_unescape_*`: a value without placeholders is emitted as a literal with `{{`→`{` and
  `}}`→`}`; a value with a `{` or `}` left after deleting the escapes goes to `format!`
  unchanged; escape-free strings are emitted unchanged;
* what each wrapper does at run time is C10 (sync guard = `Blk.localSpan`: context restored,
  one local span) and C13 (`in_span`, `enter_on_poll`).

What Lean cannot carry — that the real expansion *is* the modelled wrapper around the
**unchanged** body for all Rust functions, and that rustc's evaluation of it preserves results,
side effects, panics and `?` — is checked, not proved: annotated/plain twins over the
signature shapes and bodies listed in the evidence file are compiled with the real macro and
compared on return values, side-effect logs, unwind payloads and recorded spans (name,
properties incl. evaluated format strings, parent, count; nothing without a local parent).
-/
namespace Fastrace.Macro

/-- **the rejection table** -/
theorem C15_rejections (fn : String) (isAsync : Bool) (a : Args) :
    (∃ e, expand fn isAsync false a = .error e) ↔
      (a.name = some "" ∨ (a.name.isSome ∧ a.shortName = true) ∨
       (a.properties ≠ [] ∧ a.enterOnPoll = true) ∨ (isAsync = false ∧ a.enterOnPoll = true)) := by
  obtain ⟨name, short, eop, props⟩ := a
  cases name with
  | none =>
    cases short <;> cases eop <;> cases isAsync <;> cases props <;>
      simp [expand, genBlock, genName, genProperties]
  | some n =>
    by_cases hn : n = ""
    · subst hn
      cases short <;> cases eop <;> cases isAsync <;> cases props <;>
        simp [expand, genBlock, genName, genProperties]
    · have hne : n.isEmpty = false := by
        cases h : n.isEmpty with
        | false => rfl
        | true => exact absurd (String.isEmpty_iff.mp h) hn
      cases short <;> cases eop <;> cases isAsync <;> cases props <;>
        simp [expand, genBlock, genName, genProperties, hne, hn]

/-- **the span name** of an accepted attribute -/
theorem C15_name (fn : String) (isAsync tr : Bool) (a : Args) (x : Expansion) (h : expand fn isAsync tr a = .ok x) :
    x.name = (match a.name with
      | some n => .literal n
      | none => if a.shortName then .ident fn else .funcPath) := by
  unfold expand at h
  have key : ∀ ac ak, genBlock fn ac ak a = .ok x → x.name = (match a.name with
      | some n => .literal n
      | none => if a.shortName then .ident fn else .funcPath) := by
    intro ac ak hb
    unfold genBlock at hb
    cases hn : genName fn a with
    | error e => simp [hn] at hb
    | ok nm =>
      simp only [hn] at hb
      cases hp : genProperties a with
      | error e => simp [hp] at hb
      | ok ps =>
        simp only [hp] at hb
        have hx : x.name = nm := by
          split at hb
          · cases hb; rfl
          · split at hb
            · cases hb
            · cases hb; rfl
        rw [hx]
        unfold genName at hn
        cases han : a.name with
        | none => simp only [han] at hn ⊢; split at hn <;> (cases hn; simp_all)
        | some n =>
          simp only [han] at hn ⊢
          split at hn
          · cases hn
          · split at hn
            · cases hn
            · cases hn; rfl
  split at h
  · exact key _ _ h
  · exact key _ _ h

/-- **which wrapper**: sync functions get a local-span guard; async ones `in_span`, or
    `enter_on_poll` without properties; an `async fn` is awaited, an async-trait wrapper is not -/
theorem C15_wrapper (fn : String) (isAsync tr : Bool) (a : Args) (x : Expansion) (h : expand fn isAsync tr a = .ok x) :
    x.wrapper = (if tr ∨ isAsync then (if a.enterOnPoll then .asyncEnterOnPoll else .asyncInSpan) else .syncGuard) ∧
    x.awaited = (!tr && isAsync) ∧ (x.wrapper = .asyncEnterOnPoll → x.props = []) := by
  unfold expand at h
  cases tr <;> cases isAsync <;> simp only [genBlock, Bool.false_eq_true, if_false, if_true] at h <;>
    (cases hn : genName fn a <;> simp only [hn] at h <;> try cases h) <;>
    (cases hp : genProperties a <;> simp only [hp] at h <;> try cases h) <;>
    (try (split at h <;> cases h)) <;> simp_all

/-- a string without braces is emitted unchanged, as a literal -/
theorem replace2_no_match (p1 p2 : Char) (to s : List Char) (h : ∀ c ∈ s, c ≠ p1) : replace2 p1 p2 to s = s := by
  induction s with
  | nil => rfl
  | cons a rest ih =>
    cases rest with
    | nil => rfl
    | cons b rest' =>
      have ha : a ≠ p1 := h a (by simp)
      simp only [replace2, ha, false_and, if_false]
      rw [ih (fun c hc => h c (by simp [hc]))]

theorem C15_unescape_plain (s : List Char) (h : ∀ c ∈ s, c ≠ '{' ∧ c ≠ '}') : unescape s = (s, false) := by
  have h1 : replace2 '{' '{' [] s = s := replace2_no_match _ _ _ _ (fun c hc => (h c hc).1)
  have h2 : replace2 '}' '}' [] s = s := replace2_no_match _ _ _ _ (fun c hc => (h c hc).2)
  have h3 : replace2 '{' '{' ['{'] s = s := replace2_no_match _ _ _ _ (fun c hc => (h c hc).1)
  have h4 : replace2 '}' '}' ['}'] s = s := replace2_no_match _ _ _ _ (fun c hc => (h c hc).2)
  have hany : (s.any fun c => decide (c = '{' ∨ c = '}')) = false := by
    simp only [List.any_eq_false, decide_eq_true_eq, not_or]
    exact h
  simp only [unescape, h1, h2, h3, h4, hany]
  rfl

/-- a value that needs `format!` is passed through untouched -/
theorem C15_unescape_format_unchanged (s : List Char) (h : (unescape s).2 = true) : (unescape s).1 = s := by
  unfold unescape at h ⊢
  by_cases hc : ((replace2 '}' '}' [] (replace2 '{' '{' [] s)).any fun c => decide (c = '{' ∨ c = '}')) = true
  · simp only [hc, if_true]
  · simp only [hc] at h
    simp at h

/-- concrete evaluations of the literal path (compared with the real macro on every run) -/
theorem C15_unescape_examples :
    unescape "{{braces}}".toList = ("{braces}".toList, false) ∧
    unescape "}}{{ a {{}} b".toList = ("}{ a {} b".toList, false) ∧
    (unescape "a={a}".toList).2 = true ∧ (unescape "{a:?} and {{x}}".toList).2 = true ∧
    unescape "{{{{".toList = ("{{".toList, false) := by decide

/-! non-vacuity: an accepted and a rejected attribute -/
example : expand "f" true false ⟨none, true, true, []⟩ = .ok ⟨.asyncEnterOnPoll, .ident "f", [], true⟩ := by
  simp [expand, genBlock, genName, genProperties]
example : expand "f" false false ⟨some "n", false, true, []⟩ = .error .enterOnPollOnSync := by
  simp [expand, genBlock, genName, genProperties]

end Fastrace.Macro
