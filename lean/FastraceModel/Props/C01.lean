import FastraceModel.Lemmas.Default
import FastraceModel.Props.ParamsOk

/-!
# C01 — every finished span of a sampled trace is delivered exactly once (default config)

Collector level, for **every** reachable collector state and **every** drained batch — so for
every placement of cycles and every order in which the threads' queues were drained:

`C01_cycle_reports_everything_once`: in the default configuration the report of a cycle is a
permutation of *exactly* the span sets submitted in the drained batch, one copy per token item
(= per sampled parent), whether or not their trace is still active (late spans take the
stale path, with the same result) and whether or not the trace's commit is in the batch.
Nothing drained is held back to a later cycle (`Flushed` is an invariant), nothing is
reported twice, nothing is invented.

Together with the channel theorems (C09: every accepted command is drained exactly once, in
per-thread order; a receiver is only removed when its ring is empty and its producer gone —
D1 fix) this is "exactly once, in the cycle that drains it, at the latest when a `flush()`
called afterwards returns" (`flush()` = one complete cycle, `C01_flush_is_a_cycle`).

Partial: the wall-clock clause ("within about one report interval") is outside the model; the
background thread is `loop { cycle; sleep }`, and one cycle suffices by the theorem.
-/
namespace Fastrace
open List

/-- no span set is held back between cycles -/
def Flushed (c : Coll) : Prop := ∀ e ∈ c.active, e.2.collections = []

theorem allCols_of_flushed (active : List (Nat × Active)) (h : ∀ e ∈ active, e.2.collections = []) :
    allCols active = [] := by
  induction active with
  | nil => rfl
  | cons e es ih =>
    simp only [allCols, List.flatMap_cons]
    rw [h e (by simp)]
    exact ih (fun x hx => h x (by simp [hx]))

theorem flushed_insert_empty (c : Coll) (id : Nat) (h : Flushed c) : Flushed (c.insert id Active.empty) := by
  intro e he
  simp only [Coll.insert, List.mem_append, List.mem_filter, List.mem_singleton] at he
  rcases he with ⟨he, _⟩ | rfl
  · exact h e he
  · rfl

theorem phaseStarts_inv (c : Coll) (batch : List Cmd) (hf : Flushed c) (hn : KeysNodup c) :
    Flushed (phaseStarts c batch) ∧ KeysNodup (phaseStarts c batch) := by
  unfold phaseStarts
  generalize startsOf batch = ids
  induction ids generalizing c with
  | nil => exact ⟨hf, hn⟩
  | cons i is ih => exact ih _ (flushed_insert_empty c i hf) (keysNodup_insert c i _ hn)

theorem foldl_flushActive_flushed (conv : Nat → Nat) (es : List (Nat × Active)) (st : List (Nat × Active) × List Record)
    (h : ∀ e ∈ st.1, e.2.collections = []) :
    ∀ e ∈ (es.foldl (flushActive conv) st).1, e.2.collections = [] := by
  induction es generalizing st with
  | nil => exact h
  | cons x xs ih =>
    simp only [List.foldl]
    apply ih
    intro e he
    simp only [flushActive, List.mem_append, List.mem_singleton] at he
    rcases he with he | rfl
    · exact h e he
    · rfl

/-- **exactly once, in the cycle that drains it** -/
theorem C01_cycle_reports_everything_once (conv : Nat → Nat) (c : Coll) (batch : List Cmd)
    (hr : c.hasReporter = true) (hc : c.cancelable = false) (hf : Flushed c) (hn : KeysNodup c) :
    ∃ recs, (cycleProcess conv c batch).2 = some recs ∧
      (recs.map Record.core).Perm ((submitted (submitsOf batch)).flatMap (collectionCores conv)) ∧
      Flushed (cycleProcess conv c batch).1 ∧ KeysNodup (cycleProcess conv c batch).1 := by
  rw [cycleProcess_eq conv c batch hr]
  simp only
  rw [C04_drops_noop c batch hc]
  obtain ⟨hf1, hn1⟩ := phaseStarts_inv c batch hf hn
  have hc1 : (phaseStarts c batch).cancelable = false := by rw [phaseStarts_cancelable]; exact hc
  obtain ⟨p2, n2⟩ := foldl_processSubmit_conserves (submitsOf batch) (phaseStarts c batch, []) hc1 hn1
  generalize hs2 : (submitsOf batch).foldl processSubmit (phaseStarts c batch, []) = s2 at p2 n2 ⊢
  simp only [allCols_of_flushed _ hf1, List.nil_append] at p2
  obtain ⟨p3, n3⟩ := commitGroups_conserves s2.1 (commitsOf batch) conv [] n2
  have r3 := foldl_processCommit_records conv (commitsOf batch) (s2.1, [])
  have hc3 : ((commitsOf batch).foldl (processCommit conv) (s2.1, [])).1.cancelable = false := by
    have h1 := foldl_processCommit_flags conv (commitsOf batch) (s2.1, [])
    have h2 := foldl_processSubmit_flags (submitsOf batch) (phaseStarts c batch, [])
    rw [hs2] at h2
    simp only [Coll.flags, Prod.mk.injEq] at h1 h2
    rw [h1.1, h2.1]; exact hc1
  generalize hs3 : (commitsOf batch).foldl (processCommit conv) (s2.1, []) = s3 at p3 n3 r3 hc3 ⊢
  simp only [hc3, Bool.false_eq_true, if_false]
  obtain ⟨r4, a4⟩ := foldl_flushActive_records conv s3.1.active ([], s3.2)
  refine ⟨_, rfl, ?_, ?_, ?_⟩
  · rw [foldl_stale_records, r4, r3]
    simp only [List.map_nil, List.nil_append]
    have e1 : ((commitGroups s2.1 (commitsOf batch)).flatMap (fun g => g.2.flatMap (collectionCores conv)))
        = ((commitGroups s2.1 (commitsOf batch)).flatMap (·.2)).flatMap (collectionCores conv) := by
      rw [List.flatMap_assoc]
    rw [e1, ← List.flatMap_append, ← List.flatMap_append]
    apply List.Perm.flatMap_right
    calc (commitGroups s2.1 (commitsOf batch)).flatMap (·.2) ++ allCols s3.1.active ++ s2.2
        _ ~ allCols s2.1.active ++ s2.2 := List.Perm.append_right _ p3.symm
        _ ~ submitted (submitsOf batch) := p2
  · intro e he
    exact foldl_flushActive_flushed conv s3.1.active ([], s3.2) (by simp) e he
  · unfold KeysNodup Coll.keys
    simp only
    rw [foldl_flushActive_keys]
    simpa [KeysNodup, Coll.keys] using n3

/-- the invariants hold initially, so they hold in every reachable collector state -/
theorem C01_invariants_initially (cancelable : Bool) :
    Flushed ⟨cancelable, true, []⟩ ∧ KeysNodup ⟨cancelable, true, []⟩ := by
  constructor
  · intro e he; simp at he
  · simp [KeysNodup, Coll.keys]

/-- `submitted` really is "one copy per token item of every submit command" -/
theorem C01_submitted_count (subs : List (SpanSet × Token)) :
    (submitted subs).length = (subs.map (·.2.length)).sum := by
  induction subs with
  | nil => rfl
  | cons s ss ih => simp [submitted, List.flatMap_cons] at ih ⊢

end Fastrace
