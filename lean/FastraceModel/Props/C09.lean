import FastraceModel.Model.SpscSteps
import FastraceModel.Props.C07
import FastraceModel.Props.ParamsOk

/-!
# C09 — overload degrades by omission only

Channel (any capacity, **any interleaving** of the sender's individual ring pushes with
consumer pops — the `pops` schedules are universally quantified):

* `C09_channel_is_a_queue`: after any call, what the consumer has received, followed by what
  is in the ring, followed by what is parked, is the previous such sequence plus the new value
  iff it was accepted — so values are delivered in the order they were accepted, each exactly
  once, nothing is invented (refinement to a FIFO queue with lossy admission);
* `C09_forced_never_dropped`: `force_send` always accepts (finish and cancel signals are
  neither dropped nor reordered while the thread lives) — with `C09_channel_is_a_queue` this
  is the D2 fix: parked values are replayed oldest-first and a new value never overtakes them;
* `C09_lossy_only_when_full`: `send` rejects only when, at its last push attempt, the ring
  was full;
* `C09_capacity`: the ring never holds more than its capacity;
* `C09_pops_preserve`: consumer pops never change the sequence.

Local limits: `C07_queue_at_limit`, `C07_scope_at_limit` (excess local spans / scopes are
skipped as no-ops); that the recorded ones keep their correct parents is C02/C10, whose
theorems do not assume the limits are not hit.

Thread exit (`Sender::drop`) may lose parked values when the ring is full (open finding D3);
`C09_drop_subsequence` states what still holds: nothing is reordered or invented.
-/
namespace Fastrace
namespace Chan
variable {α : Type}

theorem pop1_seq (c : Chan α) : c.pop1.seq = c.seq := by
  unfold pop1 Ring.pop
  cases h : c.ring.q with
  | nil => simp [h]
  | cons x xs => simp [seq, h, List.append_assoc]

theorem popN_seq (c : Chan α) (n : Nat) : (c.popN n).seq = c.seq := by
  induction n generalizing c with
  | zero => rfl
  | succ n ih => simp only [popN]; rw [ih, pop1_seq]

theorem pop1_pending (c : Chan α) : c.pop1.pending = c.pending := by
  unfold pop1; split <;> rfl

theorem popN_pending (c : Chan α) (n : Nat) : (c.popN n).pending = c.pending := by
  induction n generalizing c with
  | zero => rfl
  | succ n ih => simp only [popN]; rw [ih, pop1_pending]

/-- consumer pops never change the sequence -/
theorem C09_pops_preserve (c : Chan α) (n : Nat) : (c.popN n).seq = c.seq := popN_seq c n

def front (c : Chan α) : List α := c.out ++ c.ring.q

theorem pop1_front (c : Chan α) : c.pop1.front = c.front := by
  unfold pop1 Ring.pop
  cases h : c.ring.q with
  | nil => simp [h]
  | cons x xs => simp [front, h, List.append_assoc]

theorem popN_front (c : Chan α) (n : Nat) : (c.popN n).front = c.front := by
  induction n generalizing c with
  | zero => rfl
  | succ n ih => simp only [popN]; rw [ih, pop1_front]

theorem pushed_front (c : Chan α) (x : α) : (c.pushed x).front = c.front ++ [x] := by
  simp [front, pushed, List.append_assoc]

/-- `pushed` is what `Producer::push` does when the ring is not full -/
theorem pushed_is_push (c : Chan α) (x : α) (h : ¬ c.isFull) : c.ring.push x = some (c.pushed x).ring := by
  unfold isFull at h
  simp [Ring.push, pushed, Nat.lt_of_not_le h]

/-- the loop invariant: with `pend` the not-yet-replayed part of the overflow list, the
    sequence `out ++ ring ++ pend` grows by exactly the accepted value -/
theorem sendLoop_seq (c : Chan α) (v : α) (forced : Bool) (pend : List α) (pops : List Nat) :
    (sendLoop c v forced pend pops).1.seq
      = c.front ++ pend ++ (if (sendLoop c v forced pend pops).2 then [v] else []) := by
  induction pend generalizing c pops with
  | nil =>
    unfold sendLoop
    have hf := popN_front c (pops.headD 0)
    generalize c.popN (pops.headD 0) = c' at hf ⊢
    rw [← hf]
    by_cases hfull : c'.isFull
    · cases forced <;> simp [hfull, seq, front]
    · simp only [hfull, if_false, if_true, seq, List.append_nil]
      have := pushed_front c' v
      simp only [front] at this ⊢
      exact this
  | cons x rest ih =>
    unfold sendLoop
    have hf := popN_front c (pops.headD 0)
    generalize c.popN (pops.headD 0) = c' at hf ⊢
    rw [← hf]
    by_cases hfull : c'.isFull
    · cases forced <;> simp [hfull, seq, front, List.append_assoc]
    · simp only [hfull, if_false]
      rw [ih, pushed_front]
      simp [List.append_assoc]

/-- **the channel is a queue**: any call, under any interleaving with consumer pops, extends
    the sequence "received ++ in the ring ++ parked" by exactly the value, iff accepted -/
theorem C09_channel_is_a_queue (c : Chan α) (v : α) (forced : Bool) (pops : List Nat) :
    (c.sendWith v forced pops).1.seq = c.seq ++ (if (c.sendWith v forced pops).2 then [v] else []) := by
  unfold sendWith
  rw [sendLoop_seq]; rfl

theorem sendLoop_forced (c : Chan α) (v : α) (pend : List α) (pops : List Nat) :
    (sendLoop c v true pend pops).2 = true := by
  induction pend generalizing c pops with
  | nil => unfold sendLoop; split <;> rfl
  | cons x rest ih =>
    unfold sendLoop
    split
    · rfl
    · exact ih _ _

/-- **finish / cancel signals are never dropped** while the sender lives -/
theorem C09_forced_never_dropped (c : Chan α) (v : α) (pops : List Nat) :
    (c.sendWith v true pops).2 = true := sendLoop_forced c v c.pending pops

/-- hence: whatever the schedule, a forced value is in the sequence right after everything
    accepted before it — delivered exactly once and never overtaken -/
theorem C09_forced_fifo (c : Chan α) (v : α) (pops : List Nat) :
    (c.sendWith v true pops).1.seq = c.seq ++ [v] := by
  have := C09_channel_is_a_queue c v true pops
  rw [C09_forced_never_dropped] at this
  simpa using this

/-- a non-forced value is rejected only with a full ring at its last push attempt: if it is
    rejected, the ring of the resulting channel is full -/
theorem C09_lossy_only_when_full (c : Chan α) (v : α) (pend : List α) (pops : List Nat)
    (hrej : (sendLoop c v false pend pops).2 = false) :
    (sendLoop c v false pend pops).1.isFull := by
  induction pend generalizing c pops with
  | nil =>
    unfold sendLoop at hrej ⊢
    generalize c.popN (pops.headD 0) = c' at hrej ⊢
    by_cases hfull : c'.isFull
    · simp only [hfull, if_true, Bool.false_eq_true, if_false]; exact hfull
    · simp [hfull] at hrej
  | cons x rest ih =>
    unfold sendLoop at hrej ⊢
    generalize c.popN (pops.headD 0) = c' at hrej ⊢
    by_cases hfull : c'.isFull
    · simp only [hfull, if_true, Bool.false_eq_true, if_false]; exact hfull
    · simp only [hfull, if_false] at hrej ⊢; exact ih _ _ hrej

/-- the ring never exceeds its capacity -/
def capOk (c : Chan α) : Prop := c.ring.q.length ≤ c.ring.cap

theorem pop1_capOk (c : Chan α) (h : c.capOk) : c.pop1.capOk := by
  unfold pop1 Ring.pop capOk at *
  cases hq : c.ring.q with
  | nil => simpa [hq] using h
  | cons x xs => simp [hq] at h ⊢; omega

theorem popN_capOk (c : Chan α) (n : Nat) (h : c.capOk) : (c.popN n).capOk := by
  induction n generalizing c with
  | zero => exact h
  | succ n ih => exact ih _ (pop1_capOk c h)

theorem C09_capacity (c : Chan α) (v : α) (forced : Bool) (pend : List α) (pops : List Nat) (h : c.capOk) :
    (sendLoop c v forced pend pops).1.capOk := by
  induction pend generalizing c pops with
  | nil =>
    unfold sendLoop
    have hc := popN_capOk c (pops.headD 0) h
    generalize c.popN (pops.headD 0) = c' at hc ⊢
    by_cases hfull : c'.isFull
    · cases forced <;> simp only [hfull, if_true, Bool.false_eq_true, if_false] <;> exact hc
    · simp only [hfull, if_false]
      unfold isFull at hfull; unfold capOk pushed at *; simp; omega
  | cons x rest ih =>
    unfold sendLoop
    have hc := popN_capOk c (pops.headD 0) h
    generalize c.popN (pops.headD 0) = c' at hc ⊢
    by_cases hfull : c'.isFull
    · cases forced <;> simp only [hfull, if_true, Bool.false_eq_true, if_false] <;> exact hc
    · simp only [hfull, if_false]
      apply ih
      unfold isFull at hfull; unfold capOk pushed at *; simp; omega

/-- thread exit: the sequence after `Sender::drop` is obtained from the one before by
    deleting parked values only (nothing reordered, nothing invented) — and it *can* delete
    (open finding D3, witness below) -/
theorem C09_drop_sublist (c : Chan α) (pend : List α) (pops : List Nat) :
    ((dropLoop c pend pops).out ++ (dropLoop c pend pops).ring.q).Sublist (c.front ++ pend) ∧
    (dropLoop c pend pops).pending = [] := by
  induction pend generalizing c pops with
  | nil => simp [dropLoop, front]
  | cons x rest ih =>
    have hf := popN_front c (pops.headD 0)
    unfold dropLoop
    generalize c.popN (pops.headD 0) = c' at hf ⊢
    by_cases hfull : c'.isFull
    · simp only [hfull, if_true]
      obtain ⟨h1, h2⟩ := ih c' pops.tail
      refine ⟨?_, h2⟩
      rw [hf] at h1
      exact h1.trans (List.Sublist.append_left (List.sublist_cons_self x rest) _)
    · simp only [hfull, if_false]
      obtain ⟨h1, h2⟩ := ih (c'.pushed x) pops.tail
      refine ⟨?_, h2⟩
      rw [pushed_front, hf] at h1
      simpa [List.append_assoc] using h1

/-! non-vacuity and witnesses -/

/-- capacity 1: `A`, then forced `cancel`, forced `commit` park; the consumer pops between the
    replay pushes of a later call; order is kept (this is the D2 witness: the unfixed code
    delivered `A, commit, cancel`) -/
example :
    let c0 : Chan Nat := Chan.new 1
    let c1 := (c0.sendWith 10 false []).1          -- A accepted, ring full
    let c2 := (c1.sendWith 20 true []).1           -- cancel parked
    let c3 := (c2.sendWith 30 true []).1           -- commit parked behind it
    let c4 := (c3.sendWith 40 true [1, 1, 1]).1    -- next call: a pop before each push attempt
    (c4.popN 5).out = [10, 20, 30, 40] := by decide

/-- D3: a thread exiting with a full ring loses its parked commands -/
example :
    let c1 : Chan Nat := ((Chan.new 1).sendWith 10 false []).1
    let c2 := (c1.sendWith 20 true []).1
    ((c2.dropWith []).popN 3).out = [10] := by decide

end Chan
end Fastrace
