import FastraceModel.Lemmas.Collector
import FastraceModel.Lemmas.Frame
import FastraceModel.Lemmas.Nesting

/-!
# C18 — recorded times are consistent with execution

Model side: instants are readings of a strictly increasing logical clock (`Ctr.now`), taken at
exactly the places the Rust code calls `Instant::now()`; `conv` is
`Instant::as_unix_nanos(anchor)` for the cycle's anchor, an arbitrary **monotone** function.

* `C18_duration_*`: a record's duration is `conv end ∸ conv begin` of the instants read at
  creation and finish; a local span still open when its set was collected ends at the
  collection instant; an event's timestamp is the conversion of the instant read when it was
  added;
* `C18_finish_after_begin`: the end instant of a finished local span is read strictly after its
  begin instant, so with a monotone conversion `begin + duration = conv end ≥ begin`;
* `C18_queue_begins_increase`: within one scope, span and event instants are recorded in
  strictly increasing order of creation — a child starts after its parent, a sibling after the
  previous sibling, an event after the span it is recorded in was entered;
* `C18_local_spans_nest`, `C18_siblings_disjoint`: for **every** well-nested piece of local-span
  code (any tree of `LocalSpan`s, events and properties, any depth) run in a scope with room
  for it: everything recorded inside a local span — child spans, their descendants, events —
  has its instants strictly inside that span's `(begin, end)`; what a block leaves behind lies
  entirely before what the next sibling block leaves behind; a span's direct children carry its
  id as parent (`OutOK`, proved by mutual induction over the block structure in
  `Lemmas/Nesting.lean`); with a monotone `conv` the same holds for the delivered records;
* `C18_elapsed`: `elapsed()` is `Some` exactly for a recording span (the value itself is a clock
  difference, see the tie).

Partial: the real clock cannot be injected, so the tie is relational: the harness brackets every
API call with its own monotonic and wall-clock readings and checks on every delivered record
that the duration lies in the window between the creating and the finishing call, the begin
time in the wall-clock window of the creating call, event timestamps inside the span's
interval, local children inside local parents, siblings not overlapping, `elapsed()` in its
window.  That `fastant`'s conversion is monotone and its TSC agrees across cores is assumed.
-/
namespace Fastrace

def Monotone' (f : Nat → Nat) : Prop := ∀ a b, a ≤ b → f a ≤ f b

/-- thread-safe span: duration and begin from the two instants stamped at creation and drop -/
theorem C18_duration_span (conv : Nat → Nat) (raw : RawSpan) (tr p : Nat) (hk : raw.kind = .span) :
    spanCore conv tr p raw = [⟨tr, raw.id, p, conv raw.beginT, conv raw.endT - conv raw.beginT, raw.name⟩] := by
  simp [spanCore, hk]

/-- local span: finished → its own end instant; still open at collection → the set's end time -/
theorem C18_duration_local (conv : Nat → Nat) (setEnd tr p : Nat) (raw : RawSpan) (hk : raw.kind = .span) :
    (localCore conv setEnd tr p raw).map (fun k => (k.beginNs, k.durationNs)) =
      [(conv raw.beginT, (if raw.endT = 0 then conv setEnd else conv raw.endT) - conv raw.beginT)] := by
  simp [localCore, hk]

/-- with a monotone conversion, begin + duration is the converted end instant -/
theorem C18_begin_plus_duration (conv : Nat → Nat) (hm : Monotone' conv) (b e : Nat) (h : b ≤ e) :
    conv b + (conv e - conv b) = conv e := by
  have := hm b e h
  omega

/-- every clock reading is strictly later than the previous one and never `Instant::ZERO` -/
theorem C18_clock_strict (c : Ctr) : c.now.1 = c.clock + 1 ∧ c.now.2.clock = c.now.1 ∧ c.now.1 ≠ 0 := by
  simp [Ctr.now]

/-- finishing a local span stamps an end instant read after its begin instant was read, when
    the begin instant is not in the future of the clock (true of every recorded instant:
    `C18_queue_begins_increase`) -/
theorem C18_finish_after_begin (q : SpanQueue) (c : Ctr) (idx : Nat) (sp : RawSpan)
    (h : q.spans[idx]? = some sp) (hb : sp.beginT ≤ c.clock) :
    ∃ sp', (q.finishSpan c idx).1.spans[idx]? = some sp' ∧ sp'.beginT = sp.beginT ∧ sp'.beginT < sp'.endT := by
  obtain ⟨hi, hget⟩ := List.getElem?_eq_some_iff.mp h
  refine ⟨{ sp with endT := c.now.1 }, ?_, rfl, ?_⟩
  · simp only [SpanQueue.finishSpan, h]
    rw [List.getElem?_set_self hi]
  · simp [Ctr.now]; omega

/-- all instants recorded in a queue are at most `clk`, and begin instants of spans and events
    strictly increase along the queue -/
def QueueTimes (q : SpanQueue) (clk : Nat) : Prop :=
  (∀ sp ∈ q.spans, sp.beginT ≤ clk ∧ sp.endT ≤ clk) ∧
  ((q.spans.filter (fun sp => sp.kind != RawKind.properties)).map (fun sp => sp.beginT)).Pairwise (· < ·)

theorem pairwise_append_single (l : List Nat) (x : Nat) (h : l.Pairwise (· < ·)) (hx : ∀ y ∈ l, y < x) :
    (l ++ [x]).Pairwise (· < ·) := by
  rw [List.pairwise_append]
  exact ⟨h, by simp, fun a ha b hb => by simp at hb; subst hb; exact hx a ha⟩

/-- entering a local span keeps the order: its begin instant is later than everything before -/
theorem C18_queue_begins_increase (q : SpanQueue) (c : Ctr) (n : String) (q' : SpanQueue) (idx : Nat) (c' : Ctr)
    (hs : q.startSpan c n = some (q', idx, c')) (hq : QueueTimes q c.clock) :
    QueueTimes q' c'.clock ∧ c.clock < c'.clock := by
  unfold SpanQueue.startSpan at hs
  split at hs
  · cases hs
  · simp only [Option.some.injEq, Prod.mk.injEq] at hs
    obtain ⟨rfl, rfl, rfl⟩ := hs
    obtain ⟨h1, h2⟩ := hq
    refine ⟨⟨?_, ?_⟩, by simp [Ctr.now, Ctr.nextId]⟩
    · intro sp hsp
      simp only [List.mem_append, List.mem_singleton] at hsp
      rcases hsp with hsp | rfl
      · have := h1 sp hsp
        simp only [Ctr.now, Ctr.nextId]; omega
      · simp [Ctr.now, Ctr.nextId]
    · simp only [List.filter_append, List.map_append, List.filter, List.map_cons, List.map_nil]
      have hk : ((RawKind.span != RawKind.properties) = true) := by decide
      simp only [hk]
      apply pairwise_append_single _ _ h2
      intro y hy
      simp only [List.mem_map, List.mem_filter] at hy
      obtain ⟨sp, ⟨hsp, _⟩, rfl⟩ := hy
      have := (h1 sp hsp).1
      simp only [Ctr.now, Ctr.nextId]; omega

/-- `Span::elapsed()` is `Some` exactly for a recording span -/
theorem C18_elapsed (s : Sys) (t : Nat) (v : String) (sv : SpanVal) (h : assocGet s.spans v = some sv) :
    exec s t (.elapsed v) = (s, .elapsed sv.isSome) := by
  simp [exec, h]

/-! non-vacuity -/
example : QueueTimes (SpanQueue.withCapacity 4) 0 := by simp [QueueTimes, SpanQueue.withCapacity]

/-! ### nesting of local spans -/

/-- **a local span encloses everything recorded inside it**: run `LocalSpan::enter(n)`, any
    well-nested body, drop — on a queue with room, a usable parent and non-zero ids.  The queue
    gains the span's record `s` followed by the records `kids` of the body, and every one of them
    (child spans at any depth, events) has its instants strictly between `s.beginT` and `s.endT`;
    the span itself ran inside the clock window of the call sequence; earlier entries are
    untouched and the innermost-open-span pointer is restored. -/
theorem C18_local_spans_nest (n : String) (body : List LB) (q : SpanQueue) (c : Ctr)
    (hr : Ready q c (LB.span n body).size) :
    ∃ s kids, (runLB q c (.span n body)).1.spans = q.spans ++ s :: kids ∧
      s.kind = .span ∧ s.parentId = q.nextParent.getD 0 ∧
      c.clock < s.beginT ∧ s.beginT < s.endT ∧ s.endT ≤ (runLB q c (.span n body)).2.clock ∧
      (∀ k ∈ kids, InWindow s.beginT (s.endT - 1) k) ∧
      (runLB q c (.span n body)).1.nextParent = q.nextParent := by
  obtain ⟨new, hran, hout⟩ := runLB_ok (.span n body) q c hr
  obtain ⟨s, kids, rfl, hk, _, hp, _, h1, h2, h3, hkids⟩ := hout
  exact ⟨s, kids, hran.spans, hk, hp, h1, h2, h3, outsOK_window body _ _ _ kids hkids, hran.par⟩

/-- **sibling blocks do not overlap**: of two consecutive pieces of local-span code, everything
    the first records lies at or before an instant `mid`, everything the second records strictly
    after it -/
theorem C18_siblings_disjoint (b : LB) (bs : List LB) (q : SpanQueue) (c : Ctr)
    (hr : Ready q c (LB.sizes (b :: bs))) :
    ∃ l1 l2 mid, (runLBs q c (b :: bs)).1.spans = q.spans ++ l1 ++ l2 ∧
      (∀ x ∈ l1, InWindow c.clock mid x) ∧ (∀ y ∈ l2, InWindow mid (runLBs q c (b :: bs)).2.clock y) := by
  obtain ⟨new, hran, hout⟩ := runLBs_ok (b :: bs) q c hr
  obtain ⟨l1, l2, mid, rfl, _, h1, h2⟩ := hout
  refine ⟨l1, l2, mid, by rw [hran.spans, List.append_assoc], outOK_window b _ _ _ l1 h1, outsOK_window bs _ _ _ l2 h2⟩

/-! non-vacuity: `outer { inner {} ; event }` on an empty queue -/
example :
    ((runLB (SpanQueue.withCapacity 8) ⟨1, 0, 0⟩ (.span "outer" [.span "inner" [], .event "e" none])).1.spans.map
      fun s => (s.name, s.beginT, s.endT)) = [("outer", 1, 5), ("inner", 2, 3), ("e", 4, 0)] := by decide
example : Ready (SpanQueue.withCapacity 8) ⟨1, 0, 0⟩ (LB.span "outer" [.span "inner" [], .event "e" none]).size :=
  ⟨by decide, by decide, by decide⟩

end Fastrace
