import FastraceModel.Props.C04
import FastraceModel.Model.Api

/-!
# C04 — a cancel parked on a full queue still counts (D21 repair)

`cancel()` on a thread whose command queue is full cannot put its signal into the queue: the
signal waits in that thread's overflow list, which the collector cannot see, while the root may
finish on another thread and send its commit through that thread's queue.  Since the repair,
`drop_collect` leaves a note in `PARKED_CANCELS` (`Sys.parkedCancels`) whenever `force_send`
reports that the signal was parked, and the collector looks there for every commit it is about to
handle (`Sys.finishCycleP`, `takeParked`).

`C04_parked_cancel_suppresses`: for **every** system state, every drain result and every trace
`cid` — cancelable collector, `cid` noted in `PARKED_CANCELS`, and the commit of `cid` among the
commits this cycle handles (deferred from the previous cycle or popped in the first pass) — the
cycle emits nothing for `cid`, does not retain it, and the note is consumed.
-/
namespace Fastrace

theorem takeParked_mem (commits : List Nat) : ∀ (parked : List Nat) (id : Nat), id ∈ commits → id ∈ parked →
    id ∈ (takeParked commits parked).1 := by
  induction commits with
  | nil => intro _ _ h; cases h
  | cons x rest ih =>
    intro parked id h1 h2
    simp only [takeParked]
    split
    · by_cases e : id = x
      · subst e; exact List.mem_cons_self
      · refine List.mem_cons_of_mem _ (ih _ id ?_ ?_)
        · rcases List.mem_cons.mp h1 with h | h
          · exact absurd h e
          · exact h
        · exact List.mem_filter.mpr ⟨h2, by simpa using e⟩
    · rename_i hx
      have e : id ≠ x := by
        intro e; subst e
        exact hx (List.contains_iff_mem.mpr h2)
      refine ih _ id ?_ h2
      rcases List.mem_cons.mp h1 with h | h
      · exact absurd h e
      · exact h

theorem takeParked_rest (commits : List Nat) : ∀ (parked : List Nat) (id : Nat),
    id ∈ (takeParked commits parked).2 → id ∈ parked ∧ id ∉ commits := by
  induction commits with
  | nil => intro parked id h; exact ⟨h, by simp⟩
  | cons x rest ih =>
    intro parked id h
    simp only [takeParked] at h
    split at h
    · have := ih _ id h
      have hm := List.mem_filter.mp this.1
      refine ⟨hm.1, ?_⟩
      simp only [List.mem_cons, not_or]
      exact ⟨by simpa using hm.2, this.2⟩
    · rename_i hx
      have := ih _ id h
      refine ⟨this.1, ?_⟩
      simp only [List.mem_cons, not_or]
      refine ⟨?_, this.2⟩
      intro e; subst e
      exact hx (List.contains_iff_mem.mpr this.1)

/-- the collector only makes up cancels for traces that are noted and committed in this cycle -/
theorem takeParked_sub (commits : List Nat) : ∀ (parked : List Nat) (id : Nat),
    id ∈ (takeParked commits parked).1 → id ∈ commits ∧ id ∈ parked := by
  induction commits with
  | nil => intro _ _ h; cases h
  | cons x rest ih =>
    intro parked id h
    simp only [takeParked] at h
    split at h
    · rename_i hx
      rcases List.mem_cons.mp h with e | h
      · subst e; exact ⟨List.mem_cons_self, List.contains_iff_mem.mp hx⟩
      · have := ih _ id h
        exact ⟨List.mem_cons_of_mem _ this.1, (List.mem_filter.mp this.2).1⟩
    · have := ih _ id h
      exact ⟨List.mem_cons_of_mem _ this.1, this.2⟩

theorem startsOf_cons_start (id : Nat) (l : List Cmd) : startsOf (.start id :: l) = id :: startsOf l := rfl
theorem startsOf_cons_commit (id : Nat) (l : List Cmd) : startsOf (.commit id :: l) = startsOf l := rfl
theorem startsOf_cons_drop (id : Nat) (l : List Cmd) : startsOf (.drop id :: l) = startsOf l := rfl
theorem startsOf_cons_submit (sp : SpanSet) (tok : Token) (l : List Cmd) : startsOf (.submit sp tok :: l) = startsOf l := rfl
theorem startsOf_appendP (a b : List Cmd) : startsOf (a ++ b) = startsOf a ++ startsOf b := by
  simp [startsOf, List.filterMap_append]
theorem dropsOf_appendP (a b : List Cmd) : dropsOf (a ++ b) = dropsOf a ++ dropsOf b := by
  simp [dropsOf, List.filterMap_append]
theorem mem_dropsOf (id : Nat) (l : List Cmd) : id ∈ dropsOf l ↔ Cmd.drop id ∈ l := by
  induction l with
  | nil => simp [dropsOf]
  | cons x xs ih =>
    cases x <;> simp_all [dropsOf, List.filterMap_cons]

/-- every start of the second pass is handled in this cycle -/
theorem startsOf_splitSecond (cb : Bool) (c1 c2 : Coll) (cm : List Nat) (l : List Cmd) :
    startsOf (splitSecond cb c1 c2 cm l).1 = startsOf l := by
  induction l with
  | nil => rfl
  | cons x xs ih =>
    cases x with
    | start id => simp only [splitSecond, startsOf_cons_start, ih]
    | commit id => simp only [splitSecond, startsOf_cons_commit, ih]
    | drop id =>
      simp only [splitSecond]
      split
      · rw [startsOf_cons_drop, startsOf_cons_drop, ih]
      · rw [startsOf_cons_drop, ih]
    | submit sp tok =>
      simp only [splitSecond]
      split
      · rw [startsOf_cons_submit, ih]
      · rw [startsOf_cons_submit, startsOf_cons_submit, ih]

/-- a cancel of the second pass for a trace that is known is handled in this cycle -/
theorem drop_splitSecond_now (cb : Bool) (c1 c2 : Coll) (cm : List Nat) (l : List Cmd) (id : Nat)
    (hk : c1.known id = true) (h : Cmd.drop id ∈ l) : Cmd.drop id ∈ (splitSecond cb c1 c2 cm l).1 := by
  induction l with
  | nil => cases h
  | cons x xs ih =>
    rcases List.mem_cons.mp h with e | h'
    · subst e
      simp only [splitSecond, hk, if_true]
      exact List.mem_cons_self
    · have := ih h'
      cases x with
      | start i => simp only [splitSecond]; exact List.mem_cons_of_mem _ this
      | commit i => simp only [splitSecond]; exact this
      | drop i =>
        simp only [splitSecond]
        split
        · exact List.mem_cons_of_mem _ this
        · exact this
      | submit sp tok =>
        simp only [splitSecond]
        split
        · exact this
        · exact List.mem_cons_of_mem _ this

/-- **D21 repair**: a trace whose cancel is parked on the thread that called `cancel()` and whose
    commit is handled in this cycle is suppressed: the cycle emits nothing for it, does not
    retain it, and the note is consumed -/
theorem C04_parked_cancel_suppresses (s : Sys) (kept : List (Nat × Ring Cmd)) (buf buf2 : List Cmd) (cid : Nat)
    (hr : s.coll.hasReporter = true) (hc : s.coll.cancelable = true)
    (hp : cid ∈ s.parkedCancels) (hcm : cid ∈ s.deferred ++ commitsOf buf) :
    ∃ batch, (s.finishCycleP kept buf buf2).2 = (cycleProcess id s.coll batch).2 ∧
      (s.finishCycleP kept buf buf2).1.coll = (cycleProcess id s.coll batch).1 ∧
      (∀ g ∈ commitGroups (afterSubmits s.coll batch).1 (commitsOf batch), g.1 ≠ cid) ∧
      cid ∉ (cycleProcess id s.coll batch).1.keys ∧
      cid ∉ (s.finishCycleP kept buf buf2).1.parkedCancels := by
  have hinj := takeParked_mem _ _ cid hcm hp
  generalize htp : takeParked (s.deferred ++ commitsOf buf) s.parkedCancels = tp at hinj
  refine ⟨s.cycleBatch buf (buf2 ++ tp.1.map Cmd.drop), ?_, ?_, ?_, ?_, ?_⟩
  · unfold Sys.finishCycleP; rw [if_pos hr, htp]; rfl
  · unfold Sys.finishCycleP; rw [if_pos hr, htp]; rfl
  rotate_left 2
  · unfold Sys.finishCycleP; rw [if_pos hr, htp]
    show cid ∉ tp.2
    intro h
    rw [← htp] at h
    exact (takeParked_rest _ _ cid h).2 hcm
  all_goals
    have hdrop : Cmd.drop cid ∈ buf2 ++ tp.1.map Cmd.drop :=
      List.mem_append_right _ (List.mem_map.mpr ⟨cid, hinj, rfl⟩)
    -- the collector after this cycle's starts, as `cycleSplit` computes it
    generalize hb2 : buf2 ++ tp.1.map Cmd.drop = b2 at hdrop
    have hstarts : startsOf (s.cycleBatch buf b2) = startsOf (s.carried ++ buf) ++ startsOf b2 := by
      unfold Sys.cycleBatch Sys.cycleSplit
      rw [startsOf_appendP, startsOf_appendP, startsOf_splitSecond]
      have : startsOf (s.deferred.map Cmd.commit) = [] := by
        generalize s.deferred = l
        induction l with
        | nil => rfl
        | cons x xs ih => simpa [startsOf] using ih
      rw [this, List.nil_append]
    cases hk : ((startsOf ((s.carried ++ buf) ++ b2)).foldl (fun c id => c.insert id Active.empty) s.coll).known cid with
    | true =>
      have hd : cid ∈ dropsOf (s.cycleBatch buf b2) := by
        rw [mem_dropsOf]
        unfold Sys.cycleBatch
        refine List.mem_append_right _ ?_
        unfold Sys.cycleSplit
        exact drop_splitSecond_now _ _ _ _ _ cid hk hdrop
      first
        | exact (C04_dropped_not_emitted id s.coll _ hr hc cid hd).1
        | exact (C04_dropped_not_emitted id s.coll _ hr hc cid hd).2
    | false =>
      have hnot : ¬ (cid ∈ s.coll.keys ∨ cid ∈ startsOf (s.cycleBatch buf b2)) := by
        intro h
        have : cid ∈ ((startsOf ((s.carried ++ buf) ++ b2)).foldl (fun c id => c.insert id Active.empty) s.coll).keys := by
          rw [foldl_insert_keys, startsOf_appendP]
          rw [hstarts] at h
          exact h
        have := (Coll.find?_isSome_iff _ cid).mpr this
        unfold Coll.known at hk
        rw [hk] at this
        cases this
      first
        | (intro g hg e
           have h1 := (commitGroups_keys _ _ g hg).2.1
           rw [e] at h1
           unfold afterSubmits at h1
           rw [foldl_processSubmit_keys] at h1
           unfold phaseDrops at h1
           rw [foldl_drop_keys _ _ (by rw [phaseStarts_cancelable]; exact hc)] at h1
           unfold phaseStarts at h1
           rw [foldl_insert_keys] at h1
           exact hnot h1.1)
        | (intro h
           exact hnot ((cycleProcess_keys id s.coll _ hr cid).mp h).1)

/-- `cancel()` on a root: when the call returns, either nothing is parked on the calling thread
    (the cancel signal is in its queue, or already popped: `Fifo_per_thread_order`) or the trace
    is noted in `PARKED_CANCELS` -/
theorem C04_cancel_in_queue_or_noted (s : Sys) (t : Nat) (v : String) (sp : SpanInner) (cid : Nat)
    (hv : assocGet s.spans v = some (some sp)) (hid : sp.collectId = some cid) :
    (((exec s t (.cancel v)).1.th t).pending = [] ∨ cid ∈ (exec s t (.cancel v)).1.parkedCancels) := by
  simp only [exec, hv, hid]
  unfold Sys.noteParked
  split
  · rename_i h
    exact .inl (by simpa using h)
  · refine .inr ?_
    dsimp only
    split
    · rename_i h; exact List.contains_iff_mem.mp h
    · exact List.mem_cons_self

/-- the collector never adds a note: after processing, every note left was there before, and none of them belongs to a
    trace whose commit this cycle handled (C08: the notes are bounded by the cancelled traces still in flight) -/
theorem C08_notes_only_shrink_in_cycles (s : Sys) (kept : List (Nat × Ring Cmd)) (buf buf2 : List Cmd) :
    ∀ id ∈ (s.finishCycleP kept buf buf2).1.parkedCancels,
      id ∈ s.parkedCancels ∧ (s.coll.hasReporter = true → id ∉ s.deferred ++ commitsOf buf) := by
  intro id hid
  unfold Sys.finishCycleP at hid
  split at hid
  · rename_i hr
    have h : id ∈ (takeParked (s.deferred ++ commitsOf buf) s.parkedCancels).2 := hid
    have := takeParked_rest _ _ id h
    exact ⟨this.1, fun _ => this.2⟩
  · rename_i hr
    have h : id ∈ s.parkedCancels := hid
    exact ⟨h, fun e => absurd e hr⟩

/-- `cancel()` adds at most the note of the trace it cancels -/
theorem C08_cancel_notes_only_its_trace (s : Sys) (t cid : Nat) :
    ∀ id ∈ (s.noteParked t cid).parkedCancels, id ∈ s.parkedCancels ∨ id = cid := by
  intro id hid
  unfold Sys.noteParked at hid
  split at hid
  · exact .inl hid
  · dsimp only at hid
    split at hid
    · exact .inl hid
    · rcases List.mem_cons.mp hid with e | h
      · exact .inr e
      · exact .inl h

/-! ### non-vacuity: the D21 witness at the model level -/

/-- a state in which trace 0 is active, its cancel is noted as parked, and its commit arrives -/
def parkedDemo : Sys :=
  { Sys.init with
    coll := { cancelable := true, hasReporter := true, active := [(0, Active.empty)] },
    parkedCancels := [0] }

example : (parkedDemo.finishCycleP [] [.commit 0] []).2 = some [] := by decide
example : (parkedDemo.finishCycleP [] [.commit 0] []).1.parkedCancels = [] := by decide
example : (parkedDemo.finishCycleP [] [.commit 0] []).1.coll.keys = [] := by decide
/-- … and without the note the trace would be reported (here: an empty trace, an empty report, but the entry is
    removed by the commit, not by a cancel) -/
example : ({ parkedDemo with parkedCancels := [] }.finishCycleP [] [.commit 0] []).1.g.injected = [] := by decide
example : (parkedDemo.finishCycleP [] [.commit 0] []).1.g.injected = [0] := by decide

end Fastrace
