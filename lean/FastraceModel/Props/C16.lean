import FastraceModel.Model.Disabled
import FastraceModel.Lemmas.Assoc
import FastraceModel.Lemmas.NoReporterExec

/-!
# C16 — disabled tracing is inert and lazy

Enabled build: an operation on a span that is not recording changes nothing that could reach
the reporter (no command is sent: rings, parked lists and collector untouched) and does not
invoke the property closure (`Obs.closure false`).  Disabled build: `execOff` is stateless by
construction; what ties it to the real `--no-default-features` build is the correspondence
run (`fh-off`).
-/
namespace Fastrace

/-- `s'` has exactly the same content on every path to the reporter as `s`: registered rings,
    every thread's parked list, the collector, the collect-id counter -/
def SameWire (s s' : Sys) : Prop :=
  s'.rxs = s.rxs ∧ (∀ t, (s'.th t).pending = (s.th t).pending) ∧ s'.coll = s.coll ∧
  s'.nextCollect = s.nextCollect ∧ s'.cyc = s.cyc

theorem SameWire.refl (s : Sys) : SameWire s s := ⟨rfl, fun _ => rfl, rfl, rfl, rfl⟩

theorem SameWire.trans {a b c : Sys} (h1 : SameWire a b) (h2 : SameWire b c) : SameWire a c :=
  ⟨h2.1.trans h1.1, fun t => (h2.2.1 t).trans (h1.2.1 t), h2.2.2.1.trans h1.2.2.1,
   h2.2.2.2.1.trans h1.2.2.2.1, h2.2.2.2.2.trans h1.2.2.2.2⟩

theorem sameWire_putCtr (s : Sys) (t : Nat) (c : Ctr) : SameWire s (s.putCtr t c) := by
  refine ⟨rfl, ?_, rfl, rfl, rfl⟩
  intro t2
  by_cases e : t2 = t
  · subst e; simp
  · rw [Sys.putCtr_th_other _ _ _ _ e]

theorem sameWire_setTh (s : Sys) (t : Nat) (th : Th) (h : th.pending = (s.th t).pending) :
    SameWire s (s.setTh t th) := by
  refine ⟨rfl, ?_, rfl, rfl, rfl⟩
  intro t2
  by_cases e : t2 = t
  · subst e; simp [h]
  · rw [Sys.th_setTh_other _ _ _ _ e]

/-- **lazy + inert**: `with_properties` on a no-op span -/
theorem C16_withProps_noop (s : Sys) (t : Nat) (v : String) (cl : Closure)
    (h : assocGet s.spans v = some none) :
    exec s t (.withProps v cl) = (s, .closure false) := by
  simp [exec, h]

theorem C16_addProps_noop (s : Sys) (t : Nat) (v : String) (cl : Closure)
    (h : assocGet s.spans v = some none) :
    exec s t (.addProps v cl) = (s, .closure false) := by
  simp [exec, h]

theorem C16_addEvent_noop (s : Sys) (t : Nat) (v n : String) (p : Option Props)
    (h : assocGet s.spans v = some none) :
    exec s t (.addEvent v n p) = (s, .ok) := by
  simp [exec, h]

theorem C16_pushChild_noop (s : Sys) (t : Nat) (v x : String) (ls : LocalSpansVal)
    (h : assocGet s.spans v = some none) (hx : assocGet s.lspans x = some ls) :
    exec s t (.pushChild v x) = (s, .ok) := by
  simp [exec, h, hx]

theorem C16_cancel_noop (s : Sys) (t : Nat) (v : String) (h : assocGet s.spans v = some none) :
    exec s t (.cancel v) = (s, .ok) := by
  simp [exec, h]

theorem C16_observers_noop (s : Sys) (t : Nat) (v : String) (h : assocGet s.spans v = some none) :
    exec s t (.elapsed v) = (s, .elapsed false) ∧ exec s t (.ctxOf v) = (s, .ctx none) := by
  simp [exec, h]

/-- dropping a no-op span sends nothing -/
theorem C16_drop_noop (s : Sys) (t : Nat) (v : String) (h : assocGet s.spans v = some none) :
    SameWire s (exec s t (.drop v)).1 ∧ (exec s t (.drop v)).2 = .ok := by
  simp only [exec, h, Sys.dropSpanVal]
  exact ⟨⟨rfl, fun _ => rfl, rfl, rfl, rfl⟩, trivial⟩

/-- a child of a no-op span is a no-op span; nothing is sent, no id or clock reading drawn -/
theorem C16_child_of_noop (s : Sys) (t : Nat) (v n p : String) (h : assocGet s.spans p = some none) :
    exec s t (.child1 v n p) = ({ s with spans := assocSet s.spans v none }, .ok) := by
  simp [exec, h]

/-- a root created before a reporter is installed is a no-op span -/
theorem C16_root_before_reporter (s : Sys) (t : Nat) (v n : String) (tr sp : Nat) (b : Bool)
    (h : s.reporterReady = false) :
    exec s t (.root v n tr sp b) = ({ s with spans := assocSet s.spans v none }, .ok) := by
  simp [exec, Sys.rootOp, h]

/-- setting a no-op span as local parent opens no scope and sends nothing -/
theorem C16_scope_noop (s : Sys) (t : Nat) (v : String) (h : assocGet s.spans v = some none) :
    SameWire s (exec s t (.scope v)).1 ∧ ((exec s t (.scope v)).1.th t).stack = (s.th t).stack := by
  simp only [exec, h]
  exact ⟨sameWire_setTh _ _ _ rfl, by simp⟩

/-! ### local operations with no local parent in scope are inert -/

theorem C16_local_inert (s : Sys) (t : Nat) (hs : (s.th t).stack.lines = []) (name : String)
    (cl : Closure) (p : Option Props) :
    exec s t (.lAddProps cl) = (s, .closure false) ∧
    (exec s t .ctxLocal) = (s, .ctx none) ∧
    (exec s t (.childLocal "v" name)) = ({ s with spans := assocSet s.spans "v" none }, .ok) ∧
    ((exec s t (.localEnter name)).1.th t).stack = (s.th t).stack ∧
    ((exec s t (.localEnter name)).1.th t).guards = .localSpan none :: (s.th t).guards ∧
    SameWire s (exec s t (.localEnter name)).1 ∧
    ((exec s t (.lAddEvent name p)).1.th t).stack = (s.th t).stack ∧
    SameWire s (exec s t (.lAddEvent name p)).1 := by
  refine ⟨?_, ?_, ?_, ?_, ?_, ?_, ?_, ?_⟩
  · simp [exec, Stack.isSampled, hs]
  · simp [exec, Stack.currentToken, hs]
  · simp [exec, Stack.currentToken, hs]
  · simp [exec, Stack.enterSpan, hs]
  · simp [exec, Stack.enterSpan, hs]
  · simp only [exec, Stack.enterSpan, hs]
    exact sameWire_setTh _ _ _ rfl
  · simp [exec, Stack.addEvent, hs]
  · simp only [exec, Stack.addEvent, hs]
    exact (sameWire_setTh _ _ _ rfl).trans (sameWire_putCtr _ _ _)

/-- the disabled build has no state: the answer depends on the operation only, every context
    is `None`, no closure runs, no record is ever produced -/
theorem C16_disabled (op : Op) :
    (∀ b, execOff op = .closure b → b = false) ∧ (∀ c, execOff op = .ctx c → c = none) ∧
    (∀ r, execOff op = .report r → r = none) ∧ (∀ rs, execOff op = .records rs → rs = []) ∧
    (∀ b, execOff op = .elapsed b → b = false) := by
  cases op <;> simp [execOff]

/-! non-vacuity: a state with a no-op span (root before the reporter is installed) -/
example : assocGet (exec Sys.init 0 (.root "v" "n" 1 0 true)).1.spans "v" = some none := by
  simp [exec, Sys.rootOp, Sys.init, assocGet, assocSet]

/-! ### whole programs: nothing records before a reporter is installed -/

/-- **a program that never installs a reporter is inert as a whole**: whatever it does — on any
    number of threads, with scopes, local spans, collectors, adapters, collector cycles, thread
    exit — no operation ever returns a report with records, an extracted context, an `elapsed()`
    value, or runs a property closure passed to a span handle (`with_properties` /
    `add_properties`).  Every span handle is a no-op and no scope carries a token throughout
    (invariant `NoRep`, `Lemmas/NoReporter*.lean`).  This includes `enter_with_parents`: over no-op
    parents it yields a no-op span (defect D16, repaired in /repo; before the repair it yielded a
    live span with an empty token whose closures ran and whose `elapsed()` was `Some`, and this
    theorem had to exclude the operation). -/
theorem C16_no_reporter_program_inert (p : Program)
    (hp : ∀ x ∈ p, ∀ c, x.2 ≠ .setReporter c) :
    ∀ x ∈ p.zip (run Sys.init p).2,
      (∀ rs, x.2 ≠ .report (some rs)) ∧ (∀ c, x.2 ≠ .ctx (some c)) ∧ x.2 ≠ .elapsed true ∧
      ((∃ v cl, x.1.2 = .withProps v cl ∨ x.1.2 = .addProps v cl) → x.2 ≠ .closure true) :=
  fun x hx => run_noRep p Sys.init hp NoRep.init x hx

/-! non-vacuity: a program without a reporter in which a closure is offered to a span handle and to
    a local span under a `LocalCollector`: the first is not run, the second is -/
example : (run Sys.init [(0, .spawn), (0, .root "r" "r" 1 0 true), (0, .withProps "r" ⟨[("k", "v")], 0⟩),
    (0, .collectorStart), (0, .localEnter "l"), (0, .lWithProps ⟨[("k", "v")], 0⟩), (0, .ctxOf "r"), (0, .cycle)]).2.map
      (fun | .closure b => some b | _ => none) = [none, none, some false, none, none, some true, none, none] := by decide

end Fastrace
