import FastraceModel.Gen.Params
import FastraceModel.Model.Consts

/-!
Parameter side conditions: the literals found in /repo *now* are the ones the model and the
theorems were written for.  A changed literal makes this file fail to build, which the check
reports as a broken proof obligation.
-/
namespace Fastrace

theorem paramsOk :
    Params.ringCap = Consts.ringCap ∧
    Params.spanQueueSize = Consts.spanQueueSize ∧
    Params.spanStackSize = Consts.spanStackSize ∧
    Params.notSampledIsMax = 1 ∧
    Params.maxUdp = Consts.maxUdp ∧ Params.maxUdp ≤ 8000 ∧
    Params.jaegerHalve = 2 ∧ Params.jaegerTimeDiv = [1000] ∧ Params.jaegerFlags = 1 ∧
    Params.processOrder = [0, 1, 2, 3] ∧
    Params.defaultCancelable = 0 ∧ Params.defaultIntervalMs = 10 ∧
    -- traceparent / id text formats (C12)
    Params.tpVersion = [48, 48] ∧ Params.tpDecodeVersion = [48, 48] ∧
    Params.tpTraceWidth = 32 ∧ Params.tpSpanWidth = 16 ∧ Params.tpFlagsWidth = 2 ∧
    Params.tpDecodeBits = [128, 64, 8] ∧ Params.tpDecodeRadix = [16, 16, 16] ∧
    Params.tpFlagMask = 1 ∧ Params.splitChar = 45 ∧
    Params.traceIdDisplayWidths = [32, 32, 16, 16] ∧
    -- datadog wire contract (C19)
    Params.ddLead = 0x91 ∧
    Params.ddFields = ["name", "service", "type", "resource", "start", "duration", "meta",
      "error_code", "span_id", "trace_id", "parent_id"] := by
  decide

end Fastrace
