/-
`SpanRecord` / `EventRecord` of `fastrace/src/collector/mod.rs`.
Strings are `String` (opaque to the collector; the reporters see their UTF-8 bytes).
Numbers are `Nat`; the Rust widths (u128 / u64) are carried by `Record.WF`.
-/
namespace Fastrace

abbrev Props := List (String × String)

structure EventRecord where
  name : String
  timestamp : Nat
  props : Props
deriving Repr, DecidableEq, Inhabited

structure Record where
  traceId : Nat
  spanId : Nat
  parentId : Nat
  beginNs : Nat
  durationNs : Nat
  name : String
  props : Props
  events : List EventRecord
deriving Repr, DecidableEq, Inhabited

/-- field values fit their Rust types -/
def Record.WF (r : Record) : Prop :=
  r.traceId < 2 ^ 128 ∧ r.spanId < 2 ^ 64 ∧ r.parentId < 2 ^ 64 ∧ r.beginNs < 2 ^ 64 ∧
  r.durationNs < 2 ^ 64 ∧ ∀ e ∈ r.events, e.timestamp < 2 ^ 64

end Fastrace
