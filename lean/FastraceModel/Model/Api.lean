import FastraceModel.Model.Local
import FastraceModel.Model.Collector
import FastraceModel.Model.Spsc
import FastraceModel.Model.Codec
/-
L2 + L5 — the public API as operations on a system state: `span.rs`, `local/local_span.rs`,
`local/local_collector.rs`, `event.rs`, `SpanContext::{from_span,current_local_parent}`,
`GlobalCollect::{start_collect,commit_collect,drop_collect,submit_spans}`, `send_command` /
`force_send_command`, `set_reporter`, `flush`, the drain loop of `handle_commands`, and
thread exit.

A program is a list of `(thread, Op)`; `exec` performs one operation atomically.  The
collector's drain is exposed as separate steps (`cycBegin` / `cycStep`) so that operations of
other threads can fall between "receiver k has been drained" and "receiver k+1 is drained",
and between a receiver's empty pop and its abandoned check.  Guards live on a per-thread
stack and `close` always releases the most recent one, so every program is well scoped in
the sense of the properties' precondition.
-/
namespace Fastrace

/-- a `Span`: `None` = no-op -/
structure SpanInner where
  raw : RawSpan
  token : Token
  collectId : Option Nat
deriving Repr, DecidableEq, Inhabited

abbrev SpanVal := Option SpanInner

/-- `LocalSpans` (an `Arc<LocalSpansInner>`) -/
structure LocalSpansVal where
  spans : List RawSpan
  endT : Nat
deriving Repr, DecidableEq, Inhabited

/-- thread-local guards, most recent first -/
inductive Guard where
  | scope (epoch : Option Nat)          -- `LocalParentGuard`; `none` = no-op guard
  | localSpan (h : Option LocalHandle)  -- `LocalSpan`
  | collector (epoch : Option Nat)      -- `LocalCollector`
deriving Repr, DecidableEq, Inhabited

structure Th where
  pref : Nat
  suffix : Nat
  stack : Stack
  guards : List Guard
  pending : List Cmd
  registered : Bool
  alive : Bool
deriving Repr, DecidableEq, Inhabited

def Th.fresh (pref : Nat) : Th :=
  { pref := pref, suffix := 0, stack := Stack.withCapacity Consts.spanStackSize, guards := [],
    pending := [], registered := false, alive := true }

/-- which adapter wraps the inner future / stream / sink -/
inductive AdKind where
  | inSpan        -- `fastrace::future::FutureExt::in_span`
  | enterOnPoll   -- `fastrace::future::FutureExt::enter_on_poll`
  | stream        -- `fastrace_futures::StreamExt::in_span`
  | sink          -- `fastrace_futures::SinkExt::in_span`
deriving Repr, DecidableEq, Inhabited

/-- an adapter value: `span = some sv` while the adapter still holds its `Option<Span>` -/
structure Adapter where
  kind : AdKind
  span : Option SpanVal
  name : String
  inCall : Option String
deriving Repr, Inhabited

/-- does this call, returning this result, finish the adapter's span?
    (`Poll::Pending` never does; a future finishes on `Ready`, a stream on `Ready(None)`,
    a sink when `poll_close` is `Ready`) -/
def adFinishes (kind : AdKind) (call result : String) : Bool :=
  match kind with
  | .inSpan => call == "poll" && result != "pending"
  | .stream => call == "poll_next" && result == "none"
  | .sink => call == "poll_close" && result != "pending"
  | .enterOnPoll => false

/-- progress of the collector inside the drain of `handle_commands` -/
inductive CycPhase where
  | atRx            -- about to drain the receiver at the head of `todo`
  | atEmpty         -- that receiver's pop found it empty; abandoned check comes next
  | atRx2           -- second pass: about to drain the retained receiver at the head of `todo2` again
  | atReport        -- drain finished; processing + report come next
deriving Repr, DecidableEq, Inhabited

structure CycState where
  phase : CycPhase
  todo : List (Nat × Ring Cmd)      -- receivers not yet visited (head = current)
  kept : List (Nat × Ring Cmd)      -- receivers visited and retained
  buf : List Cmd                    -- commands popped so far, in pop order
  todo2 : List Nat := []            -- second pass: retained receivers not yet revisited
  buf2 : List Cmd := []             -- commands popped in the second pass
deriving Repr, Inhabited

/-- History variables (ghost state): written by `sendCmd`, `finishCycle` and `exitThread`, never
    read by any operation, never printed by the driver.  They exist so that whole-program theorems
    can speak about "every command a channel ever accepted" and "every record ever reported".
    All lists are newest-first. -/
structure Ghost where
  accepted : List Cmd := []      -- taken by a thread's channel: pushed into the ring or parked in the overflow list
  refused : List Cmd := []       -- best-effort sends dropped because the ring was full
  blocked : List Cmd := []       -- model artefact: first use of the channel while the drain holds the registry lock
                                 -- (the real thread waits for the lock; generated programs never do this)
  orphaned : List Cmd := []      -- sends of a thread whose receiver is no longer registered
  consumed : List Cmd := []      -- handed to the processing loops of `handle_commands` (a reporter is installed)
  discarded : List Cmd := []     -- drained while no reporter was installed (`handle_commands` returns early)
  lostAtExit : List Cmd := []    -- parked values that did not fit into the ring when `Sender::drop` ran (finding D3)
  reported : List Record := []   -- every record handed to `Reporter::report`, newest report first
  -- per-thread order (both newest first): what each thread's channel took, what the collector popped from each
  -- thread's ring
  acceptedBy : List (Nat × Cmd) := []
  drainedBy : List (Nat × Cmd) := []
  /-- traces for which the collector derived a cancel command from `parkedCancels` (commands that
      were not sent through any channel) -/
  injected : List Nat := []
deriving Repr, Inhabited

structure Sys where
  clock : Nat
  nextCollect : Nat
  reporterReady : Bool
  coll : Coll
  threads : List (Nat × Th)
  rxs : List (Nat × Ring Cmd)       -- `SPSC_RXS`, registration order, keyed by thread
  spans : List (String × SpanVal)
  lspans : List (String × LocalSpansVal)
  cyc : Option CycState
  adapters : List (String × Adapter) := []
  deferred : List Nat := []         -- collect ids whose commit was first seen in a second drain pass
  carried : List Cmd := []          -- drops / span sets first seen in a second drain pass that wait for the next cycle
  parkedCancels : List Nat := []    -- `PARKED_CANCELS`: traces whose cancel signal is parked on its thread (queue full)
  g : Ghost := {}                   -- history variables (ghost)
deriving Repr, Inhabited

/-- replace the history variables (nothing else) -/
def Sys.withG (s : Sys) (g : Ghost) : Sys := { s with g := g }

def Sys.init : Sys :=
  { clock := 0, nextCollect := 0, reporterReady := false,
    coll := { cancelable := false, hasReporter := false, active := [] },
    threads := [], rxs := [], spans := [], lspans := [], cyc := none, adapters := [] }

/-- a user closure producing properties; `reenter` selects what else it does when invoked:
    0 nothing, 1 enter+drop a `LocalSpan`, 2 `LocalSpan::add_event`,
    3 `Span::enter_with_local_parent` + drop, 4 `SpanContext::current_local_parent()`,
    5 the properties come from a lazy iterator whose every item enters+drops a `LocalSpan` -/
structure Closure where
  kvs : Props
  reenter : Nat
deriving Repr, DecidableEq, Inhabited

inductive Op where
  | setReporter (cancelable : Bool)
  | spawn                                   -- thread start (draws one id to learn its prefix)
  | touch                                   -- `verif::touch_sender()`
  | root (v : String) (name : String) (trace span : Nat) (sampled : Bool)
  | child1 (v name p : String)              -- `enter_with_parent`
  | childN (v name : String) (ps : List String)  -- `enter_with_parents`
  | childLocal (v name : String)            -- `Span::enter_with_local_parent`
  | withProps (v : String) (cl : Closure)
  | addProps (v : String) (cl : Closure)
  | addEvent (v name : String) (props : Option Props)
  | pushChild (v x : String)
  | elapsed (v : String)
  | cancel (v : String)
  | drop (v : String)
  | scope (v : String)                      -- `let g = v.set_local_parent()`
  | localEnter (name : String)              -- `LocalSpan::enter_with_local_parent`
  | collectorStart
  | close                                   -- drop the most recent guard
  | collect (x : String)                    -- `collector.collect()` on the most recent guard
  | lWithProps (cl : Closure)               -- `.with_properties` on the most recent `LocalSpan`
  | lAddProps (cl : Closure)                -- `LocalSpan::add_properties`
  | lAddEvent (name : String) (props : Option Props)
  | ctxOf (v : String)
  | ctxLocal
  | toRecords (x : String) (trace span : Nat)
  | dropLocalSpans (x : String)             -- a `LocalSpans` value goes out of scope (or was moved into a call)
  | cycle
  | flush
  | cycBegin
  | cycStep
  | stats
  | exit
  | spam (n : Nat)                          -- n × (unsampled root created and dropped)
  | adNew (a : String) (kind : AdKind) (arg : String)  -- wrap a scripted inner; `arg` = span variable / span name
  | adPoll (a : String) (call : String)     -- the adapter method is entered; the inner body follows
  | adEnd (a : String) (result : String)    -- the inner returns `result`; the adapter method returns
  | adDrop (a : String)                     -- the adapter is dropped
  | closeUnder                              -- drop the scope / collector guard beneath the still-open local spans
  | collectUnder (x : String)               -- `collector.collect()` while local spans recorded in it are still open
  | unwind                                  -- a panic unwinds through the thread's guards and is caught
  | rootFrom (v name p : String) (viaTraceparent : Bool)   -- `Span::root(name, SpanContext::from_span(&p)?)`; the
                                            -- context may travel as a W3C traceparent string (identity: C12_roundtrip)
  | rootFromLocal (v name : String) (viaTraceparent : Bool) -- … from `SpanContext::current_local_parent()?`
deriving Repr, Inhabited

structure Stats where
  active : List (Nat × Nat × Nat)   -- (collect id, buffered span sets, parked items), sorted
  receivers : Nat
  parkedCancels : Nat := 0          -- notes in `PARKED_CANCELS`
deriving Repr, DecidableEq, Inhabited

inductive Obs where
  | ok
  | closure (invoked : Bool)
  | ctx (c : Option SpanContext)
  | elapsed (isSome : Bool)
  | records (rs : List Record)
  | report (rs : Option (List Record))
  | phase (p : String)
  | stats (s : Stats)
  | badOp (why : String)
deriving Repr, Inhabited

/-! ### small state helpers -/

def assocGet {β : Type} (l : List (String × β)) (k : String) : Option β := (l.find? (·.1 == k)).map (·.2)
def assocSet {β : Type} (l : List (String × β)) (k : String) (v : β) : List (String × β) :=
  l.filter (·.1 != k) ++ [(k, v)]
def assocDel {β : Type} (l : List (String × β)) (k : String) : List (String × β) := l.filter (·.1 != k)

def natGet {β : Type} (l : List (Nat × β)) (k : Nat) : Option β := (l.find? (·.1 == k)).map (·.2)
def natSet {β : Type} : List (Nat × β) → Nat → β → List (Nat × β)
  | [], k, v => [(k, v)]
  | (k', v') :: rest, k, v => if k' = k then (k, v) :: rest else (k', v') :: natSet rest k v

def Sys.th (s : Sys) (t : Nat) : Th := (natGet s.threads t).getD (Th.fresh (t + 1))
def Sys.setTh (s : Sys) (t : Nat) (th : Th) : Sys := { s with threads := natSet s.threads t th }

def Sys.ctr (s : Sys) (t : Nat) : Ctr := { pref := (s.th t).pref, suffix := (s.th t).suffix, clock := s.clock }
def Sys.putCtr (s : Sys) (t : Nat) (c : Ctr) : Sys :=
  { (s.setTh t { s.th t with suffix := c.suffix }) with clock := c.clock }

/-- `SpanInner::issue_collect_token` -/
def issueToken (sp : SpanInner) : Token :=
  sp.token.map fun it => { it with parentId := sp.raw.id, isRoot := false }

/-- the token a span variable contributes to a multi-parent child (nothing for a no-op span) -/
def Sys.tokenOfVar (s : Sys) (p : String) : Token :=
  match assocGet s.spans p with
  | some (some sp) => issueToken sp
  | _ => []

/-! ### the command channel -/

/-- the registry lock `SPSC_RXS` is held by the collector from the start of a drain until the
    last receiver has been visited; it is free again while the cycle post-processes and reports -/
def Sys.regLocked (s : Sys) : Bool :=
  match s.cyc with
  | none => false
  | some cs => cs.phase != .atReport

/-- first use of `COMMAND_SENDER` on a thread: create the ring, register the receiver.
    `none` while a drain holds the registry lock (the real thread would block).  A receiver
    registered while the cycle is post-processing / reporting joins the retained receivers. -/
def Sys.register (s : Sys) (t : Nat) : Option Sys :=
  if (s.th t).registered then some s
  else
    match s.cyc with
    | none => some { (s.setTh t { s.th t with registered := true }) with rxs := s.rxs ++ [(t, Ring.new Consts.ringCap)] }
    | some cs =>
      if cs.phase != .atReport then none
      else some { (s.setTh t { s.th t with registered := true }) with
                  cyc := some { cs with kept := cs.kept ++ [(t, Ring.new Consts.ringCap)] } }

/-- the ring of thread `t` is in the registry, or — while a drain is in progress — in the
    drain's `todo` / `kept` lists -/
def Sys.ringOf (s : Sys) (t : Nat) : Option (Ring Cmd) :=
  match s.cyc with
  | none => natGet s.rxs t
  | some cs => (natGet cs.todo t).orElse fun _ => natGet cs.kept t

def Sys.setRing (s : Sys) (t : Nat) (r : Ring Cmd) : Sys :=
  match s.cyc with
  | none => { s with rxs := natSet s.rxs t r }
  | some cs =>
    if (natGet cs.todo t).isSome then { s with cyc := some { cs with todo := natSet cs.todo t r } }
    else if (natGet cs.kept t).isSome then { s with cyc := some { cs with kept := natSet cs.kept t r } }
    else s   -- receiver already removed: the producer's pushes go nowhere

/-- `send_command` (`forced = false`) / `force_send_command` (`forced = true`) -/
def Sys.sendCmd (s : Sys) (t : Nat) (cmd : Cmd) (forced : Bool) : Sys :=
  match s.register t with
  | none => s.withG { s.g with blocked := cmd :: s.g.blocked }
  | some s =>
    match s.ringOf t with
    | none => s.withG { s.g with orphaned := cmd :: s.g.orphaned }
    | some r =>
      let th := s.th t
      if forced then
        let (r, pend) := r.forceSend th.pending cmd
        ((s.setRing t r).setTh t { th with pending := pend }).withG
          { s.g with accepted := cmd :: s.g.accepted, acceptedBy := (t, cmd) :: s.g.acceptedBy }
      else
        let (r, pend, ok) := r.send th.pending cmd
        ((s.setRing t r).setTh t { th with pending := pend }).withG
          (if ok then { s.g with accepted := cmd :: s.g.accepted, acceptedBy := (t, cmd) :: s.g.acceptedBy }
           else { s.g with refused := cmd :: s.g.refused })

/-- `GlobalCollect::drop_collect` after `force_send_command`: if the call returned false — the
    signal is parked in this thread's overflow list, where the collector cannot see it — a note
    is left in `PARKED_CANCELS` -/
def Sys.noteParked (s : Sys) (t cid : Nat) : Sys :=
  if (s.th t).pending.isEmpty then s
  else { s with parkedCancels := if s.parkedCancels.contains cid then s.parkedCancels else cid :: s.parkedCancels }

/-- `GlobalCollect::submit_spans` -/
def Sys.submitSpans (s : Sys) (t : Nat) (spans : SpanSet) (token : Token) : Sys :=
  let token := token.filter (·.isSampled)
  if token.isEmpty then s else s.sendCmd t (.submit spans token) false

/-! ### spans -/

/-- `Span::new` -/
def Sys.newSpan (s : Sys) (t : Nat) (v name : String) (token : Token) (collectId : Option Nat) : Sys :=
  let (id, c) := (s.ctr t).nextId
  let (now, c) := c.now
  let raw : RawSpan := { id := id, parentId := 0, beginT := now, name := name, props := none,
                         kind := .span, endT := 0 }
  { (s.putCtr t c) with spans := assocSet s.spans v (some ⟨raw, token, collectId⟩) }

/-- `impl Drop for Span` -/
def Sys.dropSpanVal (s : Sys) (t : Nat) (sv : SpanVal) : Sys :=
  match sv with
  | none => s
  | some sp =>
    let (now, c) := (s.ctr t).now
    let s := s.putCtr t c
    let s := s.submitSpans t (.span { sp.raw with endT := now }) sp.token
    match sp.collectId with
    | some cid => s.sendCmd t (.commit cid) true
    | none => s

/-! ### guards -/

/-- dropping one guard -/
def Sys.closeGuard (s : Sys) (t : Nat) (g : Guard) : Sys :=
  match g with
  | .scope none => s
  | .scope (some epoch) =>
    -- `LocalParentGuard::drop`: collect_spans_and_token, then submit under the scope's token
    let th := s.th t
    let (stack, res) := th.stack.unregisterAndCollect epoch
    let s := s.setTh t { th with stack := stack }
    let (spans, token) := res.getD ([], none)
    let (now, c) := (s.ctr t).now
    let s := s.putCtr t c
    match token with
    | some tok => s.submitSpans t (.locals spans now) tok
    | none => s
  | .localSpan none => s
  | .localSpan (some h) =>
    let th := s.th t
    let (stack, c) := th.stack.exitSpan (s.ctr t) h
    (s.setTh t { th with stack := stack }).putCtr t c
  | .collector none => s
  | .collector (some epoch) =>
    let th := s.th t
    let (stack, _) := th.stack.unregisterAndCollect epoch
    s.setTh t { th with stack := stack }

/-- a `LocalSpan` entered and dropped by user code -/
def Sys.enterExitLocal (s : Sys) (t : Nat) : Sys :=
  let th := s.th t
  match th.stack.enterSpan (s.ctr t) "cl" with
  | none => s
  | some (stack, h, c) =>
    let (stack, c) := stack.exitSpan c h
    (s.setTh t { th with stack := stack }).putCtr t c

/-- what a closure does besides returning its properties -/
def Sys.runClosure (s : Sys) (t : Nat) (cl : Closure) : Sys :=
  match cl.reenter with
  | 1 => s.enterExitLocal t
  | 5 =>
    -- a lazy iterator: every item is produced by user code that enters a `LocalSpan`
    cl.kvs.foldl (fun s _ => s.enterExitLocal t) s
  | 2 =>
    let th := s.th t
    let (stack, c) := th.stack.addEvent (s.ctr t) "cl-ev" none
    (s.setTh t { th with stack := stack }).putCtr t c
  | 3 =>
    match (s.th t).stack.currentToken with
    | none => s
    | some tok =>
      let s := s.newSpan t "__cl" "cl-span" tok none
      let sv := (assocGet s.spans "__cl").getD none
      ({ s with spans := assocDel s.spans "__cl" }).dropSpanVal t sv
  | _ => s

/-! ### the collector actor -/

def Sys.statsOf (s : Sys) : Stats :=
  { active := (s.coll.active.map fun e => (e.1, e.2.collections.length,
      (e.2.danglings.map (·.2.length)).foldl (· + ·) 0)),
    receivers := s.rxs.length,
    parkedCancels := s.parkedCancels.length }

def Cmd.isCommit : Cmd → Bool
  | .commit _ => true
  | _ => false

/-- the record of a thread-safe `Span` (its events and properties arrive in other commands) -/
def SpanSet.isSpanRecord : SpanSet → Bool
  | .span r => r.kind == .span
  | _ => false

def Coll.known (c : Coll) (id : Nat) : Bool := (c.find? id).isSome

/-- does this token item of a second-pass span set wait for the next cycle?  Yes if its trace is not
    (or no longer) active — its start may still be in a channel — and, without `cancelable`, if the
    set is the record of a thread-safe span whose trace is not committed in this cycle (attachments
    made before it finished may still be in a channel). -/
def carryItem (cancelable : Bool) (c2 : Coll) (committing : List Nat) (spans : SpanSet) (it : TokenItem) : Bool :=
  !c2.known it.collectId || (!cancelable && spans.isSpanRecord && !committing.contains it.collectId)

/-- A command that only shows up in the second drain pass may be younger than commands still in
    the channels (the start of its own trace; without `cancelable` an attachment made before the
    span finished).  It is handled in this cycle only where a commit of this cycle needs it;
    otherwise it waits for the next cycle.  `c1` = collector after this cycle's starts (decides
    drops), `c2` = after its drops too (decides span sets, per token item), `committing` = the
    collect ids committed in this cycle.  Returns (handled now, carried). -/
def splitSecond (cancelable : Bool) (c1 c2 : Coll) (committing : List Nat) : List Cmd → List Cmd × List Cmd
  | [] => ([], [])
  | cmd :: rest =>
    let (now, later) := splitSecond cancelable c1 c2 committing rest
    match cmd with
    | .start _ => (cmd :: now, later)
    | .commit _ => (now, later)                 -- deferred separately (`Sys.deferred`)
    | .drop id => if c1.known id then (cmd :: now, later) else (now, cmd :: later)
    | .submit spans tok =>
      let tokLater := tok.filter (carryItem cancelable c2 committing spans)
      let tokNow := tok.filter (fun it => !carryItem cancelable c2 committing spans it)
      ((if tokNow.isEmpty then now else .submit spans tokNow :: now),
       (if tokLater.isEmpty then later else .submit spans tokLater :: later))

/-- of the second pass: what this cycle handles, and what it carries over to the next cycle -/
def Sys.cycleSplit (s : Sys) (buf buf2 : List Cmd) : List Cmd × List Cmd :=
  let first := s.carried ++ buf
  let committing := s.deferred ++ commitsOf buf
  let c1 := (startsOf (first ++ buf2)).foldl (fun c id => c.insert id Active.empty) s.coll
  let drops2 := (dropsOf buf2).filter c1.known
  let c2 := (dropsOf first ++ drops2).foldl (fun c id => if c.cancelable then c.remove id else c) c1
  splitSecond s.coll.cancelable c1 c2 committing buf2

/-- what a cycle hands to the processing loops: the commits deferred by the previous cycle, what the
    previous cycle carried over, everything popped in the first pass, and of the second pass what
    `splitSecond` lets through -/
def Sys.cycleBatch (s : Sys) (buf buf2 : List Cmd) : List Cmd :=
  s.deferred.map Cmd.commit ++ (s.carried ++ buf) ++ (s.cycleSplit buf buf2).1

/-- processing + report once the drain is complete.  Commits of the second pass wait for the next
    cycle (`deferred`), so do the carried commands (`carried`).  Without a reporter everything is
    discarded. -/
def Sys.finishCycle (s : Sys) (kept : List (Nat × Ring Cmd)) (buf buf2 : List Cmd) : Sys × Option (List Record) :=
  let batch := s.cycleBatch buf buf2
  let later2 := (s.cycleSplit buf buf2).2
  let (coll, rep) := cycleProcess id s.coll batch
  (({ s with coll := coll, rxs := kept, cyc := none,
             deferred := if s.coll.hasReporter then commitsOf buf2 else [],
             carried := if s.coll.hasReporter then later2 else [] } : Sys).withG
     (if s.coll.hasReporter then
        { s.g with consumed := batch ++ s.g.consumed, reported := rep.getD [] ++ s.g.reported }
      else { s.g with discarded := batch ++ later2 ++ buf2.filter Cmd.isCommit ++ s.g.discarded }), rep)

/-- `PARKED_CANCELS` is consulted for every commit this cycle handles: (ids found, what remains) -/
def takeParked : List Nat → List Nat → List Nat × List Nat
  | [], parked => ([], parked)
  | id :: rest, parked =>
    if parked.contains id then
      let (inj, p) := takeParked rest (parked.filter (· != id))
      (id :: inj, p)
    else takeParked rest parked

/-- `handle_commands` after the drain.  With a reporter: a trace committed in this cycle whose
    cancel signal is parked on the thread that called `cancel()` (its queue was full) gets a cancel
    command from the collector itself, handled like a cancel popped in the second pass. -/
def Sys.finishCycleP (s : Sys) (kept : List (Nat × Ring Cmd)) (buf buf2 : List Cmd) : Sys × Option (List Record) :=
  if s.coll.hasReporter then
    let tp := takeParked (s.deferred ++ commitsOf buf) s.parkedCancels
    let injd := tp.1.map Cmd.drop
    let r := s.finishCycle kept buf (buf2 ++ injd)
    (({ r.1 with parkedCancels := tp.2 } : Sys).withG { r.1.g with injected := tp.1 ++ r.1.g.injected }, r.2)
  else s.finishCycle kept buf buf2

/-- the whole drain at once (no operation falls inside it) -/
def drainAll : List (Nat × Ring Cmd) → List (Nat × Ring Cmd) × List Cmd
  | [] => ([], [])
  | (t, r) :: rest =>
    let (cmds, r', keep) := r.drain
    let (kept, buf) := drainAll rest
    (if keep then (t, r') :: kept else kept, cmds ++ buf)

/-- ghost: what `drainAll` pops, tagged with the thread whose ring it came from (oldest first) -/
def drainAllTagged : List (Nat × Ring Cmd) → List (Nat × Cmd)
  | [] => []
  | (t, r) :: rest => r.q.map (fun c => (t, c)) ++ drainAllTagged rest

/-- ghost: the collector popped `q` from thread `t`'s ring -/
def Sys.logDrained (s : Sys) (t : Nat) (q : List Cmd) : Sys :=
  s.withG { s.g with drainedBy := (q.map (fun c => (t, c))).reverse ++ s.g.drainedBy }

/-- a whole cycle with nothing in between: the second pass finds the rings empty -/
def Sys.cycle (s : Sys) : Sys × Option (List Record) :=
  let (kept, buf) := drainAll s.rxs
  (s.withG { s.g with drainedBy := (drainAllTagged s.rxs).reverse ++ s.g.drainedBy }).finishCycleP kept buf []

/-- the first pass is over: the retained receivers are drained once more, or — if none is
    left — processing and report come next -/
def CycState.afterFirst (cs : CycState) : CycState × String :=
  match cs.kept with
  | [] => ({ cs with phase := .atReport }, "report")
  | _ => ({ cs with phase := .atRx2, todo2 := cs.kept.map (·.1) }, "rx2")

/-- one step of the collector, from one hook point to the next -/
def Sys.cycStep (s : Sys) : Sys × Obs :=
  match s.cyc with
  | none => (s, .badOp "no cycle in progress")
  | some cs =>
    match cs.phase, cs.todo with
    | .atReport, _ =>
      let (s, rep) := s.finishCycleP cs.kept cs.buf cs.buf2
      (s, .report rep)
    | .atRx2, _ =>
      -- second pass: everything in this retained receiver's ring is popped (no removal here)
      match cs.todo2 with
      | [] => ({ s with cyc := some { cs with phase := .atReport } }, .phase "report")
      | t :: rest =>
        let r := (natGet cs.kept t).getD (Ring.new Consts.ringCap)
        -- (`todo2` only names retained receivers; for any other name nothing is popped and nothing changes)
        let kept' := if (natGet cs.kept t).isSome then natSet cs.kept t { r with q := [] } else cs.kept
        let cs' : CycState := { cs with kept := kept', buf2 := cs.buf2 ++ r.q, todo2 := rest }
        match rest with
        | [] => ({ (s.logDrained t r.q) with cyc := some { cs' with phase := .atReport } }, .phase "report")
        | _ => ({ (s.logDrained t r.q) with cyc := some cs' }, .phase "rx2")
    | _, [] =>
      let (cs', ph) := cs.afterFirst
      ({ s with cyc := some cs' }, .phase ph)
    | .atRx, (t, r) :: rest =>
      -- pop until the ring is empty; stop at the `ReceiverEmpty` hook
      let r' : Ring Cmd := { r with q := [] }
      let cs' : CycState := { cs with phase := .atEmpty, todo := (t, r') :: rest, buf := cs.buf ++ r.q }
      ({ (s.logDrained t r.q) with cyc := some cs' }, .phase "empty")
    | .atEmpty, (t, r) :: rest =>
      if r.producerAlive then
        -- `Ok(None)`: keep the receiver, go on to the next one
        let cs := { cs with phase := .atRx, todo := rest, kept := cs.kept ++ [(t, r)] }
        match rest with
        | [] =>
          let (cs', ph) := cs.afterFirst
          ({ s with cyc := some cs' }, .phase ph)
        | _ => ({ s with cyc := some cs }, .phase "rx")
      else
        match r.q with
        | [] =>
          -- abandoned and still empty after the re-check: remove the receiver
          let cs := { cs with phase := .atRx, todo := rest }
          match rest with
          | [] =>
            let (cs', ph) := cs.afterFirst
            ({ s with cyc := some cs' }, .phase ph)
          | _ => ({ s with cyc := some cs }, .phase "rx")
        | _ =>
          -- abandoned, but the re-check finds commands: they are popped like any others
          let r' : Ring Cmd := { r with q := [] }
          let cs' : CycState := { cs with phase := .atEmpty, todo := (t, r') :: rest, buf := cs.buf ++ r.q }
          ({ (s.logDrained t r.q) with cyc := some cs' }, .phase "empty")

def Sys.cycBegin (s : Sys) : Sys × Obs :=
  match s.cyc with
  | some _ => (s, .badOp "cycle already in progress")
  | none =>
    match s.rxs with
    | [] => ({ s with cyc := some { phase := .atReport, todo := [], kept := [], buf := [] } }, .phase "report")
    | _ => ({ s with cyc := some { phase := .atRx, todo := s.rxs, kept := [], buf := [] } }, .phase "rx")

/-! ### one operation -/

def ctxOfToken (tok : Token) : Option SpanContext :=
  match tok with
  | [] => none
  | it :: _ => some ⟨it.traceId, it.parentId, it.isSampled⟩

/-- thread exit: remaining guards are released newest-first (the harness does this
    explicitly), then the TLS destructor of `COMMAND_SENDER` runs `Sender::drop` -/
def Sys.exitThread (s : Sys) (t : Nat) : Sys :=
  let s := (s.th t).guards.foldl (fun s g => s.closeGuard t g) s
  let th := s.th t
  let s := s.setTh t { th with guards := [], alive := false, pending := [] }
  if th.registered then
    match s.ringOf t with
    | some r => (s.setRing t (r.senderDrop th.pending)).withG { s.g with lostAtExit := r.senderDropLost th.pending ++ s.g.lostAtExit }
    | none => s.withG { s.g with lostAtExit := th.pending ++ s.g.lostAtExit }
  else s.withG { s.g with lostAtExit := th.pending ++ s.g.lostAtExit }   -- (empty: the channel was never used)

def Sys.spamOnce (s : Sys) (t : Nat) : Sys :=
  if !s.reporterReady then s else
  let s := s.newSpan t "__spam" "spam" [⟨0, 0, Consts.notSampledCollectId, true, false⟩] (some Consts.notSampledCollectId)
  let sv := (assocGet s.spans "__spam").getD none
  ({ s with spans := assocDel s.spans "__spam" }).dropSpanVal t sv

/-- entering an adapter method: the adapter sets its span as local parent (or, for
    `enter_on_poll`, opens a local span) around the call of the inner future / stream / sink -/
def Sys.adPoll (s : Sys) (t : Nat) (a call : String) : Sys × Obs :=
  match assocGet s.adapters a with
  | none => (s, .badOp "unknown adapter")
  | some ad =>
    let th := s.th t
    let s1 : Sys := { s with adapters := assocSet s.adapters a { ad with inCall := some call } }
    match ad.kind with
    | .enterOnPoll =>
      -- `let _guard = LocalSpan::enter_with_local_parent(name)`
      match th.stack.enterSpan (s.ctr t) ad.name with
      | none => (s1.setTh t { th with guards := .localSpan none :: th.guards }, .ok)
      | some (stack, h, c) =>
        ((s1.setTh t { th with stack := stack, guards := .localSpan (some h) :: th.guards }).putCtr t c, .ok)
    | _ =>
      -- `let _guard = this.span.as_ref().map(|s| s.set_local_parent())`
      match ad.span with
      | some (some sp) =>
        match th.stack.registerLine (some (issueToken sp)) with
        | none => (s1.setTh t { th with guards := .scope none :: th.guards }, .ok)
        | some (stack, epoch) =>
          (s1.setTh t { th with stack := stack, guards := .scope (some epoch) :: th.guards }, .ok)
      | _ => (s1.setTh t { th with guards := .scope none :: th.guards }, .ok)

/-- the inner returns `result`: the guard is dropped first (D5 fix), then, if this result
    finishes the adapter, its span is taken and dropped -/
def Sys.adEnd (s : Sys) (t : Nat) (a result : String) : Sys × Obs :=
  match assocGet s.adapters a, (s.th t).guards with
  | some ad, g :: gs =>
    match ad.inCall with
    | none => (s, .badOp "adapter not in a call")
    | some call =>
      let s1 := (s.setTh t { s.th t with guards := gs }).closeGuard t g
      if adFinishes ad.kind call result then
        let s2 : Sys := { s1 with adapters := assocSet s1.adapters a { ad with span := none, inCall := none } }
        match ad.span with
        | some sv => (s2.dropSpanVal t sv, .ok)
        | none => (s2, .ok)
      else ({ s1 with adapters := assocSet s1.adapters a { ad with inCall := none } }, .ok)
  | _, _ => (s, .badOp "unknown adapter or no guard")

/-- the local-span guards on top of the guard stack, the first other guard beneath them, and
    what lies below that -/
def splitOpen : List Guard → Option (List Guard × Guard × List Guard)
  | [] => none
  | .localSpan h :: gs =>
    match splitOpen gs with
    | some (ls, g, rest) => some (.localSpan h :: ls, g, rest)
    | none => none
  | g :: gs => some ([], g, gs)

/-- a scope or collector guard is released while local spans recorded in its span line are
    still open (the one departure from reverse-order release that the API documents: the open
    spans are closed at that instant).  Their handles go stale: with no span line left on the
    stack `exit_span` does nothing.  Only modelled when that line is the thread's only one — under
    an outer line the stale `exit_span` trips a `debug_assert`. -/
def Sys.closeUnder (s : Sys) (t : Nat) : Sys × Obs :=
  let th := s.th t
  match splitOpen th.guards with
  | none => (s, .badOp "no scope under the open local spans")
  | some (ls, g, rest) =>
    if th.stack.lines.length ≠ 1 then (s, .badOp "not the only span line") else
    match g with
    | .scope (some _) | .collector (some _) => ((s.setTh t { th with guards := ls ++ rest }).closeGuard t g, .ok)
    | _ => (s, .badOp "no-op guard")

def Sys.collectUnder (s : Sys) (t : Nat) (x : String) : Sys × Obs :=
  let th := s.th t
  match splitOpen th.guards with
  | some (ls, .collector (some epoch), rest) =>
    if th.stack.lines.length ≠ 1 then (s, .badOp "not the only span line") else
    let (stack, res) := th.stack.unregisterAndCollect epoch
    let s := s.setTh t { th with stack := stack, guards := ls ++ rest }
    let (now, c) := (s.ctr t).now
    ({ (s.putCtr t c) with lspans := assocSet s.lspans x ⟨(res.getD ([], none)).1, now⟩ }, .ok)
  | _ => (s, .badOp "no collector under the open local spans")

/-- `Span::root(name, SpanContext { trace_id, span_id, sampled })` -/
def Sys.rootOp (s : Sys) (t : Nat) (v name : String) (trace span : Nat) (sampled : Bool) : Sys × Obs :=
  if !s.reporterReady then ({ s with spans := assocSet s.spans v none }, .ok) else
  if sampled ∧ s.regLocked ∧ !(s.th t).registered then (s, .badOp "blocked: registry locked by the drain") else
  if sampled then
    ((({ s with nextCollect := s.nextCollect + 1 }).sendCmd t (.start s.nextCollect) false).newSpan t v name
      [⟨trace, span, s.nextCollect, true, sampled⟩] (some s.nextCollect), .ok)
  else
    (s.newSpan t v name [⟨trace, span, Consts.notSampledCollectId, true, sampled⟩] (some Consts.notSampledCollectId), .ok)

def exec (s : Sys) (t : Nat) (op : Op) : Sys × Obs :=
  let th := s.th t
  match op with
  | .setReporter cancelable =>
    ({ s with reporterReady := true, coll := { s.coll with cancelable := cancelable, hasReporter := true } }, .ok)
  | .spawn =>
    let s := s.setTh t th
    let (_, c) := (s.ctr t).nextId
    (s.putCtr t c, .ok)
  | .touch =>
    match s.register t with
    | some s => (s, .ok)
    | none => (s, .badOp "blocked: registry locked by the drain")
  | .root v name trace span sampled => s.rootOp t v name trace span sampled
  | .rootFrom v name p _ =>
    match assocGet s.spans p with
    | none => (s, .badOp "unknown span")
    | some none => (s, .badOp "no context")
    | some (some sp) =>
      match ctxOfToken (issueToken sp) with
      | none => (s, .badOp "no context")
      | some c => s.rootOp t v name c.traceId c.spanId c.sampled
  | .rootFromLocal v name _ =>
    match th.stack.currentToken with
    | none => (s, .badOp "no context")
    | some tok =>
      match ctxOfToken tok with
      | none => (s, .badOp "no context")
      | some c => s.rootOp t v name c.traceId c.spanId c.sampled
  | .child1 v name p =>
    match assocGet s.spans p with
    | none => (s, .badOp "unknown span")
    | some none => ({ s with spans := assocSet s.spans v none }, .ok)
    | some (some sp) => (s.newSpan t v name (issueToken sp) none, .ok)
  | .childN v name ps =>
    if ps.any (fun p => (assocGet s.spans p).isNone) then (s, .badOp "unknown span") else
    -- a span derived only from no-op spans (or from no span at all) is a no-op span
    if (ps.flatMap s.tokenOfVar).isEmpty then ({ s with spans := assocSet s.spans v none }, .ok) else
    (s.newSpan t v name (ps.flatMap s.tokenOfVar) none, .ok)
  | .childLocal v name =>
    match th.stack.currentToken with
    | some tok => (s.newSpan t v name tok none, .ok)
    | none => ({ s with spans := assocSet s.spans v none }, .ok)
  | .withProps v cl =>
    match assocGet s.spans v with
    | none => (s, .badOp "unknown span")
    | some none => (s, .closure false)
    | some (some sp) =>
      let s := s.runClosure t cl
      ({ s with spans := assocSet s.spans v (some { sp with raw := { sp.raw with props := extendProps sp.raw.props cl.kvs } }) },
       .closure true)
  | .addProps v cl =>
    match assocGet s.spans v with
    | none => (s, .badOp "unknown span")
    | some none => (s, .closure false)
    | some (some sp) =>
      let tok := issueToken sp
      let (id, c) := (s.ctr t).nextId
      let (now, c) := c.now
      let s := (s.putCtr t c).runClosure t cl
      let raw : RawSpan := { id := id, parentId := 0, beginT := now, name := "", props := extendProps none cl.kvs,
                             kind := .properties, endT := 0 }
      (s.submitSpans t (.span raw) tok, .closure true)
  | .addEvent v name props =>
    match assocGet s.spans v with
    | none => (s, .badOp "unknown span")
    | some none => (s, .ok)
    | some (some sp) =>
      let tok := issueToken sp
      let (id, c) := (s.ctr t).nextId
      let (now, c) := c.now
      let raw : RawSpan := { id := id, parentId := 0, beginT := now, name := name, props := props,
                             kind := .event, endT := 0 }
      ((s.putCtr t c).submitSpans t (.span raw) tok, .ok)
  | .pushChild v x =>
    match assocGet s.spans v, assocGet s.lspans x with
    | some sv, some ls =>
      match sv with
      | none => (s, .ok)
      | some sp =>
        if ls.spans.isEmpty then (s, .ok)
        else (s.submitSpans t (.locals ls.spans ls.endT) (issueToken sp), .ok)
    | _, _ => (s, .badOp "unknown span or local spans")
  | .elapsed v =>
    match assocGet s.spans v with
    | none => (s, .badOp "unknown span")
    | some sv => (s, .elapsed sv.isSome)
  | .cancel v =>
    match assocGet s.spans v with
    | none => (s, .badOp "unknown span")
    | some none => (s, .ok)
    | some (some sp) =>
      match sp.collectId with
      | some cid =>
        ((s.sendCmd t (.drop cid) true).noteParked t cid, .ok)
      | none => (s, .ok)
  | .drop v =>
    match assocGet s.spans v with
    | none => (s, .badOp "unknown span")
    | some sv => (({ s with spans := assocDel s.spans v }).dropSpanVal t sv, .ok)
  | .scope v =>
    match assocGet s.spans v with
    | none => (s, .badOp "unknown span")
    | some none => (s.setTh t { th with guards := .scope none :: th.guards }, .ok)
    | some (some sp) =>
      match th.stack.registerLine (some (issueToken sp)) with
      | none => (s.setTh t { th with guards := .scope none :: th.guards }, .ok)
      | some (stack, epoch) =>
        (s.setTh t { th with stack := stack, guards := .scope (some epoch) :: th.guards }, .ok)
  | .localEnter name =>
    match th.stack.enterSpan (s.ctr t) name with
    | none => (s.setTh t { th with guards := .localSpan none :: th.guards }, .ok)
    | some (stack, h, c) =>
      ((s.setTh t { th with stack := stack, guards := .localSpan (some h) :: th.guards }).putCtr t c, .ok)
  | .collectorStart =>
    match th.stack.registerLine none with
    | none => (s.setTh t { th with guards := .collector none :: th.guards }, .ok)
    | some (stack, epoch) =>
      (s.setTh t { th with stack := stack, guards := .collector (some epoch) :: th.guards }, .ok)
  | .close =>
    match th.guards with
    | [] => (s, .badOp "no guard")
    | g :: gs => ((s.setTh t { th with guards := gs }).closeGuard t g, .ok)
  | .collect x =>
    match th.guards with
    | .collector e :: gs =>
      let s := s.setTh t { th with guards := gs }
      let (s, spans) :=
        match e with
        | none => (s, [])
        | some epoch =>
          let th := s.th t
          let (stack, res) := th.stack.unregisterAndCollect epoch
          (s.setTh t { th with stack := stack }, (res.getD ([], none)).1)
      let (now, c) := (s.ctr t).now
      ({ (s.putCtr t c) with lspans := assocSet s.lspans x ⟨spans, now⟩ }, .ok)
    | _ => (s, .badOp "most recent guard is not a collector")
  | .lWithProps cl =>
    match th.guards with
    | .localSpan none :: _ => (s, .closure false)
    | .localSpan (some h) :: _ =>
      let s := s.runClosure t cl
      let th := s.th t
      (s.setTh t { th with stack := th.stack.withProps h cl.kvs }, .closure true)
    | _ => (s, .badOp "most recent guard is not a local span")
  | .lAddProps cl =>
    if th.stack.isSampled then
      let s := s.runClosure t cl
      let th := s.th t
      let (stack, c) := th.stack.addProps (s.ctr t) cl.kvs
      ((s.setTh t { th with stack := stack }).putCtr t c, .closure true)
    else (s, .closure false)
  | .lAddEvent name props =>
    let (stack, c) := th.stack.addEvent (s.ctr t) name props
    ((s.setTh t { th with stack := stack }).putCtr t c, .ok)
  | .ctxOf v =>
    match assocGet s.spans v with
    | none => (s, .badOp "unknown span")
    | some none => (s, .ctx none)
    | some (some sp) => (s, .ctx (ctxOfToken (issueToken sp)))
  | .ctxLocal =>
    match th.stack.currentToken with
    | none => (s, .ctx none)
    | some tok => (s, .ctx (ctxOfToken tok))
  | .toRecords x trace span =>
    match assocGet s.lspans x with
    | none => (s, .badOp "unknown local spans")
    | some ls => (s, .records (toSpanRecords id ls.spans ls.endT trace span))
  | .dropLocalSpans x => ({ s with lspans := assocDel s.lspans x }, .ok)
  | .cycle | .flush =>
    if s.cyc.isSome then (s, .badOp "cycle already in progress") else
    let (s, rep) := s.cycle
    (s, .report rep)
  | .cycBegin => s.cycBegin
  | .cycStep => s.cycStep
  | .stats => if s.cyc.isSome then (s, .badOp "cycle in progress") else (s, .stats s.statsOf)
  | .exit => (s.exitThread t, .ok)
  | .spam n =>
    if s.regLocked ∧ !th.registered then (s, .badOp "blocked: registry locked by the drain") else
    (Nat.rec s (fun _ acc => acc.spamOnce t) n, .ok)
  | .adNew a kind arg =>
    match kind with
    | .enterOnPoll => ({ s with adapters := assocSet s.adapters a ⟨kind, none, arg, none⟩ }, .ok)
    | _ =>
      match assocGet s.spans arg with
      | none => (s, .badOp "unknown span")
      | some sv => ({ s with spans := assocDel s.spans arg, adapters := assocSet s.adapters a ⟨kind, some sv, "", none⟩ }, .ok)
  | .adPoll a call => s.adPoll t a call
  | .adEnd a result => s.adEnd t a result
  | .adDrop a =>
    match assocGet s.adapters a with
    | none => (s, .badOp "unknown adapter")
    | some ad =>
      let s := { s with adapters := assocDel s.adapters a }
      match ad.span with
      | some sv => (s.dropSpanVal t sv, .ok)
      | none => (s, .ok)
  | .closeUnder => s.closeUnder t
  | .collectUnder x => s.collectUnder t x
  | .unwind =>
    -- unwinding drops the guards newest-first, exactly as a normal return would
    let s := th.guards.foldl (fun s g => s.closeGuard t g) s
    (s.setTh t { s.th t with guards := [] }, .ok)

/-- a program: operations tagged with the logical thread that performs them -/
abbrev Program := List (Nat × Op)

def run (s : Sys) : Program → Sys × List Obs
  | [] => (s, [])
  | (t, op) :: rest =>
    let (s, o) := exec s t op
    let (s, os) := run s rest
    (s, o :: os)

end Fastrace
