/- Constants the model is written against.  `Props/ParamsOk.lean` proves that the values
   regenerated from /repo on every run (`Gen/Params.lean`) equal these. -/
namespace Fastrace.Consts

def ringCap : Nat := 10240
def spanQueueSize : Nat := 10240
def spanStackSize : Nat := 4096
/-- `NOT_SAMPLED_COLLECT_ID = usize::MAX` on a 64-bit target -/
def notSampledCollectId : Nat := 2 ^ 64 - 1
def maxUdp : Nat := 8000

end Fastrace.Consts
