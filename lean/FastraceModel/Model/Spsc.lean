/-
L3 — `util/spsc.rs` (on top of `rtrb`): bounded ring + the sender's overflow list.

`rtrb` is modelled as a FIFO list with a capacity and a "producer alive" flag
(`Consumer::is_abandoned()` is true exactly after the `Producer` has been dropped).
This file gives the operations at call granularity (`send`, `forceSend`, `senderDrop`,
`tryRecv`); `Model/SpscSteps.lean` gives the same operations as sequences of atomic ring
steps for the interleaving theorems.
-/
namespace Fastrace

structure Ring (α : Type) where
  q : List α            -- front = oldest
  cap : Nat
  producerAlive : Bool
deriving Repr, DecidableEq, Inhabited

namespace Ring
variable {α : Type}

def new (cap : Nat) : Ring α := { q := [], cap := cap, producerAlive := true }

/-- `Producer::push`: `none` = `PushError::Full` -/
def push (r : Ring α) (x : α) : Option (Ring α) :=
  if r.q.length < r.cap then some { r with q := r.q ++ [x] } else none

/-- `Consumer::pop` -/
def pop (r : Ring α) : Option (α × Ring α) :=
  match r.q with
  | [] => none
  | x :: xs => some (x, { r with q := xs })

/-- replay of the overflow list from the front until a push fails; returns what is left -/
def replay (r : Ring α) : List α → Ring α × List α
  | [] => (r, [])
  | x :: xs =>
    match r.push x with
    | some r' => replay r' xs
    | none => (r, x :: xs)

/-- `Sender::send`: parked values first; the new value is dropped (`false`) when the ring is
    full or parked values remain -/
def send (r : Ring α) (pending : List α) (v : α) : Ring α × List α × Bool :=
  let (r, rest) := r.replay pending
  match rest with
  | [] =>
    match r.push v with
    | some r' => (r', [], true)
    | none => (r, [], false)
  | _ => (r, rest, false)

/-- `Sender::force_send`: never drops; parks the value behind older parked ones -/
def forceSend (r : Ring α) (pending : List α) (v : α) : Ring α × List α :=
  let (r, rest) := r.replay pending
  match rest with
  | [] =>
    match r.push v with
    | some r' => (r', [])
    | none => (r, [v])
  | _ => (r, rest ++ [v])

/-- `impl Drop for Sender`: every parked value is offered once, failures ignored; then the
    producer is gone -/
def senderDrop (r : Ring α) (pending : List α) : Ring α :=
  let r := pending.foldl (fun r x => (r.push x).getD r) r
  { r with producerAlive := false }

/-- ghost: the parked values that `senderDrop` could not push (they are gone: finding D3) -/
def senderDropLost (r : Ring α) : List α → List α
  | [] => []
  | x :: xs =>
    match r.push x with
    | some r' => senderDropLost r' xs
    | none => x :: senderDropLost r xs

inductive Recv (α : Type) where
  | value (x : α)
  | empty
  | closed

/-- `Receiver::try_recv` (with the re-check after observing abandonment) -/
def tryRecv (r : Ring α) : Recv α × Ring α :=
  match r.pop with
  | some (x, r') => (.value x, r')
  | none => if r.producerAlive then (.empty, r) else (.closed, r)

/-- the inner `loop` of `handle_commands` for one receiver: everything in the ring, and
    whether the receiver stays registered -/
def drain (r : Ring α) : List α × Ring α × Bool :=
  (r.q, { r with q := [] }, r.producerAlive)

end Ring
end Fastrace
