import FastraceModel.Model.Api
/-
The crate built **without** the `enable` feature: every public function body is
`#[cfg(not(feature = "enable"))] { noop }`.  The model is the constant answer per operation;
there is no state.
-/
namespace Fastrace

def execOff : Op → Obs
  | .withProps _ _ | .addProps _ _ | .lWithProps _ | .lAddProps _ => .closure false
  | .ctxOf _ | .ctxLocal => .ctx none
  | .elapsed _ => .elapsed false
  | .toRecords _ _ _ => .records []
  | .cycle | .flush => .report none
  | .cycBegin => .phase "done"
  | .cycStep => .badOp "no cycle in progress"
  | .stats => .stats ⟨[], 0, 0⟩
  | .rootFrom _ _ _ _ | .rootFromLocal _ _ _ => .badOp "no context"
  | _ => .ok

end Fastrace
