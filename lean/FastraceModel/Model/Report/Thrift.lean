/-
Thrift compact protocol as implemented by `thrift_codec 0.3.2` (`encode.rs`, impls of
`CompactEncode`), restricted to the data kinds the Jaeger reporter produces:
i32, i64, binary (strings), struct, list-of-struct.  Bytes are `Nat`s (< 256, lemma
`Lemmas/Thrift.lean`).  64-bit signed values are carried as their u64 bit pattern, which is
what `x as i64` preserves.
-/
namespace Fastrace.Thrift

mutual
inductive TData where
  | i32 (bits : Nat)            -- u32 bit pattern of the i32
  | i64 (bits : Nat)            -- u64 bit pattern of the i64
  | binary (bytes : List Nat)
  | struct (fields : TFields)
  | list (elems : TList)        -- element kind is always Struct here
inductive TFields where
  | nil
  | cons (id : Nat) (d : TData) (rest : TFields)
inductive TList where
  | nil
  | cons (d : TData) (rest : TList)
end

/-- `write_varint`: little-endian base-128, at least one byte -/
def varint (n : Nat) : List Nat :=
  if h : n < 128 then [n] else (n % 128 + 128) :: varint (n / 128)
termination_by n
decreasing_by omega

/-- `zigzag::from_i64` on the u64 bit pattern `u` of the i64 (`u < 2^64`):
    non-negative (top bit clear) ↦ 2u, negative ↦ 2·(2^64−u)−1 -/
def zigzag64 (u : Nat) : Nat := if u < 2 ^ 63 then 2 * u else 2 ^ 65 - 2 * u - 1

/-- `zigzag::from_i32` on the u32 bit pattern -/
def zigzag32 (u : Nat) : Nat := if u < 2 ^ 31 then 2 * u else 2 ^ 33 - 2 * u - 1

/-- compact field-type nibble (`constants.rs`) -/
def compactKind : TData → Nat
  | .i32 _ => 5
  | .i64 _ => 6
  | .binary _ => 8
  | .struct _ => 12
  | .list _ => 9

def TList.length : TList → Nat
  | .nil => 0
  | .cons _ r => r.length + 1

mutual
/-- `impl CompactEncode for DataRef` -/
def encData : TData → List Nat
  | .i32 b => varint (zigzag32 b)
  | .i64 b => varint (zigzag64 b)
  | .binary bs => varint bs.length ++ bs
  | .struct fs => encFields 0 fs
  | .list es =>
    (if es.length < 15 then [es.length * 16 + 12] else [0xF0 + 12] ++ varint es.length) ++ encList es
/-- `impl CompactEncode for Struct`: delta-encoded field headers, stop byte.
    `prev` is the previous field id. -/
def encFields (prev : Nat) : TFields → List Nat
  | .nil => [0]
  | .cons id d rest =>
    (if prev < id ∧ id - prev ≤ 15 then [(id - prev) * 16 + compactKind d]
     else [compactKind d] ++ varint (zigzag32 id)) ++ encData d ++ encFields id rest
def encList : TList → List Nat
  | .nil => []
  | .cons d rest => encData d ++ encList rest
end

/-- `impl CompactEncode for Message` for `Message::oneway(name, 0, body)` -/
def encMessageOneway (name : List Nat) (body : TFields) : List Nat :=
  [0x82, 4 * 32 + 1] ++ varint 0 ++ (varint name.length ++ name) ++ encFields 0 body

def TList.ofList : List TData → TList
  | [] => .nil
  | d :: ds => .cons d (TList.ofList ds)

def TFields.ofList : List (Nat × TData) → TFields
  | [] => .nil
  | (i, d) :: r => .cons i d (TFields.ofList r)

end Fastrace.Thrift
