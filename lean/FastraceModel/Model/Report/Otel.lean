import FastraceModel.Model.Record
/-
`fastrace-opentelemetry/src/lib.rs`: `convert` / `map_events` / `map_props_to_kvs`.
`SystemTime::UNIX_EPOCH + Duration::from_nanos(n)` is the pair (n / 10^9, n % 10^9).
-/
namespace Fastrace.Otel
open Fastrace

def be : Nat → Nat → List Nat
  | 0, _ => []
  | w + 1, n => (n / 256 ^ w % 256) :: be w n

structure Time where
  secs : Nat
  nanos : Nat
deriving Repr, DecidableEq

def timeOfNanos (n : Nat) : Time := ⟨n / 1000000000, n % 1000000000⟩

structure OEvent where
  name : String
  time : Time
  attrs : Props
deriving Repr, DecidableEq

structure SpanData where
  traceId : List Nat      -- 16 bytes, big-endian (`u128.into()`)
  spanId : List Nat       -- 8 bytes
  parentId : List Nat
  name : String
  start : Time
  finish : Time
  attrs : Props
  events : List OEvent
deriving Repr, DecidableEq

/-- `convert` for one record; `begin + duration` is a `u64` addition in the real code, so this
    is its behaviour exactly when `r.beginNs + r.durationNs < 2^64` (see `Record.TimeWF`) -/
def convert (r : Record) : SpanData :=
  { traceId := be 16 r.traceId, spanId := be 8 r.spanId, parentId := be 8 r.parentId,
    name := r.name, start := timeOfNanos r.beginNs, finish := timeOfNanos (r.beginNs + r.durationNs),
    attrs := r.props,
    events := r.events.map fun e => ⟨e.name, timeOfNanos e.timestamp, e.props⟩ }

end Fastrace.Otel
