import FastraceModel.Model.Record
import FastraceModel.Model.Report.Thrift
import FastraceModel.Model.Consts
/-
`fastrace-jaeger/src/lib.rs` + `thrift.rs`: `convert`, the `From<..> for Struct` impls,
`serialize`, and the `try_report` batching loop.
-/
namespace Fastrace.Jaeger
open Fastrace Fastrace.Thrift

def strBytes (s : String) : List Nat := s.toUTF8.toList.map (·.toNat)

/-- `Tag::String { key, value }` → `Struct` (fields 1 key, 2 kind = 0, 3 value) -/
def tagStruct (k v : String) : TData :=
  .struct (.cons 1 (.binary (strBytes k)) (.cons 2 (.i32 0) (.cons 3 (.binary (strBytes v)) .nil)))

/-- `Log { timestamp, fields }`; fields = ("name", event.name) followed by the event's
    properties; timestamp in µs -/
def logStruct (e : EventRecord) : TData :=
  .struct (.cons 1 (.i64 (e.timestamp / 1000))
    (.cons 2 (.list (TList.ofList (tagStruct "name" e.name :: e.props.map fun kv => tagStruct kv.1 kv.2))) .nil))

/-- `JaegerReporter::convert` followed by `From<JaegerSpan> for Struct`:
    ids as i64 bit patterns, µs times, references omitted (always empty), tags/logs omitted
    when empty -/
def spanStruct (r : Record) : TData :=
  let tail11 : TFields := if r.events.isEmpty then .nil else .cons 11 (.list (TList.ofList (r.events.map logStruct))) .nil
  let tail10 : TFields := if r.props.isEmpty then tail11
    else .cons 10 (.list (TList.ofList (r.props.map fun kv => tagStruct kv.1 kv.2))) tail11
  .struct (.cons 1 (.i64 (r.traceId % 2 ^ 64)) (.cons 2 (.i64 (r.traceId / 2 ^ 64 % 2 ^ 64))
    (.cons 3 (.i64 r.spanId) (.cons 4 (.i64 r.parentId) (.cons 5 (.binary (strBytes r.name))
    (.cons 7 (.i32 1) (.cons 8 (.i64 (r.beginNs / 1000)) (.cons 9 (.i64 (r.durationNs / 1000)) tail10))))))))

/-- `Process { service_name, tags: [] }` → one-field struct -/
def processStruct (svc : String) : TData := .struct (.cons 1 (.binary (strBytes svc)) .nil)

/-- `JaegerReporter::serialize`: emitBatch one-way message around Batch{process, spans} -/
def encodeBatch (svc : String) (rs : List Record) : List Nat :=
  encMessageOneway (strBytes "emitBatch")
    (.cons 1 (.struct (.cons 1 (processStruct svc) (.cons 2 (.list (TList.ofList (rs.map spanStruct))) .nil))) .nil)

/-- what `try_report` does with one slice of spans -/
inductive Out (α : Type) where
  | sent (chunk : List α)     -- one datagram carrying these spans
  | skipped (s : α)           -- too large alone, dropped
deriving Repr

/-- `JaegerReporter::try_report`, over an arbitrary size function `enc` and limit `max`.
    State of the Rust loop: `rest = spans[sent_spans..]`, `perBatch = spans_per_batch`.
    `perBatch = 0` is unreachable from the initial state (`tryReport_perBatch_pos`); the
    model stops there instead of looping. -/
def tryReportLoop {α : Type} (enc : List α → Nat) (max : Nat) (rest : List α) (perBatch : Nat) :
    List (Out α) :=
  match rest with
  | [] => []
  | x :: xs =>
    if hb : min perBatch (xs.length + 1) = 0 then [] else
    if max ≤ enc ((x :: xs).take (min perBatch (xs.length + 1))) then
      if hle : min perBatch (xs.length + 1) ≤ 1 then .skipped x :: tryReportLoop enc max xs perBatch
      else tryReportLoop enc max (x :: xs) (perBatch / 2)
    else .sent ((x :: xs).take (min perBatch (xs.length + 1))) ::
      tryReportLoop enc max ((x :: xs).drop (min perBatch (xs.length + 1))) perBatch
termination_by (rest.length, perBatch)
decreasing_by
  · simp_wf; left; omega
  · simp_wf; right
    have : 2 ≤ perBatch := by omega
    omega
  · simp_wf; left
    omega

def tryReport {α : Type} (enc : List α → Nat) (max : Nat) (spans : List α) : List (Out α) :=
  tryReportLoop enc max spans spans.length

/-- the datagrams the real reporter puts on the wire for a batch -/
def datagrams (svc : String) (rs : List Record) : List (List Nat) :=
  (tryReport (fun c => (encodeBatch svc c).length) Consts.maxUdp rs).filterMap fun
    | .sent c => some (encodeBatch svc c)
    | .skipped _ => none

end Fastrace.Jaeger
