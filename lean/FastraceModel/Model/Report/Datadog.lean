import FastraceModel.Model.Record
/-
`fastrace-datadog/src/lib.rs`: `convert` + `serialize` (rmp-serde 1.3 `with_struct_map`,
rmp 0.8 smallest-form integer/str/len encodings).  Bytes are `Nat`s.
-/
namespace Fastrace.Datadog
open Fastrace

def strBytes (s : String) : List Nat := s.toUTF8.toList.map (·.toNat)

/-- big-endian, `w` bytes -/
def be : Nat → Nat → List Nat
  | 0, _ => []
  | w + 1, n => (n / 256 ^ w % 256) :: be w n

/-- `rmp::encode::write_uint` -/
def mpUint (v : Nat) : List Nat :=
  if v < 128 then [v]
  else if v < 256 then [0xcc, v]
  else if v < 65536 then 0xcd :: be 2 v
  else if v < 4294967296 then 0xce :: be 4 v
  else 0xcf :: be 8 v

/-- `rmp::encode::write_sint` on the u64 bit pattern `u` of the i64 -/
def mpSint (u : Nat) : List Nat :=
  if u < 2 ^ 63 then mpUint u
  else if 2 ^ 64 - 32 ≤ u then [u % 256]
  else if 2 ^ 64 - 128 ≤ u then [0xd0, u % 256]
  else if 2 ^ 64 - 32768 ≤ u then 0xd1 :: be 2 (u % 65536)
  else if 2 ^ 64 - 2147483648 ≤ u then 0xd2 :: be 4 (u % 4294967296)
  else 0xd3 :: be 8 u

/-- `write_str`: length marker then the UTF-8 bytes -/
def mpStr (b : List Nat) : List Nat :=
  (if b.length < 32 then [0xa0 + b.length]
   else if b.length < 256 then [0xd9, b.length]
   else if b.length < 65536 then 0xda :: be 2 b.length
   else 0xdb :: be 4 b.length) ++ b

def mpMapLen (n : Nat) : List Nat :=
  if n < 16 then [0x80 + n] else if n < 65536 then 0xde :: be 2 n else 0xdf :: be 4 n

def mpArrLen (n : Nat) : List Nat :=
  if n < 16 then [0x90 + n] else if n < 65536 then 0xdc :: be 2 n else 0xdd :: be 4 n

/-- `collect::<HashMap<&str,&str>>()`: one entry per key, the last value wins.  The model
    lists keys in order of first occurrence; the real order is the hash map's. -/
def metaOf : Props → Props
  | [] => []
  | (k, v) :: rest =>
    let m := metaOf rest
    if m.any (·.1 == k) then
      -- key occurs again later: its later value wins; keep first-occurrence position
      (k, (m.find? (·.1 == k)).map (·.2) |>.getD v) :: m.filter (·.1 != k)
    else (k, v) :: m

structure Cfg where
  service : String
  resource : String
  traceType : String

/-- field names of `DatadogSpan` as UTF-8 bytes (ASCII); literal byte lists so that they reduce
    in the kernel — that they spell the serde field names is checked byte-for-byte against the
    real reporter on every run -/
def kName : List Nat := [110, 97, 109, 101]
def kService : List Nat := [115, 101, 114, 118, 105, 99, 101]
def kType : List Nat := [116, 121, 112, 101]
def kResource : List Nat := [114, 101, 115, 111, 117, 114, 99, 101]
def kStart : List Nat := [115, 116, 97, 114, 116]
def kDuration : List Nat := [100, 117, 114, 97, 116, 105, 111, 110]
def kMeta : List Nat := [109, 101, 116, 97]
def kErrorCode : List Nat := [101, 114, 114, 111, 114, 95, 99, 111, 100, 101]
def kSpanId : List Nat := [115, 112, 97, 110, 95, 105, 100]
def kTraceId : List Nat := [116, 114, 97, 99, 101, 95, 105, 100]
def kParentId : List Nat := [112, 97, 114, 101, 110, 116, 95, 105, 100]

def key (b : List Nat) : List Nat := mpStr b

/-- one `DatadogSpan` as a msgpack map (field order = struct declaration order; `meta` is
    skipped when the record has no properties) -/
def encSpan (c : Cfg) (r : Record) : List Nat :=
  let m := metaOf r.props
  mpMapLen (if r.props.isEmpty then 10 else 11)
  ++ key kName ++ mpStr (strBytes r.name)
  ++ key kService ++ mpStr (strBytes c.service)
  ++ key kType ++ mpStr (strBytes c.traceType)
  ++ key kResource ++ mpStr (strBytes c.resource)
  ++ key kStart ++ mpSint r.beginNs
  ++ key kDuration ++ mpSint r.durationNs
  ++ (if r.props.isEmpty then [] else
        key kMeta ++ mpMapLen m.length ++ m.flatMap fun kv => mpStr (strBytes kv.1) ++ mpStr (strBytes kv.2))
  ++ key kErrorCode ++ mpSint 0
  ++ key kSpanId ++ mpUint r.spanId
  ++ key kTraceId ++ mpUint (r.traceId % 2 ^ 64)
  ++ key kParentId ++ mpUint r.parentId

/-- body of the HTTP request: `[0x91]` + the array of spans (v0.4: one trace holding all) -/
def encodeBody (c : Cfg) (rs : List Record) : List Nat :=
  [0x91] ++ mpArrLen rs.length ++ rs.flatMap (encSpan c)

end Fastrace.Datadog
