/-
L0 — text codecs of `fastrace/src/collector/id.rs`.

Strings are `List Char` (Rust `&str` is valid UTF-8; `split('-')` and `from_str_radix` act
per `char`/ASCII byte, and a non-ASCII char is neither `-` nor a hex digit, so a char-level
model is exact).  Numbers are `Nat`; the width of the Rust integer type is a parameter.

Modelled functions (Rust name → model name):
  uN::from_str_radix(s, 16)            → parseRadix16 bits s
  format!("{:0Wx}", n)                 → toHexFixed W n            (n < 16^W)
  SpanContext::encode_w3c_traceparent  → encodeTraceparent
  SpanContext::decode_w3c_traceparent  → decodeTraceparent
  TraceId/SpanId Display, FromStr, serde string form → displayTraceId, parseTraceId, …
-/
namespace Fastrace

/-- value of one hexadecimal digit, `char::to_digit(16)` -/
def hexDigitVal (c : Char) : Option Nat :=
  if 48 ≤ c.toNat ∧ c.toNat ≤ 57 then some (c.toNat - 48)
  else if 97 ≤ c.toNat ∧ c.toNat ≤ 102 then some (c.toNat - 87)
  else if 65 ≤ c.toNat ∧ c.toNat ≤ 70 then some (c.toNat - 55)
  else none

/-- the digit loop of `from_str_radix`: checked multiply-add, error on a non-digit or on
    overflow of the target type (`bound = 2^bits`) -/
def parseDigits (bound : Nat) : List Char → Nat → Option Nat
  | [], acc => some acc
  | c :: cs, acc =>
    match hexDigitVal c with
    | none => none
    | some d =>
      if acc * 16 + d < bound then parseDigits bound cs (acc * 16 + d) else none

/-- `uN::from_str_radix(s, 16)` for an unsigned type of `bits` bits (Rust 1.80):
    empty → Err(Empty); a lone `+` or `-` → Err(InvalidDigit); one leading `+` is skipped;
    `-` is not a sign for unsigned types and is rejected as a digit. -/
def parseRadix16 (bits : Nat) (s : List Char) : Option Nat :=
  match s with
  | [] => none
  | [c] => if c = '+' ∨ c = '-' then none else parseDigits (2 ^ bits) [c] 0
  | c :: rest => if c = '+' then parseDigits (2 ^ bits) rest 0 else parseDigits (2 ^ bits) (c :: rest) 0

/-- lowercase hex digit character of `d < 16` -/
def hexChar (d : Nat) : Char :=
  if d < 10 then Char.ofNat (48 + d) else Char.ofNat (87 + d)

/-- `format!("{:0Wx}", n)` for `n < 16^W`: exactly `W` lowercase digits, most significant
    first. -/
def toHexFixed : Nat → Nat → List Char
  | 0, _ => []
  | w + 1, n => hexChar (n / 16 ^ w % 16) :: toHexFixed w n

/-- `str::split(sep)`: always at least one field. -/
def splitOn (sep : Char) : List Char → List (List Char)
  | [] => [[]]
  | c :: cs =>
    if c = sep then [] :: splitOn sep cs
    else match splitOn sep cs with
      | [] => [[c]]
      | f :: fs => (c :: f) :: fs

structure SpanContext where
  traceId : Nat
  spanId : Nat
  sampled : Bool
deriving Repr, DecidableEq

def dash : Char := '-'

/-- `format!("00-{:032x}-{:016x}-{:02x}", trace, span, sampled as u8)` -/
def encodeTraceparent (c : SpanContext) : List Char :=
  ['0', '0'] ++ [dash] ++ toHexFixed 32 c.traceId ++ [dash] ++ toHexFixed 16 c.spanId
    ++ [dash] ++ toHexFixed 2 (if c.sampled then 1 else 0)

def decodeTraceparent (s : List Char) : Option SpanContext :=
  match splitOn dash s with
  | [v, t, p, f] =>
    if v = ['0', '0'] then
      match parseRadix16 128 t with
      | none => none
      | some tv =>
        match parseRadix16 64 p with
        | none => none
        | some pv =>
          match parseRadix16 8 f with
          | none => none
          | some fv => some { traceId := tv, spanId := pv, sampled := fv % 2 == 1 }
    else none
  | _ => none

/-- `impl Display for TraceId` = `{:032x}`; serde serialises the same string. -/
def displayTraceId (n : Nat) : List Char := toHexFixed 32 n
/-- `impl FromStr for TraceId`; serde deserialises through the same call. -/
def parseTraceId (s : List Char) : Option Nat := parseRadix16 128 s
def displaySpanId (n : Nat) : List Char := toHexFixed 16 n
def parseSpanId (s : List Char) : Option Nat := parseRadix16 64 s

end Fastrace
