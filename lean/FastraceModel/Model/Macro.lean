/-
L8 — the decision logic of `fastrace-macro/src/lib.rs`: argument validation (`gen_name`,
`gen_properties`, `gen_block`), the choice of wrapper, the span name expression, and
`unescape_format_string` with Rust's left-to-right, non-overlapping `str::replace`.
-/
namespace Fastrace.Macro

structure Args where
  name : Option String
  shortName : Bool
  enterOnPoll : Bool
  properties : List (String × String)
deriving Repr, DecidableEq

/-- `abort_call_site!` messages -/
inductive Reject where
  | emptyName                    -- "`name` can not be empty"
  | nameAndShortName             -- "`name` and `short_name` can not be used together"
  | enterOnPollWithProperties    -- "`enter_on_poll` can not be used with `properties`"
  | enterOnPollOnSync            -- "`enter_on_poll` can not be applied on non-async function"
deriving Repr, DecidableEq

inductive NameExpr where
  | literal (s : String)         -- the configured name
  | ident (s : String)           -- the bare function identifier (`short_name`)
  | funcPath                     -- `fastrace::func_path!()` evaluated where the wrapper is built
deriving Repr, DecidableEq

inductive Wrapper where
  | syncGuard        -- `let __guard__ = LocalSpan::enter_with_local_parent(name) props; body`
  | asyncInSpan      -- `{ let __span__ = Span::enter_with_local_parent(name) props; in_span(async move {body}, __span__) }`
  | asyncEnterOnPoll -- `enter_on_poll(async move {body}, name)`
deriving Repr, DecidableEq

inductive PropValue where
  | literal (s : String)         -- `Cow::from("…")`
  | format (s : String)          -- `Cow::from(format!("…"))`
deriving Repr, DecidableEq

structure Expansion where
  wrapper : Wrapper
  name : NameExpr
  props : List (String × PropValue)
  awaited : Bool                 -- `.await` appended (an `async fn`, not an async-trait wrapper)
deriving Repr, DecidableEq

/-- `str::replace(pat, to)` for a two-character pattern: leftmost matches, non-overlapping -/
def replace2 (p1 p2 : Char) (to : List Char) : List Char → List Char
  | a :: b :: rest => if a = p1 ∧ b = p2 then to ++ replace2 p1 p2 to rest else a :: replace2 p1 p2 to (b :: rest)
  | l => l

/-- `unescape_format_string` -/
def unescape (s : List Char) : List Char × Bool :=
  let deleted := replace2 '}' '}' [] (replace2 '{' '{' [] s)
  if deleted.any (fun c => c = '{' ∨ c = '}') then (s, true)
  else (replace2 '}' '}' ['}'] (replace2 '{' '{' ['{'] s), false)

def genName (funcName : String) (a : Args) : Except Reject NameExpr :=
  match a.name with
  | some n =>
    if n.isEmpty then .error .emptyName
    else if a.shortName then .error .nameAndShortName
    else .ok (.literal n)
  | none => if a.shortName then .ok (.ident funcName) else .ok .funcPath

def genProperties (a : Args) : Except Reject (List (String × PropValue)) :=
  if a.properties.isEmpty then .ok []
  else if a.enterOnPoll then .error .enterOnPollWithProperties
  else .ok (a.properties.map fun kv =>
    let u := unescape kv.2.toList
    (kv.1, if u.2 then .format kv.2 else .literal (String.ofList u.1)))

/-- `gen_block(func_name, block, async_context, async_keyword, args)` -/
def genBlock (funcName : String) (asyncContext asyncKeyword : Bool) (a : Args) : Except Reject Expansion :=
  match genName funcName a with
  | .error e => .error e
  | .ok name =>
    match genProperties a with
    | .error e => .error e
    | .ok props =>
      if asyncContext then
        .ok { wrapper := if a.enterOnPoll then .asyncEnterOnPoll else .asyncInSpan, name := name,
              props := if a.enterOnPoll then [] else props, awaited := asyncKeyword }
      else if a.enterOnPoll then .error .enterOnPollOnSync
      else .ok { wrapper := .syncGuard, name := name, props := props, awaited := false }

/-- the `trace` attribute applied to `fn` (`isAsync = false`), `async fn` (`true`), or the
    sync wrapper produced by `async_trait` (`asyncTrait = true`: the boxed `async move` block is
    instrumented, nothing is awaited) -/
def expand (funcName : String) (isAsync asyncTrait : Bool) (a : Args) : Except Reject Expansion :=
  if asyncTrait then genBlock funcName true false a else genBlock funcName isAsync isAsync a

end Fastrace.Macro
