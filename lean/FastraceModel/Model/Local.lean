import FastraceModel.Model.Record
import FastraceModel.Model.Consts
/-
L1 — thread-local recording structures:
  `local/raw_span.rs`, `local/span_queue.rs`, `local/local_span_line.rs`,
  `local/local_span_stack.rs`, and `SpanId::next_id` (`collector/id.rs`).

`&mut self` methods become functions returning the new value.  The two sources of
non-determinism, `SpanId::next_id()` and `Instant::now()`, are drawn from a counter record
`Ctr` in exactly the places and order the Rust code calls them.
-/
namespace Fastrace

inductive RawKind where
  | span | event | properties
deriving Repr, DecidableEq, Inhabited

/-- `RawSpan`; `0` is `SpanId::default()` for ids and `Instant::ZERO` for instants -/
structure RawSpan where
  id : Nat
  parentId : Nat
  beginT : Nat
  name : String
  props : Option Props
  kind : RawKind
  endT : Nat
deriving Repr, DecidableEq, Inhabited

/-- `CollectTokenItem` -/
structure TokenItem where
  traceId : Nat
  parentId : Nat
  collectId : Nat
  isRoot : Bool
  isSampled : Bool
deriving Repr, DecidableEq, Inhabited

abbrev Token := List TokenItem

/-- per-thread id generator state and the (logical) clock -/
structure Ctr where
  pref : Nat       -- random 32-bit thread prefix
  suffix : Nat     -- 32-bit counter
  clock : Nat
deriving Repr, DecidableEq, Inhabited

/-- `SpanId::next_id`: `suffix.wrapping_add(1)`, id = prefix << 32 | suffix -/
def Ctr.nextId (c : Ctr) : Nat × Ctr :=
  let s := (c.suffix + 1) % 2 ^ 32
  (c.pref * 2 ^ 32 + s, { c with suffix := s })

/-- `Instant::now()`: a strictly increasing logical reading (never 0 = `Instant::ZERO`) -/
def Ctr.now (c : Ctr) : Nat × Ctr := (c.clock + 1, { c with clock := c.clock + 1 })

/-- `Properties::extend` on an `Option<Properties>` (`get_or_insert_with(default).extend`) -/
def extendProps (p : Option Props) (kvs : Props) : Option Props := some (p.getD [] ++ kvs)

/-! ### SpanQueue -/

structure SpanQueue where
  spans : List RawSpan
  cap : Nat
  nextParent : Option Nat
deriving Repr, DecidableEq, Inhabited

namespace SpanQueue

def withCapacity (cap : Nat) : SpanQueue := { spans := [], cap := cap, nextParent := none }

/-- `start_span`: `None` at capacity (no id or clock reading is consumed then) -/
def startSpan (q : SpanQueue) (c : Ctr) (name : String) : Option (SpanQueue × Nat × Ctr) :=
  if q.spans.length ≥ q.cap then none else
  let (id, c) := c.nextId
  let (now, c) := c.now
  let span : RawSpan := { id := id, parentId := q.nextParent.getD 0, beginT := now, name := name,
                          props := none, kind := .span, endT := 0 }
  some ({ q with spans := q.spans ++ [span], nextParent := some id }, q.spans.length, c)

/-- `finish_span`: stamps the end instant and restores `next_parent_id` to the finished span's
    parent (`None` when that parent is the zero id).  An out-of-range handle cannot arise in
    a well-scoped program (`debug_assert`); the model leaves the queue unchanged then. -/
def finishSpan (q : SpanQueue) (c : Ctr) (idx : Nat) : SpanQueue × Ctr :=
  match q.spans[idx]? with
  | none => (q, c)
  | some s =>
    let (now, c) := c.now
    ({ q with spans := q.spans.set idx { s with endT := now },
              nextParent := if s.parentId = 0 then none else some s.parentId }, c)

/-- `add_event` -/
def addEvent (q : SpanQueue) (c : Ctr) (name : String) (props : Option Props) : SpanQueue × Ctr :=
  if q.spans.length ≥ q.cap then (q, c) else
  let (id, c) := c.nextId
  let (now, c) := c.now
  let span : RawSpan := { id := id, parentId := q.nextParent.getD 0, beginT := now, name := name,
                          props := props, kind := .event, endT := 0 }
  ({ q with spans := q.spans ++ [span] }, c)

/-- `add_properties` (begin instant is `Instant::ZERO`, name empty) -/
def addProps (q : SpanQueue) (c : Ctr) (kvs : Props) : SpanQueue × Ctr :=
  if q.spans.length ≥ q.cap then (q, c) else
  let (id, c) := c.nextId
  let span : RawSpan := { id := id, parentId := q.nextParent.getD 0, beginT := 0, name := "",
                          props := extendProps none kvs, kind := .properties, endT := 0 }
  ({ q with spans := q.spans ++ [span] }, c)

/-- `with_properties(handle, kvs)` -/
def withProps (q : SpanQueue) (idx : Nat) (kvs : Props) : SpanQueue :=
  match q.spans[idx]? with
  | none => q
  | some s => { q with spans := q.spans.set idx { s with props := extendProps s.props kvs } }

end SpanQueue

/-! ### SpanLine -/

structure SpanLine where
  queue : SpanQueue
  epoch : Nat
  token : Option Token
  isSampled : Bool
deriving Repr, DecidableEq, Inhabited

/-- `LocalSpanHandle` -/
structure LocalHandle where
  index : Nat
  epoch : Nat
deriving Repr, DecidableEq, Inhabited

namespace SpanLine

def new (cap epoch : Nat) (token : Option Token) : SpanLine :=
  { queue := SpanQueue.withCapacity cap, epoch := epoch, token := token,
    isSampled := match token with
      | some t => t.any (·.isSampled)
      | none => true }

def startSpan (l : SpanLine) (c : Ctr) (name : String) : Option (SpanLine × LocalHandle × Ctr) :=
  if !l.isSampled then none else
  match l.queue.startSpan c name with
  | none => none
  | some (q, idx, c) => some ({ l with queue := q }, ⟨idx, l.epoch⟩, c)

def finishSpan (l : SpanLine) (c : Ctr) (h : LocalHandle) : SpanLine × Ctr :=
  if l.epoch = h.epoch then
    let (q, c) := l.queue.finishSpan c h.index
    ({ l with queue := q }, c)
  else (l, c)

def addEvent (l : SpanLine) (c : Ctr) (name : String) (props : Option Props) : SpanLine × Ctr :=
  if !l.isSampled then (l, c) else
  let (q, c) := l.queue.addEvent c name props
  ({ l with queue := q }, c)

def addProps (l : SpanLine) (c : Ctr) (kvs : Props) : SpanLine × Ctr :=
  if !l.isSampled then (l, c) else
  let (q, c) := l.queue.addProps c kvs
  ({ l with queue := q }, c)

def withProps (l : SpanLine) (h : LocalHandle) (kvs : Props) : SpanLine :=
  if !l.isSampled then l else
  if l.epoch = h.epoch then { l with queue := l.queue.withProps h.index kvs } else l

/-- `current_collect_token`: the scope's token with the innermost open local span
    substituted as parent -/
def currentToken (l : SpanLine) : Option Token :=
  l.token.map fun t => t.map fun it => { it with parentId := l.queue.nextParent.getD it.parentId }

def collect (l : SpanLine) (epoch : Nat) : Option (List RawSpan × Option Token) :=
  if l.epoch = epoch then some (l.queue.spans, l.token) else none

end SpanLine

/-! ### LocalSpanStack -/

/-- `lines.head?` is the current span line (top of the stack) -/
structure Stack where
  lines : List SpanLine
  cap : Nat
  nextEpoch : Nat
deriving Repr, DecidableEq, Inhabited

namespace Stack

def withCapacity (cap : Nat) : Stack := { lines := [], cap := cap, nextEpoch := 0 }

def enterSpan (s : Stack) (c : Ctr) (name : String) : Option (Stack × LocalHandle × Ctr) :=
  match s.lines with
  | [] => none
  | l :: ls =>
    match l.startSpan c name with
    | none => none
    | some (l, h, c) => some ({ s with lines := l :: ls }, h, c)

def exitSpan (s : Stack) (c : Ctr) (h : LocalHandle) : Stack × Ctr :=
  match s.lines with
  | [] => (s, c)
  | l :: ls =>
    let (l, c) := l.finishSpan c h
    ({ s with lines := l :: ls }, c)

def addEvent (s : Stack) (c : Ctr) (name : String) (props : Option Props) : Stack × Ctr :=
  match s.lines with
  | [] => (s, c)
  | l :: ls =>
    let (l, c) := l.addEvent c name props
    ({ s with lines := l :: ls }, c)

def addProps (s : Stack) (c : Ctr) (kvs : Props) : Stack × Ctr :=
  match s.lines with
  | [] => (s, c)
  | l :: ls =>
    let (l, c) := l.addProps c kvs
    ({ s with lines := l :: ls }, c)

def withProps (s : Stack) (h : LocalHandle) (kvs : Props) : Stack :=
  match s.lines with
  | [] => s
  | l :: ls => { s with lines := l.withProps h kvs :: ls }

/-- `register_span_line`: `None` when the stack holds `cap` lines -/
def registerLine (s : Stack) (token : Option Token) : Option (Stack × Nat) :=
  if s.lines.length ≥ s.cap then none else
  some ({ s with lines := SpanLine.new Consts.spanQueueSize s.nextEpoch token :: s.lines,
                 nextEpoch := s.nextEpoch + 1 }, s.nextEpoch)

/-- `unregister_and_collect` -/
def unregisterAndCollect (s : Stack) (epoch : Nat) : Stack × Option (List RawSpan × Option Token) :=
  match s.lines with
  | [] => (s, none)
  | l :: ls => ({ s with lines := ls }, l.collect epoch)

def currentToken (s : Stack) : Option Token :=
  match s.lines with
  | [] => none
  | l :: _ => l.currentToken

/-- `is_sampled` (added by the D7 fix): is anything being recorded in the current scope -/
def isSampled (s : Stack) : Bool :=
  match s.lines with
  | [] => false
  | l :: _ => l.isSampled

end Stack

end Fastrace
