import FastraceModel.Model.Spsc
/-
L3 at step granularity: `Sender::send` / `force_send` / `Drop` as loops of single ring pushes,
with the consumer free to pop **between any two pushes** (the `pops` argument lists, for each
push attempt of the call, how many values the consumer pops right before it — the
`SenderBeforePush` hook point of the real code).  `Model/Spsc.lean` is the special case "no
pop inside a call".
-/
namespace Fastrace

structure Chan (α : Type) where
  ring : Ring α
  pending : List α      -- the sender's overflow list, front = oldest
  out : List α          -- everything the consumer has popped so far, oldest first
deriving Repr

namespace Chan
variable {α : Type}

def new (cap : Nat) : Chan α := ⟨Ring.new cap, [], []⟩

/-- one `Consumer::pop` -/
def pop1 (c : Chan α) : Chan α :=
  match c.ring.pop with
  | some (x, r) => { c with ring := r, out := c.out ++ [x] }
  | none => c

def popN (c : Chan α) : Nat → Chan α
  | 0 => c
  | n + 1 => (c.pop1).popN n

/-- `Producer::push` succeeds iff the ring is not full -/
def isFull (c : Chan α) : Prop := c.ring.cap ≤ c.ring.q.length

instance (c : Chan α) : Decidable c.isFull := inferInstanceAs (Decidable (_ ≤ _))

/-- a successful push -/
def pushed (c : Chan α) (x : α) : Chan α := { c with ring := { c.ring with q := c.ring.q ++ [x] } }

/-- the replay loop followed by the push of the new value.  `pend` is the part of the overflow
    list not yet replayed; returns the channel and whether `v` was accepted. -/
def sendLoop (c : Chan α) (v : α) (forced : Bool) : List α → List Nat → Chan α × Bool
  | [], pops =>
    if (c.popN (pops.headD 0)).isFull then
      if forced then ({ c.popN (pops.headD 0) with pending := [v] }, true)
      else ({ c.popN (pops.headD 0) with pending := [] }, false)
    else ({ (c.popN (pops.headD 0)).pushed v with pending := [] }, true)
  | x :: rest, pops =>
    if (c.popN (pops.headD 0)).isFull then
      if forced then ({ c.popN (pops.headD 0) with pending := x :: rest ++ [v] }, true)
      else ({ c.popN (pops.headD 0) with pending := x :: rest }, false)
    else sendLoop ((c.popN (pops.headD 0)).pushed x) v forced rest pops.tail

/-- `Sender::send` (`forced = false`) / `Sender::force_send` (`forced = true`) -/
def sendWith (c : Chan α) (v : α) (forced : Bool) (pops : List Nat) : Chan α × Bool :=
  sendLoop c v forced c.pending pops

/-- `impl Drop for Sender`: each parked value is offered once; a value that does not fit is
    gone; afterwards the producer is gone -/
def dropLoop (c : Chan α) : List α → List Nat → Chan α
  | [], _ => { c with pending := [], ring := { c.ring with producerAlive := false } }
  | x :: rest, pops =>
    if (c.popN (pops.headD 0)).isFull then dropLoop (c.popN (pops.headD 0)) rest pops.tail
    else dropLoop ((c.popN (pops.headD 0)).pushed x) rest pops.tail

def dropWith (c : Chan α) (pops : List Nat) : Chan α := dropLoop c c.pending pops

/-- everything that is in the channel or has left it, in order -/
def seq (c : Chan α) : List α := c.out ++ c.ring.q ++ c.pending

end Chan
end Fastrace
