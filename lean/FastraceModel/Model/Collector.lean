import FastraceModel.Model.Local
/-
L4 — `collector/global_collector.rs` after the drain: `handle_commands`' four processing
loops, `postprocess_span_collection`, `amend_span`, `amend_local_span`, `mount_danglings`,
`LocalSpansInner::to_span_records`.

`HashMap`s are association lists in insertion order.  Where the Rust iterates a `HashMap`
(the non-cancelable flush over `active_collectors.values_mut()`), the order of the model is
one of the possible orders; the correspondence harness sorts records inside one report, and
no theorem depends on that order.
-/
namespace Fastrace

/-- `SpanSet`; `LocalSpansInner` and `SharedLocalSpans(Arc<..>)` carry the same data -/
inductive SpanSet where
  | span (r : RawSpan)
  | locals (spans : List RawSpan) (endT : Nat)
deriving Repr, DecidableEq, Inhabited

/-- `CollectCommand` -/
inductive Cmd where
  | start (collectId : Nat)
  | drop (collectId : Nat)
  | commit (collectId : Nat)
  | submit (spans : SpanSet) (token : Token)
deriving Repr, DecidableEq, Inhabited

inductive Dangling where
  | event (e : EventRecord)
  | props (p : Props)
deriving Repr, DecidableEq, Inhabited

/-- `HashMap<SpanId, Vec<DanglingItem>>` -/
abbrev Danglings := List (Nat × List Dangling)

/-- `danglings.entry(key).or_default().push(item)` -/
def Danglings.push : Danglings → Nat → Dangling → Danglings
  | [], k, item => [(k, [item])]
  | (k', items) :: rest, k, item =>
    if k' = k then (k', items ++ [item]) :: rest else (k', items) :: Danglings.push rest k item

def Danglings.find? (d : Danglings) (k : Nat) : Option (List Dangling) :=
  (List.find? (fun e => e.1 == k) d).map (·.2)
def Danglings.remove (d : Danglings) (k : Nat) : Danglings := List.filter (fun e => e.1 != k) d

/-- `SpanCollection` (owned and shared variants carry the same data) -/
structure Collection where
  spans : SpanSet
  traceId : Nat
  parentId : Nat
deriving Repr, DecidableEq, Inhabited

structure Active where
  collections : List Collection
  danglings : Danglings
deriving Repr, DecidableEq, Inhabited

def Active.empty : Active := ⟨[], []⟩

structure Coll where
  cancelable : Bool
  hasReporter : Bool
  active : List (Nat × Active)
deriving Repr, DecidableEq, Inhabited

def Coll.find? (c : Coll) (id : Nat) : Option Active :=
  (List.find? (fun e => e.1 == id) c.active).map (·.2)
def Coll.remove (c : Coll) (id : Nat) : Coll := { c with active := c.active.filter (·.1 != id) }
/-- `HashMap::insert` -/
def Coll.insert (c : Coll) (id : Nat) (a : Active) : Coll :=
  { c with active := c.active.filter (·.1 != id) ++ [(id, a)] }

def optProps (p : Option Props) : Props := p.getD []

/-- `amend_span`: the raw span of a thread-safe `Span` (or its event / properties pseudo-span)
    under one token item.  `conv` is `Instant::as_unix_nanos(anchor)`. -/
def amendSpan (conv : Nat → Nat) (raw : RawSpan) (trace parent : Nat)
    (acc : List Record × Danglings) : List Record × Danglings :=
  match raw.kind with
  | .span =>
    (acc.1 ++ [{ traceId := trace, spanId := raw.id, parentId := parent, beginNs := conv raw.beginT,
                 durationNs := conv raw.endT - conv raw.beginT, name := raw.name,
                 props := optProps raw.props, events := [] }], acc.2)
  | .event =>
    (acc.1, acc.2.push parent (.event ⟨raw.name, conv raw.beginT, optProps raw.props⟩))
  | .properties => (acc.1, acc.2.push parent (.props (optProps raw.props)))

/-- one element of the loop of `amend_local_span` -/
def amendLocalOne (conv : Nat → Nat) (endT : Nat) (trace tokParent : Nat)
    (acc : List Record × Danglings) (raw : RawSpan) : List Record × Danglings :=
  let parent := if raw.parentId = 0 then tokParent else raw.parentId
  match raw.kind with
  | .span =>
    let e := if raw.endT = 0 then conv endT else conv raw.endT
    (acc.1 ++ [{ traceId := trace, spanId := raw.id, parentId := parent, beginNs := conv raw.beginT,
                 durationNs := e - conv raw.beginT, name := raw.name,
                 props := optProps raw.props, events := [] }], acc.2)
  | .event =>
    (acc.1, acc.2.push parent (.event ⟨raw.name, conv raw.beginT, optProps raw.props⟩))
  | .properties => (acc.1, acc.2.push parent (.props (optProps raw.props)))

/-- `amend_local_span` -/
def amendLocal (conv : Nat → Nat) (spans : List RawSpan) (endT : Nat) (trace parent : Nat)
    (acc : List Record × Danglings) : List Record × Danglings :=
  spans.foldl (amendLocalOne conv endT trace parent) acc

def applyDangling (r : Record) : Dangling → Record
  | .event e => { r with events := r.events ++ [e] }
  | .props p => { r with props := r.props ++ p }

/-- `mount_danglings`: each record, in order, takes (and removes) what is parked under its id -/
def mountDanglings : List Record → Danglings → List Record × Danglings
  | [], d => ([], d)
  | r :: rs, d =>
    match d.find? r.spanId with
    | some items =>
      let (rs', d') := mountDanglings rs (d.remove r.spanId)
      (items.foldl applyDangling r :: rs', d')
    | none =>
      let (rs', d') := mountDanglings rs d
      (r :: rs', d')

def amendCollection (conv : Nat → Nat) (acc : List Record × Danglings) (col : Collection) :
    List Record × Danglings :=
  match col.spans with
  | .span raw => amendSpan conv raw col.traceId col.parentId acc
  | .locals spans endT => amendLocal conv spans endT col.traceId col.parentId acc

/-- `postprocess_span_collection`: the new records of this call are mounted against the
    danglings map (old parked items included), then appended to `committed` -/
def postprocess (conv : Nat → Nat) (cols : List Collection) (committed : List Record)
    (d : Danglings) : List Record × Danglings :=
  let (fresh, d) := cols.foldl (amendCollection conv) ([], d)
  let (mounted, d) := mountDanglings fresh d
  (committed ++ mounted, d)

/-- `LocalSpansInner::to_span_records` -/
def toSpanRecords (conv : Nat → Nat) (spans : List RawSpan) (endT : Nat) (trace parent : Nat) :
    List Record :=
  let (recs, d) := amendLocal conv spans endT trace parent ([], [])
  (mountDanglings recs d).1

/-! ### one cycle of `handle_commands`, after the drain -/

def startsOf (batch : List Cmd) : List Nat := batch.filterMap fun | .start c => some c | _ => none
def dropsOf (batch : List Cmd) : List Nat := batch.filterMap fun | .drop c => some c | _ => none
def commitsOf (batch : List Cmd) : List Nat := batch.filterMap fun | .commit c => some c | _ => none
def submitsOf (batch : List Cmd) : List (SpanSet × Token) :=
  batch.filterMap fun | .submit s t => some (s, t) | _ => none

/-- one token item of one `SubmitSpans` -/
def submitItem (cancelable : Bool) (spans : SpanSet) (st : Coll × List Collection) (it : TokenItem) :
    Coll × List Collection :=
  let col : Collection := ⟨spans, it.traceId, it.parentId⟩
  match st.1.find? it.collectId with
  | some a => (st.1.insert it.collectId { a with collections := a.collections ++ [col] }, st.2)
  | none => if cancelable then st else (st.1, st.2 ++ [col])

def processSubmit (st : Coll × List Collection) (sub : SpanSet × Token) : Coll × List Collection :=
  sub.2.foldl (submitItem st.1.cancelable sub.1) st

def processCommit (conv : Nat → Nat) (st : Coll × List Record) (id : Nat) : Coll × List Record :=
  match st.1.find? id with
  | some a => (st.1.remove id, (postprocess conv a.collections st.2 a.danglings).1)
  | none => st

/-- non-cancelable flush of one active collector: its buffered sets are reported now, its
    danglings map is kept -/
def flushActive (conv : Nat → Nat) (st : List (Nat × Active) × List Record) (e : Nat × Active) :
    List (Nat × Active) × List Record :=
  let (recs, d) := postprocess conv e.2.collections st.2 e.2.danglings
  (st.1 ++ [(e.1, { collections := [], danglings := d })], recs)

/-- `handle_commands` after the drain.  `batch` is the drained commands in drain order.
    Returns the new collector state and `some records` iff `Reporter::report` is called. -/
def cycleProcess (conv : Nat → Nat) (c : Coll) (batch : List Cmd) : Coll × Option (List Record) :=
  if !c.hasReporter then (c, none) else
  let c := (startsOf batch).foldl (fun c id => c.insert id Active.empty) c
  let c := (dropsOf batch).foldl (fun c id => if c.cancelable then c.remove id else c) c
  let (c, stale) := (submitsOf batch).foldl processSubmit (c, [])
  let (c, recs) := (commitsOf batch).foldl (processCommit conv) (c, [])
  let (c, recs) :=
    if c.cancelable then (c, recs)
    else
      let (act, recs) := c.active.foldl (flushActive conv) ([], recs)
      ({ c with active := act }, recs)
  let recs := stale.foldl (fun recs col => (postprocess conv [col] recs []).1) recs
  (c, some recs)

end Fastrace
