import FastraceModel.Model.Macro
import FastraceModel.Driver.Report
namespace Fastrace.Driver
open Fastrace.Macro

def showName : NameExpr → String
  | .literal s => s!"lit:{hexOfStr s}"
  | .ident s => s!"ident:{hexOfStr s}"
  | .funcPath => "path"

def showWrapper : Wrapper → String
  | .syncGuard => "sync" | .asyncInSpan => "in_span" | .asyncEnterOnPoll => "enter_on_poll"

def showReject : Reject → String
  | .emptyName => "empty-name" | .nameAndShortName => "name-and-short-name"
  | .enterOnPollWithProperties => "enter-on-poll-with-properties" | .enterOnPollOnSync => "enter-on-poll-on-sync"

/-- `expand <fnHex> <isAsync> <asyncTrait> <nameHex|_> <short> <eop> <props>` -/
def macroStep (line : String) : String :=
  match words line with
  | ["expand", fn, ia, tr, nm, sh, eop, props] =>
    match strOfHex fn, (if nm == "_" then some none else (strOfHex nm).map some), parseProps props with
    | some fn, some name, some ps =>
      match expand fn (ia == "1") (tr == "1") ⟨name, sh == "1", eop == "1", ps⟩ with
      | .error e => s!"reject {showReject e}"
      | .ok x =>
        let pp := x.props.map fun kv => match kv.2 with
          | .literal s => s!"{hexOfStr kv.1}=lit:{hexOfStr s}"
          | .format s => s!"{hexOfStr kv.1}=fmt:{hexOfStr s}"
        s!"ok wrapper={showWrapper x.wrapper} name={showName x.name} awaited={if x.awaited then 1 else 0} props={if pp.isEmpty then "_" else ",".intercalate pp}"
    | _, _, _ => "bad-op"
  | _ => "bad-op"

end Fastrace.Driver
