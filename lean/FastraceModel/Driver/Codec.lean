import FastraceModel.Model.Codec
import FastraceModel.Driver.Util
namespace Fastrace.Driver
open Fastrace

def showCtx : Option SpanContext → String
  | none => "none"
  | some c => s!"some {hexOfNat c.traceId} {hexOfNat c.spanId} {if c.sampled then 1 else 0}"

def showOptNat : Option Nat → String
  | none => "err"
  | some n => s!"ok {hexOfNat n}"

/-- one request line → one answer line -/
def codecStep (line : String) : String :=
  match words line with
  | ["enc", t, s, b] =>
    match parseHexNat t, parseHexNat s with
    | some tv, some sv => String.ofList (encodeTraceparent ⟨tv, sv, b == "1"⟩)
    | _, _ => "bad-op"
  | ["dec", h] =>
    match strOfHex h with
    | some str => showCtx (decodeTraceparent str.toList)
    | none => "bad-op"
  | ["tid_display", t] => match parseHexNat t with
    | some v => String.ofList (displayTraceId v) | none => "bad-op"
  | ["sid_display", t] => match parseHexNat t with
    | some v => String.ofList (displaySpanId v) | none => "bad-op"
  | ["tid_parse", h] => match strOfHex h with
    | some str => showOptNat (parseTraceId str.toList) | none => "bad-op"
  | ["sid_parse", h] => match strOfHex h with
    | some str => showOptNat (parseSpanId str.toList) | none => "bad-op"
  | _ => "bad-op"

end Fastrace.Driver
