import FastraceModel.Model.Report.Jaeger
import FastraceModel.Model.Report.Datadog
import FastraceModel.Model.Report.Otel
import FastraceModel.Lemmas.JaegerDec
import FastraceModel.Lemmas.DatadogDec
import FastraceModel.Driver.Util
namespace Fastrace.Driver
open Fastrace

/-- `_` = empty list, else `k=v&k=v` (hex strings) -/
def parseProps (s : String) : Option Props :=
  if s == "_" then some [] else
  (s.splitOn "&").mapM fun kv =>
    match kv.splitOn "=" with
    | [k, v] => do let k ← strOfHex k; let v ← strOfHex v; pure (k, v)
    | _ => none

/-- `_` or `name@ts@props|…` -/
def parseEvents (s : String) : Option (List EventRecord) :=
  if s == "_" then some [] else
  (s.splitOn "|").mapM fun e =>
    match e.splitOn "@" with
    | [n, t, p] => do
      let n ← strOfHex n; let t ← parseHexNat t; let p ← parseProps p
      pure { name := n, timestamp := t, props := p }
    | _ => none

/-- `trace,span,parent,begin,dur,name,props,events` (numbers hex) -/
def parseRecord (s : String) : Option Record :=
  match s.splitOn "," with
  | [t, sp, pa, b, d, n, p, e] => do
    let t ← parseHexNat t; let sp ← parseHexNat sp; let pa ← parseHexNat pa
    let b ← parseHexNat b; let d ← parseHexNat d; let n ← strOfHex n
    let p ← parseProps p; let e ← parseEvents e
    pure { traceId := t, spanId := sp, parentId := pa, beginNs := b, durationNs := d, name := n,
           props := p, events := e }
  | _ => none

def parseRecords (s : String) : Option (List Record) :=
  if s == "_" then some [] else (s.splitOn ";").mapM parseRecord

def sortStrings (l : List String) : List String := (l.toArray.qsort (· < ·)).toList

def hexOfNats (b : List Nat) : String :=
  String.ofList (b.flatMap fun x => [nibChar (x / 16 % 16), nibChar (x % 16)])

def showJView (v : Jaeger.JView) : String :=
  let tags (l : List (List Nat × List Nat)) : String :=
    if l.isEmpty then "_" else "&".intercalate (l.map fun (kv : List Nat × List Nat) => s!"{hexOfNats kv.1}={hexOfNats kv.2}")
  let logs := if v.logs.isEmpty then "_" else "|".intercalate (v.logs.map fun l => s!"{hexOfNat l.1}@{tags l.2}")
  s!" {hexOfNat v.traceHigh}:{hexOfNat v.traceLow},{hexOfNat v.spanId},{hexOfNat v.parentId},{hexOfNats v.name},{v.flags},{hexOfNat v.startUs},{hexOfNat v.durUs},{tags v.tags},{logs}"

/-- canonical text of a Datadog view; `meta` is a hash map on the real side: sorted here -/
def showDdView (v : Datadog.DdView) : String :=
  let mm := match v.metaMap with
    | none => "none"
    | some l =>
      let items := sortStrings (l.map fun (kv : List Nat × List Nat) => s!"{hexOfNats kv.1}={hexOfNats kv.2}")
      if items.isEmpty then "_" else "&".intercalate items
  s!" {hexOfNats v.name},{hexOfNats v.service},{hexOfNats v.typ},{hexOfNats v.resource},{hexOfNat v.start},{hexOfNat v.duration},{mm},{v.errorCode},{hexOfNat v.spanId},{hexOfNat v.traceId},{hexOfNat v.parentId}"

def reportStep (line : String) : String :=
  match words line with
  | ["jaeger", svc, recs] =>
    match strOfHex svc, parseRecords recs with
    | some svc, some rs =>
      let dgs := Jaeger.datagrams svc rs
      "dg" ++ String.join (dgs.map fun d => " " ++ hexOfNats d)
    | _, _ => "bad-op"
  | ["datadog", svc, res, ty, recs] =>
    match strOfHex svc, strOfHex res, strOfHex ty, parseRecords recs with
    | some svc, some res, some ty, some rs =>
      if rs.isEmpty then "dd none" else
      "dd " ++ hexOfNats (Datadog.encodeBody ⟨svc, res, ty⟩ rs)
    | _, _, _, _ => "bad-op"
  | ["otel", recs] =>
    match parseRecords recs with
    | some rs =>
      let tm (t : Otel.Time) : String := s!"{hexOfNat t.secs}.{hexOfNat t.nanos}"
      let kvs (p : Props) : String :=
        if p.isEmpty then "_" else "&".intercalate (p.map fun kv => s!"{hexOfStr kv.1}={hexOfStr kv.2}")
      "otel" ++ String.join (rs.map fun r =>
        let d := Otel.convert r
        let evs := if d.events.isEmpty then "_" else
          "|".intercalate (d.events.map fun e => s!"{hexOfStr e.name}@{tm e.time}@{kvs e.attrs}")
        s!" {hexOfNats d.traceId},{hexOfNats d.spanId},{hexOfNats d.parentId},{tm d.start},{tm d.finish},{hexOfStr d.name},{kvs d.attrs},{evs}")
    | none => "bad-op"
  | ["jdec", hex] =>
    -- the *proved* decoder (`C19_jaeger_roundtrip`) applied to bytes from the real reporter
    match bytesOfHex hex with
    | none => "bad-op"
    | some b =>
      match Jaeger.decodeBatch (b.toList.map (·.toNat)) with
      | none => "jv undecodable"
      | some (svc, vs) => "jv " ++ hexOfNats svc ++ String.join (vs.map showJView)
  | ["ddec", hex] =>
    -- the *proved* decoder (`C19_datadog_roundtrip`) applied to the body sent by the real reporter
    match bytesOfHex hex with
    | none => "bad-op"
    | some b =>
      match Datadog.decodeBody (b.toList.map (·.toNat)) with
      | none => "dv undecodable"
      | some vs => "dv" ++ String.join (vs.map showDdView)
  | ["dview", svc, res, ty, recs] =>
    match strOfHex svc, strOfHex res, strOfHex ty, parseRecords recs with
    | some svc, some res, some ty, some rs => "dv" ++ String.join (rs.map fun r => showDdView (Datadog.ddView ⟨svc, res, ty⟩ r))
    | _, _, _, _ => "bad-op"
  | ["jview", svc, recs] =>
    match strOfHex svc, parseRecords recs with
    | some svc, some rs => "jv " ++ hexOfNats (Jaeger.strBytes svc) ++ String.join (rs.map fun r => showJView (Jaeger.jaegerView r))
    | _, _ => "bad-op"
  | _ => "bad-op"

end Fastrace.Driver
