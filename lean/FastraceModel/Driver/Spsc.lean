import FastraceModel.Model.SpscSteps
import FastraceModel.Driver.Util
namespace Fastrace.Driver
open Fastrace

structure SpscState where
  chan : Option (Chan Nat)
  alive : Bool

def parsePlan (s : String) : Option (List Nat) :=
  if s == "_" then some [] else (s.splitOn ",").mapM (·.toNat?)

def showPops (before after : List Nat) : String :=
  let n := after.drop before.length
  if n.isEmpty then "-" else ",".intercalate (n.map toString)

def spscStep (st : SpscState) (line : String) : SpscState × String :=
  match words line with
  | ["case", _] => (⟨none, false⟩, "case")
  | ["new", cap] =>
    match cap.toNat? with
    | some c => (⟨some (Chan.new c), true⟩, "ok")
    | none => (st, "bad-op")
  | ["send", v, plan] =>
    match st.chan, st.alive, v.toNat?, parsePlan plan with
    | some c, true, some v, some p =>
      let (c', acc) := c.sendWith v false p
      (⟨some c', true⟩, s!"{if acc then "ok" else "full"} pops={showPops c.out c'.out}")
    | _, _, _, _ => (st, "bad-op")
  | ["force", v, plan] =>
    match st.chan, st.alive, v.toNat?, parsePlan plan with
    | some c, true, some v, some p =>
      let (c', _) := c.sendWith v true p
      (⟨some c', true⟩, s!"ok pops={showPops c.out c'.out}")
    | _, _, _, _ => (st, "bad-op")
  | ["drop", plan] =>
    match st.chan, st.alive, parsePlan plan with
    | some c, true, some p =>
      let c' := c.dropWith p
      (⟨some c', false⟩, s!"ok pops={showPops c.out c'.out}")
    | _, _, _ => (st, "bad-op")
  | ["pop"] =>
    match st.chan with
    | some c =>
      match c.ring.pop with
      | some (x, r) => (⟨some { c with ring := r, out := c.out ++ [x] }, st.alive⟩, s!"some {x}")
      | none => (st, if c.ring.producerAlive then "empty" else "closed")
    | none => (st, "bad-op")
  | _ => (st, "bad-op")

end Fastrace.Driver
