import FastraceModel.Model.Api
import FastraceModel.Model.Disabled
import FastraceModel.Driver.Util
import FastraceModel.Driver.Report
/- line protocol for API programs: `<thread> <op> args…`, `case <id>` resets the state -/
namespace Fastrace.Driver
open Fastrace

def parseClosure (s : String) : Option Closure :=
  match s.splitOn ":" with
  | [r, p] => do let r ← r.toNat?; let p ← parseProps p; pure ⟨p, r⟩
  | _ => none

def parseOptProps (s : String) : Option (Option Props) :=
  if s == "none" then some none else (parseProps s).map some

def parseOp (w : List String) : Option Op :=
  match w with
  | ["setReporter", c] => some (.setReporter (c == "1"))
  | ["spawn"] => some .spawn
  | ["touch"] => some .touch
  | ["root", v, n, t, sp, b] => do
    let n ← strOfHex n; let t ← parseHexNat t; let sp ← parseHexNat sp
    pure (.root v n t sp (b == "1"))
  | ["child1", v, n, p] => do let n ← strOfHex n; pure (.child1 v n p)
  | ["childN", v, n, ps] => do
    let n ← strOfHex n
    pure (.childN v n (if ps == "_" then [] else ps.splitOn ","))
  | ["childLocal", v, n] => do let n ← strOfHex n; pure (.childLocal v n)
  | ["withProps", v, cl] => do let cl ← parseClosure cl; pure (.withProps v cl)
  | ["addProps", v, cl] => do let cl ← parseClosure cl; pure (.addProps v cl)
  | ["addEvent", v, n, p] => do let n ← strOfHex n; let p ← parseOptProps p; pure (.addEvent v n p)
  | ["pushChild", v, x] => some (.pushChild v x)
  | ["dropLocalSpans", x] => some (.dropLocalSpans x)
  | ["elapsed", v] => some (.elapsed v)
  | ["cancel", v] => some (.cancel v)
  | ["drop", v] => some (.drop v)
  | ["scope", v] => some (.scope v)
  | ["localEnter", n] => do let n ← strOfHex n; pure (.localEnter n)
  | ["collectorStart"] => some .collectorStart
  | ["close"] => some .close
  | ["collect", x] => some (.collect x)
  | ["lWithProps", cl] => do let cl ← parseClosure cl; pure (.lWithProps cl)
  | ["lAddProps", cl] => do let cl ← parseClosure cl; pure (.lAddProps cl)
  | ["lAddEvent", n, p] => do let n ← strOfHex n; let p ← parseOptProps p; pure (.lAddEvent n p)
  -- an `Event` value built earlier (`evNew`, a no-op for the model): attaching it is attaching an event
  | ["lAddEventPre", _, n, p] => do let n ← strOfHex n; let p ← parseOptProps p; pure (.lAddEvent n p)
  | ["addEventPre", v, _, n, p] => do let n ← strOfHex n; let p ← parseOptProps p; pure (.addEvent v n p)
  | ["ctxOf", v] => some (.ctxOf v)
  | ["ctxLocal"] => some .ctxLocal
  | ["toRecords", x, t, sp] => do let t ← parseHexNat t; let sp ← parseHexNat sp; pure (.toRecords x t sp)
  | ["cycle"] => some .cycle
  | ["flush"] => some .flush
  | ["flushEnd"] => some .flush       -- that `flush()` returns: its own whole cycle has run
  | ["cycBegin"] => some .cycBegin
  | ["cycStep"] => some .cycStep
  | ["stats"] => some .stats
  | ["exit"] => some .exit
  | ["spam", n] => do let n ← n.toNat?; pure (.spam n)
  | ["adNew", a, "inSpan", v] => some (.adNew a .inSpan v)
  | ["adNew", a, "stream", v] => some (.adNew a .stream v)
  | ["adNew", a, "sink", v] => some (.adNew a .sink v)
  | ["adNew", a, "enterOnPoll", n] => do let n ← strOfHex n; pure (.adNew a .enterOnPoll n)
  | ["adPoll", a, call] => some (.adPoll a call)
  | ["adEnd", a, res] => some (.adEnd a res)
  | ["adDrop", a] => some (.adDrop a)
  | ["closeUnder"] => some .closeUnder
  | ["collectUnder", x] => some (.collectUnder x)
  | ["unwind"] => some .unwind
  | ["rootFrom", v, n, p, via] => do let n ← strOfHex n; pure (.rootFrom v n p (via == "tp"))
  | ["rootFromLocal", v, n, via] => do let n ← strOfHex n; pure (.rootFromLocal v n (via == "tp"))
  | _ => none

/-- canonical id text: `T<k>#<n>` for ids drawn by logical thread k, `0`, else `x<hex>` -/
def canonId (nthreads : Nat) (id : Nat) : String :=
  if id = 0 then "0" else
  let hi := id / 2 ^ 32
  if 1 ≤ hi ∧ hi ≤ nthreads then s!"T{hi - 1}#{id % 2 ^ 32}" else s!"x{hexOfNat id}"

def showProps (p : Props) : String :=
  if p.isEmpty then "_" else "&".intercalate (p.map fun kv => s!"{hexOfStr kv.1}={hexOfStr kv.2}")

def showRecord (nt : Nat) (r : Record) : String :=
  let evs := if r.events.isEmpty then "_" else
    "|".intercalate (r.events.map fun e => s!"{hexOfStr e.name}@{showProps e.props}")
  let times := s!"{r.beginNs}:{r.durationNs}:" ++ "/".intercalate (r.events.map fun e => toString e.timestamp)
  s!"{hexOfNat r.traceId},{canonId nt r.spanId},{canonId nt r.parentId},{hexOfStr r.name},{showProps r.props},{evs}~{times}"


def showRecords (nt : Nat) (sorted : Bool) (rs : List Record) : String :=
  if rs.isEmpty then "-" else
  let l := rs.map (showRecord nt)
  " ".intercalate (if sorted then sortStrings l else l)

def showObs (nt : Nat) : Obs → String
  | .ok => "ok"
  | .closure b => s!"cl {if b then 1 else 0}"
  | .ctx none => "ctx none"
  | .ctx (some c) => s!"ctx {hexOfNat c.traceId} {canonId nt c.spanId} {if c.sampled then 1 else 0}"
  | .elapsed b => s!"elapsed {if b then 1 else 0}"
  | .records rs => s!"recs {showRecords nt false rs}"
  | .report none => "rep none"
  | .report (some rs) => s!"rep {showRecords nt true rs}"
  | .phase p => s!"phase {p}"
  | .stats st =>
    let a := sortStrings (st.active.map fun e => s!"{e.1}:{e.2.1}:{e.2.2}")
    s!"stats a={if a.isEmpty then "-" else ",".intercalate a} rx={st.receivers}{if st.parkedCancels = 0 then "" else s!" pc={st.parkedCancels}"}"
  | .badOp why => s!"bad-op {why}"

structure SeqState where
  sys : Sys
  nthreads : Nat
  pending : List (Nat × Op) := []    -- background operations that are blocked (thread, operation)

/-- drop the local spans above the innermost scope of thread `t`, newest first (fuel: the number of guards) -/
def closeLocals (s : Sys) (t : Nat) : Nat → Sys
  | 0 => s
  | n + 1 =>
    match (s.th t).guards with
    | .localSpan _ :: _ => closeLocals (exec s t .close).1 t n
    | _ => s

/-- would this thread's next use of its command channel block?  (its first use, while a drain holds the
    registry lock) -/
def wouldBlock (sys : Sys) (t : Nat) : Bool := sys.regLocked && !(sys.th t).registered

def seqStep (st : SeqState) (line : String) : SeqState × String :=
  match words line with
  | ["case", _] => ({ sys := Sys.init, nthreads := 0 }, "case")
  | [_, "sleep", _] => (st, "ok")      -- the harness lets real time pass; nothing else happens
  | [_, "flushBegin"] => (st, "ok")    -- `flush()` called on a helper thread; it runs its cycle once no other is in progress
  | [_, "evNew", _, _, _] => (st, "ok") -- `Event::new(..)`: a value, no tracing call
  -- deprecated `Event::add_to_parent(name, &span, closure)` / `Event::add_to_local_parent(name, closure)`: the closure is
  -- evaluated, and the event attached, only when the target is recording
  | [t, "evToParent", v, n, cl] =>
    match t.toNat?, strOfHex n, parseClosure cl with
    | some t, some n, some cl =>
      match assocGet st.sys.spans v with
      | none => (st, "bad-op unknown span")
      | some none => (st, "cl 0")
      | some (some _) =>
        let (sys, _) := exec (st.sys.runClosure t cl) t (.addEvent v n (some cl.kvs))
        ({ st with sys := sys }, "cl 1")
    | _, _, _ => (st, "bad-op parse")
  | [t, "evToLocal", n, cl] =>
    match t.toNat?, strOfHex n, parseClosure cl with
    | some t, some n, some cl =>
      if (st.sys.th t).stack.isSampled then
        let (sys, _) := exec (st.sys.runClosure t cl) t (.lAddEvent n (some cl.kvs))
        ({ st with sys := sys }, "cl 1")
      else (st, "cl 0")
    | _, _, _ => (st, "bad-op parse")
  -- decoding a traceparent header touches no tracing state (its result is C12's business)
  | [_, "decodeTp", _] => (st, "ok")
  -- `push_child_spans` with the caller's last handle of the set (moved): the set is pushed, the variable is gone
  | [t, "pushChildLast", v, x] =>
    match t.toNat? with
    | some t =>
      let (sys, obs) := exec st.sys t (.pushChild v x)
      ({ st with sys := (match obs with | .ok => (exec sys t (.dropLocalSpans x)).1 | _ => sys) }, showObs st.nthreads obs)
    | none => (st, "bad-op parse")
  -- a caught panic unwinds through the local spans above the innermost scope: they are dropped newest first, as by `close`
  | [t, "unwindLocals"] =>
    match t.toNat? with
    | some t => ({ st with sys := closeLocals st.sys t ((st.sys.th t).guards.length) }, "ok")
    | none => (st, "bad-op parse")
  -- the span name is a user value whose conversion enters and drops a `LocalSpan` first (user code run by the call)
  | [t, "localEnterRe", n] =>
    match t.toNat?, strOfHex n with
    | some t, some n =>
      let (sys, obs) := exec (st.sys.enterExitLocal t) t (.localEnter n)
      ({ st with sys := sys }, showObs st.nthreads obs)
    | _, _ => (st, "bad-op parse")
  | [t, "childLocalRe", v, n] =>
    match t.toNat?, strOfHex n with
    | some t, some n =>
      let (sys, obs) := exec (st.sys.enterExitLocal t) t (.childLocal v n)
      ({ st with sys := sys }, showObs st.nthreads obs)
    | _, _ => (st, "bad-op parse")
  -- background operations: started on their thread, they may block; `bgEnd` is where a blocked one takes effect
  | t :: "bgBegin" :: rest =>
    match t.toNat?, parseOp rest with
    | some t, some op =>
      if wouldBlock st.sys t then ({ st with pending := st.pending ++ [(t, op)] }, "bg blocked")
      else
        let (sys, obs) := exec st.sys t op
        ({ st with sys := sys }, "bg done " ++ showObs st.nthreads obs)
    | _, _ => (st, "bad-op parse")
  | t :: "bgAfter" :: j :: rest =>
    match t.toNat?, j.toNat?, parseOp rest with
    | some t, some j, some op =>
      if st.pending.any (·.1 == j) || wouldBlock st.sys t then ({ st with pending := st.pending ++ [(t, op)] }, "bg blocked")
      else
        let (sys, obs) := exec st.sys t op
        ({ st with sys := sys }, "bg done " ++ showObs st.nthreads obs)
    | _, _, _ => (st, "bad-op parse")
  | [t, "bgEnd"] =>
    match t.toNat? with
    | some t =>
      match st.pending.find? (·.1 == t) with
      | some (_, op) =>
        let (sys, obs) := exec st.sys t op
        ({ st with sys := sys, pending := st.pending.filter (·.1 != t) }, showObs st.nthreads obs)
      | none => (st, "bad-op no background operation")
    | none => (st, "bad-op parse")
  | t :: rest =>
    match t.toNat?, parseOp rest with
    | some t, some op =>
      let nt := match op with | .spawn => max st.nthreads (t + 1) | _ => st.nthreads
      let (sys, obs) := exec st.sys t op
      ({ st with sys := sys, nthreads := nt }, showObs nt obs)
    | _, _ => (st, "bad-op parse")
  | _ => (st, "bad-op parse")

/-- the disabled build: stateless -/
def offStep (line : String) : String :=
  match words line with
  | ["case", _] => "case"
  | [_, "sleep", _] => "ok"
  | [_, "flushBegin"] => "ok"
  | [_, "evNew", _, _, _] => "ok"
  | [_, "decodeTp", _] => "ok"
  | [_, "pushChildLast", _, _] => "ok"
  | [_, "unwindLocals"] => "ok"
  | [_, "localEnterRe", _] => "ok"
  | [_, "childLocalRe", _, _] => "ok"
  | [_, "evToParent", _, _, _] => "cl 0"
  | [_, "evToLocal", _, _] => "cl 0"
  | _ :: rest =>
    match parseOp rest with
    | some op => showObs 0 (execOff op)
    | none => "bad-op parse"
  | _ => "bad-op parse"

end Fastrace.Driver
