/- driver-side helpers (not part of the verified model): hex wire encoding -/
namespace Fastrace.Driver

def hexNib (c : Char) : Option Nat :=
  if '0' ≤ c ∧ c ≤ '9' then some (c.toNat - 48)
  else if 'a' ≤ c ∧ c ≤ 'f' then some (c.toNat - 87)
  else if 'A' ≤ c ∧ c ≤ 'F' then some (c.toNat - 55) else none

/-- parse an unsigned hexadecimal number (driver protocol only) -/
def parseHexNat (s : String) : Option Nat :=
  if s.isEmpty then none else
  s.toList.foldl (fun acc c => match acc, hexNib c with
    | some a, some d => some (a * 16 + d)
    | _, _ => none) (some 0)

def bytesOfHex (s : String) : Option ByteArray :=
  let rec go : List Char → ByteArray → Option ByteArray
    | [], acc => some acc
    | [_], _ => none
    | a :: b :: rest, acc =>
      match hexNib a, hexNib b with
      | some x, some y => go rest (acc.push (UInt8.ofNat (x * 16 + y)))
      | _, _ => none
  go s.toList ByteArray.empty

/-- wire strings are the hex of their UTF-8 bytes; `-` stands for the empty string -/
def strOfHex (s : String) : Option String :=
  if s == "-" then some "" else
  match bytesOfHex s with
  | none => none
  | some b => String.fromUTF8? b

def nibChar (n : Nat) : Char := if n < 10 then Char.ofNat (48 + n) else Char.ofNat (87 + n)

def hexOfBytes (b : ByteArray) : String :=
  String.ofList (b.toList.flatMap fun x => [nibChar (x.toNat / 16), nibChar (x.toNat % 16)])

def hexOfStr (s : String) : String :=
  if s.isEmpty then "-" else hexOfBytes s.toUTF8

def hexOfNat (n : Nat) : String := String.ofList (Nat.toDigits 16 n)

def words (line : String) : List String :=
  (line.trimAscii.toString.splitOn " ").filter (· ≠ "")

end Fastrace.Driver
