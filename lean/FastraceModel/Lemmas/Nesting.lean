import FastraceModel.Lemmas.Frame

/-!
Interval structure of the local spans of one scope (C18, and the parent clause of C02 for local
spans).  A well-nested piece of local-span code is a forest of blocks; running it on a span
queue appends, for every block, its record followed by the records of everything inside it.
`OutOK` says what those records look like: each span's children (spans and events) lie strictly
inside its interval, carry its id as parent, and siblings follow each other without overlap.
-/
namespace Fastrace

/-- well-nested local-span code of one scope -/
inductive LB where
  | span (name : String) (body : List LB)
  | event (name : String) (props : Option Props)
  | props (kvs : Props)

mutual
def LB.size : LB → Nat
  | .span _ body => 1 + LB.sizes body
  | .event _ _ => 1
  | .props _ => 1
def LB.sizes : List LB → Nat
  | [] => 0
  | b :: bs => b.size + LB.sizes bs
end

mutual
/-- run one block on the queue: `LocalSpan::enter_with_local_parent` … drop, `add_event`,
    `add_properties` -/
def runLB (q : SpanQueue) (c : Ctr) : LB → SpanQueue × Ctr
  | .span n body =>
    match q.startSpan c n with
    | none => runLBs q c body
    | some (q1, idx, c1) =>
      let r := runLBs q1 c1 body
      r.1.finishSpan r.2 idx
  | .event n p => q.addEvent c n p
  | .props kvs => q.addProps c kvs
def runLBs (q : SpanQueue) (c : Ctr) : List LB → SpanQueue × Ctr
  | [] => (q, c)
  | b :: bs =>
    let r := runLB q c b
    runLBs r.1 r.2 bs
end

mutual
/-- the records one block leaves behind, given the parent id `par` in effect and the clock
    window `(lo, hi]` in which it ran -/
def OutOK (par lo hi : Nat) : LB → List RawSpan → Prop
  | .span n body, l =>
    ∃ s kids, l = s :: kids ∧ s.kind = .span ∧ s.name = n ∧ s.parentId = par ∧ s.id ≠ 0 ∧
      lo < s.beginT ∧ s.beginT < s.endT ∧ s.endT ≤ hi ∧
      OutsOK s.id s.beginT (s.endT - 1) body kids
  | .event n _, l => ∃ e, l = [e] ∧ e.kind = .event ∧ e.name = n ∧ e.parentId = par ∧ lo < e.beginT ∧ e.beginT ≤ hi
  | .props _, l => ∃ p, l = [p] ∧ p.kind = .properties ∧ p.parentId = par
/-- … and a sequence of blocks: one after the other, each entirely before the next -/
def OutsOK (par lo hi : Nat) : List LB → List RawSpan → Prop
  | [], l => l = [] ∧ lo ≤ hi
  | b :: bs, l => ∃ l1 l2 mid, l = l1 ++ l2 ∧ lo ≤ mid ∧ OutOK par lo mid b l1 ∧ OutsOK par mid hi bs l2
end

theorem set_append_mid {α : Type} (a k : List α) (x y : α) : (a ++ x :: k).set a.length y = a ++ y :: k := by
  induction a with
  | nil => rfl
  | cons h t ih => simp [List.set, ih]

theorem getElem?_append_mid {α : Type} (a k : List α) (x : α) : (a ++ x :: k)[a.length]? = some x := by
  induction a with
  | nil => rfl
  | cons h t ih => simpa using ih

/-- the entry `start_span` appends -/
def startedSpan (q : SpanQueue) (c : Ctr) (n : String) : RawSpan :=
  { id := c.nextId.1, parentId := q.nextParent.getD 0, beginT := c.clock + 1, name := n,
    props := none, kind := .span, endT := 0 }

/-- the queue after `start_span` -/
def startedQueue (q : SpanQueue) (c : Ctr) (n : String) : SpanQueue :=
  { q with spans := q.spans ++ [startedSpan q c n], nextParent := some c.nextId.1 }

/-- id generator and clock after `start_span` -/
def startedCtr (c : Ctr) : Ctr := { c.nextId.2 with clock := c.clock + 1 }

theorem startSpan_eq (q : SpanQueue) (c : Ctr) (n : String) (hroom : ¬ q.spans.length ≥ q.cap) :
    q.startSpan c n = some (startedQueue q c n, q.spans.length, startedCtr c) := by
  simp [SpanQueue.startSpan, hroom, startedQueue, startedSpan, startedCtr, Ctr.now, Ctr.nextId]

/-- the state a run starts from: room for everything, a usable parent, non-zero ids -/
structure Ready (q : SpanQueue) (c : Ctr) (need : Nat) : Prop where
  room : q.spans.length + need ≤ q.cap
  par : q.nextParent ≠ some 0
  pref : 1 ≤ c.pref

/-- what a run guarantees -/
structure Ran (q : SpanQueue) (c : Ctr) (q' : SpanQueue) (c' : Ctr) (new : List RawSpan) (n : Nat) : Prop where
  spans : q'.spans = q.spans ++ new
  len : new.length = n
  par : q'.nextParent = q.nextParent
  cap : q'.cap = q.cap
  pref : c'.pref = c.pref
  clock : c.clock ≤ c'.clock

mutual
theorem runLB_ok : ∀ (b : LB) (q : SpanQueue) (c : Ctr), Ready q c b.size →
    ∃ new, Ran q c (runLB q c b).1 (runLB q c b).2 new b.size ∧
      OutOK (q.nextParent.getD 0) c.clock (runLB q c b).2.clock b new
  | .span n body, q, c, hr => by
    have hroom : ¬ q.spans.length ≥ q.cap := by have := hr.room; simp only [LB.size] at this; omega
    have hid : c.nextId.1 ≠ 0 := nextId_ne_zero c hr.pref
    simp only [runLB, startSpan_eq q c n hroom]
    generalize hs0 : startedSpan q c n = s0
    generalize hq1 : startedQueue q c n = q1
    generalize hc1 : startedCtr c = c1
    have hc1clock : c1.clock = c.clock + 1 := by rw [← hc1]; rfl
    have hc1pref : c1.pref = c.pref := by rw [← hc1]; rfl
    have hb0 : s0.beginT = c.clock + 1 := by rw [← hs0]; rfl
    have hq1spans : q1.spans = q.spans ++ [s0] := by rw [← hq1, ← hs0]; rfl
    have hq1par' : q1.nextParent = some c.nextId.1 := by rw [← hq1]; rfl
    have hq1cap : q1.cap = q.cap := by rw [← hq1]; rfl
    have hr1 : Ready q1 c1 (LB.sizes body) := by
      refine ⟨?_, ?_, by rw [hc1pref]; exact hr.pref⟩
      · have := hr.room
        simp only [LB.size] at this
        rw [hq1spans, hq1cap]; simp; omega
      · rw [hq1par']; simp; exact hid
    obtain ⟨kids, hran, hout⟩ := runLBs_ok body q1 c1 hr1
    generalize hres : runLBs q1 c1 body = res at hran hout
    obtain ⟨q2, c2⟩ := res
    simp only at hran hout ⊢
    -- `finish_span` on the entry just created
    have hspans2 : q2.spans = q.spans ++ s0 :: kids := by rw [hran.spans, hq1spans]; simp
    have hget : q2.spans[q.spans.length]? = some s0 := by rw [hspans2]; exact getElem?_append_mid _ _ _
    have hfin : q2.finishSpan c2 q.spans.length =
        ({ q2 with spans := q2.spans.set q.spans.length { s0 with endT := c2.now.1 },
                   nextParent := if s0.parentId = 0 then none else some s0.parentId }, c2.now.2) := by
      simp [SpanQueue.finishSpan, hget]
    rw [hfin]
    have hpar0 : s0.parentId = q.nextParent.getD 0 := by rw [← hs0]; rfl
    have hrestore : (if s0.parentId = 0 then none else some s0.parentId) = q.nextParent := by
      rw [hpar0]
      cases hnp : q.nextParent with
      | none => simp
      | some p =>
        have : p ≠ 0 := fun e => hr.par (by rw [hnp, e])
        simp [this]
    refine ⟨{ s0 with endT := c2.now.1 } :: kids, ⟨?_, ?_, ?_, ?_, ?_, ?_⟩, ?_⟩
    · simp only [hspans2]; exact set_append_mid _ _ _ _
    · simp [LB.size, hran.len]; omega
    · exact hrestore
    · show q2.cap = q.cap
      rw [hran.cap, hq1cap]
    · show c2.now.2.pref = c.pref
      have : c2.pref = c1.pref := hran.pref
      simp [Ctr.now, this, hc1pref]
    · show c.clock ≤ c2.now.2.clock
      have := hran.clock
      simp only [Ctr.now]; omega
    · -- the shape of the output
      have hck := hran.clock
      refine ⟨{ s0 with endT := c2.now.1 }, kids, rfl, ?_, ?_, ?_, ?_, ?_, ?_, ?_, ?_⟩
      · show s0.kind = .span; rw [← hs0]; rfl
      · show s0.name = n; rw [← hs0]; rfl
      · exact hpar0
      · show s0.id ≠ 0; rw [← hs0]; exact hid
      · show c.clock < s0.beginT; omega
      · show s0.beginT < c2.clock + 1; omega
      · show c2.clock + 1 ≤ c2.now.2.clock; simp [Ctr.now]
      · -- the children ran in the window (begin of s0, end of s0)
        have hid0 : s0.id = c.nextId.1 := by rw [← hs0]; rfl
        have hq1par : q1.nextParent.getD 0 = c.nextId.1 := by rw [hq1par']; rfl
        show OutsOK s0.id s0.beginT (c2.clock + 1 - 1) body kids
        rw [hid0, hb0, ← hc1clock, ← hq1par]
        simpa using hout
  | .event n p, q, c, hr => by
    have hroom : ¬ q.spans.length ≥ q.cap := by have := hr.room; simp only [LB.size] at this; omega
    simp only [runLB, SpanQueue.addEvent, hroom, if_false]
    refine ⟨[_], ⟨rfl, rfl, rfl, rfl, rfl, ?_⟩, _, rfl, rfl, rfl, rfl, ?_, ?_⟩
    · show c.clock ≤ c.clock + 1; omega
    · show c.clock < c.clock + 1; omega
    · show c.clock + 1 ≤ c.clock + 1; omega
  | .props kvs, q, c, hr => by
    have hroom : ¬ q.spans.length ≥ q.cap := by have := hr.room; simp only [LB.size] at this; omega
    simp only [runLB, SpanQueue.addProps, hroom, if_false]
    exact ⟨[_], ⟨rfl, rfl, rfl, rfl, rfl, Nat.le_refl _⟩, _, rfl, rfl, rfl⟩
theorem runLBs_ok : ∀ (bs : List LB) (q : SpanQueue) (c : Ctr), Ready q c (LB.sizes bs) →
    ∃ new, Ran q c (runLBs q c bs).1 (runLBs q c bs).2 new (LB.sizes bs) ∧
      OutsOK (q.nextParent.getD 0) c.clock (runLBs q c bs).2.clock bs new
  | [], q, c, _ => ⟨[], ⟨by simp [runLBs], rfl, rfl, rfl, rfl, Nat.le_refl _⟩, rfl, Nat.le_refl _⟩
  | b :: bs, q, c, hr => by
    have hr1 : Ready q c b.size := ⟨by have := hr.room; simp only [LB.sizes] at this; omega, hr.par, hr.pref⟩
    obtain ⟨l1, hran1, hout1⟩ := runLB_ok b q c hr1
    simp only [runLBs]
    generalize hres : runLB q c b = res at hran1 hout1
    obtain ⟨q1, c1⟩ := res
    simp only at hran1 hout1 ⊢
    have hr2 : Ready q1 c1 (LB.sizes bs) := by
      refine ⟨?_, by rw [hran1.par]; exact hr.par, by rw [hran1.pref]; exact hr.pref⟩
      have := hr.room
      simp only [LB.sizes] at this
      rw [hran1.spans, hran1.cap]; simp [hran1.len]; omega
    obtain ⟨l2, hran2, hout2⟩ := runLBs_ok bs q1 c1 hr2
    refine ⟨l1 ++ l2, ⟨?_, ?_, ?_, ?_, ?_, ?_⟩, l1, l2, c1.clock, rfl, hran1.clock, hout1, ?_⟩
    · rw [hran2.spans, hran1.spans, List.append_assoc]
    · simp [LB.sizes, hran1.len, hran2.len]
    · rw [hran2.par, hran1.par]
    · rw [hran2.cap, hran1.cap]
    · rw [hran2.pref, hran1.pref]
    · exact Nat.le_trans hran1.clock hran2.clock
    · rw [← hran1.par]; exact hout2
end

end Fastrace

namespace Fastrace

/-- an entry's instants lie in the window `(lo, hi]` (properties records carry no instant) -/
def InWindow (lo hi : Nat) (s : RawSpan) : Prop :=
  match s.kind with
  | .span => lo < s.beginT ∧ s.beginT < s.endT ∧ s.endT ≤ hi
  | .event => lo < s.beginT ∧ s.beginT ≤ hi
  | .properties => True

theorem InWindow.mono {lo hi lo' hi' : Nat} {s : RawSpan} (h : InWindow lo hi s) (h1 : lo' ≤ lo) (h2 : hi ≤ hi') :
    InWindow lo' hi' s := by
  unfold InWindow at *
  cases hk : s.kind <;> simp only [hk] at h ⊢
  · exact ⟨by omega, h.2.1, by omega⟩
  · exact ⟨by omega, by omega⟩

mutual
/-- everything a block leaves behind lies inside the window it ran in -/
theorem outOK_window : ∀ (b : LB) (par lo hi : Nat) (l : List RawSpan), OutOK par lo hi b l → ∀ s ∈ l, InWindow lo hi s
  | .span n body, par, lo, hi, l, h => by
    obtain ⟨s, kids, rfl, hk, _, _, _, h1, h2, h3, hkids⟩ := h
    intro x hx
    simp only [List.mem_cons] at hx
    rcases hx with rfl | hx
    · simp only [InWindow, hk]; exact ⟨h1, h2, h3⟩
    · exact (outsOK_window body _ _ _ kids hkids x hx).mono (by omega) (by omega)
  | .event n p, par, lo, hi, l, h => by
    obtain ⟨e, rfl, hk, _, _, h1, h2⟩ := h
    intro x hx
    simp only [List.mem_singleton] at hx
    subst hx
    simp only [InWindow, hk]; exact ⟨h1, h2⟩
  | .props kvs, par, lo, hi, l, h => by
    obtain ⟨p, rfl, hk, _⟩ := h
    intro x hx
    simp only [List.mem_singleton] at hx
    subst hx
    simp only [InWindow, hk]
theorem outsOK_window : ∀ (bs : List LB) (par lo hi : Nat) (l : List RawSpan), OutsOK par lo hi bs l → ∀ s ∈ l, InWindow lo hi s
  | [], par, lo, hi, l, h => by
    obtain ⟨rfl, _⟩ := h
    intro s hs; cases hs
  | b :: bs, par, lo, hi, l, h => by
    obtain ⟨l1, l2, mid, rfl, hle, h1, h2⟩ := h
    have hhi : mid ≤ hi := outsOK_le bs par mid hi l2 h2
    intro s hs
    simp only [List.mem_append] at hs
    rcases hs with hs | hs
    · exact (outOK_window b par lo mid l1 h1 s hs).mono (Nat.le_refl _) hhi
    · exact (outsOK_window bs par mid hi l2 h2 s hs).mono hle (Nat.le_refl _)
theorem outsOK_le : ∀ (bs : List LB) (par lo hi : Nat) (l : List RawSpan), OutsOK par lo hi bs l → lo ≤ hi
  | [], par, lo, hi, l, h => h.2
  | b :: bs, par, lo, hi, l, h => by
    obtain ⟨l1, l2, mid, _, hle, _, h2⟩ := h
    exact Nat.le_trans hle (outsOK_le bs par mid hi l2 h2)
end

end Fastrace
