import FastraceModel.Lemmas.FrameOps

/-! opening and closing guards, and the block-structured frame theorem -/
namespace Fastrace

def runS (s : Sys) (p : Program) : Sys := (run s p).1
def runO (s : Sys) (p : Program) : List Obs := (run s p).2

@[simp] theorem runS_nil (s : Sys) : runS s [] = s := rfl
@[simp] theorem runO_nil (s : Sys) : runO s [] = [] := rfl
theorem runS_cons (s : Sys) (t : Nat) (op : Op) (p : Program) :
    runS s ((t, op) :: p) = runS (exec s t op).1 p := rfl
theorem runO_cons (s : Sys) (t : Nat) (op : Op) (p : Program) :
    runO s ((t, op) :: p) = (exec s t op).2 :: runO (exec s t op).1 p := rfl

theorem runS_append (s : Sys) (p q : Program) : runS s (p ++ q) = runS (runS s p) q := by
  induction p generalizing s with
  | nil => rfl
  | cons hd tl ih => obtain ⟨t, op⟩ := hd; simp only [List.cons_append, runS_cons, ih]

theorem runO_append (s : Sys) (p q : Program) : runO s (p ++ q) = runO s p ++ runO (runS s p) q := by
  induction p generalizing s with
  | nil => rfl
  | cons hd tl ih => obtain ⟨t, op⟩ := hd; simp only [List.cons_append, runO_cons, runS_cons, ih]

def Obs.isOk : Obs → Bool
  | .badOp _ => false
  | _ => true

/-! ### opening -/

theorem scope_open (s : Sys) (t : Nat) (v : String) (hok : (exec s t (.scope v)).2.isOk = true) :
    let th := s.th t
    let th1 := (exec s t (.scope v)).1.th t
    (th1 = { th with guards := .scope none :: th.guards }) ∨
    (∃ tok, th1 = { th with stack := { th.stack with lines := SpanLine.new Consts.spanQueueSize th.stack.nextEpoch (some tok) :: th.stack.lines,
                                                     nextEpoch := th.stack.nextEpoch + 1 },
                            guards := .scope (some th.stack.nextEpoch) :: th.guards }) := by
  simp only [exec] at hok ⊢
  cases hsp : assocGet s.spans v with
  | none => simp [hsp, Obs.isOk] at hok
  | some sv =>
    cases sv with
    | none => left; simp [Sys.th_setTh_same]
    | some sp =>
      simp only
      cases hr : (s.th t).stack.registerLine (some (issueToken sp)) with
      | none => left; simp [Sys.th_setTh_same]
      | some res =>
        obtain ⟨stack, epoch⟩ := res
        right
        unfold Stack.registerLine at hr
        split at hr
        · cases hr
        · simp only [Option.some.injEq, Prod.mk.injEq] at hr
          obtain ⟨rfl, rfl⟩ := hr
          exact ⟨issueToken sp, by simp [Sys.th_setTh_same]⟩

theorem collector_open (s : Sys) (t : Nat) :
    let th := s.th t
    let th1 := (exec s t .collectorStart).1.th t
    (th1 = { th with guards := .collector none :: th.guards }) ∨
    (th1 = { th with stack := { th.stack with lines := SpanLine.new Consts.spanQueueSize th.stack.nextEpoch none :: th.stack.lines,
                                               nextEpoch := th.stack.nextEpoch + 1 },
                      guards := .collector (some th.stack.nextEpoch) :: th.guards }) := by
  simp only [exec]
  cases hr : (s.th t).stack.registerLine none with
  | none => left; simp [Sys.th_setTh_same]
  | some res =>
    obtain ⟨stack, epoch⟩ := res
    right
    unfold Stack.registerLine at hr
    split at hr
    · cases hr
    · simp only [Option.some.injEq, Prod.mk.injEq] at hr
      obtain ⟨rfl, rfl⟩ := hr
      simp [Sys.th_setTh_same]

theorem local_open (s : Sys) (t : Nat) (n : String) :
    let th := s.th t
    let th1 := (exec s t (.localEnter n)).1.th t
    (th1 = { th with guards := .localSpan none :: th.guards }) ∨
    (∃ l ls l1 h c1, th.stack.lines = l :: ls ∧ l.startSpan (s.ctr t) n = some (l1, h, c1) ∧
      th1.stack.lines = l1 :: ls ∧ th1.stack.cap = th.stack.cap ∧ th1.guards = .localSpan (some h) :: th.guards ∧
      th1.pref = th.pref) := by
  simp only [exec]
  cases hs : (s.th t).stack.enterSpan (s.ctr t) n with
  | none => left; simp [Sys.th_setTh_same]
  | some res =>
    obtain ⟨st1, h, c1⟩ := res
    right
    unfold Stack.enterSpan at hs
    cases hl : (s.th t).stack.lines with
    | nil => simp [hl] at hs
    | cons l ls =>
      simp only [hl] at hs
      cases hst : l.startSpan (s.ctr t) n with
      | none => simp [hst] at hs
      | some r2 =>
        obtain ⟨l1, h', c1'⟩ := r2
        simp only [hst, Option.some.injEq, Prod.mk.injEq] at hs
        obtain ⟨rfl, rfl, rfl⟩ := hs
        refine ⟨l, ls, l1, h', c1', rfl, hst, ?_, ?_, ?_, ?_⟩ <;> simp [Sys.putCtr_th_same, Sys.th_setTh_same]

/-! ### closing -/

theorem close_eq (s : Sys) (t : Nat) (g : Guard) (gs : List Guard) (hg : (s.th t).guards = g :: gs) :
    exec s t .close = ((s.setTh t { s.th t with guards := gs }).closeGuard t g, .ok) := by
  simp only [exec, hg]

theorem close_noop (s : Sys) (t : Nat) (g : Guard) (gs : List Guard) (hg : (s.th t).guards = g :: gs)
    (hn : g = .scope none ∨ g = .localSpan none ∨ g = .collector none) :
    (exec s t .close).1.th t = { s.th t with guards := gs } ∧ (exec s t .close).2.isOk = true := by
  rw [close_eq s t g gs hg]
  rcases hn with rfl | rfl | rfl <;> simp [Sys.closeGuard, Sys.th_setTh_same, Obs.isOk]

/-- dropping a registered `LocalParentGuard` or `LocalCollector` pops the current span line -/
theorem close_pops (s : Sys) (t : Nat) (e : Nat) (gs : List Guard) (l : SpanLine) (ls : List SpanLine)
    (g : Guard) (hgk : g = .scope (some e) ∨ g = .collector (some e))
    (hg : (s.th t).guards = g :: gs) (hl : (s.th t).stack.lines = l :: ls) :
    ((exec s t .close).1.th t).loc = ({ (s.th t).stack with lines := ls }, gs, (s.th t).pref) ∧
    (exec s t .close).2.isOk = true := by
  rw [close_eq s t g gs hg]
  refine ⟨?_, rfl⟩
  rcases hgk with rfl | rfl
  · simp only [Sys.closeGuard, Sys.th_setTh_same, Stack.unregisterAndCollect, hl]
    split
    · rw [Sys.submitSpans_loc, Sys.putCtr_loc, Sys.th_setTh_same]; rfl
    · rw [Sys.putCtr_loc, Sys.th_setTh_same]; rfl
  · simp only [Sys.closeGuard, Sys.th_setTh_same, Stack.unregisterAndCollect, hl]
    rfl

theorem collect_pops (s : Sys) (t : Nat) (x : String) (e : Nat) (gs : List Guard) (l : SpanLine) (ls : List SpanLine)
    (hg : (s.th t).guards = .collector (some e) :: gs) (hl : (s.th t).stack.lines = l :: ls) :
    ((exec s t (.collect x)).1.th t).loc = ({ (s.th t).stack with lines := ls }, gs, (s.th t).pref) ∧
    (exec s t (.collect x)).2.isOk = true := by
  simp only [exec, hg, Sys.th_setTh_same, Stack.unregisterAndCollect, hl]
  refine ⟨?_, rfl⟩
  rw [th_withLspans, Sys.putCtr_loc, Sys.th_setTh_same]
  rfl

theorem collect_noop (s : Sys) (t : Nat) (x : String) (gs : List Guard)
    (hg : (s.th t).guards = .collector none :: gs) :
    ((exec s t (.collect x)).1.th t).loc = ((s.th t).stack, gs, (s.th t).pref) ∧
    (exec s t (.collect x)).2.isOk = true := by
  simp only [exec, hg]
  refine ⟨?_, rfl⟩
  rw [th_withLspans, Sys.putCtr_loc, Sys.th_setTh_same]
  rfl

/-- dropping a recording `LocalSpan` finishes it on the current line -/
theorem close_local (s : Sys) (t : Nat) (h : LocalHandle) (gs : List Guard) (l : SpanLine) (ls : List SpanLine)
    (hg : (s.th t).guards = .localSpan (some h) :: gs) (hl : (s.th t).stack.lines = l :: ls) :
    ∃ c2, ((exec s t .close).1.th t).loc
        = ({ (s.th t).stack with lines := (l.finishSpan c2 h).1 :: ls }, gs, (s.th t).pref) ∧
    (exec s t .close).2.isOk = true := by
  rw [close_eq s t _ gs hg]
  refine ⟨(s.setTh t { s.th t with guards := gs }).ctr t, ?_, rfl⟩
  simp only [Sys.closeGuard, Sys.th_setTh_same, Stack.exitSpan, hl]
  rw [Sys.putCtr_loc, Sys.th_setTh_same]
  rfl

end Fastrace

namespace Fastrace

/-! ### adapter calls open and close guards exactly like the plain operations -/

theorem closeGuard_noop (S : Sys) (t : Nat) (g : Guard)
    (hn : g = .scope none ∨ g = .localSpan none ∨ g = .collector none) : S.closeGuard t g = S := by
  rcases hn with rfl | rfl | rfl <;> rfl

theorem closeGuard_pops (S : Sys) (t e : Nat) (g : Guard) (hgk : g = .scope (some e) ∨ g = .collector (some e))
    (l : SpanLine) (ls : List SpanLine) (hl : (S.th t).stack.lines = l :: ls) :
    ((S.closeGuard t g).th t).loc = ({ (S.th t).stack with lines := ls }, (S.th t).guards, (S.th t).pref) := by
  rcases hgk with rfl | rfl
  · simp only [Sys.closeGuard, Stack.unregisterAndCollect, hl]
    split
    · rw [Sys.submitSpans_loc, Sys.putCtr_loc, Sys.th_setTh_same]; rfl
    · rw [Sys.putCtr_loc, Sys.th_setTh_same]; rfl
  · simp only [Sys.closeGuard, Stack.unregisterAndCollect, hl, Sys.th_setTh_same]
    rfl

theorem closeGuard_local (S : Sys) (t : Nat) (h : LocalHandle) (l : SpanLine) (ls : List SpanLine)
    (hl : (S.th t).stack.lines = l :: ls) :
    ((S.closeGuard t (.localSpan (some h))).th t).loc
      = ({ (S.th t).stack with lines := (l.finishSpan (S.ctr t) h).1 :: ls }, (S.th t).guards, (S.th t).pref) := by
  simp only [Sys.closeGuard, Stack.exitSpan, hl]
  rw [Sys.putCtr_loc, Sys.th_setTh_same]
  rfl

/-- when the adapter method returns, the thread-local state is what closing the adapter's
    guard leaves (finishing the span afterwards does not touch it) -/
theorem adEnd_loc (s : Sys) (t : Nat) (a result : String) (hok : (s.adEnd t a result).2.isOk = true) :
    ∃ g gs, (s.th t).guards = g :: gs ∧
      ((s.adEnd t a result).1.th t).loc = (((s.setTh t { s.th t with guards := gs }).closeGuard t g).th t).loc := by
  unfold Sys.adEnd at hok ⊢
  cases ha : assocGet s.adapters a with
  | none => simp [ha, Obs.isOk] at hok
  | some ad =>
    cases hg : (s.th t).guards with
    | nil => simp [ha, hg, Obs.isOk] at hok
    | cons g gs =>
      refine ⟨g, gs, rfl, ?_⟩
      simp only [ha, hg] at hok ⊢
      cases hc : ad.inCall with
      | none => simp [hc, Obs.isOk] at hok
      | some call =>
        dsimp only
        split
        · cases ad.span with
          | none => dsimp only; rw [th_withAdapters]
          | some sv => dsimp only; rw [Sys.dropSpanVal_loc, th_withAdapters]
        · rw [th_withAdapters]

/-- entering an adapter method opens a scope on the adapter's span (or nothing, or — for
    `enter_on_poll` — a local span), exactly as `set_local_parent` / `LocalSpan::enter…` do -/
theorem adPoll_open (s : Sys) (t : Nat) (a call : String) (hok : (s.adPoll t a call).2.isOk = true) :
    let th := s.th t
    let th1 := (s.adPoll t a call).1.th t
    (th1 = { th with guards := .scope none :: th.guards }) ∨
    (∃ tok, th1 = { th with stack := { th.stack with lines := SpanLine.new Consts.spanQueueSize th.stack.nextEpoch (some tok) :: th.stack.lines,
                                                     nextEpoch := th.stack.nextEpoch + 1 },
                            guards := .scope (some th.stack.nextEpoch) :: th.guards }) ∨
    (th1 = { th with guards := .localSpan none :: th.guards }) ∨
    (∃ l ls l1 h c1 n, th.stack.lines = l :: ls ∧ l.startSpan (s.ctr t) n = some (l1, h, c1) ∧
      th1.stack.lines = l1 :: ls ∧ th1.stack.cap = th.stack.cap ∧ th1.guards = .localSpan (some h) :: th.guards ∧
      th1.pref = th.pref) := by
  unfold Sys.adPoll at hok ⊢
  cases ha : assocGet s.adapters a with
  | none => simp [ha, Obs.isOk] at hok
  | some ad =>
    dsimp only
    cases hk : ad.kind with
    | enterOnPoll =>
      dsimp only
      cases hs : (s.th t).stack.enterSpan (s.ctr t) ad.name with
      | none => right; right; left; dsimp only; rw [Sys.th_setTh_same]
      | some res =>
        obtain ⟨st1, h, c1⟩ := res
        right; right; right
        unfold Stack.enterSpan at hs
        cases hl : (s.th t).stack.lines with
        | nil => simp [hl] at hs
        | cons l ls =>
          simp only [hl] at hs
          cases hst : l.startSpan (s.ctr t) ad.name with
          | none => simp [hst] at hs
          | some r2 =>
            obtain ⟨l1, h', c1'⟩ := r2
            simp only [hst, Option.some.injEq, Prod.mk.injEq] at hs
            obtain ⟨rfl, rfl, rfl⟩ := hs
            refine ⟨l, ls, l1, h', c1', ad.name, rfl, hst, ?_, ?_, ?_, ?_⟩ <;>
              (dsimp only; rw [Sys.putCtr_th_same, Sys.th_setTh_same])
    | inSpan | stream | sink =>
      all_goals
        dsimp only
        cases ad.span with
        | none => left; dsimp only; rw [Sys.th_setTh_same]
        | some sv =>
          cases sv with
          | none => left; dsimp only; rw [Sys.th_setTh_same]
          | some sp =>
            dsimp only
            cases hr : (s.th t).stack.registerLine (some (issueToken sp)) with
            | none => left; dsimp only; rw [Sys.th_setTh_same]
            | some res =>
              obtain ⟨stack, epoch⟩ := res
              right; left
              unfold Stack.registerLine at hr
              split at hr
              · cases hr
              · simp only [Option.some.injEq, Prod.mk.injEq] at hr
                obtain ⟨rfl, rfl⟩ := hr
                exact ⟨issueToken sp, by dsimp only; rw [Sys.th_setTh_same]⟩

end Fastrace
