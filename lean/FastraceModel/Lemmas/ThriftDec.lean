import FastraceModel.Lemmas.Wire

/-!
A decoder for the Thrift compact protocol (the subset the Jaeger reporter emits) and the proof
that it inverts the encoder of `Model/Report/Thrift.lean` on well-formed data:
`decData (encData d ++ rest) = some (d, rest)`.
-/
namespace Fastrace.Thrift

mutual
def TData.size : TData → Nat
  | .i32 _ => 1
  | .i64 _ => 1
  | .binary _ => 1
  | .struct fs => fs.size + 1
  | .list es => es.size + 1
def TFields.size : TFields → Nat
  | .nil => 1
  | .cons _ d rest => d.size + rest.size + 1
def TList.size : TList → Nat
  | .nil => 1
  | .cons d rest => d.size + rest.size + 1
end

mutual
/-- what the encoder's output can be decoded back from: integers fit their width, field ids
    are positive 15-bit numbers, list elements are structs -/
def TData.WF : TData → Prop
  | .i32 b => b < 2 ^ 32
  | .i64 b => b < 2 ^ 64
  | .binary _ => True
  | .struct fs => fs.WF
  | .list es => es.WF
def TFields.WF : TFields → Prop
  | .nil => True
  | .cons id d rest => 0 < id ∧ id < 2 ^ 15 ∧ d.WF ∧ rest.WF
def TList.WF : TList → Prop
  | .nil => True
  | .cons d rest => (∃ fs, d = .struct fs) ∧ d.WF ∧ rest.WF
end

mutual
/-- decode one value of compact type `kind` -/
def decData : Nat → Nat → List Nat → Option (TData × List Nat)
  | 0, _, _ => none
  | fuel + 1, kind, bs =>
    if kind = 5 then
      match decVarint bs with
      | some (z, rest) => some (.i32 (unzigzag32 z), rest)
      | none => none
    else if kind = 6 then
      match decVarint bs with
      | some (z, rest) => some (.i64 (unzigzag64 z), rest)
      | none => none
    else if kind = 8 then
      match decVarint bs with
      | some (n, rest) => if n ≤ rest.length then some (.binary (rest.take n), rest.drop n) else none
      | none => none
    else if kind = 12 then
      match decFields fuel 0 bs with
      | some (fs, rest) => some (.struct fs, rest)
      | none => none
    else if kind = 9 then
      match bs with
      | [] => none
      | h :: rest =>
        if h % 16 ≠ 12 then none
        else if h / 16 = 15 then
          match decVarint rest with
          | some (n, rest') =>
            match decList fuel n rest' with
            | some (es, r) => some (.list es, r)
            | none => none
          | none => none
        else
          match decList fuel (h / 16) rest with
          | some (es, r) => some (.list es, r)
          | none => none
    else none
/-- decode the fields of a struct up to the stop byte; `prev` = previous field id -/
def decFields : Nat → Nat → List Nat → Option (TFields × List Nat)
  | 0, _, _ => none
  | _ + 1, _, [] => none
  | fuel + 1, prev, h :: rest =>
    if h = 0 then some (.nil, rest)
    else if h / 16 ≠ 0 then
      match decData fuel (h % 16) rest with
      | some (d, r1) =>
        match decFields fuel (prev + h / 16) r1 with
        | some (fs, r2) => some (.cons (prev + h / 16) d fs, r2)
        | none => none
      | none => none
    else
      match decVarint rest with
      | some (z, r0) =>
        match decData fuel (h % 16) r0 with
        | some (d, r1) =>
          match decFields fuel (unzigzag32 z) r1 with
          | some (fs, r2) => some (.cons (unzigzag32 z) d fs, r2)
          | none => none
        | none => none
      | none => none
/-- decode `n` list elements (structs) -/
def decList : Nat → Nat → List Nat → Option (TList × List Nat)
  | 0, _, _ => none
  | _ + 1, 0, bs => some (.nil, bs)
  | fuel + 1, n + 1, bs =>
    match decData fuel 12 bs with
    | some (d, r1) =>
      match decList fuel n r1 with
      | some (es, r2) => some (.cons d es, r2)
      | none => none
    | none => none
end

theorem compactKind_cases (d : TData) :
    compactKind d = 5 ∨ compactKind d = 6 ∨ compactKind d = 8 ∨ compactKind d = 12 ∨ compactKind d = 9 := by
  cases d <;> simp [compactKind]

theorem take_append_length {α : Type} (a b : List α) : (a ++ b).take a.length = a := by simp
theorem drop_append_length {α : Type} (a b : List α) : (a ++ b).drop a.length = b := by simp

mutual
theorem decData_encData : ∀ (d : TData) (fuel : Nat) (rest : List Nat), d.WF → d.size ≤ fuel →
    decData fuel (compactKind d) (encData d ++ rest) = some (d, rest)
  | .i32 b, fuel, rest, hw, hf => by
    obtain ⟨f, rfl⟩ : ∃ f, fuel = f + 1 := ⟨fuel - 1, by simp [TData.size] at hf; omega⟩
    simp only [decData, compactKind, encData, if_true, decVarint_varint]
    rw [unzigzag32_zigzag32 b hw]
  | .i64 b, fuel, rest, hw, hf => by
    obtain ⟨f, rfl⟩ : ∃ f, fuel = f + 1 := ⟨fuel - 1, by simp [TData.size] at hf; omega⟩
    simp only [decData, compactKind, encData, decVarint_varint]
    simp only [show (6 : Nat) ≠ 5 by decide, if_false, if_true]
    rw [unzigzag64_zigzag64 b hw]
  | .binary bs, fuel, rest, _, hf => by
    obtain ⟨f, rfl⟩ : ∃ f, fuel = f + 1 := ⟨fuel - 1, by simp [TData.size] at hf; omega⟩
    simp only [decData, compactKind, encData, List.append_assoc, decVarint_varint]
    simp only [show (8 : Nat) ≠ 5 by decide, show (8 : Nat) ≠ 6 by decide, if_false, if_true]
    have : bs.length ≤ (bs ++ rest).length := by simp
    simp [this]
  | .struct fs, fuel, rest, hw, hf => by
    obtain ⟨f, rfl⟩ : ∃ f, fuel = f + 1 := ⟨fuel - 1, by simp [TData.size] at hf; omega⟩
    simp only [decData, compactKind, encData]
    simp only [show (12 : Nat) ≠ 5 by decide, show (12 : Nat) ≠ 6 by decide, show (12 : Nat) ≠ 8 by decide, if_false, if_true]
    rw [decFields_encFields fs f 0 rest hw (by simp [TData.size] at hf; omega)]
  | .list es, fuel, rest, hw, hf => by
    obtain ⟨f, rfl⟩ : ∃ f, fuel = f + 1 := ⟨fuel - 1, by simp [TData.size] at hf; omega⟩
    simp only [decData, compactKind, encData]
    simp only [show (9 : Nat) ≠ 5 by decide, show (9 : Nat) ≠ 6 by decide, show (9 : Nat) ≠ 8 by decide,
      show (9 : Nat) ≠ 12 by decide, if_false, if_true]
    have hl := decList_encList es f rest hw (by simp [TData.size] at hf; omega)
    by_cases hlen : es.length < 15
    · simp only [hlen, if_true, List.cons_append, List.nil_append]
      have h1 : (es.length * 16 + 12) % 16 = 12 := by omega
      have h2 : (es.length * 16 + 12) / 16 = es.length := by omega
      have h3 : ¬ es.length = 15 := by omega
      simp only [h1, h2, h3, ne_eq, not_true_eq_false, if_false, hl]
    · simp only [hlen, if_false, List.cons_append, List.nil_append, List.append_assoc]
      have h1 : (0xF0 + 12) % 16 = 12 := by decide
      have h2 : (0xF0 + 12) / 16 = 15 := by decide
      simp only [h1, h2, ne_eq, not_true_eq_false, if_false, if_true, decVarint_varint, hl]
theorem decFields_encFields : ∀ (fs : TFields) (fuel prev : Nat) (rest : List Nat), fs.WF → fs.size ≤ fuel →
    decFields fuel prev (encFields prev fs ++ rest) = some (fs, rest)
  | .nil, fuel, prev, rest, _, hf => by
    obtain ⟨f, rfl⟩ : ∃ f, fuel = f + 1 := ⟨fuel - 1, by simp [TFields.size] at hf; omega⟩
    simp [decFields, encFields]
  | .cons id d fs, fuel, prev, rest, hw, hf => by
    obtain ⟨f, rfl⟩ : ∃ f, fuel = f + 1 := ⟨fuel - 1, by simp [TFields.size] at hf; omega⟩
    obtain ⟨hid0, hid, hwd, hwf⟩ := hw
    have hk := compactKind_cases d
    have hklt : compactKind d < 16 ∧ compactKind d ≠ 0 := by rcases hk with h | h | h | h | h <;> simp [h]
    have hsd : d.size ≤ f := by simp [TFields.size] at hf; omega
    have hsf : fs.size ≤ f := by simp [TFields.size] at hf; omega
    have ihd := fun r => decData_encData d f r hwd hsd
    have ihf := fun p r => decFields_encFields fs f p r hwf hsf
    simp only [encFields]
    by_cases hshort : prev < id ∧ id - prev ≤ 15
    · simp only [hshort, and_self, if_true, List.cons_append, List.nil_append, List.append_assoc, decFields]
      have h0 : ¬ ((id - prev) * 16 + compactKind d = 0) := by omega
      have h1 : ((id - prev) * 16 + compactKind d) / 16 = id - prev := by omega
      have h2 : ((id - prev) * 16 + compactKind d) % 16 = compactKind d := by omega
      have h3 : id - prev ≠ 0 := by omega
      have h4 : prev + (id - prev) = id := by omega
      simp only [h0, if_false, h1, h2, h3, ne_eq, not_false_eq_true, if_true, ihd, h4, ihf]
    · simp only [hshort, if_false, List.cons_append, List.nil_append, List.append_assoc, decFields]
      have h0 : ¬ (compactKind d = 0) := hklt.2
      have h1 : compactKind d / 16 = 0 := by omega
      have h2 : compactKind d % 16 = compactKind d := by omega
      have hz : unzigzag32 (zigzag32 id) = id := unzigzag32_zigzag32 id (by omega)
      simp only [h0, if_false, h1, ne_eq, not_true_eq_false, h2, decVarint_varint, hz, ihd, ihf]
theorem decList_encList : ∀ (es : TList) (fuel : Nat) (rest : List Nat), es.WF → es.size ≤ fuel →
    decList fuel es.length (encList es ++ rest) = some (es, rest)
  | .nil, fuel, rest, _, hf => by
    obtain ⟨f, rfl⟩ : ∃ f, fuel = f + 1 := ⟨fuel - 1, by simp [TList.size] at hf; omega⟩
    simp [decList, encList, TList.length]
  | .cons d es, fuel, rest, hw, hf => by
    obtain ⟨f, rfl⟩ : ∃ f, fuel = f + 1 := ⟨fuel - 1, by simp [TList.size] at hf; omega⟩
    obtain ⟨⟨fs, rfl⟩, hwd, hwe⟩ := hw
    have hsd : (TData.struct fs).size ≤ f := by simp [TList.size] at hf; omega
    have hse : es.size ≤ f := by simp [TList.size] at hf; omega
    have ihd := decData_encData (.struct fs) f (encList es ++ rest) hwd hsd
    simp only [compactKind] at ihd
    simp only [decList, encList, TList.length, List.append_assoc, ihd]
    rw [decList_encList es f rest hwe hse]
end

end Fastrace.Thrift
