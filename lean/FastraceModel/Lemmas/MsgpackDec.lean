import FastraceModel.Model.Report.Datadog

/-! msgpack primitives: decoders and round-trip lemmas for the encodings of
`Model/Report/Datadog.lean` (rmp's smallest-form integers, strings, map/array headers) -/
namespace Fastrace.Datadog

def ofBe : List Nat → Nat
  | [] => 0
  | b :: rest => b * 256 ^ rest.length + ofBe rest

@[simp] theorem be_length (w n : Nat) : (be w n).length = w := by
  induction w with
  | zero => rfl
  | succ w ih => simp [be, ih]

theorem ofBe_be (w n : Nat) : ofBe (be w n) = n % 256 ^ w := by
  induction w with
  | zero => simp [be, ofBe, Nat.mod_one]
  | succ w ih =>
    simp only [be, ofBe, be_length, ih]
    have := @Nat.mod_pow_succ n 256 w
    rw [this, Nat.mul_comm]
    omega

/-- read `w` big-endian bytes -/
def takeBe (w : Nat) (bs : List Nat) : Option (Nat × List Nat) :=
  if w ≤ bs.length then some (ofBe (bs.take w), bs.drop w) else none

theorem takeBe_be (w n : Nat) (rest : List Nat) (h : n < 256 ^ w) : takeBe w (be w n ++ rest) = some (n, rest) := by
  have hl : w ≤ (be w n ++ rest).length := by simp
  have ht : (be w n ++ rest).take w = be w n := by
    have := List.take_left' (l₁ := be w n) (l₂ := rest) (be_length w n)
    exact this
  have hd : (be w n ++ rest).drop w = rest := by
    have := List.drop_left' (l₁ := be w n) (l₂ := rest) (be_length w n)
    exact this
  simp [takeBe, hl, ht, hd, ofBe_be, Nat.mod_eq_of_lt h]

/-- unsigned integer in any of rmp's forms -/
def decUint : List Nat → Option (Nat × List Nat)
  | [] => none
  | b :: rest =>
    if b < 128 then some (b, rest)
    else if b = 0xcc then takeBe 1 rest
    else if b = 0xcd then takeBe 2 rest
    else if b = 0xce then takeBe 4 rest
    else if b = 0xcf then takeBe 8 rest
    else none

theorem be1 (v : Nat) (h : v < 256) : be 1 v = [v] := by simp [be, Nat.mod_eq_of_lt h]

theorem decUint_mpUint (v : Nat) (rest : List Nat) (h : v < 2 ^ 64) : decUint (mpUint v ++ rest) = some (v, rest) := by
  unfold mpUint
  by_cases h1 : v < 128
  · simp [h1, decUint]
  · by_cases h2 : v < 256
    · simp only [h1, h2, if_false, if_true, List.cons_append, List.nil_append, decUint]
      have := takeBe_be 1 v rest (by simpa using h2)
      rw [be1 v h2] at this
      simpa using this
    · by_cases h3 : v < 65536
      · simp only [h1, h2, h3, if_false, if_true, List.cons_append, decUint]
        simpa using takeBe_be 2 v rest (by simpa using h3)
      · by_cases h4 : v < 4294967296
        · simp only [h1, h2, h3, h4, if_false, if_true, List.cons_append, decUint]
          simpa using takeBe_be 4 v rest (by simpa using h4)
        · simp only [h1, h2, h3, h4, if_false, List.cons_append, decUint]
          simpa using takeBe_be 8 v rest (by simpa using h)

/-- signed integer, returned as its u64 bit pattern -/
def decSint : List Nat → Option (Nat × List Nat)
  | [] => none
  | b :: rest =>
    if b < 128 then some (b, rest)
    else if 0xe0 ≤ b ∧ b < 256 then some (2 ^ 64 - 256 + b, rest)
    else if b = 0xcc then takeBe 1 rest
    else if b = 0xcd then takeBe 2 rest
    else if b = 0xce then takeBe 4 rest
    else if b = 0xcf then takeBe 8 rest
    else if b = 0xd0 then (takeBe 1 rest).map fun (x, r) => (if 128 ≤ x then 2 ^ 64 - 256 + x else x, r)
    else if b = 0xd1 then (takeBe 2 rest).map fun (x, r) => (if 32768 ≤ x then 2 ^ 64 - 65536 + x else x, r)
    else if b = 0xd2 then (takeBe 4 rest).map fun (x, r) => (if 2147483648 ≤ x then 2 ^ 64 - 4294967296 + x else x, r)
    else if b = 0xd3 then takeBe 8 rest
    else none

theorem decSint_of_uint (v : Nat) (rest : List Nat) (h : v < 2 ^ 63) : decSint (mpUint v ++ rest) = some (v, rest) := by
  have hu := decUint_mpUint v rest (by omega)
  unfold mpUint at hu ⊢
  by_cases h1 : v < 128
  · simp [h1, decSint]
  · by_cases h2 : v < 256
    · simp only [h1, h2, if_false, if_true, List.cons_append, List.nil_append, decSint, decUint] at hu ⊢
      simpa using hu
    · by_cases h3 : v < 65536
      · simp only [h1, h2, h3, if_false, if_true, List.cons_append, decSint, decUint] at hu ⊢
        simpa using hu
      · by_cases h4 : v < 4294967296
        · simp only [h1, h2, h3, h4, if_false, if_true, List.cons_append, decSint, decUint] at hu ⊢
          simpa using hu
        · simp only [h1, h2, h3, h4, if_false, List.cons_append, decSint, decUint] at hu ⊢
          simpa using hu

theorem decSint_mpSint (u : Nat) (rest : List Nat) (h : u < 2 ^ 64) : decSint (mpSint u ++ rest) = some (u, rest) := by
  unfold mpSint
  by_cases h0 : u < 2 ^ 63
  · simp only [h0, if_true]; exact decSint_of_uint u rest h0
  · simp only [h0, if_false]
    by_cases h1 : 2 ^ 64 - 32 ≤ u
    · simp only [h1, if_true, List.cons_append, List.nil_append, decSint]
      have a1 : ¬ (u % 256 < 128) := by omega
      have a2 : 0xe0 ≤ u % 256 ∧ u % 256 < 256 := by omega
      simp only [a1, if_false, a2, and_self, if_true, Option.some.injEq, Prod.mk.injEq, and_true]
      omega
    · by_cases h2 : 2 ^ 64 - 128 ≤ u
      · simp only [h1, h2, if_false, if_true, List.cons_append, List.nil_append, decSint]
        have hb := takeBe_be 1 (u % 256) rest (by simp; omega)
        rw [be1 (u % 256) (by omega)] at hb
        simp only [List.cons_append, List.nil_append] at hb
        simp [hb]
        split <;> omega
      · by_cases h3 : 2 ^ 64 - 32768 ≤ u
        · simp only [h1, h2, h3, if_false, if_true, List.cons_append, decSint]
          have hb := takeBe_be 2 (u % 65536) rest (by simp; omega)
          simp [hb]
          split <;> omega
        · by_cases h4 : 2 ^ 64 - 2147483648 ≤ u
          · simp only [h1, h2, h3, h4, if_false, if_true, List.cons_append, decSint]
            have hb := takeBe_be 4 (u % 4294967296) rest (by simp; omega)
            simp [hb]
            split <;> omega
          · simp only [h1, h2, h3, h4, if_false, List.cons_append, decSint]
            have hb := takeBe_be 8 u rest (by simpa using h)
            simp [hb]

def takeN (n : Nat) (bs : List Nat) : Option (List Nat × List Nat) :=
  if n ≤ bs.length then some (bs.take n, bs.drop n) else none

theorem takeN_append (a rest : List Nat) : takeN a.length (a ++ rest) = some (a, rest) := by
  simp [takeN]

/-- string: length marker + bytes -/
def decStr : List Nat → Option (List Nat × List Nat)
  | [] => none
  | b :: rest =>
    if 0xa0 ≤ b ∧ b < 0xc0 then takeN (b - 0xa0) rest
    else if b = 0xd9 then (takeBe 1 rest).bind fun (n, r) => takeN n r
    else if b = 0xda then (takeBe 2 rest).bind fun (n, r) => takeN n r
    else if b = 0xdb then (takeBe 4 rest).bind fun (n, r) => takeN n r
    else none

theorem decStr_mpStr (s rest : List Nat) (h : s.length < 2 ^ 32) : decStr (mpStr s ++ rest) = some (s, rest) := by
  unfold mpStr
  by_cases h1 : s.length < 32
  · simp only [h1, if_true, List.cons_append, List.nil_append, List.append_assoc, decStr]
    have a : 0xa0 ≤ 0xa0 + s.length ∧ 0xa0 + s.length < 0xc0 := by omega
    simp only [a, and_self, if_true, Nat.add_sub_cancel_left]
    exact takeN_append s rest
  · by_cases h2 : s.length < 256
    · simp only [h1, h2, if_false, if_true, List.cons_append, List.nil_append, List.append_assoc, decStr]
      have hb := takeBe_be 1 s.length (s ++ rest) (by simpa using h2)
      rw [be1 s.length h2] at hb
      simp only [List.cons_append, List.nil_append] at hb
      simp [hb, takeN_append]
    · by_cases h3 : s.length < 65536
      · simp only [h1, h2, h3, if_false, if_true, List.cons_append, List.append_assoc, decStr]
        have hb := takeBe_be 2 s.length (s ++ rest) (by simpa using h3)
        simp [hb, takeN_append]
      · simp only [h1, h2, h3, if_false, List.cons_append, List.append_assoc, decStr]
        have hb := takeBe_be 4 s.length (s ++ rest) (by simpa using h)
        simp [hb, takeN_append]

/-- map header (`kind = 0x80`, 16-bit `0xde`, 32-bit `0xdf`) / array header (`0x90`, `0xdc`, `0xdd`) -/
def decLen (fix m16 m32 : Nat) : List Nat → Option (Nat × List Nat)
  | [] => none
  | b :: rest =>
    if fix ≤ b ∧ b < fix + 16 then some (b - fix, rest)
    else if b = m16 then takeBe 2 rest
    else if b = m32 then takeBe 4 rest
    else none

theorem decLen_map (n : Nat) (rest : List Nat) (h : n < 2 ^ 32) : decLen 0x80 0xde 0xdf (mpMapLen n ++ rest) = some (n, rest) := by
  unfold mpMapLen
  by_cases h1 : n < 16
  · simp only [h1, if_true, List.cons_append, List.nil_append, decLen]
    have a : 0x80 ≤ 0x80 + n ∧ 0x80 + n < 0x80 + 16 := by omega
    simp [a]
  · by_cases h2 : n < 65536
    · simp only [h1, h2, if_false, if_true, List.cons_append, decLen]
      have hb := takeBe_be 2 n rest (by simpa using h2)
      simp [hb]
    · simp only [h1, h2, if_false, List.cons_append, decLen]
      have hb := takeBe_be 4 n rest (by simpa using h)
      simp [hb]

theorem decLen_arr (n : Nat) (rest : List Nat) (h : n < 2 ^ 32) : decLen 0x90 0xdc 0xdd (mpArrLen n ++ rest) = some (n, rest) := by
  unfold mpArrLen
  by_cases h1 : n < 16
  · simp only [h1, if_true, List.cons_append, List.nil_append, decLen]
    have a : 0x90 ≤ 0x90 + n ∧ 0x90 + n < 0x90 + 16 := by omega
    simp [a]
  · by_cases h2 : n < 65536
    · simp only [h1, h2, if_false, if_true, List.cons_append, decLen]
      have hb := takeBe_be 2 n rest (by simpa using h2)
      simp [hb]
    · simp only [h1, h2, if_false, List.cons_append, decLen]
      have hb := takeBe_be 4 n rest (by simpa using h)
      simp [hb]

end Fastrace.Datadog
