import FastraceModel.Lemmas.Assoc

/-!
The second drain pass of a collector cycle (`handle_commands` after the D4 repair): every
retained receiver is drained once more.  Run to completion it collects exactly what the rings
held when it began, leaves them empty, and keeps their order.
-/
namespace Fastrace

/-- the second pass over the receivers named in `todo2`, with nothing in between -/
def pass2 : List Nat → List (Nat × Ring Cmd) → List Cmd → List (Nat × Ring Cmd) × List Cmd
  | [], kept, buf2 => (kept, buf2)
  | t :: rest, kept, buf2 =>
    let r := (natGet kept t).getD (Ring.new Consts.ringCap)
    pass2 rest (if (natGet kept t).isSome then natSet kept t { r with q := [] } else kept) (buf2 ++ r.q)

def keysOf (l : List (Nat × Ring Cmd)) : List Nat := l.map (·.1)

theorem natGet_append_notin {β : Type} (pre suf : List (Nat × β)) (k : Nat) (h : k ∉ pre.map (·.1)) :
    natGet (pre ++ suf) k = natGet suf k := by
  induction pre with
  | nil => rfl
  | cons hd tl ih =>
    simp only [List.map_cons, List.mem_cons, not_or] at h
    have hb : (hd.1 == k) = false := by simp; exact fun e => h.1 e.symm
    simp only [natGet, List.cons_append, List.find?, hb] at ih ⊢
    exact ih h.2

theorem natSet_append_notin {β : Type} (pre suf : List (Nat × β)) (k : Nat) (v : β) (h : k ∉ pre.map (·.1)) :
    natSet (pre ++ suf) k v = pre ++ natSet suf k v := by
  induction pre with
  | nil => rfl
  | cons hd tl ih =>
    obtain ⟨k', v'⟩ := hd
    simp only [List.map_cons, List.mem_cons, not_or] at h
    have hne : ¬ k' = k := fun e => h.1 e.symm
    simp only [List.cons_append, natSet, hne, if_false, ih h.2]

/-- draining the receivers `suf` (distinct keys, none of them in `pre`) empties exactly those -/
theorem pass2_suffix (pre suf : List (Nat × Ring Cmd)) (buf2 : List Cmd)
    (hn : (keysOf (pre ++ suf)).Nodup) :
    pass2 (keysOf suf) (pre ++ suf) buf2
      = (pre ++ suf.map (fun e => (e.1, { e.2 with q := [] })), buf2 ++ suf.flatMap (·.2.q)) := by
  induction suf generalizing pre buf2 with
  | nil => simp [pass2, keysOf]
  | cons hd tl ih =>
    obtain ⟨t, r⟩ := hd
    have hnotin : t ∉ pre.map (·.1) := by
      simp only [keysOf, List.map_append, List.map_cons] at hn
      have := (List.nodup_append.mp hn).2.2
      intro hm
      exact this t hm t (by simp) rfl
    simp only [keysOf, List.map_cons, pass2]
    rw [natGet_append_notin pre _ t hnotin, natSet_append_notin pre _ t _ hnotin]
    have hg : natGet ((t, r) :: tl) t = some r := by simp [natGet]
    have hs : natSet ((t, r) :: tl) t { r with q := [] } = (t, { r with q := [] }) :: tl := by simp [natSet]
    rw [hg]
    simp only [Option.getD_some, Option.isSome_some, if_true]
    rw [hs]
    have hn' : (keysOf ((pre ++ [(t, ({ r with q := [] } : Ring Cmd))]) ++ tl)).Nodup := by
      simpa [keysOf, List.map_append] using hn
    have := ih (pre ++ [(t, { r with q := [] })]) (buf2 ++ r.q) hn'
    simp only [List.append_assoc, List.cons_append, List.nil_append, keysOf] at this ⊢
    rw [this]
    simp [List.flatMap_cons, List.append_assoc]

/-- **the second pass collects everything**: run over all retained receivers (distinct
    threads), it moves exactly the contents of their rings, in registry order and ring order,
    behind what it had collected before, and leaves every ring empty -/
theorem pass2_collects (kept : List (Nat × Ring Cmd)) (buf2 : List Cmd) (hn : (keysOf kept).Nodup) :
    pass2 (keysOf kept) kept buf2
      = (kept.map (fun e => (e.1, { e.2 with q := [] })), buf2 ++ kept.flatMap (·.2.q)) := by
  have := pass2_suffix [] kept buf2 (by simpa using hn)
  simpa using this

/-- `n` collector steps with nothing in between -/
def stepN : Nat → Sys → Sys
  | 0, s => s
  | n + 1, s => stepN n s.cycStep.1

/-- one collector step in the second pass = one step of `pass2` -/
theorem cycStep_atRx2 (s : Sys) (cs : CycState) (t : Nat) (rest : List Nat)
    (hc : s.cyc = some cs) (hp : cs.phase = .atRx2) (ht : cs.todo2 = t :: rest) :
    ∃ cs', s.cycStep.1.cyc = some cs' ∧ (cs'.kept, cs'.buf2) = pass2 [t] cs.kept cs.buf2 ∧ cs'.todo2 = rest ∧
      cs'.buf = cs.buf ∧ cs'.phase = (if rest = [] then CycPhase.atReport else CycPhase.atRx2) := by
  unfold Sys.cycStep
  simp only [hc, hp, ht]
  cases rest with
  | nil => exact ⟨_, rfl, rfl, rfl, rfl, rfl⟩
  | cons t2 r2 => exact ⟨_, rfl, rfl, rfl, rfl, by simp [hp]⟩

theorem pass2_cons (t : Nat) (rest : List Nat) (kept : List (Nat × Ring Cmd)) (buf2 : List Cmd) :
    pass2 (t :: rest) kept buf2 = pass2 rest (pass2 [t] kept buf2).1 (pass2 [t] kept buf2).2 := rfl

/-- the whole second pass, step by step: after as many collector steps as there are receivers
    to revisit, the drain state holds `pass2` of the retained receivers and the cycle is about
    to process and report -/
theorem stepN_second_pass (todo2 : List Nat) (s : Sys) (cs : CycState) (hc : s.cyc = some cs)
    (hp : cs.phase = .atRx2) (ht : cs.todo2 = todo2) (hne : todo2 ≠ []) :
    ∃ cs', (stepN todo2.length s).cyc = some cs' ∧ cs'.phase = .atReport ∧ cs'.buf = cs.buf ∧
      (cs'.kept, cs'.buf2) = pass2 todo2 cs.kept cs.buf2 := by
  induction todo2 generalizing s cs with
  | nil => exact absurd rfl hne
  | cons t rest ih =>
    obtain ⟨cs1, h1, h2, h3, h4, h5⟩ := cycStep_atRx2 s cs t rest hc hp ht
    simp only [List.length_cons, stepN]
    cases rest with
    | nil =>
      simp only [List.length_nil, stepN]
      refine ⟨cs1, h1, by simpa using h5, h4, ?_⟩
      exact h2
    | cons t2 r2 =>
      have hp1 : cs1.phase = .atRx2 := by simpa using h5
      obtain ⟨cs', e1, e2, e3, e4⟩ := ih s.cycStep.1 cs1 h1 hp1 h3 (by simp)
      refine ⟨cs', e1, e2, e3.trans h4, ?_⟩
      rw [e4, pass2_cons t (t2 :: r2) cs.kept cs.buf2, ← h2]

end Fastrace
