import FastraceModel.Lemmas.FlowExec

/-!
The collector's operations keep `ChanInv`: a drain moves commands from the rings into the drain
buffers, `finishCycle` moves them into `consumed` (or `discarded`, without a reporter), commits
first seen in the second pass stay in flight as `deferred`.  Then `exec` and `run`.
-/
namespace Fastrace

theorem drainAll_w (w : Cmd → Nat) (rxs : List (Nat × Ring Cmd)) :
    ringsW w rxs = ringsW w (drainAll rxs).1 + wsum w (drainAll rxs).2 := by
  induction rxs with
  | nil => rfl
  | cons e rest ih =>
    obtain ⟨t, ⟨q, cap, alive⟩⟩ := e
    cases alive <;> simp [drainAll, Ring.drain] <;> omega

theorem ChanInv.init : ChanInv Sys.init := by
  refine ⟨fun w _ => rfl, ?_, ?_, ?_⟩
  · intro e he
    simp [Sys.init] at he
  · intro cs hcs
    cases hcs
  · intro c hc
    simp [Sys.init] at hc

/-- the state after processing, characterised by its fields: `kept`, `buf`, `buf2` account for
    everything the rings and the drain buffers held plus the cancel commands `extra` that the
    collector made up itself (from `PARKED_CANCELS`) -/
theorem ChanInv.finishCycle_core {s S' : Sys} (h : ChanInv s) (kept : List (Nat × Ring Cmd)) (buf buf2 : List Cmd) (extra : List Nat)
    (hk : ∀ w, cycW w s.cyc s.rxs + wsum w (extra.map Cmd.drop) = ringsW w kept + wsum w buf + wsum w buf2)
    (f1 : S'.cyc = none) (f2 : S'.rxs = kept) (f3 : S'.threads = s.threads)
    (f4 : S'.deferred = if s.coll.hasReporter then commitsOf buf2 else [])
    (f6 : S'.carried = if s.coll.hasReporter then (s.cycleSplit buf buf2).2 else [])
    (fa : S'.g.accepted = s.g.accepted) (fi : S'.g.injected = extra ++ s.g.injected)
    (fl : S'.g.lostAtExit = s.g.lostAtExit)
    (fc : S'.g.consumed = if s.coll.hasReporter then s.cycleBatch buf buf2 ++ s.g.consumed else s.g.consumed)
    (fd : S'.g.discarded = if s.coll.hasReporter then s.g.discarded
          else s.cycleBatch buf buf2 ++ (s.cycleSplit buf buf2).2 ++ buf2.filter Cmd.isCommit ++ s.g.discarded) :
    ChanInv S' := by
  refine ⟨?_, ?_, ?_, ?_⟩
  · intro w hw
    have e := h.cons w hw
    have e1 := hk w
    have e2 : wsum w buf2 = wsum w (s.cycleSplit buf buf2).1 + wsum w (s.cycleSplit buf buf2).2 + wsum w (buf2.filter Cmd.isCommit) := by
      unfold Sys.cycleSplit
      exact splitSecond_w hw _ _ _ _ buf2
    have e3 := wsum_commits w buf2
    have e4 : wsum w (s.cycleBatch buf buf2) = wsum w (s.deferred.map Cmd.commit) + (wsum w s.carried + wsum w buf) + wsum w (s.cycleSplit buf buf2).1 := by
      simp only [Sys.cycleBatch, wsum_append]
    show _ = cycW w S'.cyc S'.rxs + pendW w S'.threads + wsum w (S'.deferred.map Cmd.commit) + wsum w S'.carried
      + (wsum w S'.g.consumed + wsum w S'.g.discarded + wsum w S'.g.lostAtExit)
    rw [f1, f2, f3, f4, f6, fa, fi, fl, fc, fd]
    have e' : wsum w s.g.accepted + wsum w (s.g.injected.map Cmd.drop)
        = cycW w s.cyc s.rxs + pendW w s.threads + wsum w (s.deferred.map Cmd.commit) + wsum w s.carried
          + (wsum w s.g.consumed + wsum w s.g.discarded + wsum w s.g.lostAtExit) := e
    cases hr : s.coll.hasReporter <;>
      simp only [if_true, Bool.false_eq_true, if_false, wsum_append, wsum_nil, List.map_nil, List.map_append] at e' ⊢ <;>
      (have : cycW w none kept = ringsW w kept := rfl) <;>
      omega
  · rw [f3]; exact h.sig
  · intro cs hcs
    rw [f1] at hcs
    cases hcs
  · rw [fl]; exact h.lost

theorem ChanInv.finishCycle {s : Sys} (h : ChanInv s) (kept : List (Nat × Ring Cmd)) (buf buf2 : List Cmd)
    (hk : ∀ w, cycW w s.cyc s.rxs = ringsW w kept + wsum w buf + wsum w buf2) :
    ChanInv (s.finishCycle kept buf buf2).1 := by
  refine h.finishCycle_core kept buf buf2 [] (fun w => by rw [hk w]; simp) rfl rfl rfl rfl rfl ?_ ?_ ?_ ?_ ?_ <;>
    (unfold Sys.finishCycle; dsimp only [Sys.withG]; cases s.coll.hasReporter <;> rfl)

/-- processing with the cancel commands derived from `PARKED_CANCELS` -/
theorem ChanInv.finishCycleP {s : Sys} (h : ChanInv s) (kept : List (Nat × Ring Cmd)) (buf buf2 : List Cmd)
    (hk : ∀ w, cycW w s.cyc s.rxs = ringsW w kept + wsum w buf + wsum w buf2) :
    ChanInv (s.finishCycleP kept buf buf2).1 := by
  unfold Sys.finishCycleP
  cases hr : s.coll.hasReporter with
  | false =>
    simp only [Bool.false_eq_true, if_false]
    exact h.finishCycle kept buf buf2 hk
  | true =>
    simp only [if_true]
    refine h.finishCycle_core kept buf (buf2 ++ (takeParked (s.deferred ++ commitsOf buf) s.parkedCancels).1.map Cmd.drop)
      (takeParked (s.deferred ++ commitsOf buf) s.parkedCancels).1
      (fun w => by rw [wsum_append]; have := hk w; omega) rfl rfl rfl ?_ ?_ ?_ ?_ ?_ ?_ ?_ <;>
      simp only [Sys.finishCycle, Sys.withG, hr, if_true]

theorem ChanInv.withCyc {s : Sys} (h : ChanInv s) (cs' : CycState)
    (hw : ∀ w, cycW w (some cs') s.rxs = cycW w s.cyc s.rxs)
    (hwf : (cs'.phase = .atRx2 ∨ cs'.phase = .atReport) → cs'.todo = []) : ChanInv { s with cyc := some cs' } := by
  refine ⟨?_, h.sig, ?_, h.lost⟩
  · intro w hadd
    have e := h.cons w hadd
    have e1 := hw w
    unfold Sys.flow at e
    show wsum w s.g.accepted + wsum w (s.g.injected.map Cmd.drop) = cycW w (some cs') s.rxs + pendW w s.threads + wsum w (s.deferred.map Cmd.commit) + wsum w s.carried + Ghost.out w s.g
    omega
  · intro cs hcs hp
    simp only [Option.some.injEq] at hcs
    subst hcs
    exact hwf hp

theorem ChanInv.cycBegin {s : Sys} (h : ChanInv s) : ChanInv s.cycBegin.1 := by
  unfold Sys.cycBegin
  cases hc : s.cyc with
  | some cs => exact h
  | none =>
    dsimp only
    split
    · rename_i hr
      refine h.withCyc { phase := .atReport, todo := [], kept := [], buf := [] } (fun w => ?_) (fun _ => rfl)
      simp [cycW, hc, hr]
    · refine h.withCyc { phase := .atRx, todo := s.rxs, kept := [], buf := [] } (fun w => ?_) (fun hp => ?_)
      · simp [cycW, hc]
      · rcases hp with hp | hp <;> cases hp

theorem ringsW_natSet_clear (w : Cmd → Nat) (l : List (Nat × Ring Cmd)) (t : Nat) :
    ringsW w (if (natGet l t).isSome then
        natSet l t ⟨[], ((natGet l t).getD (Ring.new Consts.ringCap)).cap, ((natGet l t).getD (Ring.new Consts.ringCap)).producerAlive⟩
      else l)
      + wsum w ((natGet l t).getD (Ring.new Consts.ringCap)).q = ringsW w l := by
  cases hg : natGet l t with
  | none => simp [Ring.new]
  | some r =>
    have := ringsW_natSet_some w l t r ⟨[], r.cap, r.producerAlive⟩ hg
    simp only [Option.isSome_some, if_true, Option.getD_some]
    simp only [wsum_nil] at this
    omega

/-- the ghost log of what was popped does not enter the accounting -/
theorem ChanInv.logDrained {s : Sys} (h : ChanInv s) (t : Nat) (q : List Cmd) : ChanInv (s.logDrained t q) := by
  unfold Sys.logDrained
  exact h.withG_side { s.g with drainedBy := (q.map (fun c => (t, c))).reverse ++ s.g.drainedBy } rfl rfl rfl rfl

theorem getD_q (o : Option (Ring Cmd)) : (o.getD (Ring.new Consts.ringCap)).q = (o.map (·.q)).getD [] := by
  cases o <;> rfl

theorem ChanInv.cycStep {s : Sys} (h : ChanInv s) : ChanInv s.cycStep.1 := by
  unfold Sys.cycStep
  cases hc : s.cyc with
  | none => exact h
  | some cs =>
    dsimp only
    have hwf := h.wf cs hc
    have cw : ∀ w, cycW w s.cyc s.rxs = ringsW w cs.todo + ringsW w cs.kept + wsum w cs.buf + wsum w cs.buf2 := by
      intro w; rw [hc]; rfl
    split
    · -- atReport: processing + report
      rename_i hph
      have ht := hwf (.inr hph)
      refine h.finishCycleP cs.kept cs.buf cs.buf2 (fun w => ?_)
      rw [cw w, ht]; simp
    · -- atRx2
      rename_i hph
      have ht := hwf (.inl hph)
      split
      · refine h.withCyc _ (fun w => ?_) (fun _ => ht)
        rw [cw w]; rfl
      · rename_i t rest hrest
        have key := fun w => ringsW_natSet_clear w cs.kept t
        split
        · refine (h.logDrained t _).withCyc _ (fun w => ?_) (fun _ => ht)
          have := key w
          show _ = cycW w s.cyc s.rxs
          rw [cw w]
          simp only [cycW, wsum_append]
          omega
        · refine (h.logDrained t _).withCyc _ (fun w => ?_) (fun _ => ht)
          have := key w
          show _ = cycW w s.cyc s.rxs
          rw [cw w]
          simp only [cycW, wsum_append]
          omega
    · -- first pass over, nothing left to visit
      have htodo : cs.todo = [] := by assumption
      rcases CycState.afterFirst_cases cs with e | e <;> rw [e] <;> dsimp only
      · refine h.withCyc _ (fun w => ?_) (fun _ => htodo)
        rw [cw w]; rfl
      · refine h.withCyc _ (fun w => ?_) (fun _ => htodo)
        rw [cw w]; rfl
    · -- atRx: pop everything
      rename_i t r rest hph htodo
      refine (h.logDrained t _).withCyc _ (fun w => ?_) (fun hp => ?_)
      · show _ = cycW w s.cyc s.rxs
        rw [cw w, htodo]
        simp only [cycW, ringsW_cons, wsum_append, wsum_nil]
        omega
      · rcases hp with hp | hp <;> cases hp
    · -- atEmpty: abandoned check
      rename_i t r rest hph htodo
      split
      · -- producer alive: keep the receiver
        split
        · rename_i hrest
          have hcs' : ∀ w, cycW w (some { cs with phase := .atRx, todo := [], kept := cs.kept ++ [(t, r)] }) s.rxs = cycW w s.cyc s.rxs := by
            intro w; rw [cw w, htodo]; simp only [cycW, ringsW_cons, ringsW_append, ringsW_nil]; omega
          rcases CycState.afterFirst_cases { cs with phase := .atRx, todo := [], kept := cs.kept ++ [(t, r)] } with e | e <;>
            rw [e] <;> dsimp only
          · refine h.withCyc _ (fun w => ?_) (fun _ => rfl)
            rw [← hcs' w]; rfl
          · refine h.withCyc _ (fun w => ?_) (fun _ => rfl)
            rw [← hcs' w]; rfl
        · refine h.withCyc _ (fun w => ?_) (fun hp => ?_)
          · rw [cw w, htodo]; simp only [cycW, ringsW_cons, ringsW_append, ringsW_nil]; omega
          · rcases hp with hp | hp <;> cases hp
      · split
        · -- abandoned and empty: remove
          rename_i hq
          have hq0 : ∀ w, wsum w r.q = 0 := by intro w; rw [hq]; rfl
          split
          · rename_i hrest
            have hcs' : ∀ w, cycW w (some { cs with phase := .atRx, todo := [] }) s.rxs = cycW w s.cyc s.rxs := by
              intro w; rw [cw w, htodo]; have := hq0 w; simp only [cycW, ringsW_cons, ringsW_nil]; omega
            rcases CycState.afterFirst_cases { cs with phase := .atRx, todo := [] } with e | e <;>
              rw [e] <;> dsimp only
            · refine h.withCyc _ (fun w => ?_) (fun _ => rfl)
              rw [← hcs' w]; rfl
            · refine h.withCyc _ (fun w => ?_) (fun _ => rfl)
              rw [← hcs' w]; rfl
          · refine h.withCyc _ (fun w => ?_) (fun hp => ?_)
            · rw [cw w, htodo]; have := hq0 w; simp only [cycW, ringsW_cons]; omega
            · rcases hp with hp | hp <;> cases hp
        · -- abandoned, but the re-check finds commands
          refine (h.logDrained t _).withCyc _ (fun w => ?_) (fun hp => ?_)
          · show _ = cycW w s.cyc s.rxs
            rw [cw w, htodo]
            simp only [cycW, ringsW_cons, wsum_append, wsum_nil]
            omega
          · rcases hp with hp | hp <;> cases hp

theorem ChanInv.cycle {s : Sys} (h : ChanInv s) (hc : s.cyc = none) : ChanInv s.cycle.1 := by
  unfold Sys.cycle
  have h' := h.withG_side { s.g with drainedBy := (drainAllTagged s.rxs).reverse ++ s.g.drainedBy } rfl rfl rfl rfl
  refine h'.finishCycleP (drainAll s.rxs).1 (drainAll s.rxs).2 [] (fun w => ?_)
  show cycW w s.cyc s.rxs = _
  rw [hc]
  have := drainAll_w w s.rxs
  simp only [cycW, wsum_nil]
  omega

/-- **every operation keeps the channel invariant** -/
theorem exec_chan (s : Sys) (t : Nat) (op : Op) (h : ChanInv s) : ChanInv (exec s t op).1 := by
  cases hop : op.isCollectorOp with
  | false => exact (exec_step s t op hop).chan h
  | true =>
    cases op with
    | setReporter c =>
      simp only [exec]
      refine ⟨fun w hw => h.cons w hw, h.sig, h.wf, h.lost⟩
    | cycle =>
      simp only [exec]
      split
      · exact h
      · rename_i hc
        exact h.cycle (by simpa using hc)
    | flush =>
      simp only [exec]
      split
      · exact h
      · rename_i hc
        exact h.cycle (by simpa using hc)
    | cycBegin => simp only [exec]; exact h.cycBegin
    | cycStep => simp only [exec]; exact h.cycStep
    | _ => cases hop

theorem run_chan (p : Program) (s : Sys) (h : ChanInv s) : ChanInv (run s p).1 := by
  induction p generalizing s with
  | nil => exact h
  | cons x rest ih =>
    obtain ⟨t, op⟩ := x
    simp only [run]
    exact ih _ (exec_chan s t op h)

end Fastrace
