import FastraceModel.Lemmas.Prov

/-!
Conservation of commands (the "nothing is lost, nothing is duplicated" half of C01/C03/C04/C08,
end to end): for every weight function `w : Cmd → Nat`

    weight of everything a channel ever accepted
      = weight still in flight (rings, overflow lists, drain buffers, deferred commits)
      + weight handed to the processing loops + weight drained without a reporter
      + weight lost when `Sender::drop` met a full ring (finding D3).

With `w` the indicator of one command this is equality of multiplicities, i.e. the accepted
commands are a permutation of in-flight ++ consumed ++ discarded ++ lostAtExit.

This file: the accounting functions and their behaviour under the ring operations and the
state helpers.  `Lemmas/FlowOps.lean` lifts it to every operation, `Lemmas/FlowExec.lean` to
`exec` and `run`.
-/
namespace Fastrace

def wsum (w : Cmd → Nat) (l : List Cmd) : Nat := (l.map w).sum

@[simp] theorem wsum_nil (w : Cmd → Nat) : wsum w [] = 0 := rfl
@[simp] theorem wsum_cons (w : Cmd → Nat) (x : Cmd) (l : List Cmd) : wsum w (x :: l) = w x + wsum w l := by
  simp [wsum]
@[simp] theorem wsum_append (w : Cmd → Nat) (a b : List Cmd) : wsum w (a ++ b) = wsum w a + wsum w b := by
  simp [wsum]

theorem wsum_filter_split (w : Cmd → Nat) (p : Cmd → Bool) (l : List Cmd) :
    wsum w l = wsum w (l.filter p) + wsum w (l.filter (fun c => !p c)) := by
  induction l with
  | nil => rfl
  | cons x xs ih =>
    cases hp : p x <;> simp [List.filter, hp] <;> omega

theorem wsum_commits (w : Cmd → Nat) (l : List Cmd) :
    wsum w ((commitsOf l).map Cmd.commit) = wsum w (l.filter Cmd.isCommit) := by
  induction l with
  | nil => rfl
  | cons x xs ih =>
    cases x <;> simp [commitsOf, List.filterMap, Cmd.isCommit, List.filter] at ih ⊢ <;> omega

def ringsW (w : Cmd → Nat) (rs : List (Nat × Ring Cmd)) : Nat := (rs.map fun e => wsum w e.2.q).sum
def pendW (w : Cmd → Nat) (ths : List (Nat × Th)) : Nat := (ths.map fun e => wsum w e.2.pending).sum

@[simp] theorem ringsW_nil (w : Cmd → Nat) : ringsW w [] = 0 := rfl
@[simp] theorem ringsW_cons (w : Cmd → Nat) (e : Nat × Ring Cmd) (l : List (Nat × Ring Cmd)) :
    ringsW w (e :: l) = wsum w e.2.q + ringsW w l := by simp [ringsW]
@[simp] theorem ringsW_append (w : Cmd → Nat) (a b : List (Nat × Ring Cmd)) :
    ringsW w (a ++ b) = ringsW w a + ringsW w b := by simp [ringsW]
@[simp] theorem pendW_nil (w : Cmd → Nat) : pendW w [] = 0 := rfl
@[simp] theorem pendW_cons (w : Cmd → Nat) (e : Nat × Th) (l : List (Nat × Th)) :
    pendW w (e :: l) = wsum w e.2.pending + pendW w l := by simp [pendW]

/-- replacing the value found under key `k` (or adding one) -/
theorem ringsW_natSet (w : Cmd → Nat) (l : List (Nat × Ring Cmd)) (k : Nat) (r' : Ring Cmd) :
    ringsW w (natSet l k r') + wsum w (((natGet l k).map (·.q)).getD []) = ringsW w l + wsum w r'.q := by
  induction l with
  | nil => simp [natSet, natGet]
  | cons hd tl ih =>
    obtain ⟨k', v'⟩ := hd
    by_cases h : k' = k
    · subst h
      simp [natSet, natGet]
      omega
    · have hb : (k' == k) = false := by simp [h]
      simp only [natSet, h, if_false, ringsW_cons]
      simp only [natGet, List.find?, hb] at ih ⊢
      omega

theorem ringsW_natSet_some (w : Cmd → Nat) (l : List (Nat × Ring Cmd)) (k : Nat) (r r' : Ring Cmd)
    (h : natGet l k = some r) : ringsW w (natSet l k r') + wsum w r.q = ringsW w l + wsum w r'.q := by
  have := ringsW_natSet w l k r'
  rw [h] at this
  simpa using this

theorem pendW_natSet (w : Cmd → Nat) (l : List (Nat × Th)) (k : Nat) (th' : Th) :
    pendW w (natSet l k th') + wsum w (((natGet l k).map (·.pending)).getD []) = pendW w l + wsum w th'.pending := by
  induction l with
  | nil => simp [natSet, natGet]
  | cons hd tl ih =>
    obtain ⟨k', v'⟩ := hd
    by_cases h : k' = k
    · subst h
      simp [natSet, natGet]
      omega
    · have hb : (k' == k) = false := by simp [h]
      simp only [natSet, h, if_false, pendW_cons]
      simp only [natGet, List.find?, hb] at ih ⊢
      omega

theorem Sys.th_pending (s : Sys) (t : Nat) : (s.th t).pending = ((natGet s.threads t).map (·.pending)).getD [] := by
  unfold Sys.th
  cases natGet s.threads t <;> rfl

theorem pendW_setTh (w : Cmd → Nat) (s : Sys) (t : Nat) (th' : Th) :
    pendW w (s.setTh t th').threads + wsum w (s.th t).pending = pendW w s.threads + wsum w th'.pending := by
  rw [Sys.th_pending]
  exact pendW_natSet w s.threads t th'

/-! ### the ring operations move weight, they never create or destroy it -/

theorem Ring.push_w (w : Cmd → Nat) (r r' : Ring Cmd) (x : Cmd) (h : r.push x = some r') :
    wsum w r'.q = wsum w r.q + w x := by
  unfold Ring.push at h
  split at h
  · simp only [Option.some.injEq] at h
    subst h
    simp
  · cases h

theorem Ring.replay_w (w : Cmd → Nat) (r : Ring Cmd) (pend : List Cmd) :
    wsum w (r.replay pend).1.q + wsum w (r.replay pend).2 = wsum w r.q + wsum w pend := by
  induction pend generalizing r with
  | nil => simp [Ring.replay]
  | cons x xs ih =>
    simp only [Ring.replay]
    cases hpush : r.push x with
    | none => rfl
    | some r' =>
      have := Ring.push_w w r r' x hpush
      have := ih r'
      simp only [wsum_cons]
      omega

theorem Ring.send_w (w : Cmd → Nat) (r : Ring Cmd) (pend : List Cmd) (v : Cmd) :
    wsum w (r.send pend v).1.q + wsum w (r.send pend v).2.1
      = wsum w r.q + wsum w pend + (if (r.send pend v).2.2 then w v else 0) := by
  have h := Ring.replay_w w r pend
  rcases hrp : r.replay pend with ⟨r1, rest⟩
  rw [hrp] at h
  dsimp only at h
  cases rest with
  | nil =>
    cases hpush : r1.push v with
    | none => simp [Ring.send, hrp, hpush] at h ⊢; omega
    | some r2 =>
      have := Ring.push_w w r1 r2 v hpush
      simp [Ring.send, hrp, hpush] at h ⊢; omega
  | cons x xs => simp [Ring.send, hrp] at h ⊢; omega

theorem Ring.forceSend_w (w : Cmd → Nat) (r : Ring Cmd) (pend : List Cmd) (v : Cmd) :
    wsum w (r.forceSend pend v).1.q + wsum w (r.forceSend pend v).2 = wsum w r.q + wsum w pend + w v := by
  have h := Ring.replay_w w r pend
  rcases hrp : r.replay pend with ⟨r1, rest⟩
  rw [hrp] at h
  dsimp only at h
  cases rest with
  | nil =>
    cases hpush : r1.push v with
    | none => simp [Ring.forceSend, hrp, hpush] at h ⊢; omega
    | some r2 =>
      have := Ring.push_w w r1 r2 v hpush
      simp [Ring.forceSend, hrp, hpush] at h ⊢; omega
  | cons x xs => simp [Ring.forceSend, hrp] at h ⊢; omega

theorem Ring.senderDrop_w (w : Cmd → Nat) (r : Ring Cmd) (pend : List Cmd) :
    wsum w (r.senderDrop pend).q + wsum w (r.senderDropLost pend) = wsum w r.q + wsum w pend := by
  unfold Ring.senderDrop
  dsimp only
  induction pend generalizing r with
  | nil => simp [Ring.senderDropLost]
  | cons x xs ih =>
    simp only [List.foldl, Ring.senderDropLost]
    cases hpush : r.push x with
    | none =>
      have := ih r
      simp only [Option.getD, wsum_cons] at this ⊢
      omega
    | some r' =>
      have := Ring.push_w w r r' x hpush
      have := ih r'
      simp only [Option.getD, wsum_cons] at this ⊢
      omega

theorem Ring.senderDropLost_sub (r : Ring Cmd) (pend : List Cmd) : ∀ c ∈ r.senderDropLost pend, c ∈ pend := by
  induction pend generalizing r with
  | nil => intro c hc; cases hc
  | cons x xs ih =>
    intro c hc
    simp only [Ring.senderDropLost] at hc
    cases hp : r.push x with
    | none =>
      rw [hp] at hc
      simp only [List.mem_cons] at hc ⊢
      rcases hc with rfl | hc
      · exact .inl rfl
      · exact .inr (ih r c hc)
    | some r' =>
      rw [hp] at hc
      exact List.mem_cons_of_mem _ (ih r' c hc)

/-- only signals (commit / drop) are ever parked: `send` never parks its value -/
theorem Ring.replay_sub (r : Ring Cmd) (pend : List Cmd) : ∀ c ∈ (r.replay pend).2, c ∈ pend := by
  induction pend generalizing r with
  | nil => simp [Ring.replay]
  | cons x xs ih =>
    simp only [Ring.replay]
    cases r.push x with
    | none => exact fun c hc => hc
    | some r' => exact fun c hc => List.mem_cons_of_mem _ (ih r' c hc)

theorem Ring.send_pending_sub (r : Ring Cmd) (pend : List Cmd) (v : Cmd) :
    ∀ c ∈ (r.send pend v).2.1, c ∈ pend := by
  have h := Ring.replay_sub r pend
  unfold Ring.send
  cases hrp : r.replay pend with
  | mk r1 rest =>
    rw [hrp] at h
    dsimp only at h ⊢
    cases rest with
    | nil => dsimp only; split <;> simp
    | cons x xs => exact h

theorem Ring.forceSend_pending_sub (r : Ring Cmd) (pend : List Cmd) (v : Cmd) :
    ∀ c ∈ (r.forceSend pend v).2, c ∈ pend ∨ c = v := by
  have h := Ring.replay_sub r pend
  unfold Ring.forceSend
  cases hrp : r.replay pend with
  | mk r1 rest =>
    rw [hrp] at h
    dsimp only at h ⊢
    cases rest with
    | nil =>
      dsimp only
      split
      · simp
      · intro c hc; simp only [List.mem_singleton] at hc; exact .inr hc
    | cons x xs =>
      intro c hc
      simp only [List.mem_append, List.mem_singleton] at hc
      rcases hc with hc | hc
      · exact .inl (h c hc)
      · exact .inr hc

/-! ### the system -/

/-- the rings, wherever they currently are, and the drain buffers -/
def cycW (w : Cmd → Nat) : Option CycState → List (Nat × Ring Cmd) → Nat
  | none, rxs => ringsW w rxs
  | some cs, _ => ringsW w cs.todo + ringsW w cs.kept + wsum w cs.buf + wsum w cs.buf2

/-- everything in flight -/
def Sys.flow (w : Cmd → Nat) (s : Sys) : Nat :=
  cycW w s.cyc s.rxs + pendW w s.threads + wsum w (s.deferred.map Cmd.commit) + wsum w s.carried

/-- a weight that counts span sets per token item: the weight of a span set submitted under a token
    is the sum of its weights under the single items.  (The collector may split a span set between
    two cycles, item by item; nothing is conserved at a coarser grain.) -/
def Additive (w : Cmd → Nat) : Prop :=
  ∀ sp tok, w (.submit sp tok) = (tok.map fun it => w (.submit sp [it])).sum

theorem Additive.filter_split {w : Cmd → Nat} (hw : Additive w) (sp : SpanSet) (tok : Token) (p : TokenItem → Bool) :
    w (.submit sp tok) = w (.submit sp (tok.filter p)) + w (.submit sp (tok.filter fun it => !p it)) := by
  rw [hw sp tok, hw sp (tok.filter p), hw sp (tok.filter fun it => !p it)]
  induction tok with
  | nil => rfl
  | cons x xs ih =>
    cases hp : p x <;> simp [List.filter, hp] at ih ⊢ <;> omega

theorem Additive.nil {w : Cmd → Nat} (hw : Additive w) (sp : SpanSet) : w (.submit sp []) = 0 := by
  rw [hw sp []]; rfl

/-- the second pass is split without loss: handled now + carried + its commits -/
theorem splitSecond_w {w : Cmd → Nat} (hw : Additive w) (cb : Bool) (c1 c2 : Coll) (cm : List Nat) (l : List Cmd) :
    wsum w l = wsum w (splitSecond cb c1 c2 cm l).1 + wsum w (splitSecond cb c1 c2 cm l).2 + wsum w (l.filter Cmd.isCommit) := by
  induction l with
  | nil => rfl
  | cons x xs ih =>
    cases x with
    | start id => simp only [splitSecond, List.filter, Cmd.isCommit, wsum_cons] at ih ⊢; omega
    | commit id => simp only [splitSecond, List.filter, Cmd.isCommit, wsum_cons] at ih ⊢; omega
    | drop id =>
      simp only [splitSecond, List.filter, Cmd.isCommit]
      split <;> simp only [wsum_cons] at ih ⊢ <;> omega
    | submit sp tok =>
      simp only [splitSecond, List.filter, Cmd.isCommit, wsum_cons]
      generalize carryItem cb c2 cm sp = carry
      have hs := hw.filter_split sp tok carry
      have hn := hw.nil sp
      by_cases h1 : (tok.filter fun it => !carry it).isEmpty <;> by_cases h2 : (tok.filter carry).isEmpty <;>
        simp only [h1, h2, if_true, if_false, Bool.false_eq_true, wsum_cons] at ih ⊢
      · have e1 : (tok.filter fun it => !carry it) = [] := by simpa using h1
        have e2 : tok.filter carry = [] := by simpa using h2
        rw [e1, e2, hn] at hs
        omega
      · have e1 : (tok.filter fun it => !carry it) = [] := by simpa using h1
        rw [e1, hn] at hs
        omega
      · have e2 : tok.filter carry = [] := by simpa using h2
        rw [e2, hn] at hs
        omega
      · omega


/-- everything that has left the channels -/
def Ghost.out (w : Cmd → Nat) (g : Ghost) : Nat :=
  wsum w g.consumed + wsum w g.discarded + wsum w g.lostAtExit

@[simp] theorem Sys.withG_flow (w : Cmd → Nat) (s : Sys) (g : Ghost) : (s.withG g).flow w = s.flow w := rfl

theorem Sys.setTh_flow (w : Cmd → Nat) (s : Sys) (t : Nat) (th' : Th) :
    (s.setTh t th').flow w + wsum w (s.th t).pending = s.flow w + wsum w th'.pending := by
  have := pendW_setTh w s t th'
  unfold Sys.flow
  simp only [Sys.setTh_cyc, Sys.setTh_rxs]
  show cycW w s.cyc s.rxs + pendW w (s.setTh t th').threads + wsum w (s.deferred.map Cmd.commit) + wsum w s.carried + _ = _
  omega

theorem Sys.setTh_flow_same (w : Cmd → Nat) (s : Sys) (t : Nat) (th' : Th) (h : th'.pending = (s.th t).pending) :
    (s.setTh t th').flow w = s.flow w := by
  have := Sys.setTh_flow w s t th'
  rw [h] at this
  omega

theorem Sys.putCtr_flow (w : Cmd → Nat) (s : Sys) (t : Nat) (c : Ctr) : (s.putCtr t c).flow w = s.flow w := by
  unfold Sys.putCtr
  show (Sys.setTh s t _).flow w = _
  exact Sys.setTh_flow_same w s t _ rfl

theorem Sys.setRing_flow (w : Cmd → Nat) (s : Sys) (t : Nat) (r r' : Ring Cmd) (h : s.ringOf t = some r) :
    (s.setRing t r').flow w + wsum w r.q = s.flow w + wsum w r'.q := by
  unfold Sys.ringOf at h
  unfold Sys.setRing Sys.flow
  cases hc : s.cyc with
  | none =>
    rw [hc] at h
    have := ringsW_natSet_some w s.rxs t r r' h
    simp only [cycW]
    omega
  | some cs =>
    rw [hc] at h
    dsimp only at h ⊢
    cases ht : natGet cs.todo t with
    | some r0 =>
      rw [ht] at h
      simp only [Option.orElse, Option.some.injEq] at h
      subst h
      have := ringsW_natSet_some w cs.todo t r0 r' ht
      simp only [Option.isSome_some, if_true, cycW]
      omega
    | none =>
      rw [ht] at h
      simp only [Option.orElse] at h
      have := ringsW_natSet_some w cs.kept t r r' h
      simp only [Option.isSome_none, Bool.false_eq_true, if_false, h, Option.isSome_some, if_true, cycW]
      omega

/-- `register` adds an empty receiver: nothing in flight changes -/
theorem Sys.register_flow (w : Cmd → Nat) (s s' : Sys) (t : Nat) (h : s.register t = some s') :
    s'.flow w = s.flow w ∧ s'.g = s.g ∧ s'.coll = s.coll := by
  unfold Sys.register at h
  split at h
  · cases h; exact ⟨rfl, rfl, rfl⟩
  · have hs : (s.setTh t { s.th t with registered := true }).flow w = s.flow w :=
      Sys.setTh_flow_same w s t _ rfl
    cases hc : s.cyc with
    | none =>
      rw [hc] at h
      simp only [Option.some.injEq] at h
      subst h
      refine ⟨?_, rfl, rfl⟩
      unfold Sys.flow at hs ⊢
      simp only [Sys.setTh_cyc, Sys.setTh_rxs, hc, cycW] at hs ⊢
      simp only [ringsW_append, ringsW_cons, ringsW_nil, Ring.new, wsum_nil]
      show ringsW w s.rxs + 0 + 0 + pendW w (s.setTh t _).threads + wsum w (s.deferred.map Cmd.commit) + wsum w s.carried = _
      have : (s.setTh t { s.th t with registered := true }).deferred = s.deferred := rfl
      rw [this] at hs
      have : (s.setTh t { s.th t with registered := true }).carried = s.carried := rfl
      rw [this] at hs
      omega
    | some cs =>
      rw [hc] at h
      dsimp only at h
      split at h
      · cases h
      · simp only [Option.some.injEq] at h
        subst h
        refine ⟨?_, rfl, rfl⟩
        unfold Sys.flow at hs ⊢
        simp only [Sys.setTh_cyc, Sys.setTh_rxs, hc, cycW] at hs ⊢
        simp only [ringsW_append, ringsW_cons, ringsW_nil, Ring.new, wsum_nil]
        show ringsW w cs.todo + (ringsW w cs.kept + (0 + 0)) + wsum w cs.buf + wsum w cs.buf2
          + pendW w (s.setTh t _).threads + wsum w (s.deferred.map Cmd.commit) + wsum w s.carried = _
        have : (s.setTh t { s.th t with registered := true }).deferred = s.deferred := rfl
        rw [this] at hs
        have : (s.setTh t { s.th t with registered := true }).carried = s.carried := rfl
        rw [this] at hs
        omega

theorem Sys.register_pending (s s' : Sys) (t t2 : Nat) (h : s.register t = some s') :
    (s'.th t2).pending = (s.th t2).pending := by
  by_cases e : t2 = t
  · subst e
    rcases Sys.register_some s s' t2 h with rfl | ⟨r, c, rfl⟩
    · rfl
    · show (Sys.th (s.setTh t2 _) t2).pending = _
      rw [Sys.th_setTh_same]
  · rw [Sys.register_th_other s s' t t2 h e]

end Fastrace
