import FastraceModel.Lemmas.ProvColl
import FastraceModel.Lemmas.Threads

/-!
Provenance, whole system: in every reachable state, every *sampled* token item held anywhere
(span handles, adapters, span lines) carries a trace id from `T`, every *unsampled* one a trace
id from `U` (the ids supplied to unsampled roots), every command in flight (rings, overflow lists, the
drain buffer) and every buffered collection carries a trace id from `T`, the trace ids
supplied to sampled `root` operations so far.  Unsampled items never enter a command.
-/
namespace Fastrace

/-- every item of the token belongs to a known trace of its own sampling kind -/
def TokOk (T U : List Nat) (tok : Token) : Prop :=
  ∀ it ∈ tok, (it.isSampled = true → it.traceId ∈ T) ∧ (it.isSampled = false → it.traceId ∈ U)
def SvOk (T U : List Nat) (sv : SpanVal) : Prop := ∀ sp, sv = some sp → TokOk T U sp.token
def LineOk (T U : List Nat) (l : SpanLine) : Prop := ∀ tok, l.token = some tok → TokOk T U tok
def StackOk (T U : List Nat) (st : Stack) : Prop := ∀ l ∈ st.lines, LineOk T U l
def ThOk (T U : List Nat) (th : Th) : Prop := StackOk T U th.stack ∧ ∀ c ∈ th.pending, CmdOk T c
def RingsOk (T : List Nat) (rs : List (Nat × Ring Cmd)) : Prop := ∀ e ∈ rs, ∀ c ∈ e.2.q, CmdOk T c

structure Prov (T U : List Nat) (s : Sys) : Prop where
  spans : ∀ e ∈ s.spans, SvOk T U e.2
  adapters : ∀ e ∈ s.adapters, ∀ sv, e.2.span = some sv → SvOk T U sv
  threads : ∀ t, ThOk T U (s.th t)
  rxs : RingsOk T s.rxs
  cyc : ∀ cs, s.cyc = some cs → RingsOk T cs.todo ∧ RingsOk T cs.kept ∧ (∀ c ∈ cs.buf, CmdOk T c) ∧ ∀ c ∈ cs.buf2, CmdOk T c
  coll : CollOk T s.coll
  carried : ∀ c ∈ s.carried, CmdOk T c

/-! ### association lists -/

theorem mem_assocSet {β : Type} {l : List (String × β)} {k : String} {v : β} {e : String × β}
    (h : e ∈ assocSet l k v) : e ∈ l ∨ e = (k, v) := by
  simp only [assocSet, List.mem_append, List.mem_filter, List.mem_singleton] at h
  rcases h with ⟨h, _⟩ | h
  · exact .inl h
  · exact .inr h

theorem mem_assocDel {β : Type} {l : List (String × β)} {k : String} {e : String × β}
    (h : e ∈ assocDel l k) : e ∈ l := by
  simp only [assocDel, List.mem_filter] at h
  exact h.1

theorem assocGet_mem {β : Type} {l : List (String × β)} {k : String} {v : β} (h : assocGet l k = some v) :
    ∃ e ∈ l, e.2 = v := by
  simp only [assocGet, Option.map_eq_some_iff] at h
  obtain ⟨e, he, rfl⟩ := h
  exact ⟨e, List.mem_of_find?_eq_some he, rfl⟩

theorem mem_natSet {β : Type} {l : List (Nat × β)} {k : Nat} {v : β} {e : Nat × β}
    (h : e ∈ natSet l k v) : e ∈ l ∨ e = (k, v) := by
  induction l with
  | nil => simp only [natSet, List.mem_singleton] at h; exact .inr h
  | cons hd tl ih =>
    obtain ⟨k', v'⟩ := hd
    simp only [natSet] at h
    split at h
    · simp only [List.mem_cons] at h
      rcases h with h | h
      · exact .inr h
      · exact .inl (by simp [h])
    · simp only [List.mem_cons] at h
      rcases h with h | h
      · exact .inl (by simp [h])
      · rcases ih h with h | h
        · exact .inl (by simp [h])
        · exact .inr h

theorem natGet_mem {β : Type} {l : List (Nat × β)} {k : Nat} {v : β} (h : natGet l k = some v) :
    ∃ e ∈ l, e.2 = v := by
  simp only [natGet, Option.map_eq_some_iff] at h
  obtain ⟨e, he, rfl⟩ := h
  exact ⟨e, List.mem_of_find?_eq_some he, rfl⟩

theorem RingsOk.natSet {T : List Nat} {l : List (Nat × Ring Cmd)} (h : RingsOk T l) (k : Nat) (r : Ring Cmd)
    (hr : ∀ c ∈ r.q, CmdOk T c) : RingsOk T (natSet l k r) := by
  intro e he
  rcases mem_natSet he with he | rfl
  · exact h e he
  · exact hr

theorem RingsOk.natGet {T : List Nat} {l : List (Nat × Ring Cmd)} (h : RingsOk T l) {k : Nat} {r : Ring Cmd}
    (hr : natGet l k = some r) : ∀ c ∈ r.q, CmdOk T c := by
  obtain ⟨e, he, rfl⟩ := natGet_mem hr
  exact h e he

/-! ### the ring: nothing is invented -/

section ring
variable {α : Type} (P : α → Prop)

theorem Ring.push_all (r r' : Ring α) (x : α) (h : r.push x = some r') (hr : ∀ y ∈ r.q, P y) (hx : P x) :
    ∀ y ∈ r'.q, P y := by
  unfold Ring.push at h
  split at h
  · simp only [Option.some.injEq] at h
    subst h
    intro y hy
    simp only [List.mem_append, List.mem_singleton] at hy
    rcases hy with hy | rfl
    · exact hr y hy
    · exact hx
  · cases h

theorem Ring.replay_all (r : Ring α) (pend : List α) (hr : ∀ y ∈ r.q, P y) (hp : ∀ y ∈ pend, P y) :
    (∀ y ∈ (r.replay pend).1.q, P y) ∧ ∀ y ∈ (r.replay pend).2, P y := by
  induction pend generalizing r with
  | nil => exact ⟨hr, by simp [Ring.replay]⟩
  | cons x xs ih =>
    simp only [Ring.replay]
    cases hpush : r.push x with
    | none => exact ⟨hr, hp⟩
    | some r' =>
      exact ih r' (Ring.push_all P r r' x hpush hr (hp x (by simp))) (fun y hy => hp y (by simp [hy]))

theorem Ring.send_all (r : Ring α) (pend : List α) (v : α) (hr : ∀ y ∈ r.q, P y) (hp : ∀ y ∈ pend, P y) (hv : P v) :
    (∀ y ∈ (r.send pend v).1.q, P y) ∧ ∀ y ∈ (r.send pend v).2.1, P y := by
  have h := Ring.replay_all P r pend hr hp
  unfold Ring.send
  cases hrp : r.replay pend with
  | mk r1 rest =>
    rw [hrp] at h
    dsimp only at h ⊢
    cases rest with
    | nil =>
      dsimp only
      cases hpush : r1.push v with
      | none => exact ⟨h.1, by simp⟩
      | some r2 => exact ⟨Ring.push_all P r1 r2 v hpush h.1 hv, by simp⟩
    | cons x xs => exact ⟨h.1, h.2⟩

theorem Ring.forceSend_all (r : Ring α) (pend : List α) (v : α) (hr : ∀ y ∈ r.q, P y) (hp : ∀ y ∈ pend, P y) (hv : P v) :
    (∀ y ∈ (r.forceSend pend v).1.q, P y) ∧ ∀ y ∈ (r.forceSend pend v).2, P y := by
  have h := Ring.replay_all P r pend hr hp
  unfold Ring.forceSend
  cases hrp : r.replay pend with
  | mk r1 rest =>
    rw [hrp] at h
    dsimp only at h ⊢
    cases rest with
    | nil =>
      dsimp only
      cases hpush : r1.push v with
      | none =>
        refine ⟨h.1, ?_⟩
        intro y hy
        simp only [List.mem_singleton] at hy
        subst hy; exact hv
      | some r2 => exact ⟨Ring.push_all P r1 r2 v hpush h.1 hv, by simp⟩
    | cons x xs =>
      refine ⟨h.1, ?_⟩
      intro y hy
      simp only [List.mem_append, List.mem_singleton] at hy
      rcases hy with hy | rfl
      · exact h.2 y hy
      · exact hv

theorem Ring.senderDrop_all (r : Ring α) (pend : List α) (hr : ∀ y ∈ r.q, P y) (hp : ∀ y ∈ pend, P y) :
    ∀ y ∈ (r.senderDrop pend).q, P y := by
  unfold Ring.senderDrop
  dsimp only
  induction pend generalizing r with
  | nil => exact hr
  | cons x xs ih =>
    simp only [List.foldl]
    apply ih
    · cases hpush : r.push x with
      | none => simpa using hr
      | some r' => simpa using Ring.push_all P r r' x hpush hr (hp x (by simp))
    · exact fun y hy => hp y (by simp [hy])

end ring

/-! ### state plumbing -/

theorem Prov.setTh {T U : List Nat} {s : Sys} (h : Prov T U s) (t : Nat) (th : Th) (hth : ThOk T U th) :
    Prov T U (s.setTh t th) where
  spans := h.spans
  adapters := h.adapters
  threads := by
    intro t2
    by_cases e : t2 = t
    · subst e; rw [Sys.th_setTh_same]; exact hth
    · rw [Sys.th_setTh_other _ _ _ _ e]; exact h.threads t2
  rxs := h.rxs
  cyc := h.cyc
  coll := h.coll
  carried := h.carried

theorem Prov.putCtr {T U : List Nat} {s : Sys} (h : Prov T U s) (t : Nat) (c : Ctr) : Prov T U (s.putCtr t c) where
  spans := h.spans
  adapters := h.adapters
  threads := by
    intro t2
    by_cases e : t2 = t
    · subst e; rw [Sys.putCtr_th_same]; exact h.threads t2
    · rw [Sys.putCtr_th_other _ _ _ _ e]; exact h.threads t2
  rxs := h.rxs
  cyc := h.cyc
  coll := h.coll
  carried := h.carried

theorem Prov.withSpans {T U : List Nat} {s : Sys} (h : Prov T U s) (sp : List (String × SpanVal))
    (hsp : ∀ e ∈ sp, SvOk T U e.2) : Prov T U { s with spans := sp } where
  spans := hsp
  adapters := h.adapters
  threads := h.threads
  rxs := h.rxs
  cyc := h.cyc
  coll := h.coll
  carried := h.carried

theorem Prov.setSpan {T U : List Nat} {s : Sys} (h : Prov T U s) (v : String) (sv : SpanVal) (hsv : SvOk T U sv) :
    Prov T U { s with spans := assocSet s.spans v sv } :=
  h.withSpans _ (fun e he => by
    rcases mem_assocSet he with he | rfl
    · exact h.spans e he
    · exact hsv)

theorem Prov.delSpan {T U : List Nat} {s : Sys} (h : Prov T U s) (v : String) :
    Prov T U { s with spans := assocDel s.spans v } :=
  h.withSpans _ (fun e he => h.spans e (mem_assocDel he))

theorem Prov.getSpan {T U : List Nat} {s : Sys} (h : Prov T U s) {v : String} {sv : SpanVal}
    (hg : assocGet s.spans v = some sv) : SvOk T U sv := by
  obtain ⟨e, he, rfl⟩ := assocGet_mem hg
  exact h.spans e he

theorem Prov.withAdapters {T U : List Nat} {s : Sys} (h : Prov T U s) (ads : List (String × Adapter))
    (ha : ∀ e ∈ ads, ∀ sv, e.2.span = some sv → SvOk T U sv) : Prov T U { s with adapters := ads } where
  spans := h.spans
  adapters := ha
  threads := h.threads
  rxs := h.rxs
  cyc := h.cyc
  coll := h.coll
  carried := h.carried

theorem Prov.withLspans {T U : List Nat} {s : Sys} (h : Prov T U s) (x : List (String × LocalSpansVal)) :
    Prov T U { s with lspans := x } where
  spans := h.spans
  adapters := h.adapters
  threads := h.threads
  rxs := h.rxs
  cyc := h.cyc
  coll := h.coll
  carried := h.carried

theorem svOk_none (T U : List Nat) : SvOk T U none := fun _ h => by cases h

/-! ### the command channel -/

theorem Prov.register {T U : List Nat} {s s' : Sys} (h : Prov T U s) (t : Nat) (hr : s.register t = some s') : Prov T U s' := by
  unfold Sys.register at hr
  split at hr
  · simp only [Option.some.injEq] at hr; subst hr; exact h
  · have h1 := h.setTh t { s.th t with registered := true } (h.threads t)
    have hnew : ∀ c ∈ (Ring.new Consts.ringCap : Ring Cmd).q, CmdOk T c := by simp [Ring.new]
    cases hc : s.cyc with
    | none =>
      rw [hc] at hr
      simp only [Option.some.injEq] at hr
      subst hr
      refine ⟨h1.spans, h1.adapters, h1.threads, ?_, h1.cyc, h1.coll, h1.carried⟩
      intro e he
      simp only [List.mem_append, List.mem_singleton] at he
      rcases he with he | rfl
      · exact h.rxs e he
      · exact hnew
    | some cs =>
      rw [hc] at hr
      dsimp only at hr
      split at hr
      · cases hr
      · simp only [Option.some.injEq] at hr
        subst hr
        obtain ⟨c1, c2, c3, c4⟩ := h.cyc cs hc
        refine ⟨h1.spans, h1.adapters, h1.threads, h1.rxs, ?_, h1.coll, h1.carried⟩
        intro cs' hcs'
        simp only [Option.some.injEq] at hcs'
        subst hcs'
        refine ⟨c1, ?_, c3, c4⟩
        intro e he
        simp only [List.mem_append, List.mem_singleton] at he
        rcases he with he | rfl
        · exact c2 e he
        · exact hnew

theorem Prov.ringOf {T U : List Nat} {s : Sys} (h : Prov T U s) {t : Nat} {r : Ring Cmd} (hr : s.ringOf t = some r) :
    ∀ c ∈ r.q, CmdOk T c := by
  unfold Sys.ringOf at hr
  cases hc : s.cyc with
  | none => rw [hc] at hr; exact h.rxs.natGet hr
  | some cs =>
    rw [hc] at hr
    dsimp only at hr
    obtain ⟨h1, h2, _, _⟩ := h.cyc cs hc
    cases ht : natGet cs.todo t with
    | some r' =>
      rw [ht] at hr
      simp only [Option.orElse, Option.some.injEq] at hr
      subst hr
      exact h1.natGet ht
    | none =>
      rw [ht] at hr
      simp only [Option.orElse] at hr
      exact h2.natGet hr

theorem Prov.setRing {T U : List Nat} {s : Sys} (h : Prov T U s) (t : Nat) (r : Ring Cmd) (hr : ∀ c ∈ r.q, CmdOk T c) :
    Prov T U (s.setRing t r) := by
  unfold Sys.setRing
  cases hc : s.cyc with
  | none =>
    dsimp only
    exact ⟨h.spans, h.adapters, h.threads, h.rxs.natSet t r hr, (fun cs hcs => nomatch hcs), h.coll, h.carried⟩
  | some cs =>
    dsimp only
    obtain ⟨h1, h2, h3, h4⟩ := h.cyc cs hc
    split
    · refine ⟨h.spans, h.adapters, h.threads, h.rxs, ?_, h.coll, h.carried⟩
      intro cs' hcs'
      simp only [Option.some.injEq] at hcs'
      subst hcs'
      exact ⟨h1.natSet t r hr, h2, h3, h4⟩
    · split
      · refine ⟨h.spans, h.adapters, h.threads, h.rxs, ?_, h.coll, h.carried⟩
        intro cs' hcs'
        simp only [Option.some.injEq] at hcs'
        subst hcs'
        exact ⟨h1, h2.natSet t r hr, h3, h4⟩
      · exact h

theorem Prov.withG {T U : List Nat} {s : Sys} (h : Prov T U s) (g : Ghost) : Prov T U (s.withG g) :=
  ⟨h.spans, h.adapters, h.threads, h.rxs, h.cyc, h.coll, h.carried⟩

theorem Prov.withParked {T U : List Nat} {s : Sys} (h : Prov T U s) (x : List Nat) :
    Prov T U ({ s with parkedCancels := x } : Sys) :=
  ⟨h.spans, h.adapters, h.threads, h.rxs, h.cyc, h.coll, h.carried⟩

theorem Prov.noteParked {T U : List Nat} {s : Sys} (h : Prov T U s) (t cid : Nat) : Prov T U (s.noteParked t cid) := by
  unfold Sys.noteParked
  split
  · exact h
  · exact h.withParked _

theorem Prov.sendCmd {T U : List Nat} {s : Sys} (h : Prov T U s) (t : Nat) (cmd : Cmd) (forced : Bool) (hc : CmdOk T cmd) :
    Prov T U (s.sendCmd t cmd forced) := by
  unfold Sys.sendCmd
  cases hreg : s.register t with
  | none => exact h.withG _
  | some s1 =>
    dsimp only
    have h1 := h.register t hreg
    cases hring : s1.ringOf t with
    | none => exact h1.withG _
    | some r =>
      dsimp only
      have hrq := h1.ringOf hring
      have hth := h1.threads t
      split
      · have := Ring.forceSend_all (CmdOk T) r (s1.th t).pending cmd hrq hth.2 hc
        refine Prov.withG ?_ _
        exact (h1.setRing t _ this.1).setTh t _ ⟨hth.1, this.2⟩
      · have := Ring.send_all (CmdOk T) r (s1.th t).pending cmd hrq hth.2 hc
        refine Prov.withG ?_ _
        exact (h1.setRing t _ this.1).setTh t _ ⟨hth.1, this.2⟩

theorem Prov.submitSpans {T U : List Nat} {s : Sys} (h : Prov T U s) (t : Nat) (spans : SpanSet) (tok : Token)
    (ht : TokOk T U tok) : Prov T U (s.submitSpans t spans tok) := by
  unfold Sys.submitSpans
  dsimp only
  split
  · exact h
  · apply h.sendCmd
    intro it hit
    simp only [List.mem_filter] at hit
    exact (ht it hit.1).1 hit.2

theorem Prov.newSpan {T U : List Nat} {s : Sys} (h : Prov T U s) (t : Nat) (v name : String) (tok : Token)
    (cid : Option Nat) (ht : TokOk T U tok) : Prov T U (s.newSpan t v name tok cid) := by
  unfold Sys.newSpan
  dsimp only
  exact (h.putCtr t _).setSpan v _ (fun sp hsp => by cases hsp; exact ht)

theorem tokOk_issue {T U : List Nat} {sp : SpanInner} (h : TokOk T U sp.token) : TokOk T U (issueToken sp) := by
  intro it hit
  simp only [issueToken, List.mem_map] at hit
  obtain ⟨it0, h0, rfl⟩ := hit
  exact h it0 h0

theorem Prov.dropSpanVal {T U : List Nat} {s : Sys} (h : Prov T U s) (t : Nat) (sv : SpanVal) (hsv : SvOk T U sv) :
    Prov T U (s.dropSpanVal t sv) := by
  unfold Sys.dropSpanVal
  cases sv with
  | none => exact h
  | some sp =>
    dsimp only
    have h1 := (h.putCtr t ((s.ctr t).now).2).submitSpans t (.span { sp.raw with endT := ((s.ctr t).now).1 }) sp.token (hsv sp rfl)
    cases sp.collectId with
    | none => exact h1
    | some cid => exact h1.sendCmd t _ true trivial

end Fastrace
