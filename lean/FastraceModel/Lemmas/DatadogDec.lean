import FastraceModel.Lemmas.MsgpackDec

/-! decoding the body of a Datadog v0.4 request back into what it says about every record -/
namespace Fastrace.Datadog
open Fastrace

abbrev Bytes := List Nat

/-- a record as the Datadog format (as used by the reporter) can represent it: the low 64 bits
    of the trace id, times as i64 bit patterns, properties as a key→value map (last value per
    key), no events -/
structure DdView where
  name : Bytes
  service : Bytes
  typ : Bytes
  resource : Bytes
  start : Nat
  duration : Nat
  metaMap : Option (List (Bytes × Bytes))
  errorCode : Nat
  spanId : Nat
  traceId : Nat
  parentId : Nat
deriving DecidableEq, Repr

def ddView (c : Cfg) (r : Record) : DdView :=
  { name := strBytes r.name, service := strBytes c.service, typ := strBytes c.traceType,
    resource := strBytes c.resource, start := r.beginNs, duration := r.durationNs,
    metaMap := if r.props.isEmpty then none else some ((metaOf r.props).map fun kv => (strBytes kv.1, strBytes kv.2)),
    errorCode := 0, spanId := r.spanId, traceId := r.traceId % 2 ^ 64, parentId := r.parentId }

/-- the next item must be the string `k` -/
def expectKey (k : Bytes) (bs : Bytes) : Option Bytes :=
  match decStr bs with
  | some (s, r) => if s = k then some r else none
  | none => none

theorem expectKey_key (k rest : Bytes) (h : k.length < 2 ^ 32) : expectKey k (key k ++ rest) = some rest := by
  simp [expectKey, key, decStr_mpStr k rest h]

def decPairs : Nat → Bytes → Option (List (Bytes × Bytes) × Bytes)
  | 0, bs => some ([], bs)
  | n + 1, bs =>
    match decStr bs with
    | some (k, r1) =>
      match decStr r1 with
      | some (v, r2) =>
        match decPairs n r2 with
        | some (ps, r3) => some ((k, v) :: ps, r3)
        | none => none
      | none => none
    | none => none

def StrOk (s : String) : Prop := (strBytes s).length < 2 ^ 32

theorem decPairs_enc (ps : Props) (rest : Bytes) (h : ∀ kv ∈ ps, StrOk kv.1 ∧ StrOk kv.2) :
    decPairs ps.length ((ps.flatMap fun kv => mpStr (strBytes kv.1) ++ mpStr (strBytes kv.2)) ++ rest)
      = some (ps.map (fun kv => (strBytes kv.1, strBytes kv.2)), rest) := by
  induction ps with
  | nil => simp [decPairs]
  | cons p ps ih =>
    have hp := h p (by simp)
    have ih' := ih (fun kv hkv => h kv (by simp [hkv]))
    simp only [List.length_cons, List.flatMap_cons, List.append_assoc, decPairs]
    simp only [StrOk] at hp
    rw [decStr_mpStr _ _ hp.1]
    simp only
    rw [decStr_mpStr _ _ hp.2]
    simp only
    rw [ih']
    simp

/-- one span map, field by field, in the order the struct is declared -/
def decSpan (bs : Bytes) : Option (DdView × Bytes) :=
  match decLen 0x80 0xde 0xdf bs with
  | none => none
  | some (n, r) =>
    if n ≠ 10 ∧ n ≠ 11 then none else
    match (expectKey kName r).bind decStr with
    | none => none
    | some (name, r) =>
    match (expectKey kService r).bind decStr with
    | none => none
    | some (service, r) =>
    match (expectKey kType r).bind decStr with
    | none => none
    | some (typ, r) =>
    match (expectKey kResource r).bind decStr with
    | none => none
    | some (resource, r) =>
    match (expectKey kStart r).bind decSint with
    | none => none
    | some (start, r) =>
    match (expectKey kDuration r).bind decSint with
    | none => none
    | some (duration, r) =>
    match (if n = 11 then
            ((expectKey kMeta r).bind (decLen 0x80 0xde 0xdf)).bind fun (m, r) =>
              (decPairs m r).map fun (ps, r) => (some ps, r)
          else some (none, r)) with
    | none => none
    | some (mm, r) =>
    match (expectKey kErrorCode r).bind decSint with
    | none => none
    | some (ec, r) =>
    match (expectKey kSpanId r).bind decUint with
    | none => none
    | some (sid, r) =>
    match (expectKey kTraceId r).bind decUint with
    | none => none
    | some (tid, r) =>
    match (expectKey kParentId r).bind decUint with
    | none => none
    | some (pid, r) => some (⟨name, service, typ, resource, start, duration, mm, ec, sid, tid, pid⟩, r)

/-- strings short enough for msgpack's 32-bit length, props few enough for its 32-bit count -/
def RecOk (c : Cfg) (r : Record) : Prop :=
  r.WF ∧ StrOk r.name ∧ StrOk c.service ∧ StrOk c.resource ∧ StrOk c.traceType ∧
  (∀ kv ∈ metaOf r.props, StrOk kv.1 ∧ StrOk kv.2) ∧ (metaOf r.props).length < 2 ^ 32

theorem klen : kName.length < 2 ^ 32 ∧ kService.length < 2 ^ 32 ∧ kType.length < 2 ^ 32 ∧ kResource.length < 2 ^ 32 ∧
    kStart.length < 2 ^ 32 ∧ kDuration.length < 2 ^ 32 ∧ kMeta.length < 2 ^ 32 ∧ kErrorCode.length < 2 ^ 32 ∧
    kSpanId.length < 2 ^ 32 ∧ kTraceId.length < 2 ^ 32 ∧ kParentId.length < 2 ^ 32 := by decide

/-- **one span round-trips** -/
theorem decSpan_encSpan (c : Cfg) (r : Record) (rest : Bytes) (h : RecOk c r) :
    decSpan (encSpan c r ++ rest) = some (ddView c r, rest) := by
  obtain ⟨⟨_, hsid, hpid, hb, hd, _⟩, hn, hs, hre, hty, hmeta, hmlen⟩ := h
  obtain ⟨k1, k2, k3, k4, k5, k6, k7, k8, k9, k10, k11⟩ := klen
  have htid : r.traceId % 2 ^ 64 < 2 ^ 64 := Nat.mod_lt _ (by decide)
  unfold decSpan encSpan
  by_cases hp : r.props.isEmpty = true
  · simp only [hp, if_true, List.append_assoc, List.nil_append]
    rw [decLen_map 10 _ (by decide)]
    simp only [show ¬ ((10 : Nat) ≠ 10 ∧ (10 : Nat) ≠ 11) by decide, if_false, show ¬ ((10 : Nat) = 11) by decide]
    simp only [expectKey_key _ _ k1, expectKey_key _ _ k2, expectKey_key _ _ k3, expectKey_key _ _ k4,
      expectKey_key _ _ k5, expectKey_key _ _ k6, expectKey_key _ _ k8, expectKey_key _ _ k9,
      expectKey_key _ _ k10, expectKey_key _ _ k11, Option.bind_some,
      decStr_mpStr _ _ hn, decStr_mpStr _ _ hs, decStr_mpStr _ _ hty, decStr_mpStr _ _ hre,
      decSint_mpSint _ _ hb, decSint_mpSint _ _ hd, decSint_mpSint 0 _ (by decide),
      decUint_mpUint _ _ hsid, decUint_mpUint _ _ htid, decUint_mpUint _ _ hpid]
    simp [ddView, hp]
  · simp only [hp, if_false, Bool.false_eq_true, List.append_assoc]
    rw [decLen_map 11 _ (by decide)]
    simp only [show ¬ ((11 : Nat) ≠ 10 ∧ (11 : Nat) ≠ 11) by decide, if_false, if_true]
    have hpairs := decPairs_enc (metaOf r.props)
    simp only [expectKey_key _ _ k1, expectKey_key _ _ k2, expectKey_key _ _ k3, expectKey_key _ _ k4,
      expectKey_key _ _ k5, expectKey_key _ _ k6, expectKey_key _ _ k7, expectKey_key _ _ k8, expectKey_key _ _ k9,
      expectKey_key _ _ k10, expectKey_key _ _ k11, Option.bind_some,
      decStr_mpStr _ _ hn, decStr_mpStr _ _ hs, decStr_mpStr _ _ hty, decStr_mpStr _ _ hre,
      decSint_mpSint _ _ hb, decSint_mpSint _ _ hd, decLen_map _ _ hmlen, hpairs _ hmeta, Option.map_some,
      decSint_mpSint 0 _ (by decide), decUint_mpUint _ _ hsid, decUint_mpUint _ _ htid, decUint_mpUint _ _ hpid]
    simp [ddView, hp]

def decSpans : Nat → Bytes → Option (List DdView × Bytes)
  | 0, bs => some ([], bs)
  | n + 1, bs =>
    match decSpan bs with
    | some (v, r1) =>
      match decSpans n r1 with
      | some (vs, r2) => some (v :: vs, r2)
      | none => none
    | none => none

theorem decSpans_enc (c : Cfg) (rs : List Record) (rest : Bytes) (h : ∀ r ∈ rs, RecOk c r) :
    decSpans rs.length (rs.flatMap (encSpan c) ++ rest) = some (rs.map (ddView c), rest) := by
  induction rs with
  | nil => simp [decSpans]
  | cons r rs ih =>
    simp only [List.length_cons, List.flatMap_cons, List.append_assoc, decSpans]
    rw [decSpan_encSpan c r _ (h r (by simp))]
    simp only
    rw [ih (fun x hx => h x (by simp [hx]))]
    simp

/-- the whole body: `[0x91]`, the array of span maps, nothing left over -/
def decodeBody (bs : Bytes) : Option (List DdView) :=
  match bs with
  | 0x91 :: rest =>
    match decLen 0x90 0xdc 0xdd rest with
    | some (n, r) =>
      match decSpans n r with
      | some (vs, []) => some vs
      | _ => none
    | none => none
  | _ => none

/-- **the Datadog request body round-trips** -/
theorem decodeBody_encodeBody (c : Cfg) (rs : List Record) (h : ∀ r ∈ rs, RecOk c r) (hn : rs.length < 2 ^ 32) :
    decodeBody (encodeBody c rs) = some (rs.map (ddView c)) := by
  unfold decodeBody encodeBody
  simp only [List.cons_append, List.nil_append]
  rw [decLen_arr _ _ hn]
  have := decSpans_enc c rs [] h
  simp only [List.append_nil] at this
  simp [this]

end Fastrace.Datadog
