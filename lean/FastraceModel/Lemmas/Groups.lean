import FastraceModel.Lemmas.Cycle

/-! per-collect-id view of the collector: what is buffered for an id, what a batch routes to
it, what a commit emits -/
namespace Fastrace

theorem Coll.find?_insert_same (c : Coll) (id : Nat) (a : Active) : (c.insert id a).find? id = some a := by
  simp only [Coll.find?, Coll.insert]
  induction c.active with
  | nil => simp [List.find?]
  | cons e es ih =>
    by_cases h : e.1 = id
    · have : (e.1 != id) = false := by simp [h]
      simp only [List.filter, this]; exact ih
    · have h1 : (e.1 != id) = true := by simp [h]
      have h2 : (e.1 == id) = false := by simp [h]
      simp only [List.filter, h1, List.cons_append, List.find?, h2]; exact ih

theorem Coll.find?_insert_other (c : Coll) (id id2 : Nat) (a : Active) (hne : id2 ≠ id) :
    (c.insert id a).find? id2 = c.find? id2 := by
  simp only [Coll.find?, Coll.insert]
  induction c.active with
  | nil =>
    have : (id == id2) = false := by simp; exact fun h => hne h.symm
    simp [List.find?, this]
  | cons e es ih =>
    by_cases h : e.1 = id
    · have h1 : (e.1 != id) = false := by simp [h]
      have h2 : (e.1 == id2) = false := by simp [h]; exact fun e => hne e.symm
      simp only [List.filter, h1, List.find?, h2]; exact ih
    · have h1 : (e.1 != id) = true := by simp [h]
      simp only [List.filter, h1, List.cons_append, List.find?]
      by_cases h3 : e.1 = id2
      · simp [h3]
      · have h4 : (e.1 == id2) = false := by simp [h3]
        simp only [h4]; exact ih

theorem Coll.find?_remove_same (c : Coll) (id : Nat) : (c.remove id).find? id = none := by
  simp only [Coll.find?, Coll.remove]
  induction c.active with
  | nil => rfl
  | cons e es ih =>
    by_cases h : e.1 = id
    · have : (e.1 != id) = false := by simp [h]
      simp only [List.filter, this]; exact ih
    · have h1 : (e.1 != id) = true := by simp [h]
      have h2 : (e.1 == id) = false := by simp [h]
      simp only [List.filter, h1, List.find?, h2]; exact ih

theorem Coll.find?_remove_other (c : Coll) (id id2 : Nat) (hne : id2 ≠ id) :
    (c.remove id).find? id2 = c.find? id2 := by
  simp only [Coll.find?, Coll.remove]
  induction c.active with
  | nil => rfl
  | cons e es ih =>
    by_cases h : e.1 = id
    · have h1 : (e.1 != id) = false := by simp [h]
      have h2 : (e.1 == id2) = false := by simp [h]; exact fun e => hne e.symm
      simp only [List.filter, h1, List.find?, h2]; exact ih
    · have h1 : (e.1 != id) = true := by simp [h]
      simp only [List.filter, h1, List.find?]
      by_cases h3 : e.1 = id2
      · simp [h3]
      · have h4 : (e.1 == id2) = false := by simp [h3]
        simp only [h4]; exact ih

/-- the span sets buffered for a collect id -/
def Coll.colsOf (c : Coll) (id : Nat) : List Collection := ((c.find? id).map (·.collections)).getD []

/-- the collections one batch routes to a collect id, in drain order -/
def routed (id : Nat) (subs : List (SpanSet × Token)) : List Collection :=
  subs.flatMap fun sub => (sub.2.filter (·.collectId == id)).map fun it => ⟨sub.1, it.traceId, it.parentId⟩

theorem submitItem_colsOf (cb : Bool) (spans : SpanSet) (st : Coll × List Collection) (it : TokenItem) (id : Nat)
    (hid : id ∈ st.1.keys) :
    (submitItem cb spans st it).1.colsOf id =
      st.1.colsOf id ++ (if it.collectId = id then [⟨spans, it.traceId, it.parentId⟩] else []) := by
  unfold submitItem
  cases hf : st.1.find? it.collectId with
  | some a =>
    simp only
    by_cases he : it.collectId = id
    · subst he
      simp [Coll.colsOf, Coll.find?_insert_same, hf]
    · simp [Coll.colsOf, Coll.find?_insert_other _ _ _ _ (Ne.symm he), he]
  | none =>
    have hne : it.collectId ≠ id := by
      intro e
      have := (Coll.find?_isSome_iff st.1 id).mpr hid
      rw [← e, hf] at this; cases this
    simp only
    split <;> simp [hne]

theorem processSubmit_colsOf (st : Coll × List Collection) (sub : SpanSet × Token) (id : Nat) (hid : id ∈ st.1.keys) :
    (processSubmit st sub).1.colsOf id = st.1.colsOf id ++ routed id [sub] := by
  unfold processSubmit routed
  generalize st.1.cancelable = cb
  simp only [List.flatMap_cons, List.flatMap_nil, List.append_nil]
  induction sub.2 generalizing st with
  | nil => simp
  | cons it its ih =>
    simp only [List.foldl]
    rw [ih _ ((submitItem_keys cb sub.1 st it id).mpr hid), submitItem_colsOf _ _ _ _ _ hid]
    by_cases he : it.collectId = id
    · simp [he, List.filter]
    · have : (it.collectId == id) = false := by simp [he]
      simp [he, List.filter, this]

theorem foldl_processSubmit_colsOf (subs : List (SpanSet × Token)) (st : Coll × List Collection) (id : Nat)
    (hid : id ∈ st.1.keys) :
    (subs.foldl processSubmit st).1.colsOf id = st.1.colsOf id ++ routed id subs := by
  induction subs generalizing st with
  | nil => simp [routed]
  | cons s ss ih =>
    simp only [List.foldl]
    rw [ih _ ((processSubmit_keys st s id).mpr hid), processSubmit_colsOf _ _ _ hid]
    simp [routed, List.append_assoc]

theorem foldl_submitItem_stale_cancelable (spans : SpanSet) (tok : Token) (st : Coll × List Collection) :
    (tok.foldl (submitItem true spans) st).2 = st.2 := by
  induction tok generalizing st with
  | nil => rfl
  | cons it its ih =>
    simp only [List.foldl]
    rw [ih]
    unfold submitItem; split <;> simp

/-- in the cancelable configuration nothing goes to the stale list -/
theorem foldl_processSubmit_stale_cancelable (subs : List (SpanSet × Token)) (st : Coll × List Collection)
    (hc : st.1.cancelable = true) : (subs.foldl processSubmit st).2 = st.2 := by
  induction subs generalizing st with
  | nil => rfl
  | cons s ss ih =>
    simp only [List.foldl]
    have hflag : (processSubmit st s).1.cancelable = true := by
      have := processSubmit_flags st s
      simp only [Coll.flags, Prod.mk.injEq] at this
      rw [this.1]; exact hc
    rw [ih _ hflag]
    unfold processSubmit
    rw [hc]
    exact foldl_submitItem_stale_cancelable s.1 s.2 st

/-- the groups a sequence of commits post-processes: (collect id, its buffered span sets) -/
def commitGroups : Coll → List Nat → List (Nat × List Collection)
  | _, [] => []
  | c, id :: ids =>
    match c.find? id with
    | some a => (id, a.collections) :: commitGroups (c.remove id) ids
    | none => commitGroups c ids

theorem commitGroups_keys (c : Coll) (ids : List Nat) :
    ∀ g ∈ commitGroups c ids, g.1 ∈ ids ∧ g.1 ∈ c.keys ∧ g.2 = c.colsOf g.1 := by
  induction ids generalizing c with
  | nil => simp [commitGroups]
  | cons id ids ih =>
    intro g hg
    simp only [commitGroups] at hg
    cases hf : c.find? id with
    | some a =>
      simp only [hf, List.mem_cons] at hg
      rcases hg with rfl | hg
      · exact ⟨by simp, (Coll.find?_isSome_iff c id).mp (by simp [hf]), by simp [Coll.colsOf, hf]⟩
      · obtain ⟨h1, h2, h3⟩ := ih (c.remove id) g hg
        have hk := (Coll.mem_keys_remove c id g.1).mp h2
        refine ⟨by simp [h1], hk.1, ?_⟩
        rw [h3, Coll.colsOf, Coll.colsOf, Coll.find?_remove_other _ _ _ hk.2]
    | none =>
      simp only [hf] at hg
      obtain ⟨h1, h2, h3⟩ := ih c g hg
      exact ⟨by simp [h1], h2, h3⟩

/-- each collect id is emitted by at most one group -/
theorem commitGroups_nodup (c : Coll) (ids : List Nat) : ((commitGroups c ids).map (·.1)).Nodup := by
  induction ids generalizing c with
  | nil => simp [commitGroups]
  | cons id ids ih =>
    simp only [commitGroups]
    cases hf : c.find? id with
    | some a =>
      simp only [List.map_cons, List.nodup_cons]
      refine ⟨?_, ih _⟩
      intro hmem
      obtain ⟨g, hg, hg1⟩ := List.mem_map.mp hmem
      have := (commitGroups_keys (c.remove id) ids g hg).2.1
      rw [hg1] at this
      exact ((Coll.mem_keys_remove c id id).mp this).2 rfl
    | none => exact ih c

theorem foldl_processCommit_records (conv : Nat → Nat) (ids : List Nat) (st : Coll × List Record) :
    (ids.foldl (processCommit conv) st).2.map Record.core
      = st.2.map Record.core ++ (commitGroups st.1 ids).flatMap (fun g => g.2.flatMap (collectionCores conv)) := by
  induction ids generalizing st with
  | nil => simp [commitGroups]
  | cons id ids ih =>
    simp only [List.foldl, commitGroups]
    rw [ih]
    unfold processCommit
    cases hf : st.1.find? id with
    | some a => simp [postprocess_core, List.append_assoc]
    | none => simp

end Fastrace

namespace Fastrace

/-- collector state after the start / drop / submit loops of a cycle -/
def afterSubmits (c : Coll) (batch : List Cmd) : Coll × List Collection :=
  (submitsOf batch).foldl processSubmit (phaseDrops (phaseStarts c batch) batch, [])

theorem phaseDrops_flags (c : Coll) (batch : List Cmd) : (phaseDrops (phaseStarts c batch) batch).flags = c.flags := by
  simp only [phaseDrops, phaseStarts]; rw [foldl_drop_flags, foldl_insert_flags]

theorem afterSubmits_flags (c : Coll) (batch : List Cmd) : (afterSubmits c batch).1.flags = c.flags := by
  unfold afterSubmits; rw [foldl_processSubmit_flags]; exact phaseDrops_flags c batch

/-- **cancelable cycle, exactly**: the report consists of the buffered span sets of the
    collect ids committed in this batch (in commit order, each id once), and of nothing else -/
theorem cancelable_cycle_records (conv : Nat → Nat) (c : Coll) (batch : List Cmd)
    (hr : c.hasReporter = true) (hc : c.cancelable = true) :
    ∃ recs, (cycleProcess conv c batch).2 = some recs ∧
      recs.map Record.core
        = (commitGroups (afterSubmits c batch).1 (commitsOf batch)).flatMap
            (fun g => g.2.flatMap (collectionCores conv)) := by
  rw [cycleProcess_eq conv c batch hr]
  simp only
  have hf := afterSubmits_flags c batch
  simp only [Coll.flags, Prod.mk.injEq] at hf
  have hcan2 : (afterSubmits c batch).1.cancelable = true := by rw [hf.1]; exact hc
  have hcan1 : (phaseDrops (phaseStarts c batch) batch).cancelable = true := by
    have := phaseDrops_flags c batch
    simp only [Coll.flags, Prod.mk.injEq] at this
    rw [this.1]; exact hc
  have hstale : (afterSubmits c batch).2 = [] := by
    unfold afterSubmits
    rw [foldl_processSubmit_stale_cancelable _ _ hcan1]
  have hcan3 : ((commitsOf batch).foldl (processCommit conv) ((afterSubmits c batch).1, [])).1.cancelable = true := by
    have := foldl_processCommit_flags conv (commitsOf batch) ((afterSubmits c batch).1, [])
    simp only [Coll.flags, Prod.mk.injEq] at this
    rw [this.1]; exact hcan2
  simp only [afterSubmits] at hcan3 hstale ⊢
  rw [hstale]
  simp only [hcan3, if_true, List.foldl]
  refine ⟨_, rfl, ?_⟩
  rw [foldl_processCommit_records]
  simp

/-- default configuration: the drop loop does nothing -/
theorem C04_drops_noop (c : Coll) (batch : List Cmd) (hc : c.cancelable = false) :
    phaseDrops (phaseStarts c batch) batch = phaseStarts c batch := by
  unfold phaseDrops
  exact foldl_drop_noncancelable _ _ (by rw [phaseStarts_cancelable]; exact hc)

end Fastrace
