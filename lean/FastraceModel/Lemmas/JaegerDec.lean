import FastraceModel.Lemmas.ThriftDec
import FastraceModel.Model.Report.Jaeger

/-! decoding a Jaeger `emitBatch` datagram back into what it says about every record -/
namespace Fastrace.Jaeger
open Fastrace Fastrace.Thrift

/-! ### fuel: the size of a value is bounded by three times its encoded length -/

theorem varint_length_pos (n : Nat) : 0 < (varint n).length := by
  rw [varint]; split <;> simp

mutual
theorem size_le_data : ∀ d : TData, d.size + 1 ≤ 3 * (encData d).length
  | .i32 b => by have := varint_length_pos (zigzag32 b); simp [TData.size, encData]; omega
  | .i64 b => by have := varint_length_pos (zigzag64 b); simp [TData.size, encData]; omega
  | .binary bs => by have := varint_length_pos bs.length; simp [TData.size, encData]; omega
  | .struct fs => by have := size_le_fields fs 0; simp [TData.size, encData]; omega
  | .list es => by
    have := size_le_list es
    simp only [TData.size, encData, List.length_append]
    split <;> simp <;> omega
theorem size_le_fields : ∀ (fs : TFields) (p : Nat), fs.size + 2 ≤ 3 * (encFields p fs).length
  | .nil, p => by simp [TFields.size, encFields]
  | .cons id d rest, p => by
    have h1 := size_le_data d
    have h2 := size_le_fields rest id
    simp only [TFields.size, encFields, List.length_append]
    split <;> simp <;> omega
theorem size_le_list : ∀ es : TList, es.size ≤ 3 * (encList es).length + 1
  | .nil => by simp [TList.size, encList]
  | .cons d rest => by
    have h1 := size_le_data d
    have h2 := size_le_list rest
    simp only [TList.size, encList, List.length_append]
    omega
end

/-! ### the view: what a datagram says about a record -/

abbrev Bytes := List Nat

/-- a record as Jaeger can represent it: 64-bit halves of the trace id, ids as bit patterns,
    times in microseconds, properties as string tags, events as logs whose first field is
    `name` -/
structure JView where
  traceLow : Nat
  traceHigh : Nat
  spanId : Nat
  parentId : Nat
  name : Bytes
  flags : Nat
  startUs : Nat
  durUs : Nat
  tags : List (Bytes × Bytes)
  logs : List (Nat × List (Bytes × Bytes))
deriving DecidableEq, Repr

def tagView (k v : String) : Bytes × Bytes := (strBytes k, strBytes v)

def jaegerView (r : Record) : JView :=
  { traceLow := r.traceId % 2 ^ 64, traceHigh := r.traceId / 2 ^ 64 % 2 ^ 64, spanId := r.spanId,
    parentId := r.parentId, name := strBytes r.name, flags := 1, startUs := r.beginNs / 1000,
    durUs := r.durationNs / 1000, tags := r.props.map fun kv => tagView kv.1 kv.2,
    logs := r.events.map fun e => (e.timestamp / 1000, tagView "name" e.name :: e.props.map fun kv => tagView kv.1 kv.2) }

def viewTag : TData → Option (Bytes × Bytes)
  | .struct (.cons 1 (.binary k) (.cons 2 (.i32 0) (.cons 3 (.binary v) .nil))) => some (k, v)
  | _ => none

def viewTags : TList → Option (List (Bytes × Bytes))
  | .nil => some []
  | .cons d rest =>
    match viewTag d, viewTags rest with
    | some t, some ts => some (t :: ts)
    | _, _ => none

def viewLog : TData → Option (Nat × List (Bytes × Bytes))
  | .struct (.cons 1 (.i64 ts) (.cons 2 (.list fields) .nil)) => (viewTags fields).map fun f => (ts, f)
  | _ => none

def viewLogs : TList → Option (List (Nat × List (Bytes × Bytes)))
  | .nil => some []
  | .cons d rest =>
    match viewLog d, viewLogs rest with
    | some t, some ts => some (t :: ts)
    | _, _ => none

/-- fields 10 (tags) and 11 (logs) are optional -/
def viewTail : TFields → Option (List (Bytes × Bytes) × List (Nat × List (Bytes × Bytes)))
  | .nil => some ([], [])
  | .cons 11 (.list ls) .nil => (viewLogs ls).map fun l => ([], l)
  | .cons 10 (.list ts) .nil => (viewTags ts).map fun t => (t, [])
  | .cons 10 (.list ts) (.cons 11 (.list ls) .nil) =>
    match viewTags ts, viewLogs ls with
    | some t, some l => some (t, l)
    | _, _ => none
  | _ => none

def viewSpan : TData → Option JView
  | .struct (.cons 1 (.i64 lo) (.cons 2 (.i64 hi) (.cons 3 (.i64 sid) (.cons 4 (.i64 pid)
      (.cons 5 (.binary nm) (.cons 7 (.i32 fl) (.cons 8 (.i64 st) (.cons 9 (.i64 du) tail)))))))) =>
    (viewTail tail).map fun tl => ⟨lo, hi, sid, pid, nm, fl, st, du, tl.1, tl.2⟩
  | _ => none

def viewSpans : TList → Option (List JView)
  | .nil => some []
  | .cons d rest =>
    match viewSpan d, viewSpans rest with
    | some t, some ts => some (t :: ts)
    | _, _ => none

theorem viewTag_tagStruct (k v : String) : viewTag (tagStruct k v) = some (tagView k v) := rfl

theorem viewTags_ofList (ps : Props) :
    viewTags (TList.ofList (ps.map fun kv => tagStruct kv.1 kv.2)) = some (ps.map fun kv => tagView kv.1 kv.2) := by
  induction ps with
  | nil => rfl
  | cons p ps ih => simp only [List.map_cons, TList.ofList, viewTags, ih, viewTag_tagStruct]

theorem viewLog_logStruct (e : EventRecord) :
    viewLog (logStruct e) = some (e.timestamp / 1000, tagView "name" e.name :: e.props.map fun kv => tagView kv.1 kv.2) := by
  have := viewTags_ofList e.props
  simp only [logStruct, viewLog, TList.ofList, viewTags, this, viewTag_tagStruct, Option.map_some]

theorem viewLogs_ofList (es : List EventRecord) :
    viewLogs (TList.ofList (es.map logStruct))
      = some (es.map fun e => (e.timestamp / 1000, tagView "name" e.name :: e.props.map fun kv => tagView kv.1 kv.2)) := by
  induction es with
  | nil => rfl
  | cons e es ih => simp [TList.ofList, viewLogs, ih, viewLog_logStruct]

/-- **what is encoded is the record**: reading the span struct back gives exactly the view -/
theorem viewSpan_spanStruct (r : Record) : viewSpan (spanStruct r) = some (jaegerView r) := by
  have ht := viewTags_ofList r.props
  have hl := viewLogs_ofList r.events
  unfold spanStruct
  cases hp : r.props with
  | nil =>
    cases he : r.events with
    | nil => simp [viewSpan, viewTail, jaegerView, hp, he]
    | cons e es =>
      rw [he] at hl
      simp only [List.isEmpty_nil, List.isEmpty_cons, if_true, Bool.false_eq_true, if_false, viewSpan, viewTail, hl]
      simp [jaegerView, hp, he]
  | cons p ps =>
    rw [hp] at ht
    cases he : r.events with
    | nil =>
      simp only [List.isEmpty_nil, List.isEmpty_cons, if_true, Bool.false_eq_true, if_false, viewSpan, viewTail, ht]
      simp [jaegerView, hp, he]
    | cons e es =>
      rw [he] at hl
      simp only [List.isEmpty_cons, Bool.false_eq_true, if_false, viewSpan, viewTail, ht, hl]
      simp [jaegerView, hp, he]

theorem viewSpans_ofList (rs : List Record) :
    viewSpans (TList.ofList (rs.map spanStruct)) = some (rs.map jaegerView) := by
  induction rs with
  | nil => rfl
  | cons r rs ih => simp [TList.ofList, viewSpans, ih, viewSpan_spanStruct]

/-! ### well-formedness of what the reporter builds -/

theorem tagStruct_wf (k v : String) : (tagStruct k v).WF := by
  simp [tagStruct, TData.WF, TFields.WF]

theorem tags_wf (ps : Props) : (TList.ofList (ps.map fun kv => tagStruct kv.1 kv.2)).WF := by
  induction ps with
  | nil => simp [TList.ofList, TList.WF]
  | cons p ps ih => exact ⟨⟨_, rfl⟩, tagStruct_wf _ _, ih⟩

theorem logStruct_wf (e : EventRecord) (h : e.timestamp < 2 ^ 64) : (logStruct e).WF := by
  have h1 : e.timestamp / 1000 < 2 ^ 64 := by omega
  have h2 := tags_wf e.props
  simp only [logStruct, TData.WF, TFields.WF, TList.ofList, TList.WF]
  exact ⟨by decide, by decide, h1, by decide, by decide, ⟨⟨⟨_, rfl⟩, tagStruct_wf _ _, h2⟩, trivial⟩⟩

theorem logs_wf (es : List EventRecord) (h : ∀ e ∈ es, e.timestamp < 2 ^ 64) : (TList.ofList (es.map logStruct)).WF := by
  induction es with
  | nil => simp [TList.ofList, TList.WF]
  | cons e es ih =>
    exact ⟨⟨_, rfl⟩, logStruct_wf e (h e (by simp)), ih (fun x hx => h x (by simp [hx]))⟩

theorem spanStruct_wf (r : Record) (h : r.WF) : (spanStruct r).WF := by
  obtain ⟨_, hs, hp, hb, hd, he⟩ := h
  have h1 : r.traceId % 2 ^ 64 < 2 ^ 64 := Nat.mod_lt _ (by decide)
  have h2 : r.traceId / 2 ^ 64 % 2 ^ 64 < 2 ^ 64 := Nat.mod_lt _ (by decide)
  have h3 : r.beginNs / 1000 < 2 ^ 64 := by omega
  have h4 : r.durationNs / 1000 < 2 ^ 64 := by omega
  have ht := tags_wf r.props
  have hl := logs_wf r.events he
  unfold spanStruct
  simp only [TData.WF, TFields.WF]
  refine ⟨by decide, by decide, h1, by decide, by decide, h2, by decide, by decide, hs, by decide, by decide, hp,
    by decide, by decide, trivial, by decide, by decide, by decide, by decide, by decide, h3, by decide, by decide, h4, ?_⟩
  split
  · split
    · trivial
    · exact ⟨by decide, by decide, hl, trivial⟩
  · split
    · exact ⟨by decide, by decide, ht, trivial⟩
    · exact ⟨by decide, by decide, ht, by decide, by decide, hl, trivial⟩

theorem spans_wf (rs : List Record) (h : ∀ r ∈ rs, r.WF) : (TList.ofList (rs.map spanStruct)).WF := by
  induction rs with
  | nil => simp [TList.ofList, TList.WF]
  | cons r rs ih =>
    exact ⟨⟨_, by unfold spanStruct; rfl⟩, spanStruct_wf r (h r (by simp)), ih (fun x hx => h x (by simp [hx]))⟩

/-! ### the datagram -/

/-- decode a whole `emitBatch` one-way message: header, method name, then the argument struct
    `{1: Batch{1: Process{1: service}, 2: [spans]}}`; succeeds only if nothing is left over -/
def decodeBatch (bytes : Bytes) : Option (Bytes × List JView) :=
  match bytes with
  | 0x82 :: 0x81 :: rest =>
    match decVarint rest with
    | some (0, r1) =>
      match decData 1 8 r1 with
      | some (.binary name, r2) =>
        if name ≠ strBytes "emitBatch" then none else
        match decFields (3 * r2.length + 3) 0 r2 with
        | some (.cons 1 (.struct (.cons 1 (.struct (.cons 1 (.binary svc) .nil)) (.cons 2 (.list spans) .nil))) .nil, []) =>
          (viewSpans spans).map fun v => (svc, v)
        | _ => none
      | _ => none
    | _ => none
  | _ => none

end Fastrace.Jaeger

namespace Fastrace.Jaeger
open Fastrace Fastrace.Thrift

/-- **the whole datagram round-trips**: decoding what `serialize` produced for a batch gives
    back the service name and, for every record in order, exactly its Jaeger view -/
theorem decodeBatch_encodeBatch (svc : String) (rs : List Record) (h : ∀ r ∈ rs, r.WF) :
    decodeBatch (encodeBatch svc rs) = some (strBytes svc, rs.map jaegerView) := by
  let spans := TList.ofList (rs.map spanStruct)
  let body : TFields := .cons 1 (.struct (.cons 1 (processStruct svc) (.cons 2 (.list spans) .nil))) .nil
  have hwf : body.WF := by
    simp only [body, TFields.WF, TData.WF, processStruct]
    exact ⟨by decide, by decide, ⟨by decide, by decide, ⟨by decide, by decide, trivial, trivial⟩, by decide, by decide, spans_wf rs h, trivial⟩, trivial⟩
  have henc : encodeBatch svc rs
      = 0x82 :: 0x81 :: (varint 0 ++ ((varint (strBytes "emitBatch").length ++ strBytes "emitBatch") ++ (encFields 0 body ++ []))) := by
    simp [encodeBatch, encMessageOneway, body, spans]
  rw [henc]
  simp only [decodeBatch, decVarint_varint]
  have hname := decData_encData (.binary (strBytes "emitBatch")) 1 (encFields 0 body ++ []) trivial (by simp [TData.size])
  simp only [compactKind, encData] at hname
  rw [hname]
  simp only [ne_eq, not_true_eq_false, if_false]
  have hfuel : body.size ≤ 3 * (encFields 0 body ++ []).length + 3 := by
    have := size_le_fields body 0
    simp only [List.append_nil]; omega
  rw [decFields_encFields body _ 0 [] hwf hfuel]
  simp only [body, processStruct]
  show Option.map (fun v => (strBytes svc, v)) (viewSpans (TList.ofList (rs.map spanStruct))) = _
  rw [viewSpans_ofList]; rfl

end Fastrace.Jaeger
