import FastraceModel.Lemmas.FlowCycle

/-!
The per-thread order invariant under the collector's operations: a drain moves the contents
of one thread's ring, in order, into what has been popped from that thread; nothing else.
Then `exec` and `run`.
-/
namespace Fastrace

theorem FifoInv.init : FifoInv Sys.init := by
  refine ⟨?_, ?_, ?_⟩
  · intro t _
    simp [Sys.init, Sys.ringQ, Sys.ringOf, natGet, Sys.th, Th.fresh]
  · simp [Sys.ringKeys, Sys.init]
  · intro t ht
    simp [Sys.ringKeys, Sys.init] at ht

/-- the general shape of a collector step: the drain state is replaced, what was popped is logged -/
theorem FifoInv.withCyc {s : Sys} (h : FifoInv s) (cs' : CycState) (g' : Ghost)
    (hab : g'.acceptedBy = s.g.acceptedBy)
    (hord : ∀ t, (byT t g'.drainedBy).reverse ++ (((natGet cs'.todo t).orElse fun _ => natGet cs'.kept t).map fun r : Ring Cmd => r.q).getD []
      = (byT t s.g.drainedBy).reverse ++ s.ringQ t)
    (hkeys : ((cs'.todo ++ cs'.kept).map (·.1)).Nodup)
    (hsub : ∀ t ∈ (cs'.todo ++ cs'.kept).map (·.1), t ∈ s.ringKeys) :
    FifoInv ({ (s.withG g') with cyc := some cs' } : Sys) := by
  refine ⟨?_, hkeys, fun t ht => h.reg t (hsub t ht)⟩
  intro t ha
  have ho := h.order t ha
  show (byT t g'.acceptedBy).reverse = (byT t g'.drainedBy).reverse ++
    (((natGet cs'.todo t).orElse fun _ => natGet cs'.kept t).map fun r : Ring Cmd => r.q).getD [] ++ (s.th t).pending
  rw [hab, hord t]
  exact ho

/-- nothing popped: only the drain's bookkeeping changes -/
theorem FifoInv.withCyc_same {s : Sys} (h : FifoInv s) (cs' : CycState)
    (hro : ∀ t, ((natGet cs'.todo t).orElse fun _ => natGet cs'.kept t) = s.ringOf t)
    (hkeys : (cs'.todo ++ cs'.kept).map (·.1) = s.ringKeys) :
    FifoInv ({ s with cyc := some cs' } : Sys) := by
  have := h.withCyc cs' s.g rfl (fun t => by unfold Sys.ringQ; rw [hro t]) (by rw [hkeys]; exact h.nodup)
    (fun t ht => by rw [hkeys] at ht; exact ht)
  exact this

theorem Sys.ringOf_some_cyc (s : Sys) (cs : CycState) (hc : s.cyc = some cs) (t : Nat) :
    s.ringOf t = (natGet cs.todo t).orElse fun _ => natGet cs.kept t := by
  unfold Sys.ringOf; rw [hc]

theorem Sys.ringKeys_some_cyc (s : Sys) (cs : CycState) (hc : s.cyc = some cs) :
    s.ringKeys = (cs.todo ++ cs.kept).map (·.1) := by
  unfold Sys.ringKeys; rw [hc]

theorem byT_notin (t : Nat) (l : List (Nat × Ring Cmd)) (h : t ∉ l.map (·.1)) : byT t (drainAllTagged l) = [] := by
  induction l with
  | nil => rfl
  | cons e rest ih =>
    obtain ⟨k, r⟩ := e
    simp only [List.map_cons, List.mem_cons, not_or] at h
    simp only [drainAllTagged, byT_append]
    rw [byT_tagged_other _ _ _ (fun x => h.1 x.symm), ih h.2]
    rfl

/-- what a whole drain pops from thread `t`'s ring is that ring's content -/
theorem byT_drainAllTagged (t : Nat) (l : List (Nat × Ring Cmd)) (hn : (l.map (·.1)).Nodup) :
    byT t (drainAllTagged l) = ((natGet l t).map fun r : Ring Cmd => r.q).getD [] := by
  induction l with
  | nil => rfl
  | cons e rest ih =>
    obtain ⟨k, r⟩ := e
    simp only [List.map_cons, List.nodup_cons] at hn
    simp only [drainAllTagged, byT_append]
    by_cases e : k = t
    · subst e
      rw [byT_tagged_same, byT_notin k rest hn.1]
      simp [natGet]
    · have hb : (k == t) = false := by simp [e]
      rw [byT_tagged_other _ _ _ e, ih hn.2]
      simp [natGet, List.find?, hb]

theorem drainAll_keys_sub (l : List (Nat × Ring Cmd)) : ((drainAll l).1.map (·.1)).Sublist (l.map (·.1)) := by
  induction l with
  | nil => exact List.Sublist.refl _
  | cons e rest ih =>
    obtain ⟨k, ⟨q, cap, alive⟩⟩ := e
    cases alive
    · simpa [drainAll, Ring.drain] using ih.cons k
    · simpa [drainAll, Ring.drain] using ih.cons₂ k

theorem drainAll_empty' (rxs : List (Nat × Ring Cmd)) : ∀ e ∈ (drainAll rxs).1, e.2.q = [] := by
  induction rxs with
  | nil => intro e he; cases he
  | cons x rest ih =>
    obtain ⟨t, ⟨q, cap, alive⟩⟩ := x
    cases alive
    · simpa [drainAll, Ring.drain] using ih
    · intro e he
      simp only [drainAll, Ring.drain, if_true, List.mem_cons] at he
      rcases he with rfl | he
      · rfl
      · exact ih e he

theorem drainAll_kept_empty (l : List (Nat × Ring Cmd)) (t : Nat) :
    ((natGet (drainAll l).1 t).map fun r : Ring Cmd => r.q).getD [] = [] := by
  cases hg : natGet (drainAll l).1 t with
  | none => rfl
  | some r =>
    obtain ⟨e, he, rfl⟩ := natGet_mem hg
    exact drainAll_empty' l e he

/-! ### the collector's operations -/

/-- processing + report: the rings move back into the registry, nothing is popped -/
theorem FifoInv.afterProcessing {s S' : Sys} (h : FifoInv s) (kept : List (Nat × Ring Cmd))
    (f1 : S'.cyc = none) (f2 : S'.rxs = kept) (f3 : ∀ t, S'.th t = s.th t)
    (fa : S'.g.acceptedBy = s.g.acceptedBy) (fd : S'.g.drainedBy = s.g.drainedBy)
    (hro : ∀ t, natGet kept t = s.ringOf t) (hkeys : kept.map (·.1) = s.ringKeys) :
    FifoInv S' := by
  have fk : S'.ringKeys = s.ringKeys := by
    unfold Sys.ringKeys; rw [f1, f2]; exact hkeys
  have fq : ∀ t, S'.ringQ t = s.ringQ t := by
    intro t; unfold Sys.ringQ Sys.ringOf; rw [f1, f2]; dsimp only; rw [hro t]; rfl
  refine ⟨?_, by rw [fk]; exact h.nodup, fun t ht => by rw [fk] at ht; rw [f3]; exact h.reg t ht⟩
  intro t ha
  rw [f3] at ha ⊢
  rw [fa, fd, fq]
  exact h.order t ha

theorem FifoInv.finishCycle {s : Sys} (h : FifoInv s) (kept : List (Nat × Ring Cmd)) (buf buf2 : List Cmd)
    (hro : ∀ t, natGet kept t = s.ringOf t) (hkeys : kept.map (·.1) = s.ringKeys) :
    FifoInv (s.finishCycleP kept buf buf2).1 := by
  obtain ⟨f1, f2, f3, fa, fd⟩ := Sys.finishCycleP_fields s kept buf buf2
  exact h.afterProcessing kept f1 f2 f3 fa fd hro hkeys

theorem FifoInv.cycBegin {s : Sys} (h : FifoInv s) : FifoInv s.cycBegin.1 := by
  unfold Sys.cycBegin
  cases hc : s.cyc with
  | some cs => exact h
  | none =>
    dsimp only
    have hro : ∀ t, s.ringOf t = natGet s.rxs t := by intro t; unfold Sys.ringOf; rw [hc]
    have hk : s.ringKeys = s.rxs.map (·.1) := by unfold Sys.ringKeys; rw [hc]
    split
    · rename_i hr
      refine h.withCyc_same { phase := .atReport, todo := [], kept := [], buf := [] } (fun t => ?_) ?_
      · rw [hro t, hr]; rfl
      · rw [hk, hr]; rfl
    · refine h.withCyc_same { phase := .atRx, todo := s.rxs, kept := [], buf := [] } (fun t => ?_) ?_
      · rw [hro t]; simp [natGet, orElse_none']
      · rw [hk]; simp

/-- a whole cycle: every ring is emptied into what has been popped from its thread -/
theorem FifoInv.cycle {s : Sys} (h : FifoInv s) (hc : s.cyc = none) : FifoInv s.cycle.1 := by
  unfold Sys.cycle
  have hro : ∀ t, s.ringOf t = natGet s.rxs t := by intro t; unfold Sys.ringOf; rw [hc]
  have hk : s.ringKeys = s.rxs.map (·.1) := by unfold Sys.ringKeys; rw [hc]
  have hn : (s.rxs.map (·.1)).Nodup := by rw [← hk]; exact h.nodup
  -- the state after the drain, before processing
  generalize hg : ({ s.g with drainedBy := (drainAllTagged s.rxs).reverse ++ s.g.drainedBy } : Ghost) = g'
  have ga : g'.acceptedBy = s.g.acceptedBy := by rw [← hg]
  have gd : g'.drainedBy = (drainAllTagged s.rxs).reverse ++ s.g.drainedBy := by rw [← hg]
  show FifoInv ((s.withG g').finishCycleP (drainAll s.rxs).1 (drainAll s.rxs).2 []).1
  obtain ⟨f1, f2, f3, fa, fd⟩ := Sys.finishCycleP_fields (s.withG g') (drainAll s.rxs).1 (drainAll s.rxs).2 []
  generalize ((s.withG g').finishCycleP (drainAll s.rxs).1 (drainAll s.rxs).2 []).1 = S' at f1 f2 f3 fa fd ⊢
  have f3 : ∀ t, S'.th t = s.th t := f3
  have fa : S'.g.acceptedBy = g'.acceptedBy := fa
  have fd : S'.g.drainedBy = g'.drainedBy := fd
  refine ⟨?_, ?_, ?_⟩
  · intro t ha
    rw [f3] at ha ⊢
    have ho := h.order t ha
    have hq : Sys.ringQ S' t = [] := by
      unfold Sys.ringQ Sys.ringOf
      rw [f1, f2]
      exact drainAll_kept_empty s.rxs t
    rw [fa, fd, hq, ga, gd, byT_append, byT_reverse, List.reverse_append, List.reverse_reverse,
      byT_drainAllTagged t s.rxs hn, ho]
    unfold Sys.ringQ
    rw [hro t]
    simp
  · unfold Sys.ringKeys
    rw [f1, f2]
    exact (drainAll_keys_sub s.rxs).nodup hn
  · intro t ht
    unfold Sys.ringKeys at ht
    rw [f1, f2] at ht
    rw [f3]
    exact h.reg t (by rw [hk]; exact (drainAll_keys_sub s.rxs).subset ht)

theorem natGet_cons_same {β : Type} (t : Nat) (r : β) (rest : List (Nat × β)) : natGet ((t, r) :: rest) t = some r := by
  simp [natGet]

theorem natGet_cons_other {β : Type} (t t2 : Nat) (r : β) (rest : List (Nat × β)) (h : t2 ≠ t) :
    natGet ((t, r) :: rest) t2 = natGet rest t2 := by
  have hb : (t == t2) = false := by simp; exact fun e => h e.symm
  simp [natGet, List.find?, hb]

theorem natGet_snoc_other {β : Type} (t t2 : Nat) (r : β) (l : List (Nat × β)) (h : t2 ≠ t) :
    natGet (l ++ [(t, r)]) t2 = natGet l t2 := by
  rw [natGet_append, natGet_cons_other _ _ _ _ h]
  show (natGet l t2).orElse (fun _ => natGet [] t2) = _
  exact orElse_none' _

theorem natGet_snoc_same {β : Type} (t : Nat) (r : β) (l : List (Nat × β)) (h : t ∉ l.map (·.1)) :
    natGet (l ++ [(t, r)]) t = some r := by
  rw [natGet_append, natGet_none_of_not_mem l t h, natGet_cons_same]
  rfl

/-- one step of the collector -/
theorem FifoInv.cycStep {s : Sys} (h : FifoInv s) (hw : CycWF s) : FifoInv s.cycStep.1 := by
  unfold Sys.cycStep
  cases hc : s.cyc with
  | none => exact h
  | some cs =>
    dsimp only
    have hwf := hw cs hc
    have hro := Sys.ringOf_some_cyc s cs hc
    have hk := Sys.ringKeys_some_cyc s cs hc
    have hnd : ((cs.todo ++ cs.kept).map (·.1)).Nodup := by rw [← hk]; exact h.nodup
    have hq : ∀ t, s.ringQ t = (((natGet cs.todo t).orElse fun _ => natGet cs.kept t).map fun r : Ring Cmd => r.q).getD [] := by
      intro t; unfold Sys.ringQ; rw [hro t]
    split
    · -- atReport
      rename_i hph
      have ht := hwf (.inr hph)
      refine h.finishCycle cs.kept cs.buf cs.buf2 (fun t => ?_) ?_
      · rw [hro t, ht]; rfl
      · rw [hk, ht]; rfl
    · -- atRx2
      rename_i hph
      have ht := hwf (.inl hph)
      split
      · exact h.withCyc_same _ (fun t => (hro t).symm) hk.symm
      · rename_i t rest hrest
        -- both sub-branches pop thread `t`'s retained ring
        have key : ∀ (ph : CycPhase), FifoInv ({ (s.logDrained t ((natGet cs.kept t).getD (Ring.new Consts.ringCap)).q) with
            cyc := some { cs with phase := ph,
                                  kept := (if (natGet cs.kept t).isSome then
                                    natSet cs.kept t { (natGet cs.kept t).getD (Ring.new Consts.ringCap) with q := [] } else cs.kept),
                                  buf2 := cs.buf2 ++ ((natGet cs.kept t).getD (Ring.new Consts.ringCap)).q, todo2 := rest } } : Sys) := by
          intro ph
          have hnil : ∀ k, natGet ([] : List (Nat × Ring Cmd)) k = none := fun _ => rfl
          refine h.withCyc _ _ rfl (fun t2 => ?_) ?_ ?_
          · rw [hq t2, ht]
            show (byT t2 ((((natGet cs.kept t).getD (Ring.new Consts.ringCap)).q.map fun c => (t, c)).reverse ++ s.g.drainedBy)).reverse ++ _ = _
            rw [byT_append, byT_reverse, List.reverse_append, List.reverse_reverse]
            cases hg : natGet cs.kept t with
            | none =>
              simp only [Option.isSome_none, Bool.false_eq_true, if_false, Option.getD_none, Ring.new, List.map_nil, byT_nil, List.append_nil]
            | some r0 =>
              simp only [Option.isSome_some, if_true, Option.getD_some]
              by_cases e : t2 = t
              · subst e
                rw [byT_tagged_same, natGet_natSet_same]
                simp [hnil, hg]
              · rw [byT_tagged_other _ _ _ (fun x => e x.symm), natGet_natSet_other _ _ _ _ e]
                simp
          · rw [ht]
            cases hg : natGet cs.kept t with
            | none => simpa [ht] using hnd
            | some r0 =>
              simp only [Option.isSome_some, if_true, List.nil_append]
              rw [natSet_keys cs.kept t _ (natGet_isSome_mem cs.kept t (by rw [hg]; rfl))]
              simpa [ht] using hnd
          · intro t2 ht2
            rw [hk]
            rw [ht] at ht2 ⊢
            cases hg : natGet cs.kept t with
            | none => simpa [hg] using ht2
            | some r0 =>
              simp only [hg, Option.isSome_some, if_true, List.nil_append] at ht2
              rw [natSet_keys cs.kept t _ (natGet_isSome_mem cs.kept t (by rw [hg]; rfl))] at ht2
              simpa using ht2
        split
        · exact key .atReport
        · have := key cs.phase
          exact this
    · -- first pass over, nothing left to visit
      rcases CycState.afterFirst_cases cs with e | e <;> rw [e] <;> dsimp only
      · exact h.withCyc_same _ (fun t => (hro t).symm) hk.symm
      · exact h.withCyc_same _ (fun t => (hro t).symm) hk.symm
    · -- atRx: pop everything in the ring at the head of `todo`
      rename_i t r rest hph htodo
      refine h.withCyc _ _ rfl (fun t2 => ?_) ?_ ?_
      · rw [hq t2, htodo]
        show (byT t2 ((r.q.map fun c => (t, c)).reverse ++ s.g.drainedBy)).reverse ++ _ = _
        rw [byT_append, byT_reverse, List.reverse_append, List.reverse_reverse]
        by_cases e : t2 = t
        · subst e
          rw [byT_tagged_same, natGet_cons_same, natGet_cons_same]
          simp
        · rw [byT_tagged_other _ _ _ (fun x => e x.symm), natGet_cons_other _ _ _ _ e, natGet_cons_other _ _ _ _ e]
          simp
      · rw [htodo] at hnd; simpa using hnd
      · intro t2 ht2
        rw [hk, htodo]
        simpa using ht2
    · -- atEmpty: the abandoned check
      rename_i t r rest hph htodo
      rw [htodo] at hnd hk
      have hnd' := hnd
      simp only [List.cons_append, List.map_cons, List.nodup_cons, List.map_append, List.mem_append, not_or] at hnd'
      obtain ⟨⟨hnr, hnk⟩, hnd2⟩ := hnd'
      -- the receiver moves behind the retained ones: every lookup gives what it gave before
      have moved : ∀ t2, ((natGet rest t2).orElse fun _ => natGet (cs.kept ++ [(t, r)]) t2)
          = ((natGet ((t, r) :: rest) t2).orElse fun _ => natGet cs.kept t2) := by
        intro t2
        by_cases e : t2 = t
        · subst e
          rw [natGet_none_of_not_mem rest t2 hnr, natGet_snoc_same t2 r cs.kept hnk, natGet_cons_same]
          rfl
        · rw [natGet_snoc_other _ _ _ _ e, natGet_cons_other _ _ _ _ e]
      have movedKeys : ((rest ++ (cs.kept ++ [(t, r)])).map (·.1)).Nodup := by
        simp only [List.map_append, List.map_cons, List.map_nil]
        rw [← List.append_assoc]
        refine List.nodup_append.mpr ⟨hnd2, by simp, ?_⟩
        intro a ha b hb
        simp only [List.mem_singleton] at hb
        subst hb
        intro e; subst e
        rcases List.mem_append.mp ha with ha | ha
        · exact hnr ha
        · exact hnk ha
      have movedSub : ∀ t2 ∈ (rest ++ (cs.kept ++ [(t, r)])).map (·.1), t2 ∈ s.ringKeys := by
        intro t2 ht2
        rw [hk]
        simp only [List.map_append, List.map_cons, List.map_nil, List.mem_append, List.cons_append, List.mem_cons,
          List.not_mem_nil, or_false] at ht2 ⊢
        rcases ht2 with ht2 | ht2 | ht2
        · exact .inr (.inl ht2)
        · exact .inr (.inr ht2)
        · exact .inl ht2
      -- … or is dropped (its ring is empty): lookups give an empty ring or none
      have droppedQ : r.q = [] → ∀ t2, (((natGet rest t2).orElse fun _ => natGet cs.kept t2).map fun r : Ring Cmd => r.q).getD []
          = (((natGet ((t, r) :: rest) t2).orElse fun _ => natGet cs.kept t2).map fun r : Ring Cmd => r.q).getD [] := by
        intro hq0 t2
        by_cases e : t2 = t
        · subst e
          rw [natGet_none_of_not_mem rest t2 hnr, natGet_none_of_not_mem cs.kept t2 hnk, natGet_cons_same]
          simp [hq0]
        · rw [natGet_cons_other _ _ _ _ e]
      have droppedKeys : ((rest ++ cs.kept).map (·.1)).Nodup := by simpa using hnd2
      have droppedSub : ∀ t2 ∈ (rest ++ cs.kept).map (·.1), t2 ∈ s.ringKeys := by
        intro t2 ht2
        rw [hk]
        simp only [List.map_append, List.mem_append, List.cons_append, List.map_cons, List.mem_cons] at ht2 ⊢
        exact .inr ht2
      split
      · -- the producer is alive: keep the receiver
        cases hrest : rest with
        | nil =>
          dsimp only
          rcases CycState.afterFirst_cases { cs with phase := .atRx, todo := [], kept := cs.kept ++ [(t, r)] } with e | e <;>
            rw [e] <;> dsimp only
          · refine h.withCyc _ s.g rfl (fun t2 => ?_) (by simpa [hrest] using movedKeys) (fun t2 ht2 => movedSub t2 (by simpa [hrest] using ht2))
            rw [hq t2, htodo]
            have := moved t2
            rw [hrest] at this
            rw [this, hrest]
          · refine h.withCyc _ s.g rfl (fun t2 => ?_) (by simpa [hrest] using movedKeys) (fun t2 ht2 => movedSub t2 (by simpa [hrest] using ht2))
            rw [hq t2, htodo]
            have := moved t2
            rw [hrest] at this
            rw [this, hrest]
        | cons a b =>
          dsimp only
          rw [← hrest]
          refine h.withCyc _ s.g rfl (fun t2 => ?_) movedKeys movedSub
          rw [hq t2, htodo, moved t2]
      · split
        · -- abandoned and empty: the receiver is removed
          rename_i hq0
          cases hrest : rest with
          | nil =>
            dsimp only
            rcases CycState.afterFirst_cases { cs with phase := .atRx, todo := [] } with e | e <;> rw [e] <;> dsimp only
            · refine h.withCyc _ s.g rfl (fun t2 => ?_) (by simpa [hrest] using droppedKeys) (fun t2 ht2 => droppedSub t2 (by simpa [hrest] using ht2))
              rw [hq t2, htodo]
              have := droppedQ hq0 t2
              rw [hrest] at this
              rw [this, hrest]
            · refine h.withCyc _ s.g rfl (fun t2 => ?_) (by simpa [hrest] using droppedKeys) (fun t2 ht2 => droppedSub t2 (by simpa [hrest] using ht2))
              rw [hq t2, htodo]
              have := droppedQ hq0 t2
              rw [hrest] at this
              rw [this, hrest]
          | cons a b =>
            dsimp only
            rw [← hrest]
            refine h.withCyc _ s.g rfl (fun t2 => ?_) droppedKeys droppedSub
            rw [hq t2, htodo, droppedQ hq0 t2]
        · -- abandoned, but the re-check finds commands: they are popped like any others
          refine h.withCyc _ _ rfl (fun t2 => ?_) ?_ ?_
          · rw [hq t2, htodo]
            show (byT t2 ((r.q.map fun c => (t, c)).reverse ++ s.g.drainedBy)).reverse ++ _ = _
            rw [byT_append, byT_reverse, List.reverse_append, List.reverse_reverse]
            by_cases e : t2 = t
            · subst e
              rw [byT_tagged_same, natGet_cons_same, natGet_cons_same]
              simp
            · rw [byT_tagged_other _ _ _ (fun x => e x.symm), natGet_cons_other _ _ _ _ e, natGet_cons_other _ _ _ _ e]
              simp
          · simpa using hnd
          · intro t2 ht2
            rw [hk]
            simpa using ht2

/-- **every operation keeps the per-thread order invariant** -/
theorem exec_fifo (s : Sys) (t : Nat) (op : Op) (hc : ChanInv s) (h : FifoInv s) : FifoInv (exec s t op).1 := by
  cases hop : op.isCollectorOp with
  | false => exact (exec_step s t op hop).fifo h
  | true =>
    cases op with
    | setReporter c =>
      simp only [exec]
      exact ⟨h.order, h.nodup, h.reg⟩
    | cycle =>
      simp only [exec]
      split
      · exact h
      · rename_i hcy
        exact h.cycle (by simpa using hcy)
    | flush =>
      simp only [exec]
      split
      · exact h
      · rename_i hcy
        exact h.cycle (by simpa using hcy)
    | cycBegin => simp only [exec]; exact h.cycBegin
    | cycStep => simp only [exec]; exact h.cycStep hc.wf
    | _ => cases hop

theorem run_fifo (p : Program) (s : Sys) (hc : ChanInv s) (h : FifoInv s) : FifoInv (run s p).1 := by
  induction p generalizing s with
  | nil => exact h
  | cons x rest ih =>
    obtain ⟨t, op⟩ := x
    simp only [run]
    exact ih _ (exec_chan s t op hc) (exec_fifo s t op hc h)

end Fastrace
