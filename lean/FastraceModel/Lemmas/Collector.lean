import FastraceModel.Model.Collector

/-! facts about the record-building functions of the collector (`amend_*`, `mount_danglings`,
`postprocess_span_collection`) -/
namespace Fastrace

/-- everything of a record except what attachments may change -/
structure Core where
  traceId : Nat
  spanId : Nat
  parentId : Nat
  beginNs : Nat
  durationNs : Nat
  name : String
deriving DecidableEq, Repr

def Record.core (r : Record) : Core := ⟨r.traceId, r.spanId, r.parentId, r.beginNs, r.durationNs, r.name⟩

@[simp] theorem applyDangling_core (r : Record) (d : Dangling) : (applyDangling r d).core = r.core := by
  cases d <;> rfl

theorem foldl_applyDangling_core (items : List Dangling) (r : Record) :
    (items.foldl applyDangling r).core = r.core := by
  induction items generalizing r with
  | nil => rfl
  | cons d ds ih => simp [List.foldl, ih]

/-- mounting attachments never changes ids, trace, parent, times or names, nor the number or
    order of records -/
theorem mountDanglings_core (rs : List Record) (d : Danglings) :
    (mountDanglings rs d).1.map Record.core = rs.map Record.core := by
  induction rs generalizing d with
  | nil => simp [mountDanglings]
  | cons r rs ih =>
    simp only [mountDanglings]
    split
    · simp [ih, foldl_applyDangling_core]
    · simp [ih]

/-- the cores that one raw span of a local set contributes -/
def localCore (conv : Nat → Nat) (endT trace tokParent : Nat) (raw : RawSpan) : List Core :=
  match raw.kind with
  | .span =>
    [⟨trace, raw.id, if raw.parentId = 0 then tokParent else raw.parentId, conv raw.beginT,
      (if raw.endT = 0 then conv endT else conv raw.endT) - conv raw.beginT, raw.name⟩]
  | _ => []

theorem amendLocalOne_core (conv : Nat → Nat) (endT trace p : Nat) (acc : List Record × Danglings)
    (raw : RawSpan) :
    (amendLocalOne conv endT trace p acc raw).1.map Record.core
      = acc.1.map Record.core ++ localCore conv endT trace p raw := by
  unfold amendLocalOne localCore
  cases raw.kind <;> simp [Record.core]

theorem amendLocal_core (conv : Nat → Nat) (spans : List RawSpan) (endT trace p : Nat)
    (acc : List Record × Danglings) :
    (amendLocal conv spans endT trace p acc).1.map Record.core
      = acc.1.map Record.core ++ spans.flatMap (localCore conv endT trace p) := by
  unfold amendLocal
  induction spans generalizing acc with
  | nil => simp
  | cons raw rest ih =>
    simp only [List.foldl, List.flatMap_cons]
    rw [ih, amendLocalOne_core, List.append_assoc]

/-- the cores a thread-safe span's raw span contributes under one token item -/
def spanCore (conv : Nat → Nat) (trace parent : Nat) (raw : RawSpan) : List Core :=
  match raw.kind with
  | .span => [⟨trace, raw.id, parent, conv raw.beginT, conv raw.endT - conv raw.beginT, raw.name⟩]
  | _ => []

theorem amendSpan_core (conv : Nat → Nat) (raw : RawSpan) (trace p : Nat) (acc : List Record × Danglings) :
    (amendSpan conv raw trace p acc).1.map Record.core
      = acc.1.map Record.core ++ spanCore conv trace p raw := by
  unfold amendSpan spanCore
  cases raw.kind <;> simp [Record.core]

/-- what a collection contributes: its records' cores are a function of the span set and of
    the token item's `(trace, parent)` alone -/
def collectionCores (conv : Nat → Nat) (col : Collection) : List Core :=
  match col.spans with
  | .span raw => spanCore conv col.traceId col.parentId raw
  | .locals spans endT => spans.flatMap (localCore conv endT col.traceId col.parentId)

theorem amendCollection_core (conv : Nat → Nat) (acc : List Record × Danglings) (col : Collection) :
    (amendCollection conv acc col).1.map Record.core
      = acc.1.map Record.core ++ collectionCores conv col := by
  unfold amendCollection collectionCores
  cases col.spans with
  | span raw => exact amendSpan_core conv raw _ _ acc
  | locals spans endT => exact amendLocal_core conv spans endT _ _ acc

theorem foldl_amendCollection_core (conv : Nat → Nat) (cols : List Collection)
    (acc : List Record × Danglings) :
    (cols.foldl (amendCollection conv) acc).1.map Record.core
      = acc.1.map Record.core ++ cols.flatMap (collectionCores conv) := by
  induction cols generalizing acc with
  | nil => simp
  | cons c cs ih =>
    simp only [List.foldl, List.flatMap_cons]
    rw [ih, amendCollection_core, List.append_assoc]

/-- `postprocess_span_collection` appends exactly the cores of its collections, in order -/
theorem postprocess_core (conv : Nat → Nat) (cols : List Collection) (committed : List Record)
    (d : Danglings) :
    (postprocess conv cols committed d).1.map Record.core
      = committed.map Record.core ++ cols.flatMap (collectionCores conv) := by
  unfold postprocess
  simp only [List.map_append, mountDanglings_core]
  rw [foldl_amendCollection_core]
  simp

end Fastrace
