import FastraceModel.Lemmas.ProvOps

/-!
A program that never installs a reporter: every span is a no-op, no scope carries a token,
nothing is ever sent, no span-handle closure runs, nothing is reported (C16, enable half,
"created before a reporter is installed").
-/
namespace Fastrace

/-- every span line on the stack has a token satisfying `P` -/
def StackAll (P : Option Token → Prop) (st : Stack) : Prop := ∀ l ∈ st.lines, P l.token

theorem stackAll_lines {P : Option Token → Prop} {st st' : Stack} (h : StackAll P st)
    (hl : ∀ l' ∈ st'.lines, ∃ l ∈ st.lines, l'.token = l.token) : StackAll P st' := by
  intro l' hl'
  obtain ⟨l, hlm, e⟩ := hl l' hl'
  rw [e]; exact h l hlm

theorem StackAll.enterSpan {P : Option Token → Prop} {st st' : Stack} {c c' : Ctr} {n : String} {h : LocalHandle}
    (hok : StackAll P st) (hs : st.enterSpan c n = some (st', h, c')) : StackAll P st' := by
  unfold Stack.enterSpan at hs
  cases hl : st.lines with
  | nil => rw [hl] at hs; cases hs
  | cons l ls =>
    rw [hl] at hs
    dsimp only at hs
    cases hss : l.startSpan c n with
    | none => rw [hss] at hs; cases hs
    | some res =>
      obtain ⟨l', h', c''⟩ := res
      rw [hss] at hs
      simp only [Option.some.injEq, Prod.mk.injEq] at hs
      rw [← hs.1]
      exact stackAll_lines hok (head_upd hl (SpanLine.startSpan_token l c n l' h' c'' hss))

theorem StackAll.exitSpan {P : Option Token → Prop} {st : Stack} (hok : StackAll P st) (c : Ctr) (h : LocalHandle) :
    StackAll P (st.exitSpan c h).1 := by
  unfold Stack.exitSpan
  cases hl : st.lines with
  | nil => dsimp only; exact hok
  | cons l ls => exact stackAll_lines hok (head_upd hl (SpanLine.finishSpan_token l c h))

theorem StackAll.addEvent {P : Option Token → Prop} {st : Stack} (hok : StackAll P st) (c : Ctr) (n : String)
    (p : Option Props) : StackAll P (st.addEvent c n p).1 := by
  unfold Stack.addEvent
  cases hl : st.lines with
  | nil => dsimp only; exact hok
  | cons l ls => exact stackAll_lines hok (head_upd hl (SpanLine.addEvent_token l c n p))

theorem StackAll.addProps {P : Option Token → Prop} {st : Stack} (hok : StackAll P st) (c : Ctr) (kvs : Props) :
    StackAll P (st.addProps c kvs).1 := by
  unfold Stack.addProps
  cases hl : st.lines with
  | nil => dsimp only; exact hok
  | cons l ls => exact stackAll_lines hok (head_upd hl (SpanLine.addProps_token l c kvs))

theorem StackAll.withProps {P : Option Token → Prop} {st : Stack} (hok : StackAll P st) (h : LocalHandle) (kvs : Props) :
    StackAll P (st.withProps h kvs) := by
  unfold Stack.withProps
  cases hl : st.lines with
  | nil => dsimp only; exact hok
  | cons l ls => exact stackAll_lines hok (head_upd hl (SpanLine.withProps_token l h kvs))

theorem StackAll.registerLine {P : Option Token → Prop} {st st' : Stack} {tok : Option Token} {e : Nat}
    (hok : StackAll P st) (ht : P tok) (hr : st.registerLine tok = some (st', e)) : StackAll P st' := by
  unfold Stack.registerLine at hr
  split at hr
  · cases hr
  · simp only [Option.some.injEq, Prod.mk.injEq] at hr
    rw [← hr.1]
    intro l hl
    simp only [List.mem_cons] at hl
    rcases hl with rfl | hl
    · simpa [SpanLine.new] using ht
    · exact hok l hl

theorem StackAll.unregister {P : Option Token → Prop} {st : Stack} (hok : StackAll P st) (e : Nat) :
    StackAll P (st.unregisterAndCollect e).1 ∧
    ∀ spans tok, (st.unregisterAndCollect e).2 = some (spans, tok) → P tok := by
  unfold Stack.unregisterAndCollect
  cases hl : st.lines with
  | nil => exact ⟨by dsimp only; exact hok, by simp⟩
  | cons l ls =>
    dsimp only
    refine ⟨fun x hx => hok x (by simp [hl, hx]), ?_⟩
    intro spans tok hc
    unfold SpanLine.collect at hc
    split at hc
    · simp only [Option.some.injEq, Prod.mk.injEq] at hc
      rw [← hc.2]; exact hok l (by simp [hl])
    · cases hc

theorem StackAll.currentToken_none {st : Stack} (hok : StackAll (· = none) st) : st.currentToken = none := by
  unfold Stack.currentToken
  cases hl : st.lines with
  | nil => rfl
  | cons l ls =>
    dsimp only
    unfold SpanLine.currentToken
    rw [hok l (by simp [hl])]
    rfl

/-- no reporter has been installed: every span handle is a no-op and no scope has a token -/
structure NoRep (s : Sys) : Prop where
  ready : s.reporterReady = false
  has : s.coll.hasReporter = false
  spans : ∀ e ∈ s.spans, e.2 = none
  ads : ∀ e ∈ s.adapters, ∀ sv, e.2.span = some sv → sv = none
  lines : ∀ t, StackAll (· = none) (s.th t).stack

theorem NoRep.init : NoRep Sys.init :=
  ⟨rfl, rfl, by simp [Sys.init], by simp [Sys.init],
   by
     intro t
     simp only [Sys.th, Sys.init, natGet, List.find?, Option.map, Option.getD, Th.fresh]
     simp [StackAll, Stack.withCapacity]⟩

theorem NoRep.getSpan {s : Sys} (h : NoRep s) {v : String} {sv : SpanVal} (hg : assocGet s.spans v = some sv) :
    sv = none := by
  obtain ⟨e, he, rfl⟩ := assocGet_mem hg
  exact h.spans e he

theorem NoRep.setSG {s : Sys} (h : NoRep s) (t : Nat) (st : Stack) (gs : List Guard)
    (hst : StackAll (· = none) st) : NoRep (s.setTh t { s.th t with stack := st, guards := gs }) := by
  refine ⟨h.ready, h.has, h.spans, h.ads, ?_⟩
  intro t2
  by_cases e : t2 = t
  · subst e; rw [Sys.th_setTh_same]; exact hst
  · rw [Sys.th_setTh_other _ _ _ _ e]; exact h.lines t2

theorem NoRep.setGuards {s : Sys} (h : NoRep s) (t : Nat) (gs : List Guard) :
    NoRep (s.setTh t { s.th t with guards := gs }) := h.setSG t _ gs (h.lines t)

theorem NoRep.setStack {s : Sys} (h : NoRep s) (t : Nat) (st : Stack) (hst : StackAll (· = none) st) :
    NoRep (s.setTh t { s.th t with stack := st }) := h.setSG t st _ hst

theorem NoRep.putCtr {s : Sys} (h : NoRep s) (t : Nat) (c : Ctr) : NoRep (s.putCtr t c) := by
  refine ⟨h.ready, h.has, h.spans, h.ads, ?_⟩
  intro t2
  by_cases e : t2 = t
  · subst e; rw [Sys.putCtr_th_same]; exact h.lines t2
  · rw [Sys.putCtr_th_other _ _ _ _ e]; exact h.lines t2

theorem NoRep.setSpanNone {s : Sys} (h : NoRep s) (v : String) : NoRep { s with spans := assocSet s.spans v none } :=
  ⟨h.ready, h.has, fun e he => by
      rcases mem_assocSet he with he | rfl
      · exact h.spans e he
      · rfl, h.ads, h.lines⟩

theorem NoRep.delSpan {s : Sys} (h : NoRep s) (v : String) : NoRep { s with spans := assocDel s.spans v } :=
  ⟨h.ready, h.has, fun e he => h.spans e (mem_assocDel he), h.ads, h.lines⟩

theorem NoRep.withLspans {s : Sys} (h : NoRep s) (x : List (String × LocalSpansVal)) : NoRep { s with lspans := x } :=
  ⟨h.ready, h.has, h.spans, h.ads, h.lines⟩

theorem NoRep.withAdapters {s : Sys} (h : NoRep s) (ads : List (String × Adapter))
    (ha : ∀ e ∈ ads, ∀ sv, e.2.span = some sv → sv = none) : NoRep { s with adapters := ads } :=
  ⟨h.ready, h.has, h.spans, ha, h.lines⟩

theorem NoRep.setAdapter {s : Sys} (h : NoRep s) (a : String) (ad : Adapter) (had : ∀ sv, ad.span = some sv → sv = none) :
    NoRep { s with adapters := assocSet s.adapters a ad } :=
  h.withAdapters _ (fun e he => by
    rcases mem_assocSet he with he | rfl
    · exact h.ads e he
    · exact had)

theorem NoRep.getAdapter {s : Sys} (h : NoRep s) {a : String} {ad : Adapter} (hg : assocGet s.adapters a = some ad) :
    ∀ sv, ad.span = some sv → sv = none := by
  obtain ⟨e, he, rfl⟩ := assocGet_mem hg
  exact h.ads e he

theorem NoRep.register {s s' : Sys} (h : NoRep s) (t : Nat) (hr : s.register t = some s') : NoRep s' := by
  rcases Sys.register_some s s' t hr with rfl | ⟨r, c, rfl⟩
  · exact h
  · have := h.setSG t (s.th t).stack (s.th t).guards (h.lines t)
    exact ⟨h.ready, h.has, h.spans, h.ads, fun t2 => by
      by_cases e : t2 = t
      · subst e
        show StackAll _ (Sys.th (s.setTh t2 _) t2).stack
        rw [Sys.th_setTh_same]; exact h.lines t2
      · show StackAll _ (Sys.th (s.setTh t _) t2).stack
        rw [Sys.th_setTh_other _ _ _ _ e]; exact h.lines t2⟩

/-- closing any guard keeps the invariant (a scope's token is `none`: nothing is submitted) -/
theorem NoRep.closeGuard {s : Sys} (h : NoRep s) (t : Nat) (g : Guard) : NoRep (s.closeGuard t g) := by
  unfold Sys.closeGuard
  cases g with
  | scope e =>
    cases e with
    | none => exact h
    | some epoch =>
      dsimp only
      have hu := (h.lines t).unregister epoch
      have h1 := h.setStack t ((s.th t).stack.unregisterAndCollect epoch).1 hu.1
      cases hres : ((s.th t).stack.unregisterAndCollect epoch).2 with
      | none =>
        simp only [Option.getD]
        exact h1.putCtr t _
      | some res =>
        obtain ⟨spans, tok⟩ := res
        simp only [Option.getD]
        have : tok = none := hu.2 spans tok hres
        subst this
        exact h1.putCtr t _
  | localSpan hd =>
    cases hd with
    | none => exact h
    | some hh =>
      dsimp only
      exact (h.setStack t _ ((h.lines t).exitSpan (s.ctr t) hh)).putCtr t _
  | collector e =>
    cases e with
    | none => exact h
    | some epoch =>
      dsimp only
      exact h.setStack t _ ((h.lines t).unregister epoch).1

theorem NoRep.foldl_closeGuard (gs : List Guard) {s : Sys} (h : NoRep s) (t : Nat) :
    NoRep (gs.foldl (fun s g => s.closeGuard t g) s) := by
  induction gs generalizing s with
  | nil => exact h
  | cons g gs ih => exact ih (h.closeGuard t g)

theorem NoRep.enterExitLocal {s : Sys} (h : NoRep s) (t : Nat) : NoRep (s.enterExitLocal t) := by
  unfold Sys.enterExitLocal
  dsimp only
  cases hs : (s.th t).stack.enterSpan (s.ctr t) "cl" with
  | none => exact h
  | some res =>
    obtain ⟨st1, hd, c1⟩ := res
    dsimp only
    exact (h.setStack t _ (((h.lines t).enterSpan hs).exitSpan c1 hd)).putCtr t _

theorem NoRep.foldl_enterExitLocal {α : Type} (l : List α) {s : Sys} (h : NoRep s) (t : Nat) :
    NoRep (l.foldl (fun s _ => s.enterExitLocal t) s) := by
  induction l generalizing s with
  | nil => exact h
  | cons x xs ih => exact ih (h.enterExitLocal t)

theorem NoRep.runClosure {s : Sys} (h : NoRep s) (t : Nat) (cl : Closure) : NoRep (s.runClosure t cl) := by
  unfold Sys.runClosure
  split
  · exact h.enterExitLocal t
  · exact NoRep.foldl_enterExitLocal _ h t
  · dsimp only
    exact (h.setStack t _ ((h.lines t).addEvent (s.ctr t) "cl-ev" none)).putCtr t _
  · rw [(h.lines t).currentToken_none]
    exact h
  · exact h

end Fastrace

namespace Fastrace

theorem cycleProcess_noReporter (conv : Nat → Nat) (c : Coll) (batch : List Cmd) (h : c.hasReporter = false) :
    cycleProcess conv c batch = (c, none) := by
  simp [cycleProcess, h]

theorem NoRep.finishCycle {s : Sys} (h : NoRep s) (kept : List (Nat × Ring Cmd)) (buf buf2 : List Cmd) :
    NoRep (s.finishCycle kept buf buf2).1 ∧ (s.finishCycle kept buf buf2).2 = none := by
  unfold Sys.finishCycle
  dsimp only
  rw [cycleProcess_noReporter _ _ _ h.has]
  exact ⟨⟨h.ready, h.has, h.spans, h.ads, h.lines⟩, rfl⟩

theorem NoRep.finishCycleP {s : Sys} (h : NoRep s) (kept : List (Nat × Ring Cmd)) (buf buf2 : List Cmd) :
    NoRep (s.finishCycleP kept buf buf2).1 ∧ (s.finishCycleP kept buf buf2).2 = none := by
  unfold Sys.finishCycleP
  rw [if_neg (by rw [h.has]; simp)]
  exact h.finishCycle kept buf buf2

theorem NoRep.withG {s : Sys} (h : NoRep s) (g : Ghost) : NoRep (s.withG g) :=
  ⟨h.ready, h.has, h.spans, h.ads, h.lines⟩

theorem NoRep.withCyc {s : Sys} (h : NoRep s) (c : Option CycState) : NoRep { s with cyc := c } :=
  ⟨h.ready, h.has, h.spans, h.ads, h.lines⟩

/-- a collector step without a reporter: the invariant stays, and the step reports nothing -/
theorem NoRep.cycStep {s : Sys} (h : NoRep s) :
    NoRep s.cycStep.1 ∧ ∀ rs, s.cycStep.2 ≠ .report (some rs) := by
  unfold Sys.cycStep
  cases hc : s.cyc with
  | none => exact ⟨h, fun rs e => by cases e⟩
  | some cs =>
    dsimp only
    split
    · have := h.finishCycleP cs.kept cs.buf cs.buf2
      dsimp only
      refine ⟨this.1, fun rs e => ?_⟩
      simp only [Obs.report.injEq] at e
      rw [this.2] at e
      cases e
    · split
      · first | exact ⟨h.withCyc _, fun rs e => by cases e⟩ | exact ⟨(h.withG _).withCyc _, fun rs e => by cases e⟩
      · split <;> first | exact ⟨h.withCyc _, fun rs e => by cases e⟩ | exact ⟨(h.withG _).withCyc _, fun rs e => by cases e⟩
    · first | exact ⟨h.withCyc _, fun rs e => by cases e⟩ | exact ⟨(h.withG _).withCyc _, fun rs e => by cases e⟩
    · first | exact ⟨h.withCyc _, fun rs e => by cases e⟩ | exact ⟨(h.withG _).withCyc _, fun rs e => by cases e⟩
    · split
      · split <;> first | exact ⟨h.withCyc _, fun rs e => by cases e⟩ | exact ⟨(h.withG _).withCyc _, fun rs e => by cases e⟩
      · split
        · split <;> first | exact ⟨h.withCyc _, fun rs e => by cases e⟩ | exact ⟨(h.withG _).withCyc _, fun rs e => by cases e⟩
        · first | exact ⟨h.withCyc _, fun rs e => by cases e⟩ | exact ⟨(h.withG _).withCyc _, fun rs e => by cases e⟩

theorem NoRep.cycBegin {s : Sys} (h : NoRep s) : NoRep s.cycBegin.1 := by
  unfold Sys.cycBegin
  split
  · exact h
  · split <;> exact h.withCyc _

theorem NoRep.exitThread {s : Sys} (h : NoRep s) (t : Nat) : NoRep (s.exitThread t) := by
  unfold Sys.exitThread
  dsimp only
  have h1 := NoRep.foldl_closeGuard (s.th t).guards h t
  generalize (s.th t).guards.foldl (fun s g => s.closeGuard t g) s = s1 at h1 ⊢
  have h2 : NoRep (s1.setTh t { s1.th t with guards := [], alive := false, pending := [] }) := by
    refine ⟨h1.ready, h1.has, h1.spans, h1.ads, ?_⟩
    intro t2
    by_cases e : t2 = t
    · subst e; rw [Sys.th_setTh_same]; exact h1.lines t2
    · rw [Sys.th_setTh_other _ _ _ _ e]; exact h1.lines t2
  split
  · split
    · -- setRing changes rings only
      rename_i r _
      refine NoRep.withG ?_ _
      refine ⟨?_, ?_, ?_, ?_, ?_⟩
      · unfold Sys.setRing; split
        · exact h2.ready
        · split
          · exact h2.ready
          · split <;> exact h2.ready
      · unfold Sys.setRing; split
        · exact h2.has
        · split
          · exact h2.has
          · split <;> exact h2.has
      · unfold Sys.setRing; split
        · exact h2.spans
        · split
          · exact h2.spans
          · split <;> exact h2.spans
      · rw [Sys.setRing_adapters]; exact h2.ads
      · intro t2; rw [Sys.setRing_th]; exact h2.lines t2
    · exact h2.withG _
  · exact h2.withG _

/-- what an observation may say when no reporter was ever installed -/
def InertObs (op : Op) (o : Obs) : Prop :=
  (∀ rs, o ≠ .report (some rs)) ∧ (∀ c, o ≠ .ctx (some c)) ∧ o ≠ .elapsed true ∧
  ((∃ v cl, op = .withProps v cl ∨ op = .addProps v cl) → o ≠ .closure true)

theorem inert_of {op : Op} {o : Obs} (h1 : ∀ rs, o ≠ .report (some rs)) (h2 : ∀ c, o ≠ .ctx (some c))
    (h3 : o ≠ .elapsed true) (h4 : o ≠ .closure true) : InertObs op o := ⟨h1, h2, h3, fun _ => h4⟩

end Fastrace
