import FastraceModel.Lemmas.FlowOps

/-!
`Step` for every operation of a thread, `ChanInv` for the collector's operations, and the lift to
`exec` and `run`: **in every reachable state of every program the commands accepted by the
channels are exactly those in flight, consumed, discarded or lost at exit**.
-/
namespace Fastrace

/-! ### the remaining thread operations -/

theorem Step.adPoll (s : Sys) (t : Nat) (a call : String) : Step s (s.adPoll t a call).1 := by
  unfold Sys.adPoll
  cases assocGet s.adapters a with
  | none => exact Step.refl s
  | some ad =>
    dsimp only
    cases ad.kind with
    | enterOnPoll =>
      dsimp only
      cases (s.th t).stack.enterSpan (s.ctr t) ad.name with
      | none => dsimp only; exact ((Step.refl s).thenAdapters _).thenSetTh t _
      | some res =>
        obtain ⟨stack, hd, c⟩ := res
        dsimp only
        exact (((Step.refl s).thenAdapters _).thenSetTh t _).thenPutCtr t _
    | inSpan | stream | sink =>
      dsimp only
      cases ad.span with
      | none => dsimp only; exact ((Step.refl s).thenAdapters _).thenSetTh t _
      | some sv =>
        cases sv with
        | none => dsimp only; exact ((Step.refl s).thenAdapters _).thenSetTh t _
        | some sp =>
          dsimp only
          cases (s.th t).stack.registerLine (some (issueToken sp)) with
          | none => dsimp only; exact ((Step.refl s).thenAdapters _).thenSetTh t _
          | some res => dsimp only; exact ((Step.refl s).thenAdapters _).thenSetTh t _

theorem Step.adEnd (s : Sys) (t : Nat) (a result : String) : Step s (s.adEnd t a result).1 := by
  unfold Sys.adEnd
  cases assocGet s.adapters a with
  | none => exact Step.refl s
  | some ad =>
    cases hg : (s.th t).guards with
    | nil => exact Step.refl s
    | cons g gs =>
      dsimp only
      cases ad.inCall with
      | none => exact Step.refl s
      | some call =>
        dsimp only
        have h1 : Step s ((s.setTh t { s.th t with guards := gs }).closeGuard t g) :=
          ((Step.refl s).thenSetTh t _).thenClose t g
        split
        · cases ad.span with
          | some sv => dsimp only; exact (h1.thenAdapters _).thenDrop t sv
          | none => dsimp only; exact h1.thenAdapters _
        · exact h1.thenAdapters _

theorem Step.closeUnder (s : Sys) (t : Nat) : Step s (s.closeUnder t).1 := by
  unfold Sys.closeUnder
  dsimp only
  cases splitOpen (s.th t).guards with
  | none => exact Step.refl s
  | some res =>
    obtain ⟨ls, g, rest⟩ := res
    dsimp only
    split
    · exact Step.refl s
    · split
      · dsimp only; exact ((Step.refl s).thenSetTh t _).thenClose t _
      · dsimp only; exact ((Step.refl s).thenSetTh t _).thenClose t _
      · exact Step.refl s

theorem Step.collectUnder (s : Sys) (t : Nat) (x : String) : Step s (s.collectUnder t x).1 := by
  unfold Sys.collectUnder
  dsimp only
  split
  · split
    · exact Step.refl s
    · exact (((Step.refl s).thenSetTh t _).thenPutCtr t _).thenLspans _
  · exact Step.refl s

theorem Step.rootOp (s : Sys) (t : Nat) (v name : String) (trace span : Nat) (sampled : Bool) :
    Step s (s.rootOp t v name trace span sampled).1 := by
  unfold Sys.rootOp
  split
  · exact Step.withSpans _
  · split
    · exact Step.refl s
    · split
      · exact (((Step.refl s).thenNextCollect _).thenSend t _ false (fun h => by cases h)).thenNewSpan t _ _ _ _
      · exact Step.newSpan s t _ _ _ _

/-! ### every operation that is not a collector operation -/

def Op.isCollectorOp : Op → Bool
  | .setReporter _ | .cycle | .flush | .cycBegin | .cycStep => true
  | _ => false

theorem exec_step (s : Sys) (t : Nat) (op : Op) (hop : op.isCollectorOp = false) : Step s (exec s t op).1 := by
  cases op with
  | setReporter c => cases hop
  | cycle => cases hop
  | flush => cases hop
  | cycBegin => cases hop
  | cycStep => cases hop
  | spawn =>
    simp only [exec]
    exact ((Step.refl s).thenSetTh t _).thenPutCtr t _
  | touch =>
    simp only [exec]
    cases hr : s.register t with
    | none => exact Step.refl s
    | some s' => exact Step.register t hr
  | root v n tr sp b => simp only [exec]; exact Step.rootOp s t v n tr sp b
  | rootFrom v n p tp =>
    simp only [exec]
    cases assocGet s.spans p with
    | none => exact Step.refl s
    | some sv =>
      cases sv with
      | none => exact Step.refl s
      | some spn =>
        dsimp only
        cases ctxOfToken (issueToken spn) with
        | none => exact Step.refl s
        | some c => exact Step.rootOp s t v n _ _ _
  | rootFromLocal v n tp =>
    simp only [exec]
    cases (s.th t).stack.currentToken with
    | none => exact Step.refl s
    | some tok =>
      dsimp only
      cases ctxOfToken tok with
      | none => exact Step.refl s
      | some c => exact Step.rootOp s t v n _ _ _
  | child1 v n p =>
    simp only [exec]
    cases assocGet s.spans p with
    | none => exact Step.refl s
    | some sv =>
      cases sv with
      | none => exact Step.withSpans _
      | some sp => exact Step.newSpan s t v n _ none
  | childN v n ps =>
    simp only [exec]
    split
    · exact Step.refl s
    · split
      · exact Step.withSpans _
      · exact Step.newSpan s t v n _ none
  | childLocal v n =>
    simp only [exec]
    cases (s.th t).stack.currentToken with
    | some tok => exact Step.newSpan s t v n tok none
    | none => exact Step.withSpans _
  | withProps v cl =>
    simp only [exec]
    cases assocGet s.spans v with
    | none => exact Step.refl s
    | some sv =>
      cases sv with
      | none => exact Step.refl s
      | some sp => exact ((Step.refl s).thenClosure t cl).thenSpans _
  | addProps v cl =>
    simp only [exec]
    cases assocGet s.spans v with
    | none => exact Step.refl s
    | some sv =>
      cases sv with
      | none => exact Step.refl s
      | some sp =>
        dsimp only
        exact (((Step.refl s).thenPutCtr t _).thenClosure t cl).thenSubmit t _ _
  | addEvent v n props =>
    simp only [exec]
    cases assocGet s.spans v with
    | none => exact Step.refl s
    | some sv =>
      cases sv with
      | none => exact Step.refl s
      | some sp =>
        dsimp only
        exact ((Step.refl s).thenPutCtr t _).thenSubmit t _ _
  | pushChild v x =>
    simp only [exec]
    cases assocGet s.spans v with
    | none => exact Step.refl s
    | some sv =>
      cases assocGet s.lspans x with
      | none => exact Step.refl s
      | some ls =>
        dsimp only
        cases sv with
        | none => exact Step.refl s
        | some sp =>
          dsimp only
          split
          · exact Step.refl s
          · exact Step.submitSpans s t _ _
  | elapsed v =>
    simp only [exec]
    cases assocGet s.spans v <;> exact Step.refl s
  | cancel v =>
    simp only [exec]
    cases assocGet s.spans v with
    | none => exact Step.refl s
    | some sv =>
      cases sv with
      | none => exact Step.refl s
      | some sp =>
        dsimp only
        cases sp.collectId with
        | some cid => exact (Step.sendCmd s t (.drop cid) true (fun _ => rfl)).trans (Step.noteParked _ t cid)
        | none => exact Step.refl s
  | drop v =>
    simp only [exec]
    cases assocGet s.spans v with
    | none => exact Step.refl s
    | some sv => exact ((Step.refl s).thenSpans _).thenDrop t sv
  | scope v =>
    simp only [exec]
    cases assocGet s.spans v with
    | none => exact Step.refl s
    | some sv =>
      cases sv with
      | none => exact (Step.refl s).thenSetTh t _
      | some sp =>
        dsimp only
        cases (s.th t).stack.registerLine (some (issueToken sp)) with
        | none => exact (Step.refl s).thenSetTh t _
        | some res => exact (Step.refl s).thenSetTh t _
  | localEnter n =>
    simp only [exec]
    cases (s.th t).stack.enterSpan (s.ctr t) n with
    | none => exact (Step.refl s).thenSetTh t _
    | some res =>
      obtain ⟨stack, hd, c⟩ := res
      exact ((Step.refl s).thenSetTh t _).thenPutCtr t _
  | collectorStart =>
    simp only [exec]
    cases (s.th t).stack.registerLine none with
    | none => exact (Step.refl s).thenSetTh t _
    | some res => exact (Step.refl s).thenSetTh t _
  | close =>
    simp only [exec]
    cases (s.th t).guards with
    | nil => exact Step.refl s
    | cons g gs => exact ((Step.refl s).thenSetTh t _).thenClose t g
  | collect x =>
    simp only [exec]
    cases hg : (s.th t).guards with
    | nil => exact Step.refl s
    | cons g gs =>
      cases g with
      | scope e => exact Step.refl s
      | localSpan e => exact Step.refl s
      | collector e =>
        dsimp only
        cases e with
        | none =>
          dsimp only
          exact (((Step.refl s).thenSetTh t _).thenPutCtr t _).thenLspans _
        | some epoch =>
          dsimp only
          exact ((((Step.refl s).thenSetTh t _).thenSetTh t _).thenPutCtr t _).thenLspans _
  | lWithProps cl =>
    simp only [exec]
    cases (s.th t).guards with
    | nil => exact Step.refl s
    | cons g gs =>
      cases g with
      | scope e => exact Step.refl s
      | collector e => exact Step.refl s
      | localSpan e =>
        cases e with
        | none => exact Step.refl s
        | some h => exact ((Step.refl s).thenClosure t cl).thenSetTh t _
  | lAddProps cl =>
    simp only [exec]
    split
    · exact (((Step.refl s).thenClosure t cl).thenSetTh t _).thenPutCtr t _
    · exact Step.refl s
  | lAddEvent n props =>
    simp only [exec]
    exact ((Step.refl s).thenSetTh t _).thenPutCtr t _
  | ctxOf v =>
    simp only [exec]
    cases assocGet s.spans v with
    | none => exact Step.refl s
    | some sv => cases sv <;> exact Step.refl s
  | ctxLocal =>
    simp only [exec]
    cases (s.th t).stack.currentToken <;> exact Step.refl s
  | toRecords x tr sp =>
    simp only [exec]
    cases assocGet s.lspans x <;> exact Step.refl s
  | dropLocalSpans x => simp only [exec]; exact Step.withLspans _
  | stats =>
    simp only [exec]
    split <;> exact Step.refl s
  | exit => simp only [exec]; exact Step.exitThread s t
  | spam n =>
    simp only [exec]
    split
    · exact Step.refl s
    · exact Step.spam n s t
  | adNew a kind arg =>
    simp only [exec]
    cases kind with
    | enterOnPoll => exact Step.withAdapters _
    | inSpan | stream | sink =>
      dsimp only
      cases assocGet s.spans arg with
      | none => exact Step.refl s
      | some sv => exact Step.withSpansAdapters _ _
  | adPoll a call => simp only [exec]; exact Step.adPoll s t a call
  | adEnd a result => simp only [exec]; exact Step.adEnd s t a result
  | adDrop a =>
    simp only [exec]
    cases assocGet s.adapters a with
    | none => exact Step.refl s
    | some ad =>
      dsimp only
      cases ad.span with
      | some sv => exact ((Step.refl s).thenAdapters _).thenDrop t sv
      | none => exact Step.withAdapters _
  | closeUnder => simp only [exec]; exact Step.closeUnder s t
  | collectUnder x => simp only [exec]; exact Step.collectUnder s t x
  | unwind =>
    simp only [exec]
    exact (Step.foldl_closeGuard (s.th t).guards s t).thenSetTh t _

end Fastrace
