import FastraceModel.Lemmas.Flow

/-!
Per-thread order (C09: "finish and cancel signals are neither dropped nor reordered while the
thread lives"; C04: a cancel is consumed no later than the commit sent after it by the same
thread): for every live thread `t`, in every reachable state,

    what t's channel accepted, in order
      = what the collector has popped from t's ring, in order ++ t's ring ++ t's overflow list.

The history variables `acceptedBy` / `drainedBy` tag each command with its thread (newest first).
This file: definitions, the ring operations as sequences, and how `register` / `setRing` / `setTh`
change what `ringOf` and `th` return.
-/
namespace Fastrace

def byT (t : Nat) (l : List (Nat × Cmd)) : List Cmd := (l.filter (fun e => e.1 == t)).map (·.2)

@[simp] theorem byT_nil (t : Nat) : byT t [] = [] := rfl
theorem byT_cons_same (t : Nat) (c : Cmd) (l : List (Nat × Cmd)) : byT t ((t, c) :: l) = c :: byT t l := by
  simp [byT, List.filter]
theorem byT_cons_other (t t2 : Nat) (c : Cmd) (l : List (Nat × Cmd)) (h : t2 ≠ t) : byT t ((t2, c) :: l) = byT t l := by
  have : (t2 == t) = false := by simp [h]
  simp [byT, List.filter, this]
theorem byT_append (t : Nat) (a b : List (Nat × Cmd)) : byT t (a ++ b) = byT t a ++ byT t b := by
  simp [byT, List.filter_append]
theorem byT_tagged_same (t : Nat) (q : List Cmd) : byT t (q.map fun c => (t, c)) = q := by
  induction q with
  | nil => rfl
  | cons x xs ih => rw [List.map_cons, byT_cons_same, ih]
theorem byT_tagged_other (t t2 : Nat) (q : List Cmd) (h : t2 ≠ t) : byT t (q.map fun c => (t2, c)) = [] := by
  induction q with
  | nil => rfl
  | cons x xs ih => rw [List.map_cons, byT_cons_other _ _ _ _ h, ih]
theorem byT_reverse (t : Nat) (l : List (Nat × Cmd)) : byT t l.reverse = (byT t l).reverse := by
  simp [byT, List.filter_reverse]

/-- the ring of thread `t` as a sequence (empty if the thread has no registered ring) -/
def Sys.ringQ (s : Sys) (t : Nat) : List Cmd := ((s.ringOf t).map (·.q)).getD []

/-- the threads that have a ring, wherever the rings currently are -/
def Sys.ringKeys (s : Sys) : List Nat :=
  match s.cyc with
  | none => s.rxs.map (·.1)
  | some cs => (cs.todo ++ cs.kept).map (·.1)

structure FifoInv (s : Sys) : Prop where
  order : ∀ t, (s.th t).alive = true →
    (byT t s.g.acceptedBy).reverse = (byT t s.g.drainedBy).reverse ++ s.ringQ t ++ (s.th t).pending
  nodup : s.ringKeys.Nodup
  reg : ∀ t ∈ s.ringKeys, (s.th t).registered = true

/-! ### the ring operations as sequences: `ring ++ overflow` only ever grows at the end -/

theorem Ring.push_seq (r r' : Ring Cmd) (x : Cmd) (h : r.push x = some r') : r'.q = r.q ++ [x] := by
  unfold Ring.push at h
  split at h
  · simp only [Option.some.injEq] at h
    subst h
    rfl
  · cases h

theorem Ring.replay_seq (r : Ring Cmd) (pend : List Cmd) :
    (r.replay pend).1.q ++ (r.replay pend).2 = r.q ++ pend := by
  induction pend generalizing r with
  | nil => simp [Ring.replay]
  | cons x xs ih =>
    simp only [Ring.replay]
    cases hpush : r.push x with
    | none => rfl
    | some r' =>
      rw [ih r', Ring.push_seq r r' x hpush]
      simp

theorem Ring.send_seq (r : Ring Cmd) (pend : List Cmd) (v : Cmd) :
    (r.send pend v).1.q ++ (r.send pend v).2.1 = r.q ++ pend ++ (if (r.send pend v).2.2 then [v] else []) := by
  have h := Ring.replay_seq r pend
  rcases hrp : r.replay pend with ⟨r1, rest⟩
  rw [hrp] at h
  dsimp only at h
  cases rest with
  | nil =>
    cases hpush : r1.push v with
    | none => simp [Ring.send, hrp, hpush] at h ⊢; exact h
    | some r2 =>
      have := Ring.push_seq r1 r2 v hpush
      simp [Ring.send, hrp, hpush] at h ⊢
      rw [this, h]
      simp
  | cons x xs => simp [Ring.send, hrp] at h ⊢; exact h

theorem Ring.forceSend_seq (r : Ring Cmd) (pend : List Cmd) (v : Cmd) :
    (r.forceSend pend v).1.q ++ (r.forceSend pend v).2 = r.q ++ pend ++ [v] := by
  have h := Ring.replay_seq r pend
  rcases hrp : r.replay pend with ⟨r1, rest⟩
  rw [hrp] at h
  dsimp only at h
  cases rest with
  | nil =>
    cases hpush : r1.push v with
    | none => simp [Ring.forceSend, hrp, hpush] at h ⊢; rw [h]; simp
    | some r2 =>
      have := Ring.push_seq r1 r2 v hpush
      simp [Ring.forceSend, hrp, hpush] at h ⊢
      rw [this, h]
      simp
  | cons x xs =>
    simp [Ring.forceSend, hrp] at h ⊢
    rw [← List.cons_append, ← List.append_assoc, h]
    simp

/-! ### association lists keyed by thread -/

theorem natGet_none_of_not_mem {β : Type} (l : List (Nat × β)) (k : Nat) (h : k ∉ l.map (·.1)) : natGet l k = none := by
  induction l with
  | nil => rfl
  | cons hd tl ih =>
    obtain ⟨k', v'⟩ := hd
    simp only [List.map_cons, List.mem_cons, not_or] at h
    have hb : (k' == k) = false := by simp; exact fun e => h.1 e.symm
    simp only [natGet, List.find?, hb] at ih ⊢
    exact ih h.2

theorem natGet_isSome_mem {β : Type} (l : List (Nat × β)) (k : Nat) (h : (natGet l k).isSome = true) : k ∈ l.map (·.1) := by
  by_cases hm : k ∈ l.map (·.1)
  · exact hm
  · rw [natGet_none_of_not_mem l k hm] at h
    cases h

theorem natGet_append {β : Type} (a b : List (Nat × β)) (k : Nat) :
    natGet (a ++ b) k = (natGet a k).orElse fun _ => natGet b k := by
  induction a with
  | nil => simp [natGet]
  | cons hd tl ih =>
    obtain ⟨k', v'⟩ := hd
    by_cases h : k' = k
    · simp [natGet, List.find?, h]
    · have hb : (k' == k) = false := by simp [h]
      simp only [natGet, List.cons_append, List.find?, hb] at ih ⊢
      exact ih

theorem natSet_keys {β : Type} (l : List (Nat × β)) (k : Nat) (v : β) (h : k ∈ l.map (·.1)) :
    (natSet l k v).map (·.1) = l.map (·.1) := by
  induction l with
  | nil => cases h
  | cons hd tl ih =>
    obtain ⟨k', v'⟩ := hd
    by_cases e : k' = k
    · subst e; simp [natSet]
    · simp only [natSet, e, if_false, List.map_cons]
      simp only [List.map_cons, List.mem_cons] at h
      rcases h with h | h
      · exact absurd h.symm e
      · rw [ih h]

/-! ### `ringOf` under the state helpers -/

theorem Sys.ringOf_mem (s : Sys) (t : Nat) (r : Ring Cmd) (h : s.ringOf t = some r) : t ∈ s.ringKeys := by
  unfold Sys.ringOf at h
  unfold Sys.ringKeys
  cases hc : s.cyc with
  | none =>
    rw [hc] at h
    dsimp only at h ⊢
    exact natGet_isSome_mem s.rxs t (by rw [h]; rfl)
  | some cs =>
    rw [hc] at h
    dsimp only at h ⊢
    rw [List.map_append, List.mem_append]
    cases ht : natGet cs.todo t with
    | some r0 => exact .inl (natGet_isSome_mem cs.todo t (by rw [ht]; rfl))
    | none =>
      rw [ht] at h
      simp only [Option.orElse] at h
      exact .inr (natGet_isSome_mem cs.kept t (by rw [h]; rfl))

theorem Sys.ringOf_none_of_not_mem (s : Sys) (t : Nat) (h : t ∉ s.ringKeys) : s.ringOf t = none := by
  cases hr : s.ringOf t with
  | none => rfl
  | some r => exact absurd (Sys.ringOf_mem s t r hr) h

/-- `setRing` on a thread that has a ring: that thread's ring is replaced, nothing else changes -/
theorem Sys.ringOf_setRing (s : Sys) (t t2 : Nat) (r r' : Ring Cmd) (h : s.ringOf t = some r) :
    (s.setRing t r').ringOf t2 = if t2 = t then some r' else s.ringOf t2 := by
  unfold Sys.ringOf at h
  unfold Sys.setRing Sys.ringOf
  cases hc : s.cyc with
  | none =>
    rw [hc] at h
    dsimp only
    by_cases e : t2 = t
    · subst e; simp [natGet_natSet_same]
    · simp [e, natGet_natSet_other _ _ _ _ e]
  | some cs =>
    rw [hc] at h
    dsimp only at h ⊢
    cases ht : natGet cs.todo t with
    | some r0 =>
      simp only [Option.isSome_some, if_true]
      by_cases e : t2 = t
      · subst e; simp [natGet_natSet_same]
      · simp [e, natGet_natSet_other _ _ _ _ e]
    | none =>
      rw [ht] at h
      simp only [Option.orElse] at h
      simp only [Option.isSome_none, Bool.false_eq_true, if_false, h, Option.isSome_some, if_true]
      by_cases e : t2 = t
      · subst e; simp [ht, natGet_natSet_same]
      · simp [e, natGet_natSet_other _ _ _ _ e]

theorem Sys.ringKeys_setRing (s : Sys) (t : Nat) (r r' : Ring Cmd) (h : s.ringOf t = some r) :
    (s.setRing t r').ringKeys = s.ringKeys := by
  unfold Sys.ringOf at h
  unfold Sys.setRing Sys.ringKeys
  cases hc : s.cyc with
  | none =>
    rw [hc] at h
    dsimp only at h ⊢
    exact natSet_keys s.rxs t r' (natGet_isSome_mem s.rxs t (by rw [h]; rfl))
  | some cs =>
    rw [hc] at h
    dsimp only at h ⊢
    cases ht : natGet cs.todo t with
    | some r0 =>
      simp only [Option.isSome_some, if_true, List.map_append]
      rw [natSet_keys cs.todo t r' (natGet_isSome_mem cs.todo t (by rw [ht]; rfl))]
    | none =>
      rw [ht] at h
      simp only [Option.orElse] at h
      simp only [Option.isSome_none, Bool.false_eq_true, if_false, h, Option.isSome_some, if_true, List.map_append]
      rw [natSet_keys cs.kept t r' (natGet_isSome_mem cs.kept t (by rw [h]; rfl))]

theorem Sys.ringOf_setTh (s : Sys) (t t2 : Nat) (th : Th) : (s.setTh t th).ringOf t2 = s.ringOf t2 := rfl
theorem Sys.ringKeys_setTh (s : Sys) (t : Nat) (th : Th) : (s.setTh t th).ringKeys = s.ringKeys := rfl
theorem Sys.ringOf_withG (s : Sys) (g : Ghost) (t2 : Nat) : (s.withG g).ringOf t2 = s.ringOf t2 := rfl
theorem Sys.ringKeys_withG (s : Sys) (g : Ghost) : (s.withG g).ringKeys = s.ringKeys := rfl

end Fastrace
