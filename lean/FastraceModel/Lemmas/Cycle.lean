import FastraceModel.Lemmas.Collector

/-! the collector's bookkeeping over one cycle: which collect ids are active, what is emitted -/
namespace Fastrace

def Coll.keys (c : Coll) : List Nat := c.active.map (·.1)

@[simp] theorem Coll.keys_remove (c : Coll) (id : Nat) : (c.remove id).keys = c.keys.filter (· != id) := by
  simp only [Coll.keys, Coll.remove]
  induction c.active with
  | nil => rfl
  | cons e es ih =>
    simp only [List.filter]
    by_cases h : e.1 = id
    · simp [h, ih]
    · have : (e.1 != id) = true := by simp [h]
      simp [List.filter, this, ih]

theorem Coll.mem_keys_remove (c : Coll) (id x : Nat) : x ∈ (c.remove id).keys ↔ x ∈ c.keys ∧ x ≠ id := by
  simp [Coll.keys_remove, List.mem_filter]

theorem Coll.keys_insert (c : Coll) (id : Nat) (a : Active) :
    (c.insert id a).keys = c.keys.filter (· != id) ++ [id] := by
  have := Coll.keys_remove c id
  simp only [Coll.keys, Coll.remove] at this
  simp [Coll.keys, Coll.insert, this]

theorem Coll.mem_keys_insert (c : Coll) (id x : Nat) (a : Active) :
    x ∈ (c.insert id a).keys ↔ x ∈ c.keys ∨ x = id := by
  rw [Coll.keys_insert]
  simp only [List.mem_append, List.mem_filter, List.mem_singleton]
  constructor
  · rintro (⟨h, _⟩ | h)
    · exact Or.inl h
    · exact Or.inr h
  · rintro (h | h)
    · by_cases e : x = id
      · exact Or.inr e
      · exact Or.inl ⟨h, by simp [e]⟩
    · exact Or.inr h

theorem Coll.find?_isSome_iff (c : Coll) (id : Nat) : (c.find? id).isSome ↔ id ∈ c.keys := by
  simp only [Coll.find?, Coll.keys]
  induction c.active with
  | nil => simp
  | cons e es ih =>
    by_cases h : e.1 = id
    · simp [List.find?, h]
    · have : (e.1 == id) = false := by simp [h]
      simp only [List.find?, this, List.map_cons, List.mem_cons]
      rw [ih]
      constructor
      · exact Or.inr
      · rintro (h2 | h2)
        · exact absurd h2.symm h
        · exact h2

/-! ### phases of `cycleProcess` and their effect on the key set -/

def phaseStarts (c : Coll) (batch : List Cmd) : Coll :=
  (startsOf batch).foldl (fun c id => c.insert id Active.empty) c
def phaseDrops (c : Coll) (batch : List Cmd) : Coll :=
  (dropsOf batch).foldl (fun c id => if c.cancelable then c.remove id else c) c

theorem foldl_insert_keys (ids : List Nat) (c : Coll) (x : Nat) :
    x ∈ (ids.foldl (fun c id => c.insert id Active.empty) c).keys ↔ x ∈ c.keys ∨ x ∈ ids := by
  induction ids generalizing c with
  | nil => simp
  | cons i is ih =>
    simp only [List.foldl, ih, Coll.mem_keys_insert, List.mem_cons]
    constructor
    · rintro ((h | h) | h)
      · exact Or.inl h
      · exact Or.inr (Or.inl h)
      · exact Or.inr (Or.inr h)
    · rintro (h | h | h)
      · exact Or.inl (Or.inl h)
      · exact Or.inl (Or.inr h)
      · exact Or.inr h

@[simp] theorem insert_cancelable (c : Coll) (id : Nat) (a : Active) : (c.insert id a).cancelable = c.cancelable := rfl
@[simp] theorem remove_cancelable (c : Coll) (id : Nat) : (c.remove id).cancelable = c.cancelable := rfl
@[simp] theorem insert_hasReporter (c : Coll) (id : Nat) (a : Active) : (c.insert id a).hasReporter = c.hasReporter := rfl
@[simp] theorem remove_hasReporter (c : Coll) (id : Nat) : (c.remove id).hasReporter = c.hasReporter := rfl

theorem phaseStarts_cancelable (c : Coll) (batch : List Cmd) : (phaseStarts c batch).cancelable = c.cancelable := by
  unfold phaseStarts
  generalize startsOf batch = ids
  induction ids generalizing c with
  | nil => rfl
  | cons i is ih => simp [List.foldl, ih]

theorem foldl_drop_cancelable (ids : List Nat) (c : Coll) :
    (ids.foldl (fun c id => if c.cancelable then c.remove id else c) c).cancelable = c.cancelable := by
  induction ids generalizing c with
  | nil => rfl
  | cons i is ih =>
    simp only [List.foldl]
    rw [ih]
    split <;> simp

theorem foldl_drop_keys (ids : List Nat) (c : Coll) (hc : c.cancelable = true) (x : Nat) :
    x ∈ (ids.foldl (fun c id => if c.cancelable then c.remove id else c) c).keys ↔ x ∈ c.keys ∧ x ∉ ids := by
  induction ids generalizing c with
  | nil => simp
  | cons i is ih =>
    simp only [List.foldl, hc, if_true]
    rw [ih (c.remove i) (by simp [hc]), Coll.mem_keys_remove]
    simp only [List.mem_cons, not_or]
    constructor
    · rintro ⟨⟨h1, h2⟩, h3⟩; exact ⟨h1, h2, h3⟩
    · rintro ⟨h1, h2, h3⟩; exact ⟨⟨h1, h2⟩, h3⟩

theorem foldl_drop_noncancelable (ids : List Nat) (c : Coll) (hc : c.cancelable = false) :
    ids.foldl (fun c id => if c.cancelable then c.remove id else c) c = c := by
  induction ids generalizing c with
  | nil => rfl
  | cons i is ih => simp only [List.foldl, hc]; exact ih c hc

/-! ### submits only touch entries that exist: the key set is unchanged -/

theorem submitItem_keys (cancelable : Bool) (spans : SpanSet) (st : Coll × List Collection) (it : TokenItem) (x : Nat) :
    x ∈ (submitItem cancelable spans st it).1.keys ↔ x ∈ st.1.keys := by
  unfold submitItem
  split
  · rename_i a h
    have hk : it.collectId ∈ st.1.keys := (Coll.find?_isSome_iff _ _).mp (by simp [h])
    simp only [Coll.mem_keys_insert]
    constructor
    · rintro (h | h)
      · exact h
      · exact h ▸ hk
    · exact Or.inl
  · split <;> rfl

theorem processSubmit_keys (st : Coll × List Collection) (sub : SpanSet × Token) (x : Nat) :
    x ∈ (processSubmit st sub).1.keys ↔ x ∈ st.1.keys := by
  unfold processSubmit
  generalize st.1.cancelable = cb
  induction sub.2 generalizing st with
  | nil => simp
  | cons it its ih => simp only [List.foldl]; rw [ih, submitItem_keys]

theorem foldl_processSubmit_keys (subs : List (SpanSet × Token)) (st : Coll × List Collection) (x : Nat) :
    x ∈ (subs.foldl processSubmit st).1.keys ↔ x ∈ st.1.keys := by
  induction subs generalizing st with
  | nil => simp
  | cons s ss ih => simp only [List.foldl]; rw [ih, processSubmit_keys]

theorem processCommit_keys (conv : Nat → Nat) (st : Coll × List Record) (id x : Nat) :
    x ∈ (processCommit conv st id).1.keys ↔ x ∈ st.1.keys ∧ x ≠ id := by
  unfold processCommit
  split
  · simp [Coll.mem_keys_remove]
  · rename_i h
    have hn : id ∉ st.1.keys := by
      intro hk
      have := (Coll.find?_isSome_iff _ _).mpr hk
      simp [h] at this
    constructor
    · intro hx; exact ⟨hx, fun e => hn (e ▸ hx)⟩
    · exact fun h => h.1

theorem foldl_processCommit_keys (conv : Nat → Nat) (ids : List Nat) (st : Coll × List Record) (x : Nat) :
    x ∈ (ids.foldl (processCommit conv) st).1.keys ↔ x ∈ st.1.keys ∧ x ∉ ids := by
  induction ids generalizing st with
  | nil => simp
  | cons i is ih =>
    simp only [List.foldl]
    rw [ih, processCommit_keys]
    simp only [List.mem_cons, not_or]
    constructor
    · rintro ⟨⟨h1, h2⟩, h3⟩; exact ⟨h1, h2, h3⟩
    · rintro ⟨h1, h2, h3⟩; exact ⟨⟨h1, h2⟩, h3⟩

theorem foldl_flushActive_keys (conv : Nat → Nat) (es : List (Nat × Active)) (st : List (Nat × Active) × List Record) :
    (es.foldl (flushActive conv) st).1.map (·.1) = st.1.map (·.1) ++ es.map (·.1) := by
  induction es generalizing st with
  | nil => simp
  | cons e es ih =>
    simp only [List.foldl]
    rw [ih]
    simp [flushActive]

end Fastrace

namespace Fastrace

/-- `cycleProcess`, phase by phase (same computation, named intermediate results) -/
theorem cycleProcess_eq (conv : Nat → Nat) (c : Coll) (batch : List Cmd) (h : c.hasReporter = true) :
    cycleProcess conv c batch =
      let c1 := phaseDrops (phaseStarts c batch) batch
      let s2 := (submitsOf batch).foldl processSubmit (c1, [])
      let s3 := (commitsOf batch).foldl (processCommit conv) (s2.1, [])
      let s4 : Coll × List Record :=
        if s3.1.cancelable then s3
        else
          let f := s3.1.active.foldl (flushActive conv) ([], s3.2)
          ({ s3.1 with active := f.1 }, f.2)
      (s4.1, some (s2.2.foldl (fun recs col => (postprocess conv [col] recs []).1) s4.2)) := by
  simp only [cycleProcess, h, phaseDrops, phaseStarts]
  rfl

/-- **which collect ids are retained after a cycle**: those that were active or started in
    this batch, minus those committed, minus (when cancelable) those dropped -/
theorem cycleProcess_keys (conv : Nat → Nat) (c : Coll) (batch : List Cmd) (h : c.hasReporter = true) (x : Nat) :
    x ∈ (cycleProcess conv c batch).1.keys ↔
      (x ∈ c.keys ∨ x ∈ startsOf batch) ∧ (c.cancelable = true → x ∉ dropsOf batch) ∧ x ∉ commitsOf batch := by
  rw [cycleProcess_eq conv c batch h]
  simp only
  have hcs : (phaseStarts c batch).cancelable = c.cancelable := phaseStarts_cancelable c batch
  have k1 : ∀ y, y ∈ (phaseDrops (phaseStarts c batch) batch).keys ↔
      (y ∈ c.keys ∨ y ∈ startsOf batch) ∧ (c.cancelable = true → y ∉ dropsOf batch) := by
    intro y
    unfold phaseDrops
    cases hc : c.cancelable with
    | true =>
      rw [foldl_drop_keys _ _ (by rw [hcs, hc])]
      simp [phaseStarts, foldl_insert_keys]
    | false =>
      rw [foldl_drop_noncancelable _ _ (by rw [hcs, hc])]
      simp [phaseStarts, foldl_insert_keys]
  have k3 : ∀ y, y ∈ ((commitsOf batch).foldl (processCommit conv)
        (((submitsOf batch).foldl processSubmit (phaseDrops (phaseStarts c batch) batch, [])).1, [])).1.keys ↔
      ((y ∈ c.keys ∨ y ∈ startsOf batch) ∧ (c.cancelable = true → y ∉ dropsOf batch)) ∧ y ∉ commitsOf batch := by
    intro y
    rw [foldl_processCommit_keys, foldl_processSubmit_keys, k1]
  split
  · rw [k3]; simp [and_assoc]
  · simp only [Coll.keys]
    rw [foldl_flushActive_keys]
    have := k3 x
    simp only [Coll.keys] at this
    simp only [List.map_nil, List.nil_append]
    rw [this]; simp [and_assoc]

end Fastrace

namespace Fastrace

/-! configuration flags are never changed by a cycle -/

def Coll.flags (c : Coll) : Bool × Bool := (c.cancelable, c.hasReporter)

theorem foldl_insert_flags (ids : List Nat) (c : Coll) :
    (ids.foldl (fun c id => c.insert id Active.empty) c).flags = c.flags := by
  induction ids generalizing c with
  | nil => rfl
  | cons i is ih => simp only [List.foldl]; rw [ih]; rfl

theorem foldl_drop_flags (ids : List Nat) (c : Coll) :
    (ids.foldl (fun c id => if c.cancelable then c.remove id else c) c).flags = c.flags := by
  induction ids generalizing c with
  | nil => rfl
  | cons i is ih => simp only [List.foldl]; rw [ih]; split <;> rfl

theorem submitItem_flags (cb : Bool) (spans : SpanSet) (st : Coll × List Collection) (it : TokenItem) :
    (submitItem cb spans st it).1.flags = st.1.flags := by
  unfold submitItem
  split
  · rfl
  · split <;> rfl

theorem processSubmit_flags (st : Coll × List Collection) (sub : SpanSet × Token) :
    (processSubmit st sub).1.flags = st.1.flags := by
  unfold processSubmit
  generalize st.1.cancelable = cb
  induction sub.2 generalizing st with
  | nil => rfl
  | cons it its ih => simp only [List.foldl]; rw [ih, submitItem_flags]

theorem foldl_processSubmit_flags (subs : List (SpanSet × Token)) (st : Coll × List Collection) :
    (subs.foldl processSubmit st).1.flags = st.1.flags := by
  induction subs generalizing st with
  | nil => rfl
  | cons s ss ih => simp only [List.foldl]; rw [ih, processSubmit_flags]

theorem processCommit_flags (conv : Nat → Nat) (st : Coll × List Record) (id : Nat) :
    (processCommit conv st id).1.flags = st.1.flags := by
  unfold processCommit; split <;> rfl

theorem foldl_processCommit_flags (conv : Nat → Nat) (ids : List Nat) (st : Coll × List Record) :
    (ids.foldl (processCommit conv) st).1.flags = st.1.flags := by
  induction ids generalizing st with
  | nil => rfl
  | cons i is ih => simp only [List.foldl]; rw [ih, processCommit_flags]

theorem cycleProcess_flags (conv : Nat → Nat) (c : Coll) (batch : List Cmd) :
    (cycleProcess conv c batch).1.flags = c.flags := by
  by_cases h : c.hasReporter = true
  · rw [cycleProcess_eq conv c batch h]
    simp only
    have key : ((commitsOf batch).foldl (processCommit conv)
        (((submitsOf batch).foldl processSubmit (phaseDrops (phaseStarts c batch) batch, [])).1, [])).1.flags = c.flags := by
      rw [foldl_processCommit_flags, foldl_processSubmit_flags]
      simp only [phaseDrops, phaseStarts]
      rw [foldl_drop_flags, foldl_insert_flags]
    split
    · exact key
    · exact key
  · simp [cycleProcess, h]

theorem cycleProcess_hasReporter (conv : Nat → Nat) (c : Coll) (batch : List Cmd) :
    (cycleProcess conv c batch).1.hasReporter = c.hasReporter :=
  congrArg Prod.snd (cycleProcess_flags conv c batch)

theorem cycleProcess_cancelable (conv : Nat → Nat) (c : Coll) (batch : List Cmd) :
    (cycleProcess conv c batch).1.cancelable = c.cancelable :=
  congrArg Prod.fst (cycleProcess_flags conv c batch)

end Fastrace
