import FastraceModel.Lemmas.NoReporter

/-! `exec` under the no-reporter invariant -/
namespace Fastrace

theorem spam_noReporter (n : Nat) (s : Sys) (t : Nat) (h : s.reporterReady = false) :
    (Nat.rec (motive := fun _ => Sys) s (fun _ acc => acc.spamOnce t) n) = s := by
  induction n with
  | zero => rfl
  | succ n ih =>
    show Sys.spamOnce _ t = s
    rw [ih]
    simp [Sys.spamOnce, h]

/-- observations that show no recording at all -/
def Obs.inert : Obs → Bool
  | .report (some _) => false
  | .ctx (some _) => false
  | .elapsed true => false
  | .closure true => false
  | _ => true

/-- the same, except that a closure may have run (local operations under a `LocalCollector`) -/
def Obs.inertL : Obs → Bool
  | .report (some _) => false
  | .ctx (some _) => false
  | .elapsed true => false
  | _ => true

theorem inertObs_of {op : Op} {o : Obs} (h : o.inert = true) : InertObs op o := by
  refine ⟨?_, ?_, ?_, fun _ => ?_⟩
  · intro rs e; subst e; cases h
  · intro c e; subst e; cases h
  · intro e; subst e; cases h
  · intro e; subst e; cases h

theorem inertObs_ofL {op : Op} {o : Obs} (hop : ∀ v cl, op ≠ .withProps v cl ∧ op ≠ .addProps v cl)
    (h : o.inertL = true) : InertObs op o := by
  refine ⟨?_, ?_, ?_, ?_⟩
  · intro rs e; subst e; cases h
  · intro c e; subst e; cases h
  · intro e; subst e; cases h
  · intro ⟨v, cl, e⟩
    rcases e with e | e
    · exact absurd e (hop v cl).1
    · exact absurd e (hop v cl).2

theorem Sys.cycBegin_inert (s : Sys) : s.cycBegin.2.inert = true := by
  unfold Sys.cycBegin
  split
  · rfl
  · split <;> rfl

theorem Sys.adPoll_inert (s : Sys) (t : Nat) (a call : String) : (s.adPoll t a call).2.inert = true := by
  unfold Sys.adPoll
  split
  · rfl
  · dsimp only
    split
    · split <;> rfl
    · split
      · split <;> rfl
      · rfl

theorem Sys.adEnd_inert (s : Sys) (t : Nat) (a result : String) : (s.adEnd t a result).2.inert = true := by
  unfold Sys.adEnd
  split
  · split
    · rfl
    · dsimp only
      split
      · split <;> rfl
      · rfl
  · rfl

theorem Sys.closeUnder_inert (s : Sys) (t : Nat) : (s.closeUnder t).2.inert = true := by
  unfold Sys.closeUnder
  dsimp only
  split
  · rfl
  · split
    · rfl
    · split <;> rfl

theorem Sys.collectUnder_inert (s : Sys) (t : Nat) (x : String) : (s.collectUnder t x).2.inert = true := by
  unfold Sys.collectUnder
  dsimp only
  split
  · split <;> rfl
  · rfl

theorem NoRep.setTh {s : Sys} (h : NoRep s) (t : Nat) (th : Th) (hst : StackAll (· = none) th.stack) :
    NoRep (s.setTh t th) := by
  refine ⟨h.ready, h.has, h.spans, h.ads, ?_⟩
  intro t2
  by_cases e : t2 = t
  · subst e; rw [Sys.th_setTh_same]; exact hst
  · rw [Sys.th_setTh_other _ _ _ _ e]; exact h.lines t2

theorem NoRep.dropNone {s : Sys} (h : NoRep s) (t : Nat) : NoRep (s.dropSpanVal t none) := h

theorem NoRep.tokenOfVar {s : Sys} (h : NoRep s) (p : String) : s.tokenOfVar p = [] := by
  unfold Sys.tokenOfVar
  cases hg : assocGet s.spans p with
  | none => rfl
  | some sv =>
    have := h.getSpan hg
    subst this
    rfl

theorem NoRep.flatMap_tokenOfVar {s : Sys} (h : NoRep s) (ps : List String) : ps.flatMap s.tokenOfVar = [] := by
  induction ps with
  | nil => rfl
  | cons p ps ih => simp [List.flatMap_cons, h.tokenOfVar p, ih]

/-- **one operation of a program that has not installed a reporter** -/
theorem exec_noRep (s : Sys) (t : Nat) (op : Op) (hop : ∀ c, op ≠ .setReporter c) (h : NoRep s) :
    NoRep (exec s t op).1 ∧ InertObs op (exec s t op).2 := by
  have q : ∀ {S : Sys} {o : Obs}, NoRep S → o.inert = true → NoRep (S, o).1 ∧ InertObs op (S, o).2 :=
    fun hs hi => ⟨hs, inertObs_of hi⟩
  cases op with
  | setReporter c => exact absurd rfl (hop c)
  | childN v n ps =>
    simp only [exec]
    split
    · exact q h rfl
    · rw [h.flatMap_tokenOfVar ps]
      exact q (h.setSpanNone v) rfl
  | spawn =>
    simp only [exec]
    refine q (NoRep.putCtr ?_ t _) rfl
    refine ⟨h.ready, h.has, h.spans, h.ads, ?_⟩
    intro t2
    by_cases e : t2 = t
    · subst e; rw [Sys.th_setTh_same]; exact h.lines t2
    · rw [Sys.th_setTh_other _ _ _ _ e]; exact h.lines t2
  | touch =>
    simp only [exec]
    cases hr : s.register t with
    | none => exact q h rfl
    | some s' => exact q (h.register t hr) rfl
  | root v n tr sp b =>
    simp only [exec, Sys.rootOp]
    split
    · exact q (h.setSpanNone v) rfl
    · rename_i hn
      exact absurd (by simp [h.ready]) hn
  | rootFrom v n p tp =>
    simp only [exec]
    cases hg : assocGet s.spans p with
    | none => exact q h rfl
    | some sv =>
      have := h.getSpan hg
      subst this
      exact q h rfl
  | rootFromLocal v n tp =>
    simp only [exec]
    rw [(h.lines t).currentToken_none]
    exact q h rfl
  | child1 v n p =>
    simp only [exec]
    cases hg : assocGet s.spans p with
    | none => exact q h rfl
    | some sv =>
      have := h.getSpan hg
      subst this
      exact q (h.setSpanNone v) rfl
  | childLocal v n =>
    simp only [exec]
    rw [(h.lines t).currentToken_none]
    exact q (h.setSpanNone v) rfl
  | withProps v cl =>
    simp only [exec]
    cases hg : assocGet s.spans v with
    | none => exact q h rfl
    | some sv =>
      have := h.getSpan hg
      subst this
      exact q h rfl
  | addProps v cl =>
    simp only [exec]
    cases hg : assocGet s.spans v with
    | none => exact q h rfl
    | some sv =>
      have := h.getSpan hg
      subst this
      exact q h rfl
  | addEvent v n p =>
    simp only [exec]
    cases hg : assocGet s.spans v with
    | none => exact q h rfl
    | some sv =>
      have := h.getSpan hg
      subst this
      exact q h rfl
  | pushChild v x =>
    simp only [exec]
    cases hg : assocGet s.spans v with
    | none => exact q h rfl
    | some sv =>
      have := h.getSpan hg
      subst this
      cases hx : assocGet s.lspans x with
      | none => exact q h rfl
      | some ls => exact q h rfl
  | elapsed v =>
    simp only [exec]
    cases hg : assocGet s.spans v with
    | none => exact q h rfl
    | some sv =>
      have := h.getSpan hg
      subst this
      exact q h rfl
  | cancel v =>
    simp only [exec]
    cases hg : assocGet s.spans v with
    | none => exact q h rfl
    | some sv =>
      have := h.getSpan hg
      subst this
      exact q h rfl
  | drop v =>
    simp only [exec]
    cases hg : assocGet s.spans v with
    | none => exact q h rfl
    | some sv =>
      have := h.getSpan hg
      subst this
      exact q (h.delSpan v) rfl
  | scope v =>
    simp only [exec]
    cases hg : assocGet s.spans v with
    | none => exact q h rfl
    | some sv =>
      have := h.getSpan hg
      subst this
      exact q (h.setGuards t _) rfl
  | localEnter n =>
    simp only [exec]
    cases hs : (s.th t).stack.enterSpan (s.ctr t) n with
    | none => exact q (h.setGuards t _) rfl
    | some res =>
      obtain ⟨st1, hd, c1⟩ := res
      exact q ((h.setSG t st1 _ ((h.lines t).enterSpan hs)).putCtr t _) rfl
  | collectorStart =>
    simp only [exec]
    cases hr : (s.th t).stack.registerLine none with
    | none => exact q (h.setGuards t _) rfl
    | some res =>
      obtain ⟨st1, ep⟩ := res
      exact q (h.setSG t st1 _ ((h.lines t).registerLine rfl hr)) rfl
  | close =>
    simp only [exec]
    cases hg : (s.th t).guards with
    | nil => exact q h rfl
    | cons g gs => exact q ((h.setGuards t gs).closeGuard t g) rfl
  | collect x =>
    simp only [exec]
    split
    · rename_i e gs _
      dsimp only
      have h0 := h.setGuards t gs
      cases e with
      | none => exact q ((h0.putCtr t _).withLspans _) rfl
      | some epoch =>
        dsimp only
        have h1 := h0.setStack t _ ((h0.lines t).unregister epoch).1
        exact q ((h1.putCtr t _).withLspans _) rfl
    · exact q h rfl
  | lWithProps cl =>
    simp only [exec]
    split
    · exact q h rfl
    · -- a local span under a `LocalCollector` does record, with or without a reporter
      rename_i hd _ _
      dsimp only
      have h1 := h.runClosure t cl
      exact ⟨h1.setStack t _ ((h1.lines t).withProps hd cl.kvs),
        inertObs_ofL (fun v c => And.intro (fun e => by cases e) (fun e => by cases e)) rfl⟩
    · exact q h rfl
  | lAddProps cl =>
    simp only [exec]
    split
    · dsimp only
      have h1 := h.runClosure t cl
      exact ⟨(h1.setStack t _ ((h1.lines t).addProps _ cl.kvs)).putCtr t _,
        inertObs_ofL (fun v c => And.intro (fun e => by cases e) (fun e => by cases e)) rfl⟩
    · exact q h rfl
  | lAddEvent n p =>
    simp only [exec]
    exact q ((h.setStack t _ ((h.lines t).addEvent (s.ctr t) n p)).putCtr t _) rfl
  | ctxOf v =>
    simp only [exec]
    cases hg : assocGet s.spans v with
    | none => exact q h rfl
    | some sv =>
      have := h.getSpan hg
      subst this
      exact q h rfl
  | ctxLocal =>
    simp only [exec]
    rw [(h.lines t).currentToken_none]
    exact q h rfl
  | toRecords x tr sp =>
    simp only [exec]
    split <;> exact q h rfl
  | dropLocalSpans x => simp only [exec]; exact q (h.withLspans _) rfl
  | cycle =>
    simp only [exec]
    split
    · exact q h rfl
    · have := (h.withG { s.g with drainedBy := (drainAllTagged s.rxs).reverse ++ s.g.drainedBy }).finishCycleP (drainAll s.rxs).1 (drainAll s.rxs).2 []
      have e2 : s.cycle.2 = none := this.2
      refine ⟨this.1, ?_⟩
      show InertObs _ (Obs.report s.cycle.2)
      rw [e2]
      exact inertObs_of rfl
  | flush =>
    simp only [exec]
    split
    · exact q h rfl
    · have := (h.withG { s.g with drainedBy := (drainAllTagged s.rxs).reverse ++ s.g.drainedBy }).finishCycleP (drainAll s.rxs).1 (drainAll s.rxs).2 []
      have e2 : s.cycle.2 = none := this.2
      refine ⟨this.1, ?_⟩
      show InertObs _ (Obs.report s.cycle.2)
      rw [e2]
      exact inertObs_of rfl
  | cycBegin => simp only [exec]; exact ⟨h.cycBegin, inertObs_of (Sys.cycBegin_inert s)⟩
  | cycStep =>
    simp only [exec]
    have hs := h.cycStep
    refine ⟨hs.1, ?_⟩
    rcases Sys.cycStep_obs s with ⟨r, hr⟩ | ⟨p, hp⟩ | ⟨w, hw⟩
    · cases r with
      | none => rw [hr]; exact inertObs_of rfl
      | some rs => exact absurd hr (hs.2 rs)
    · rw [hp]; exact inertObs_of rfl
    · rw [hw]; exact inertObs_of rfl
  | stats =>
    simp only [exec]
    split <;> exact q h rfl
  | exit => simp only [exec]; exact q (h.exitThread t) rfl
  | spam n =>
    simp only [exec]
    split
    · exact q h rfl
    · rw [spam_noReporter n s t h.ready]; exact q h rfl
  | adNew a kind arg =>
    simp only [exec]
    cases kind with
    | enterOnPoll => exact q (h.setAdapter a _ (fun sv e => by cases e)) rfl
    | inSpan | stream | sink =>
      all_goals
        dsimp only
        cases hg : assocGet s.spans arg with
        | none => exact q h rfl
        | some sv =>
          have := h.getSpan hg
          subst this
          refine q ?_ rfl
          apply NoRep.setAdapter (h.delSpan arg)
          intro sv' e
          cases e
          rfl
  | adPoll a call =>
    simp only [exec]
    refine ⟨?_, inertObs_of (Sys.adPoll_inert s t a call)⟩
    unfold Sys.adPoll
    cases hg : assocGet s.adapters a with
    | none => exact h
    | some ad =>
      dsimp only
      have had := h.getAdapter hg
      cases hk : ad.kind with
      | enterOnPoll =>
        dsimp only
        cases hs : (s.th t).stack.enterSpan (s.ctr t) ad.name with
        | none =>
          dsimp only
          apply NoRep.setTh
          · exact h.setAdapter a _ had
          · exact h.lines t
        | some res =>
          obtain ⟨st1, hd, c1⟩ := res
          dsimp only
          apply NoRep.putCtr
          apply NoRep.setTh
          · exact h.setAdapter a _ had
          · exact (h.lines t).enterSpan hs
      | inSpan | stream | sink =>
        all_goals
          dsimp only
          cases hsp : ad.span with
          | none =>
            dsimp only
            apply NoRep.setTh
            · exact h.setAdapter a _ (fun sv e => by cases e)
            · exact h.lines t
          | some sv =>
            have := had sv hsp
            subst this
            dsimp only
            apply NoRep.setTh
            · exact h.setAdapter a _ (fun sv e => by cases e; rfl)
            · exact h.lines t
  | adEnd a result =>
    simp only [exec]
    refine ⟨?_, inertObs_of (Sys.adEnd_inert s t a result)⟩
    unfold Sys.adEnd
    cases hg : assocGet s.adapters a with
    | none => exact h
    | some ad =>
      cases hgs : (s.th t).guards with
      | nil => exact h
      | cons g gs =>
        dsimp only
        have had := h.getAdapter hg
        cases hic : ad.inCall with
        | none => exact h
        | some call =>
          dsimp only
          have h1 : NoRep ((s.setTh t { s.th t with guards := gs }).closeGuard t g) := (h.setGuards t gs).closeGuard t g
          split
          · have h2 := h1.setAdapter a { ad with span := none, inCall := none } (fun sv e => by cases e)
            cases hsp : ad.span with
            | none => exact h2
            | some sv =>
              have := had sv hsp
              subst this
              exact h2
          · exact h1.setAdapter a { ad with inCall := none } had
  | adDrop a =>
    simp only [exec]
    cases hg : assocGet s.adapters a with
    | none => exact q h rfl
    | some ad =>
      dsimp only
      have hdel : NoRep { s with adapters := assocDel s.adapters a } :=
        h.withAdapters _ (fun e he => h.ads e (mem_assocDel he))
      cases hsp : ad.span with
      | none => exact q hdel rfl
      | some sv =>
        have := h.getAdapter hg sv hsp
        subst this
        exact q hdel rfl
  | closeUnder =>
    simp only [exec]
    refine ⟨?_, inertObs_of (Sys.closeUnder_inert s t)⟩
    unfold Sys.closeUnder
    dsimp only
    split
    · exact h
    · split
      · exact h
      · split
        · dsimp only; exact (h.setGuards t _).closeGuard t _
        · dsimp only; exact (h.setGuards t _).closeGuard t _
        · exact h
  | collectUnder x =>
    simp only [exec]
    refine ⟨?_, inertObs_of (Sys.collectUnder_inert s t x)⟩
    unfold Sys.collectUnder
    dsimp only
    split
    · split
      · exact h
      · dsimp only
        rename_i epoch _ _ _
        exact ((h.setSG t _ _ ((h.lines t).unregister epoch).1).putCtr t _).withLspans _
    · exact h
  | unwind =>
    simp only [exec]
    exact q ((NoRep.foldl_closeGuard (s.th t).guards h t).setGuards t []) rfl

end Fastrace

namespace Fastrace

/-- **every observation of a program that never installs a reporter** is inert -/
theorem run_noRep (p : Program) (s : Sys)
    (hp : ∀ x ∈ p, ∀ c, x.2 ≠ .setReporter c) (h : NoRep s) :
    ∀ x ∈ p.zip (run s p).2, InertObs x.1.2 x.2 := by
  induction p generalizing s with
  | nil => intro x hx; simp [run] at hx
  | cons y rest ih =>
    obtain ⟨t, op⟩ := y
    have hy := hp (t, op) (by simp)
    have he := exec_noRep s t op hy h
    intro x hx
    simp only [run, List.zip_cons_cons, List.mem_cons] at hx
    rcases hx with rfl | hx
    · exact he.2
    · exact ih (exec s t op).1 (fun z hz => hp z (by simp [hz])) he.1 x hx

end Fastrace
