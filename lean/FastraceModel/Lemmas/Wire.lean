import FastraceModel.Model.Report.Thrift
import FastraceModel.Model.Report.Otel

/-! decoders for the wire primitives and their round-trip lemmas -/
namespace Fastrace.Thrift

/-- inverse of `varint` (reads one varint off the front of a byte list) -/
def decVarint : List Nat → Option (Nat × List Nat)
  | [] => none
  | b :: rest =>
    if b < 128 then some (b, rest)
    else match decVarint rest with
      | some (v, r) => some ((b - 128) + 128 * v, r)
      | none => none

theorem decVarint_varint (n : Nat) (rest : List Nat) :
    decVarint (varint n ++ rest) = some (n, rest) := by
  induction n using Nat.strongRecOn with
  | _ n ih =>
    rw [varint]
    by_cases h : n < 128
    · simp [h, decVarint]
    · have hlt : n / 128 < n := by omega
      simp only [h, dite_false, List.cons_append, decVarint]
      have : ¬ (n % 128 + 128 < 128) := by omega
      simp only [this, if_false, ih _ hlt]
      congr 2
      omega

theorem varint_bytes (n : Nat) : ∀ b ∈ varint n, b < 256 := by
  induction n using Nat.strongRecOn with
  | _ n ih =>
    rw [varint]
    by_cases h : n < 128
    · simp [h]; omega
    · have hlt : n / 128 < n := by omega
      simp only [h, dite_false, List.mem_cons]
      rintro b (rfl | hb)
      · omega
      · exact ih _ hlt b hb

def unzigzag64 (z : Nat) : Nat := if z % 2 = 0 then z / 2 else 2 ^ 64 - (z + 1) / 2
def unzigzag32 (z : Nat) : Nat := if z % 2 = 0 then z / 2 else 2 ^ 32 - (z + 1) / 2

theorem unzigzag64_zigzag64 (u : Nat) (h : u < 2 ^ 64) : unzigzag64 (zigzag64 u) = u := by
  unfold unzigzag64 zigzag64
  split <;> split <;> omega

theorem unzigzag32_zigzag32 (u : Nat) (h : u < 2 ^ 32) : unzigzag32 (zigzag32 u) = u := by
  unfold unzigzag32 zigzag32
  split <;> split <;> omega

end Fastrace.Thrift

namespace Fastrace.Otel

/-- big-endian bytes → number -/
def ofBe : List Nat → Nat
  | [] => 0
  | b :: rest => b * 256 ^ rest.length + ofBe rest

@[simp] theorem be_length (w n : Nat) : (be w n).length = w := by
  induction w with
  | zero => rfl
  | succ w ih => simp [be, ih]

theorem ofBe_be (w n : Nat) : ofBe (be w n) = n % 256 ^ w := by
  induction w with
  | zero => simp [be, ofBe, Nat.mod_one]
  | succ w ih =>
    simp only [be, ofBe, be_length, ih]
    have := @Nat.mod_pow_succ n 256 w
    rw [this, Nat.mul_comm]
    omega

theorem be_bytes (w n : Nat) : ∀ b ∈ be w n, b < 256 := by
  induction w with
  | zero => simp [be]
  | succ w ih =>
    simp only [be, List.mem_cons]
    rintro b (rfl | hb)
    · exact Nat.mod_lt _ (by decide)
    · exact ih b hb

end Fastrace.Otel
