import FastraceModel.Lemmas.Frame

/-! every operation that does not itself open or close a guard preserves the frame -/
namespace Fastrace

/-- operations that neither push nor pop a thread-local guard -/
def isPlain : Op → Bool
  | .scope _ | .localEnter _ | .collectorStart | .close | .collect _ | .exit | .adPoll _ _ | .adEnd _ _
  | .closeUnder | .collectUnder _ | .unwind => false
  | _ => true

theorem Stack.addEvent_ext (st : Stack) (c : Ctr) (n : String) (p : Option Props) :
    LinesExt st.lines (st.addEvent c n p).1.lines ∧ (st.addEvent c n p).1.cap = st.cap := by
  unfold Stack.addEvent
  cases h : st.lines with
  | nil => simp [h, LinesExt]
  | cons l ls => exact ⟨⟨SpanLine.addEvent_ext l c n p, LinesExt.refl ls⟩, rfl⟩

theorem Stack.addProps_ext (st : Stack) (c : Ctr) (kvs : Props) :
    LinesExt st.lines (st.addProps c kvs).1.lines ∧ (st.addProps c kvs).1.cap = st.cap := by
  unfold Stack.addProps
  cases h : st.lines with
  | nil => simp [h, LinesExt]
  | cons l ls => exact ⟨⟨SpanLine.addProps_ext l c kvs, LinesExt.refl ls⟩, rfl⟩

theorem Stack.withProps_ext (st : Stack) (h : LocalHandle) (kvs : Props) :
    LinesExt st.lines (st.withProps h kvs).lines ∧ (st.withProps h kvs).cap = st.cap := by
  unfold Stack.withProps
  cases hl : st.lines with
  | nil => simp [hl, LinesExt]
  | cons l ls => exact ⟨⟨SpanLine.withProps_ext l h kvs, LinesExt.refl ls⟩, rfl⟩

/-- entering and immediately leaving a local span -/
theorem Stack.enter_exit_ext (st : Stack) (c : Ctr) (n : String) (st1 : Stack) (h : LocalHandle) (c1 : Ctr)
    (hs : st.enterSpan c n = some (st1, h, c1)) (hp : 1 ≤ c.pref)
    (hz : ∀ l ∈ st.lines, l.queue.nextParent ≠ some 0) (c2 : Ctr) :
    LinesExt st.lines (st1.exitSpan c2 h).1.lines ∧ (st1.exitSpan c2 h).1.cap = st.cap := by
  unfold Stack.enterSpan at hs
  cases hl : st.lines with
  | nil => simp [hl] at hs
  | cons l ls =>
    simp only [hl] at hs
    cases hst : l.startSpan c n with
    | none => simp [hst] at hs
    | some res =>
      obtain ⟨l1, h', c1'⟩ := res
      simp only [hst, Option.some.injEq, Prod.mk.injEq] at hs
      obtain ⟨rfl, rfl, rfl⟩ := hs
      simp only [Stack.exitSpan]
      exact ⟨⟨SpanLine.finish_after_ext l l1 l1 c c1' c2 n h' hst hp (hz l (by simp [hl])) (LineExt.refl l1),
        LinesExt.refl ls⟩, trivial⟩

theorem pres_setStack (th : Th) (st : Stack) (h : LinesExt th.stack.lines st.lines) (hc : st.cap = th.stack.cap) :
    Pres th { th with stack := st } := ⟨rfl, h, hc, rfl⟩

theorem Sys.ctr_pref (s : Sys) (t : Nat) : (s.ctr t).pref = (s.th t).pref := rfl

theorem Sys.enterExitLocal_pres (s : Sys) (t : Nat) (hg : Good (s.th t)) :
    Pres (s.th t) ((s.enterExitLocal t).th t) := by
  unfold Sys.enterExitLocal
  dsimp only
  cases hs : (s.th t).stack.enterSpan (s.ctr t) "cl" with
  | none => exact Pres.refl _
  | some res =>
    obtain ⟨st1, h, c1⟩ := res
    dsimp only
    have := Stack.enter_exit_ext (s.th t).stack (s.ctr t) "cl" st1 h c1 hs (by rw [Sys.ctr_pref]; exact hg.1) hg.2 c1
    refine Pres.trans (pres_setStack (s.th t) _ this.1 this.2) (Pres.of_loc ?_)
    rw [Sys.putCtr_loc, Sys.th_setTh_same]

theorem foldl_enterExitLocal_pres {α : Type} (l : List α) (s : Sys) (t : Nat) (hg : Good (s.th t)) :
    Pres (s.th t) ((l.foldl (fun s _ => s.enterExitLocal t) s).th t) := by
  induction l generalizing s with
  | nil => exact Pres.refl _
  | cons x xs ih =>
    simp only [List.foldl]
    have h1 := Sys.enterExitLocal_pres s t hg
    exact Pres.trans h1 (ih _ (hg.of_pres h1))

/-- a user closure, whatever it re-enters, preserves the frame -/
theorem Sys.runClosure_pres (s : Sys) (t : Nat) (cl : Closure) (hg : Good (s.th t)) :
    Pres (s.th t) ((s.runClosure t cl).th t) := by
  unfold Sys.runClosure
  split
  · exact Sys.enterExitLocal_pres s t hg
  · exact foldl_enterExitLocal_pres _ s t hg
  · dsimp only
    have := Stack.addEvent_ext (s.th t).stack (s.ctr t) "cl-ev" none
    refine Pres.trans (pres_setStack (s.th t) _ this.1 this.2) (Pres.of_loc ?_)
    rw [Sys.putCtr_loc, Sys.th_setTh_same]
  · split
    · exact Pres.refl _
    · dsimp only
      apply Pres.of_loc
      rw [Sys.dropSpanVal_loc, th_withSpans, Sys.newSpan_loc]
  · exact Pres.refl _

theorem spam_loc (n : Nat) (s : Sys) (t : Nat) :
    ((Nat.rec (motive := fun _ => Sys) s (fun _ acc => acc.spamOnce t) n).th t).loc = (s.th t).loc := by
  induction n with
  | zero => rfl
  | succ n ih =>
    show ((Sys.spamOnce _ t).th t).loc = _
    rw [← ih]
    unfold Sys.spamOnce
    split
    · rfl
    · dsimp only
      rw [Sys.dropSpanVal_loc, th_withSpans, Sys.newSpan_loc]

theorem Sys.rootOp_pres (s : Sys) (t : Nat) (v n : String) (tr sp : Nat) (b : Bool) :
    Pres (s.th t) ((s.rootOp t v n tr sp b).1.th t) := by
  unfold Sys.rootOp
  split
  · exact Pres.refl _
  · split
    · exact Pres.refl _
    · split
      · apply Pres.of_loc
        rw [Sys.newSpan_loc, Sys.sendCmd_loc]; rfl
      · exact Pres.of_loc (Sys.newSpan_loc _ _ _ _ _ _ _)

/-- **plain operations preserve the frame** -/
theorem exec_plain_pres (s : Sys) (t : Nat) (op : Op) (hp : isPlain op = true) (hg : Good (s.th t)) :
    Pres (s.th t) ((exec s t op).1.th t) := by
  cases op with
  | scope v => simp [isPlain] at hp
  | localEnter n => simp [isPlain] at hp
  | collectorStart => simp [isPlain] at hp
  | close => simp [isPlain] at hp
  | collect x => simp [isPlain] at hp
  | exit => simp [isPlain] at hp
  | adPoll a c => simp [isPlain] at hp
  | adEnd a r => simp [isPlain] at hp
  | closeUnder => simp [isPlain] at hp
  | collectUnder x => simp [isPlain] at hp
  | unwind => simp [isPlain] at hp
  | adNew a kind arg =>
    simp only [exec]
    cases kind with
    | enterOnPoll => exact Pres.refl _
    | inSpan | stream | sink => all_goals (dsimp only; split <;> exact Pres.refl _)
  | adDrop a =>
    simp only [exec]
    split
    · exact Pres.refl _
    · split
      · apply Pres.of_loc
        rw [Sys.dropSpanVal_loc]; rfl
      · exact Pres.refl _
  | setReporter c => exact Pres.refl _
  | spawn =>
    simp only [exec]
    apply Pres.of_loc
    rw [Sys.putCtr_loc, Sys.th_setTh_same]
  | touch =>
    simp only [exec]
    cases hr : s.register t with
    | none => exact Pres.refl _
    | some s' => exact Pres.of_loc (Sys.register_loc s s' t t hr)
  | root v n tr sp b => simp only [exec]; exact Sys.rootOp_pres s t v n tr sp b
  | rootFrom v n p tp =>
    simp only [exec]
    split
    · exact Pres.refl _
    · exact Pres.refl _
    · split
      · exact Pres.refl _
      · exact Sys.rootOp_pres s t v n _ _ _
  | rootFromLocal v n tp =>
    simp only [exec]
    split
    · exact Pres.refl _
    · split
      · exact Pres.refl _
      · exact Sys.rootOp_pres s t v n _ _ _
  | child1 v n p =>
    simp only [exec]
    split
    · exact Pres.refl _
    · exact Pres.refl _
    · exact Pres.of_loc (Sys.newSpan_loc _ _ _ _ _ _ _)
  | childN v n ps =>
    simp only [exec]
    split
    · exact Pres.refl _
    · split
      · exact Pres.refl _
      · exact Pres.of_loc (Sys.newSpan_loc _ _ _ _ _ _ _)
  | childLocal v n =>
    simp only [exec]
    split
    · exact Pres.of_loc (Sys.newSpan_loc _ _ _ _ _ _ _)
    · exact Pres.refl _
  | withProps v cl =>
    simp only [exec]
    split
    · exact Pres.refl _
    · exact Pres.refl _
    · dsimp only
      rw [th_withSpans]
      exact Sys.runClosure_pres s t cl hg
  | addProps v cl =>
    simp only [exec]
    split
    · exact Pres.refl _
    · exact Pres.refl _
    · dsimp only
      have h1 : Pres (s.th t) ((s.putCtr t ((s.ctr t).nextId.2.now.2)).th t) := Pres.of_loc (Sys.putCtr_loc _ _ _ _)
      have h2 := Sys.runClosure_pres (s.putCtr t ((s.ctr t).nextId.2.now.2)) t cl (hg.of_pres h1)
      refine (h1.trans h2).trans (Pres.of_loc ?_)
      rw [Sys.submitSpans_loc]
  | addEvent v n p =>
    simp only [exec]
    split
    · exact Pres.refl _
    · exact Pres.refl _
    · dsimp only
      apply Pres.of_loc
      rw [Sys.submitSpans_loc, Sys.putCtr_loc]
  | pushChild v x =>
    simp only [exec]
    split
    · split
      · exact Pres.refl _
      · split
        · exact Pres.refl _
        · exact Pres.of_loc (Sys.submitSpans_loc _ _ _ _ _)
    · exact Pres.refl _
  | elapsed v => simp only [exec]; split <;> exact Pres.refl _
  | cancel v =>
    simp only [exec]
    split
    · exact Pres.refl _
    · exact Pres.refl _
    · split
      · rw [Sys.noteParked_th]
        exact Pres.of_loc (Sys.sendCmd_loc _ _ _ _ _)
      · exact Pres.refl _
  | drop v =>
    simp only [exec]
    split
    · exact Pres.refl _
    · apply Pres.of_loc
      rw [Sys.dropSpanVal_loc]; rfl
  | lWithProps cl =>
    simp only [exec]
    split
    · exact Pres.refl _
    · rename_i h _ hgd
      dsimp only
      have h1 := Sys.runClosure_pres s t cl hg
      rw [Sys.th_setTh_same]
      have h2 := Stack.withProps_ext ((s.runClosure t cl).th t).stack h cl.kvs
      exact h1.trans (pres_setStack _ _ h2.1 h2.2)
    · exact Pres.refl _
  | lAddProps cl =>
    simp only [exec]
    split
    · dsimp only
      have h1 := Sys.runClosure_pres s t cl hg
      have h2 := Stack.addProps_ext ((s.runClosure t cl).th t).stack ((s.runClosure t cl).ctr t) cl.kvs
      refine (h1.trans (pres_setStack _ _ h2.1 h2.2)).trans (Pres.of_loc ?_)
      rw [Sys.putCtr_loc, Sys.th_setTh_same]
    · exact Pres.refl _
  | lAddEvent n p =>
    simp only [exec]
    have h2 := Stack.addEvent_ext (s.th t).stack (s.ctr t) n p
    refine (pres_setStack _ _ h2.1 h2.2).trans (Pres.of_loc ?_)
    rw [Sys.putCtr_loc, Sys.th_setTh_same]
  | ctxOf v => simp only [exec]; split <;> exact Pres.refl _
  | ctxLocal => simp only [exec]; split <;> exact Pres.refl _
  | toRecords x tr sp => simp only [exec]; split <;> exact Pres.refl _
  | dropLocalSpans x => simp only [exec]; exact Pres.refl _
  | cycle => simp only [exec]; split <;> first | exact Pres.refl _ | (rw [show (s.cycle.1, Obs.report s.cycle.2).1.th t = s.th t from Sys.cycle_th s t]; exact Pres.refl _)
  | flush => simp only [exec]; split <;> first | exact Pres.refl _ | (rw [show (s.cycle.1, Obs.report s.cycle.2).1.th t = s.th t from Sys.cycle_th s t]; exact Pres.refl _)
  | cycBegin => rw [show (exec s t .cycBegin).1.th t = s.th t from Sys.cycBegin_th s t]; exact Pres.refl _
  | cycStep => rw [show (exec s t .cycStep).1.th t = s.th t from Sys.cycStep_th s t]; exact Pres.refl _
  | stats => simp only [exec]; split <;> exact Pres.refl _
  | spam n =>
    simp only [exec]
    split
    · exact Pres.refl _
    · exact Pres.of_loc (spam_loc n s t)

end Fastrace
