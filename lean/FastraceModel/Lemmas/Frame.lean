import FastraceModel.Lemmas.Threads

/-!
The frame invariant behind C10 (and the local part of C07 / C02): a well-nested piece of a
thread's program leaves the thread's span stack as it found it, except that span queues may
have grown.
-/
namespace Fastrace

/-- `l'` is `l` later: same scope identity, token, sampling decision and innermost open local
    span; the queue has only grown, and every entry that was there keeps its id and parent -/
def LineExt (l l' : SpanLine) : Prop :=
  l'.epoch = l.epoch ∧ l'.token = l.token ∧ l'.isSampled = l.isSampled ∧
  l'.queue.nextParent = l.queue.nextParent ∧ l'.queue.cap = l.queue.cap ∧
  ∀ (i : Nat) (sp : RawSpan), l.queue.spans[i]? = some sp →
    ∃ sp' : RawSpan, l'.queue.spans[i]? = some sp' ∧ sp'.id = sp.id ∧ sp'.parentId = sp.parentId

theorem LineExt.refl (l : SpanLine) : LineExt l l :=
  ⟨rfl, rfl, rfl, rfl, rfl, fun _ sp h => ⟨sp, h, rfl, rfl⟩⟩

theorem LineExt.trans {a b c : SpanLine} (h1 : LineExt a b) (h2 : LineExt b c) : LineExt a c := by
  obtain ⟨a1, a2, a3, a4, a5, a6⟩ := h1
  obtain ⟨b1, b2, b3, b4, b5, b6⟩ := h2
  refine ⟨b1.trans a1, b2.trans a2, b3.trans a3, b4.trans a4, b5.trans a5, ?_⟩
  intro i sp h
  obtain ⟨sp', h', e1, e2⟩ := a6 i sp h
  obtain ⟨sp'', h'', e3, e4⟩ := b6 i sp' h'
  exact ⟨sp'', h'', e3.trans e1, e4.trans e2⟩

def LinesExt : List SpanLine → List SpanLine → Prop
  | [], [] => True
  | l :: ls, l' :: ls' => LineExt l l' ∧ LinesExt ls ls'
  | _, _ => False

theorem LinesExt.refl : ∀ ls, LinesExt ls ls
  | [] => trivial
  | l :: ls => ⟨LineExt.refl l, LinesExt.refl ls⟩

theorem LinesExt.trans : ∀ {a b c : List SpanLine}, LinesExt a b → LinesExt b c → LinesExt a c
  | [], [], [], _, _ => trivial
  | _ :: _, _ :: _, _ :: _, ⟨h1, h2⟩, ⟨h3, h4⟩ => ⟨h1.trans h3, LinesExt.trans h2 h4⟩
  | [], [], _ :: _, _, h => h.elim
  | [], _ :: _, _, h, _ => h.elim
  | _ :: _, [], _, h, _ => h.elim
  | _ :: _, _ :: _, [], _, h => h.elim

/-- the thread-local state is preserved up to queue growth -/
def Pres (th th' : Th) : Prop :=
  th'.guards = th.guards ∧ LinesExt th.stack.lines th'.stack.lines ∧ th'.stack.cap = th.stack.cap ∧
  th'.pref = th.pref

theorem Pres.refl (th : Th) : Pres th th := ⟨rfl, LinesExt.refl _, rfl, rfl⟩

theorem Pres.trans {a b c : Th} (h1 : Pres a b) (h2 : Pres b c) : Pres a c :=
  ⟨h2.1.trans h1.1, LinesExt.trans h1.2.1 h2.2.1, h2.2.2.1.trans h1.2.2.1, h2.2.2.2.trans h1.2.2.2⟩

theorem Pres.of_loc {th th' : Th} (h : th'.loc = th.loc) : Pres th th' := by
  simp only [Th.loc, Prod.mk.injEq] at h
  obtain ⟨h1, h2, h3⟩ := h
  exact ⟨h2, h1 ▸ LinesExt.refl _, by rw [h1], h3⟩

/-- ids are drawn with a non-zero prefix and no scope has the zero id as innermost span -/
def Good (th : Th) : Prop := 1 ≤ th.pref ∧ ∀ l ∈ th.stack.lines, l.queue.nextParent ≠ some 0

theorem linesExt_good {a b : List SpanLine} (h : LinesExt a b) (hg : ∀ l ∈ a, l.queue.nextParent ≠ some 0) :
    ∀ l ∈ b, l.queue.nextParent ≠ some 0 := by
  induction a generalizing b with
  | nil => cases b with
    | nil => intro l hl; cases hl
    | cons _ _ => exact h.elim
  | cons x xs ih =>
    cases b with
    | nil => exact h.elim
    | cons y ys =>
      intro l hl
      simp only [List.mem_cons] at hl
      rcases hl with rfl | hl
      · rw [h.1.2.2.2.1]; exact hg x (by simp)
      · exact ih h.2 (fun l hl => hg l (by simp [hl])) l hl

theorem Good.of_pres {th th' : Th} (hg : Good th) (hp : Pres th th') : Good th' :=
  ⟨hp.2.2.2 ▸ hg.1, linesExt_good hp.2.1 hg.2⟩

/-- the observable frame (C10) is a function of what `LinesExt` preserves -/
def Stack.frame (st : Stack) : List (Nat × Option Token × Bool × Option Nat) :=
  st.lines.map fun l => (l.epoch, l.token, l.isSampled, l.queue.nextParent)

theorem frame_of_linesExt : ∀ {a b : List SpanLine}, LinesExt a b →
    b.map (fun l => (l.epoch, l.token, l.isSampled, l.queue.nextParent))
      = a.map (fun l => (l.epoch, l.token, l.isSampled, l.queue.nextParent))
  | [], [], _ => rfl
  | x :: xs, y :: ys, ⟨h, hs⟩ => by
    simp only [List.map_cons]
    rw [frame_of_linesExt hs, h.1, h.2.1, h.2.2.1, h.2.2.2.1]
  | [], _ :: _, h => h.elim
  | _ :: _, [], h => h.elim

theorem Pres.frame {th th' : Th} (h : Pres th th') : th'.stack.frame = th.stack.frame :=
  frame_of_linesExt h.2.1

/-! ### queue-level facts -/

theorem nextId_ne_zero (c : Ctr) (h : 1 ≤ c.pref) : c.nextId.1 ≠ 0 := by
  simp only [Ctr.nextId]
  have : 2 ^ 32 ≤ c.pref * 2 ^ 32 := Nat.le_mul_of_pos_left _ h
  omega

theorem getElem?_append_single_of_some {α : Type} (l : List α) (x a : α) (i : Nat) (h : l[i]? = some a) :
    (l ++ [x])[i]? = some a := by
  obtain ⟨hi, _⟩ := List.getElem?_eq_some_iff.mp h
  rw [List.getElem?_append_left hi]; exact h

/-- appending an entry and leaving everything else alone -/
theorem lineExt_append (l : SpanLine) (sp : RawSpan) :
    LineExt l { l with queue := { l.queue with spans := l.queue.spans ++ [sp] } } :=
  ⟨rfl, rfl, rfl, rfl, rfl, fun i a h => ⟨a, getElem?_append_single_of_some _ _ _ _ h, rfl, rfl⟩⟩

theorem SpanLine.addEvent_ext (l : SpanLine) (c : Ctr) (n : String) (p : Option Props) :
    LineExt l (l.addEvent c n p).1 := by
  unfold SpanLine.addEvent
  split
  · exact LineExt.refl l
  · simp only [SpanQueue.addEvent]
    split
    · exact LineExt.refl l
    · exact lineExt_append l _

theorem SpanLine.addProps_ext (l : SpanLine) (c : Ctr) (kvs : Props) : LineExt l (l.addProps c kvs).1 := by
  unfold SpanLine.addProps
  split
  · exact LineExt.refl l
  · simp only [SpanQueue.addProps]
    split
    · exact LineExt.refl l
    · exact lineExt_append l _

theorem getElem?_set_map {α : Type} (l : List α) (idx i : Nat) (a b : α) (h : l[i]? = some a)
    (hidx : l[idx]? = some b) (x : α) :
    ∃ y, (l.set idx x)[i]? = some y ∧ (i = idx → y = x) ∧ (i ≠ idx → y = a) := by
  by_cases e : i = idx
  · subst e
    obtain ⟨hi, _⟩ := List.getElem?_eq_some_iff.mp h
    exact ⟨x, by simp [List.getElem?_set, hi], fun _ => rfl, fun h => (h rfl).elim⟩
  · refine ⟨a, ?_, fun h => (e h).elim, fun _ => rfl⟩
    rw [List.getElem?_set_ne (Ne.symm e)]; exact h

theorem SpanLine.withProps_ext (l : SpanLine) (h : LocalHandle) (kvs : Props) : LineExt l (l.withProps h kvs) := by
  unfold SpanLine.withProps
  split
  · exact LineExt.refl l
  · split
    · simp only [SpanQueue.withProps]
      cases hs : l.queue.spans[h.index]? with
      | none => exact LineExt.refl l
      | some s =>
        refine ⟨rfl, rfl, rfl, rfl, rfl, ?_⟩
        intro i a ha
        obtain ⟨y, hy, e1, e2⟩ := getElem?_set_map l.queue.spans h.index i a s ha hs { s with props := extendProps s.props kvs }
        refine ⟨y, hy, ?_, ?_⟩
        · by_cases e : i = h.index
          · rw [e1 e]; subst e; rw [hs] at ha; cases ha; rfl
          · rw [e2 e]
        · by_cases e : i = h.index
          · rw [e1 e]; subst e; rw [hs] at ha; cases ha; rfl
          · rw [e2 e]
    · exact LineExt.refl l

/-- the raw span `start_span` appends -/
def newLocalRaw (c : Ctr) (np : Option Nat) (n : String) : RawSpan :=
  { id := c.nextId.1, parentId := np.getD 0, beginT := (c.nextId.2).now.1, name := n, props := none,
    kind := .span, endT := 0 }

/-- entering and leaving a local span on a line: the line is as before, one entry longer -/
theorem SpanLine.enter_exit_ext (l : SpanLine) (c : Ctr) (n : String) (l1 : SpanLine) (h : LocalHandle) (c1 : Ctr)
    (hs : l.startSpan c n = some (l1, h, c1)) (hp : 1 ≤ c.pref) (hz : l.queue.nextParent ≠ some 0) :
    l1.epoch = l.epoch ∧ l1.token = l.token ∧ l1.isSampled = l.isSampled ∧ l1.queue.cap = l.queue.cap ∧
    h = ⟨l.queue.spans.length, l.epoch⟩ ∧ l1.queue.nextParent = some c.nextId.1 ∧ c.nextId.1 ≠ 0 ∧
    l1.queue.spans = l.queue.spans ++ [newLocalRaw c l.queue.nextParent n] := by
  unfold SpanLine.startSpan SpanQueue.startSpan at hs
  by_cases h1 : (!l.isSampled) = true
  · simp [h1] at hs
  · by_cases h2 : l.queue.spans.length ≥ l.queue.cap
    · simp [h1, h2] at hs
    · simp only [h1, h2, if_false, Option.some.injEq, Prod.mk.injEq] at hs
      obtain ⟨rfl, rfl, rfl⟩ := hs
      exact ⟨rfl, rfl, rfl, rfl, rfl, rfl, nextId_ne_zero c hp, rfl⟩

/-- closing a local span on a line that is an extension of the line it was opened on (by
    `startSpan`) gives an extension of the *original* line: the innermost open span is the
    one it was before the span was entered -/
theorem SpanLine.finish_after_ext (l l1 l2 : SpanLine) (c c1 c2 : Ctr) (n : String) (h : LocalHandle)
    (hs : l.startSpan c n = some (l1, h, c1)) (hp : 1 ≤ c.pref) (hz : l.queue.nextParent ≠ some 0)
    (he : LineExt l1 l2) : LineExt l (l2.finishSpan c2 h).1 := by
  obtain ⟨e1, e2, e3, e4, e5, e6, e7, e8⟩ := SpanLine.enter_exit_ext l c n l1 h c1 hs hp hz
  obtain ⟨f1, f2, f3, f4, f5, f6⟩ := he
  have hidx : l1.queue.spans[h.index]? = some (newLocalRaw c l.queue.nextParent n) := by
    rw [e8, e5]; simp
  obtain ⟨sp', hsp', hid, hpar⟩ := f6 _ _ hidx
  unfold SpanLine.finishSpan
  have hep : l2.epoch = h.epoch := by rw [f1, e1, e5]
  simp only [hep, if_true, SpanQueue.finishSpan, hsp']
  have hpar' : sp'.parentId = l.queue.nextParent.getD 0 := by rw [hpar]; rfl
  refine ⟨by simp [hep, e5], by simp [f2, e2], by simp [f3, e3], ?_, by simp [f5, e4], ?_⟩
  · simp only [hpar']
    cases hnp : l.queue.nextParent with
    | none => simp
    | some p =>
      have : p ≠ 0 := fun e => hz (by rw [hnp, e])
      simp [this]
  · intro i a ha
    have ha1 : l1.queue.spans[i]? = some a := by
      rw [e8]; exact getElem?_append_single_of_some _ _ _ _ ha
    obtain ⟨b, hb, hb1, hb2⟩ := f6 i a ha1
    obtain ⟨y, hy, y1, y2⟩ := getElem?_set_map l2.queue.spans h.index i b sp' hb hsp' { sp' with endT := c2.now.1 }
    refine ⟨y, hy, ?_, ?_⟩
    · by_cases e : i = h.index
      · rw [y1 e]; subst e; rw [hsp'] at hb; cases hb; exact hb1
      · rw [y2 e]; exact hb1
    · by_cases e : i = h.index
      · rw [y1 e]; subst e; rw [hsp'] at hb; cases hb; exact hb2
      · rw [y2 e]; exact hb2

end Fastrace
