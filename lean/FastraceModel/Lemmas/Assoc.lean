import FastraceModel.Model.Api
/-! association-list helpers of `Model/Api.lean` -/
namespace Fastrace

theorem natGet_natSet_same {β : Type} (l : List (Nat × β)) (k : Nat) (v : β) :
    natGet (natSet l k v) k = some v := by
  induction l with
  | nil => simp [natSet, natGet]
  | cons hd tl ih =>
    obtain ⟨k', v'⟩ := hd
    by_cases h : k' = k
    · simp [natSet, natGet, h]
    · have hb : (k' == k) = false := by simp [h]
      simp only [natSet, h, if_false]
      simp only [natGet, List.find?, hb] at ih ⊢
      exact ih

theorem natGet_natSet_other {β : Type} (l : List (Nat × β)) (k k2 : Nat) (v : β) (hne : k2 ≠ k) :
    natGet (natSet l k v) k2 = natGet l k2 := by
  induction l with
  | nil =>
    have : (k == k2) = false := by simp; exact fun h => hne h.symm
    simp [natSet, natGet, List.find?, this]
  | cons hd tl ih =>
    obtain ⟨k', v'⟩ := hd
    by_cases h : k' = k
    · subst h
      have : (k' == k2) = false := by simp; exact fun h => hne h.symm
      simp [natSet, natGet, List.find?, this]
    · simp only [natSet, h, if_false]
      by_cases h2 : k' = k2
      · simp [natGet, List.find?, h2]
      · have hb : (k' == k2) = false := by simp [h2]
        simp only [natGet, List.find?, hb] at ih ⊢
        exact ih

theorem assocGet_assocSet_same {β : Type} (l : List (String × β)) (k : String) (v : β) :
    assocGet (assocSet l k v) k = some v := by
  simp only [assocGet, assocSet]
  induction l with
  | nil => simp [List.find?]
  | cons hd tl ih =>
    by_cases h : hd.1 = k
    · have : (hd.1 != k) = false := by simp [h]
      simp only [List.filter, this]
      exact ih
    · have h1 : (hd.1 != k) = true := by simp [h]
      have h2 : (hd.1 == k) = false := by simp [h]
      simp only [List.filter, h1, List.cons_append, List.find?, h2]
      exact ih

theorem assocGet_assocSet_other {β : Type} (l : List (String × β)) (k k2 : String) (v : β) (hne : k2 ≠ k) :
    assocGet (assocSet l k v) k2 = assocGet l k2 := by
  simp only [assocGet, assocSet]
  induction l with
  | nil =>
    have : (k == k2) = false := by simp; exact fun h => hne h.symm
    simp [List.find?, this]
  | cons hd tl ih =>
    by_cases h : hd.1 = k
    · have h1 : (hd.1 != k) = false := by simp [h]
      have h2 : (hd.1 == k2) = false := by simp [h]; exact fun e => hne e.symm
      simp only [List.filter, h1, List.find?, h2]
      exact ih
    · have h1 : (hd.1 != k) = true := by simp [h]
      simp only [List.filter, h1, List.cons_append, List.find?]
      by_cases h3 : hd.1 = k2
      · simp [h3]
      · have h4 : (hd.1 == k2) = false := by simp [h3]
        simp only [h4]
        exact ih

@[simp] theorem Sys.th_setTh_same (s : Sys) (t : Nat) (th : Th) : (s.setTh t th).th t = th := by
  simp [Sys.th, Sys.setTh, natGet_natSet_same]

theorem Sys.th_setTh_other (s : Sys) (t t2 : Nat) (th : Th) (h : t2 ≠ t) : (s.setTh t th).th t2 = s.th t2 := by
  simp [Sys.th, Sys.setTh, natGet_natSet_other _ _ _ _ h]

@[simp] theorem Sys.setTh_rxs (s : Sys) (t : Nat) (th : Th) : (s.setTh t th).rxs = s.rxs := rfl
@[simp] theorem Sys.setTh_coll (s : Sys) (t : Nat) (th : Th) : (s.setTh t th).coll = s.coll := rfl
@[simp] theorem Sys.setTh_cyc (s : Sys) (t : Nat) (th : Th) : (s.setTh t th).cyc = s.cyc := rfl
@[simp] theorem Sys.setTh_nextCollect (s : Sys) (t : Nat) (th : Th) : (s.setTh t th).nextCollect = s.nextCollect := rfl
@[simp] theorem Sys.setTh_clock (s : Sys) (t : Nat) (th : Th) : (s.setTh t th).clock = s.clock := rfl
@[simp] theorem Sys.setTh_spans (s : Sys) (t : Nat) (th : Th) : (s.setTh t th).spans = s.spans := rfl
@[simp] theorem Sys.setTh_lspans (s : Sys) (t : Nat) (th : Th) : (s.setTh t th).lspans = s.lspans := rfl
@[simp] theorem Sys.setTh_reporterReady (s : Sys) (t : Nat) (th : Th) : (s.setTh t th).reporterReady = s.reporterReady := rfl

@[simp] theorem Sys.putCtr_rxs (s : Sys) (t : Nat) (c : Ctr) : (s.putCtr t c).rxs = s.rxs := rfl
@[simp] theorem Sys.putCtr_coll (s : Sys) (t : Nat) (c : Ctr) : (s.putCtr t c).coll = s.coll := rfl
@[simp] theorem Sys.putCtr_cyc (s : Sys) (t : Nat) (c : Ctr) : (s.putCtr t c).cyc = s.cyc := rfl
@[simp] theorem Sys.putCtr_nextCollect (s : Sys) (t : Nat) (c : Ctr) : (s.putCtr t c).nextCollect = s.nextCollect := rfl
@[simp] theorem Sys.putCtr_clock (s : Sys) (t : Nat) (c : Ctr) : (s.putCtr t c).clock = c.clock := rfl
@[simp] theorem Sys.putCtr_spans (s : Sys) (t : Nat) (c : Ctr) : (s.putCtr t c).spans = s.spans := rfl
@[simp] theorem Sys.putCtr_lspans (s : Sys) (t : Nat) (c : Ctr) : (s.putCtr t c).lspans = s.lspans := rfl
@[simp] theorem Sys.putCtr_reporterReady (s : Sys) (t : Nat) (c : Ctr) : (s.putCtr t c).reporterReady = s.reporterReady := rfl

@[simp] theorem Sys.putCtr_th_same (s : Sys) (t : Nat) (c : Ctr) :
    (s.putCtr t c).th t = { s.th t with suffix := c.suffix } := by
  simp [Sys.putCtr, Sys.th, Sys.setTh, natGet_natSet_same]

theorem Sys.putCtr_th_other (s : Sys) (t t2 : Nat) (c : Ctr) (h : t2 ≠ t) :
    (s.putCtr t c).th t2 = s.th t2 := by
  simp [Sys.putCtr, Sys.th, Sys.setTh, natGet_natSet_other _ _ _ _ h]

/-! the history variables are invisible to every projection the operations read -/
@[simp] theorem Sys.withG_th (s : Sys) (g : Ghost) (t : Nat) : (s.withG g).th t = s.th t := rfl
@[simp] theorem Sys.withG_threads (s : Sys) (g : Ghost) : (s.withG g).threads = s.threads := rfl
@[simp] theorem Sys.withG_rxs (s : Sys) (g : Ghost) : (s.withG g).rxs = s.rxs := rfl
@[simp] theorem Sys.withG_coll (s : Sys) (g : Ghost) : (s.withG g).coll = s.coll := rfl
@[simp] theorem Sys.withG_cyc (s : Sys) (g : Ghost) : (s.withG g).cyc = s.cyc := rfl
@[simp] theorem Sys.withG_nextCollect (s : Sys) (g : Ghost) : (s.withG g).nextCollect = s.nextCollect := rfl
@[simp] theorem Sys.withG_clock (s : Sys) (g : Ghost) : (s.withG g).clock = s.clock := rfl
@[simp] theorem Sys.withG_spans (s : Sys) (g : Ghost) : (s.withG g).spans = s.spans := rfl
@[simp] theorem Sys.withG_lspans (s : Sys) (g : Ghost) : (s.withG g).lspans = s.lspans := rfl
@[simp] theorem Sys.withG_reporterReady (s : Sys) (g : Ghost) : (s.withG g).reporterReady = s.reporterReady := rfl
@[simp] theorem Sys.withG_adapters (s : Sys) (g : Ghost) : (s.withG g).adapters = s.adapters := rfl
@[simp] theorem Sys.withG_deferred (s : Sys) (g : Ghost) : (s.withG g).deferred = s.deferred := rfl
@[simp] theorem Sys.withG_carried (s : Sys) (g : Ghost) : (s.withG g).carried = s.carried := rfl
@[simp] theorem Sys.withG_g (s : Sys) (g : Ghost) : (s.withG g).g = g := rfl
@[simp] theorem Sys.withG_ctr (s : Sys) (g : Ghost) (t : Nat) : (s.withG g).ctr t = s.ctr t := rfl
@[simp] theorem Sys.setTh_g (s : Sys) (t : Nat) (th : Th) : (s.setTh t th).g = s.g := rfl
@[simp] theorem Sys.putCtr_g (s : Sys) (t : Nat) (c : Ctr) : (s.putCtr t c).g = s.g := rfl

end Fastrace
