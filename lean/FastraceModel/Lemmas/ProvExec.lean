import FastraceModel.Lemmas.ProvOps

/-! Provenance: `exec` preserves `Prov`, and every report it returns satisfies `RecsOk` -/
namespace Fastrace

/-- the trace id an operation introduces as *sampled*: only a sampled `root` does -/
def opTraces : Op → List Nat
  | .root _ _ tr _ true => [tr]
  | _ => []

/-- the trace id an operation introduces as *unsampled*: an unsampled `root` (`spam` creates
    unsampled roots of trace 0) -/
def opTracesU : Op → List Nat
  | .root _ _ tr _ false => [tr]
  | .spam _ => [0]
  | _ => []

/-- observations that are neither a report nor an extracted context -/
def Obs.quiet : Obs → Bool
  | .report (some _) => false
  | .ctx (some _) => false
  | _ => true

/-- what an observation may say: a report carries only sampled roots' trace ids; an extracted
    context carries a sampled root's trace id with `sampled = true` or an unsampled root's with
    `sampled = false` -/
def ObsOk (T U : List Nat) (o : Obs) : Prop :=
  (∀ rs, o = .report (some rs) → RecsOk T rs) ∧
  (∀ c, o = .ctx (some c) → (c.sampled = true → c.traceId ∈ T) ∧ (c.sampled = false → c.traceId ∈ U))

theorem obsOk_of_quiet {T U : List Nat} {o : Obs} (h : o.quiet = true) : ObsOk T U o := by
  constructor
  · intro rs e; subst e; cases h
  · intro c e; subst e; cases h

theorem obsOk_ctxOfToken {T U : List Nat} {tok : Token} (h : TokOk T U tok) : ObsOk T U (.ctx (ctxOfToken tok)) := by
  constructor
  · intro rs e; cases e
  · intro c e
    cases tok with
    | nil => simp [ctxOfToken] at e
    | cons it rest =>
      simp only [ctxOfToken, Obs.ctx.injEq, Option.some.injEq] at e
      subst e
      exact h it (by simp)

theorem obsOk_report {T U : List Nat} {rep : Option (List Record)} (h : ∀ rs, rep = some rs → RecsOk T rs) :
    ObsOk T U (.report rep) := by
  constructor
  · intro rs e
    simp only [Obs.report.injEq] at e
    exact h rs e
  · intro c e; cases e

theorem Prov.withNextCollect {T U : List Nat} {s : Sys} (h : Prov T U s) (n : Nat) : Prov T U { s with nextCollect := n } :=
  ⟨h.spans, h.adapters, h.threads, h.rxs, h.cyc, h.coll, h.carried⟩

theorem tokOk_tokenOfVar {T U : List Nat} {s : Sys} (h : Prov T U s) (p : String) : TokOk T U (s.tokenOfVar p) := by
  unfold Sys.tokenOfVar
  cases hg : assocGet s.spans p with
  | none => intro it hit; cases hit
  | some sv =>
    cases sv with
    | none => intro it hit; cases hit
    | some sp => exact tokOk_issue (h.getSpan hg sp rfl)

theorem tokOk_flatMap {T U : List Nat} {s : Sys} (h : Prov T U s) (ps : List String) : TokOk T U (ps.flatMap s.tokenOfVar) := by
  intro it hit
  simp only [List.mem_flatMap] at hit
  obtain ⟨p, _, hp⟩ := hit
  exact tokOk_tokenOfVar h p it hp

theorem Prov.init (T U : List Nat) : Prov T U Sys.init :=
  ⟨by simp [Sys.init], by simp [Sys.init],
   by
     intro t
     simp only [Sys.th, Sys.init, natGet, List.find?, Option.map, Option.getD, Th.fresh]
     exact ⟨by simp [StackOk, Stack.withCapacity], by simp⟩,
   by simp [Sys.init, RingsOk], by simp [Sys.init], by simp [Sys.init, CollOk], by simp [Sys.init]⟩

theorem Sys.adPoll_quiet (s : Sys) (t : Nat) (a call : String) : (s.adPoll t a call).2.quiet = true := by
  unfold Sys.adPoll
  split
  · rfl
  · dsimp only
    split
    · split <;> rfl
    · split
      · split <;> rfl
      · rfl

theorem Sys.adEnd_quiet (s : Sys) (t : Nat) (a result : String) : (s.adEnd t a result).2.quiet = true := by
  unfold Sys.adEnd
  split
  · split
    · rfl
    · dsimp only
      split
      · split <;> rfl
      · rfl
  · rfl

theorem Sys.closeUnder_quiet (s : Sys) (t : Nat) : (s.closeUnder t).2.quiet = true := by
  unfold Sys.closeUnder
  dsimp only
  split
  · rfl
  · split
    · rfl
    · split <;> rfl

theorem Sys.collectUnder_quiet (s : Sys) (t : Nat) (x : String) : (s.collectUnder t x).2.quiet = true := by
  unfold Sys.collectUnder
  dsimp only
  split
  · split <;> rfl
  · rfl

/-- a root created from a context whose trace id is known for its sampling decision -/
theorem Prov.rootOp {T U : List Nat} {s : Sys} (h : Prov T U s) (t : Nat) (v n : String) (tr sp : Nat) (b : Bool)
    (hT : b = true → tr ∈ T) (hU : b = false → tr ∈ U) :
    Prov T U (s.rootOp t v n tr sp b).1 ∧ ObsOk T U (s.rootOp t v n tr sp b).2 := by
  have htok : ∀ cid, TokOk T U [⟨tr, sp, cid, true, b⟩] := by
    intro cid it hit
    simp only [List.mem_singleton] at hit
    subst hit
    exact ⟨hT, hU⟩
  unfold Sys.rootOp
  split
  · exact ⟨h.setSpan v none (svOk_none T U), obsOk_of_quiet rfl⟩
  · split
    · exact ⟨h, obsOk_of_quiet rfl⟩
    · split
      · exact ⟨((h.withNextCollect _).sendCmd t (.start s.nextCollect) false trivial).newSpan t v n _ _ (htok _), obsOk_of_quiet rfl⟩
      · exact ⟨h.newSpan t v n _ _ (htok _), obsOk_of_quiet rfl⟩

/-- **one operation**: provenance is preserved, and a report carries only trace ids of `T` -/
theorem exec_prov (T U : List Nat) (s : Sys) (t : Nat) (op : Op) (hsub : ∀ x ∈ opTraces op, x ∈ T)
    (hsubU : ∀ x ∈ opTracesU op, x ∈ U) (h : Prov T U s) :
    Prov T U (exec s t op).1 ∧ ObsOk T U (exec s t op).2 := by
  have noRep : ∀ {S : Sys} {o : Obs}, Prov T U S → o.quiet = true → Prov T U (S, o).1 ∧ ObsOk T U (S, o).2 :=
    fun hp hq => ⟨hp, obsOk_of_quiet hq⟩
  cases op with
  | setReporter c =>
    simp only [exec]
    exact noRep ⟨h.spans, h.adapters, h.threads, h.rxs, h.cyc, h.coll, h.carried⟩ rfl
  | spawn =>
    simp only [exec]
    exact noRep ((h.setTh t _ (h.threads t)).putCtr t _) rfl
  | touch =>
    simp only [exec]
    cases hr : s.register t with
    | none => exact noRep h rfl
    | some s' => exact noRep (h.register t hr) rfl
  | root v n tr sp b =>
    simp only [exec]
    refine Prov.rootOp h t v n tr sp b ?_ ?_
    · intro hb; subst hb; exact hsub tr (by simp [opTraces])
    · intro hb; subst hb; exact hsubU tr (by simp [opTracesU])
  | rootFrom v n p tp =>
    simp only [exec]
    cases hg : assocGet s.spans p with
    | none => exact noRep h rfl
    | some sv =>
      cases sv with
      | none => exact noRep h rfl
      | some spn =>
        dsimp only
        cases hc : ctxOfToken (issueToken spn) with
        | none => exact noRep h rfl
        | some c =>
          have hok := (obsOk_ctxOfToken (T := T) (U := U) (tokOk_issue (h.getSpan hg spn rfl))).2 c (by rw [hc])
          exact Prov.rootOp h t v n _ _ _ hok.1 hok.2
  | rootFromLocal v n tp =>
    simp only [exec]
    cases hct : (s.th t).stack.currentToken with
    | none => exact noRep h rfl
    | some tok =>
      dsimp only
      cases hc : ctxOfToken tok with
      | none => exact noRep h rfl
      | some c =>
        have hok := (obsOk_ctxOfToken (T := T) (U := U) ((h.threads t).1.currentToken hct)).2 c (by rw [hc])
        exact Prov.rootOp h t v n _ _ _ hok.1 hok.2
  | child1 v n p =>
    simp only [exec]
    cases hg : assocGet s.spans p with
    | none => exact noRep h rfl
    | some sv =>
      cases sv with
      | none => exact noRep (h.setSpan v none (svOk_none T U)) rfl
      | some sp => exact noRep (h.newSpan t v n _ none (tokOk_issue (h.getSpan hg sp rfl))) rfl
  | childN v n ps =>
    simp only [exec]
    split
    · exact noRep h rfl
    · split
      · exact noRep (h.setSpan v none (svOk_none T U)) rfl
      · exact noRep (h.newSpan t v n _ none (tokOk_flatMap h ps)) rfl
  | childLocal v n =>
    simp only [exec]
    cases hc : (s.th t).stack.currentToken with
    | some tok => exact noRep (h.newSpan t v n tok none ((h.threads t).1.currentToken hc)) rfl
    | none => exact noRep (h.setSpan v none (svOk_none T U)) rfl
  | withProps v cl =>
    simp only [exec]
    cases hg : assocGet s.spans v with
    | none => exact noRep h rfl
    | some sv =>
      cases sv with
      | none => exact noRep h rfl
      | some sp =>
        dsimp only
        refine noRep ((h.runClosure t cl).setSpan v _ ?_) rfl
        intro sp' e
        cases e
        exact h.getSpan hg sp rfl
  | addProps v cl =>
    simp only [exec]
    cases hg : assocGet s.spans v with
    | none => exact noRep h rfl
    | some sv =>
      cases sv with
      | none => exact noRep h rfl
      | some sp =>
        dsimp only
        exact noRep (((h.putCtr t _).runClosure t cl).submitSpans t _ _ (tokOk_issue (h.getSpan hg sp rfl)))
          rfl
  | addEvent v n p =>
    simp only [exec]
    cases hg : assocGet s.spans v with
    | none => exact noRep h rfl
    | some sv =>
      cases sv with
      | none => exact noRep h rfl
      | some sp =>
        dsimp only
        exact noRep ((h.putCtr t _).submitSpans t _ _ (tokOk_issue (h.getSpan hg sp rfl))) rfl
  | pushChild v x =>
    simp only [exec]
    cases hg : assocGet s.spans v with
    | none => exact noRep h rfl
    | some sv =>
      cases hx : assocGet s.lspans x with
      | none => exact noRep h rfl
      | some ls =>
        dsimp only
        cases sv with
        | none => exact noRep h rfl
        | some sp =>
          dsimp only
          split
          · exact noRep h rfl
          · exact noRep (h.submitSpans t _ _ (tokOk_issue (h.getSpan hg sp rfl))) rfl
  | elapsed v =>
    simp only [exec]
    split <;> exact noRep h rfl
  | cancel v =>
    simp only [exec]
    split
    · exact noRep h rfl
    · exact noRep h rfl
    · split
      · exact noRep ((h.sendCmd t (.drop _) true trivial).noteParked t _) rfl
      · exact noRep h rfl
  | drop v =>
    simp only [exec]
    cases hg : assocGet s.spans v with
    | none => exact noRep h rfl
    | some sv => exact noRep ((h.delSpan v).dropSpanVal t sv (h.getSpan hg)) rfl
  | scope v =>
    simp only [exec]
    cases hg : assocGet s.spans v with
    | none => exact noRep h rfl
    | some sv =>
      cases sv with
      | none => exact noRep (h.setGuards t _) rfl
      | some sp =>
        dsimp only
        cases hr : (s.th t).stack.registerLine (some (issueToken sp)) with
        | none => exact noRep (h.setGuards t _) rfl
        | some res =>
          obtain ⟨st1, ep⟩ := res
          dsimp only
          refine noRep (h.setSG t st1 _ ((h.threads t).1.registerLine ?_ hr)) rfl
          intro tk htk
          cases htk
          exact tokOk_issue (h.getSpan hg sp rfl)
  | localEnter n =>
    simp only [exec]
    cases hs : (s.th t).stack.enterSpan (s.ctr t) n with
    | none => exact noRep (h.setGuards t _) rfl
    | some res =>
      obtain ⟨st1, hd, c1⟩ := res
      dsimp only
      exact noRep ((h.setSG t st1 _ ((h.threads t).1.enterSpan hs)).putCtr t _) rfl
  | collectorStart =>
    simp only [exec]
    cases hr : (s.th t).stack.registerLine none with
    | none => exact noRep (h.setGuards t _) rfl
    | some res =>
      obtain ⟨st1, ep⟩ := res
      dsimp only
      exact noRep (h.setSG t st1 _ ((h.threads t).1.registerLine (fun tk e => by cases e) hr)) rfl
  | close =>
    simp only [exec]
    cases hg : (s.th t).guards with
    | nil => exact noRep h rfl
    | cons g gs => exact noRep ((h.setGuards t gs).closeGuard t g) rfl
  | collect x =>
    simp only [exec]
    split
    · rename_i e gs _
      dsimp only
      have h0 := h.setGuards t gs
      cases e with
      | none =>
        dsimp only
        exact noRep ((h0.putCtr t _).withLspans _) rfl
      | some epoch =>
        dsimp only
        have h1 := h0.setStack t _ ((h0.threads t).1.unregister epoch).1
        exact noRep ((h1.putCtr t _).withLspans _) rfl
    · exact noRep h rfl
  | lWithProps cl =>
    simp only [exec]
    split
    · exact noRep h rfl
    · rename_i hd _ _
      dsimp only
      have h1 := h.runClosure t cl
      exact noRep (h1.setStack t _ ((h1.threads t).1.withProps hd cl.kvs)) rfl
    · exact noRep h rfl
  | lAddProps cl =>
    simp only [exec]
    split
    · dsimp only
      have h1 := h.runClosure t cl
      exact noRep ((h1.setStack t _ ((h1.threads t).1.addProps _ cl.kvs)).putCtr t _) rfl
    · exact noRep h rfl
  | lAddEvent n p =>
    simp only [exec]
    exact noRep ((h.setStack t _ ((h.threads t).1.addEvent (s.ctr t) n p)).putCtr t _) rfl
  | ctxOf v =>
    simp only [exec]
    cases hg : assocGet s.spans v with
    | none => exact noRep h rfl
    | some sv =>
      cases sv with
      | none => exact noRep h rfl
      | some sp => exact ⟨h, obsOk_ctxOfToken (tokOk_issue (h.getSpan hg sp rfl))⟩
  | ctxLocal =>
    simp only [exec]
    cases hc : (s.th t).stack.currentToken with
    | none => exact noRep h rfl
    | some tok => exact ⟨h, obsOk_ctxOfToken ((h.threads t).1.currentToken hc)⟩
  | toRecords x tr sp =>
    simp only [exec]
    split <;> exact noRep h rfl
  | dropLocalSpans x => simp only [exec]; exact noRep (h.withLspans _) rfl
  | cycle =>
    simp only [exec]
    split
    · exact noRep h rfl
    · have := h.cycle
      exact ⟨this.1, obsOk_report this.2⟩
  | flush =>
    simp only [exec]
    split
    · exact noRep h rfl
    · have := h.cycle
      exact ⟨this.1, obsOk_report this.2⟩
  | cycBegin =>
    simp only [exec]
    refine ⟨h.cycBegin.1, obsOk_of_quiet ?_⟩
    unfold Sys.cycBegin
    split
    · rfl
    · split <;> rfl
  | cycStep =>
    simp only [exec]
    have hs := h.cycStep
    refine ⟨hs.1, hs.2, ?_⟩
    intro c e
    rcases Sys.cycStep_obs s with ⟨r, hr⟩ | ⟨p, hp⟩ | ⟨w, hw⟩
    · rw [hr] at e; cases e
    · rw [hp] at e; cases e
    · rw [hw] at e; cases e
  | stats =>
    simp only [exec]
    split <;> exact noRep h rfl
  | exit => simp only [exec]; exact noRep (h.exitThread t) rfl
  | spam n =>
    simp only [exec]
    split
    · exact noRep h rfl
    · exact noRep (Prov.spam n h t (fun _ => hsubU 0 (by simp [opTracesU]))) rfl
  | adNew a kind arg =>
    simp only [exec]
    cases kind with
    | enterOnPoll => exact noRep (h.setAdapter a _ (fun sv e => by cases e)) rfl
    | inSpan | stream | sink =>
      all_goals
        dsimp only
        cases hg : assocGet s.spans arg with
        | none => exact noRep h rfl
        | some sv =>
          refine noRep ?_ rfl
          apply Prov.setAdapter (h.delSpan arg)
          intro sv' e
          cases e
          exact h.getSpan hg
  | adPoll a call => simp only [exec]; exact ⟨h.adPoll t a call, obsOk_of_quiet (Sys.adPoll_quiet s t a call)⟩
  | adEnd a result => simp only [exec]; exact ⟨h.adEnd t a result, obsOk_of_quiet (Sys.adEnd_quiet s t a result)⟩
  | adDrop a =>
    simp only [exec]
    cases hg : assocGet s.adapters a with
    | none => exact noRep h rfl
    | some ad =>
      dsimp only
      cases hsp : ad.span with
      | none => exact noRep (h.delAdapter a) rfl
      | some sv => exact noRep ((h.delAdapter a).dropSpanVal t sv (h.getAdapter hg sv hsp)) rfl
  | closeUnder => simp only [exec]; exact ⟨h.closeUnder t, obsOk_of_quiet (Sys.closeUnder_quiet s t)⟩
  | collectUnder x => simp only [exec]; exact ⟨h.collectUnder t x, obsOk_of_quiet (Sys.collectUnder_quiet s t x)⟩
  | unwind =>
    simp only [exec]
    exact noRep ((Prov.foldl_closeGuard (s.th t).guards h t).setGuards t []) rfl

/-- the trace ids supplied to the sampled `root` operations of a program -/
def sampledRootTraces (p : Program) : List Nat := p.flatMap fun x => opTraces x.2

/-- the trace ids supplied to unsampled `root` operations (and 0 for `spam`) -/
def unsampledRootTraces (p : Program) : List Nat := p.flatMap fun x => opTracesU x.2

/-- **every observation of every program** is `ObsOk` -/
theorem run_prov (T U : List Nat) (p : Program) (s : Sys) (hp : ∀ x ∈ p, ∀ tr ∈ opTraces x.2, tr ∈ T)
    (hpU : ∀ x ∈ p, ∀ tr ∈ opTracesU x.2, tr ∈ U) (h : Prov T U s) :
    ∀ o ∈ (run s p).2, ObsOk T U o := by
  induction p generalizing s with
  | nil => intro o ho; cases ho
  | cons x rest ih =>
    obtain ⟨t, op⟩ := x
    have he := exec_prov T U s t op (hp (t, op) (by simp)) (hpU (t, op) (by simp)) h
    intro o ho
    simp only [run, List.mem_cons] at ho
    rcases ho with rfl | ho
    · exact he.2
    · exact ih (exec s t op).1 (fun y hy => hp y (by simp [hy])) (fun y hy => hpU y (by simp [hy])) he.1 o ho

theorem run_prov_init (p : Program) : ∀ o ∈ (run Sys.init p).2, ObsOk (sampledRootTraces p) (unsampledRootTraces p) o :=
  run_prov _ _ p Sys.init (fun x hx tr htr => List.mem_flatMap.mpr ⟨x, hx, htr⟩)
    (fun x hx tr htr => List.mem_flatMap.mpr ⟨x, hx, htr⟩) (Prov.init _ _)

end Fastrace
