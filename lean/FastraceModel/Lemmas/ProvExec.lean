import FastraceModel.Lemmas.ProvOps

/-! Provenance: `exec` preserves `Prov`, and every report it returns satisfies `RecsOk` -/
namespace Fastrace

/-- the trace id an operation introduces: only a sampled `root` does -/
def opTraces : Op → List Nat
  | .root _ _ tr _ true => [tr]
  | _ => []

theorem Prov.withNextCollect {T : List Nat} {s : Sys} (h : Prov T s) (n : Nat) : Prov T { s with nextCollect := n } :=
  ⟨h.spans, h.adapters, h.threads, h.rxs, h.cyc, h.coll⟩

theorem tokOk_tokenOfVar {T : List Nat} {s : Sys} (h : Prov T s) (p : String) : TokOk T (s.tokenOfVar p) := by
  unfold Sys.tokenOfVar
  cases hg : assocGet s.spans p with
  | none => intro it hit; cases hit
  | some sv =>
    cases sv with
    | none => intro it hit; cases hit
    | some sp => exact tokOk_issue (h.getSpan hg sp rfl)

theorem tokOk_flatMap {T : List Nat} {s : Sys} (h : Prov T s) (ps : List String) : TokOk T (ps.flatMap s.tokenOfVar) := by
  intro it hit hs
  simp only [List.mem_flatMap] at hit
  obtain ⟨p, _, hp⟩ := hit
  exact tokOk_tokenOfVar h p it hp hs

theorem Prov.init (T : List Nat) : Prov T Sys.init :=
  ⟨by simp [Sys.init], by simp [Sys.init],
   by
     intro t
     simp only [Sys.th, Sys.init, natGet, List.find?, Option.map, Option.getD, Th.fresh]
     exact ⟨by simp [StackOk, Stack.withCapacity], by simp⟩,
   by simp [Sys.init, RingsOk], by simp [Sys.init], by simp [Sys.init, CollOk]⟩

/-- **one operation**: provenance is preserved, and a report carries only trace ids of `T` -/
theorem exec_prov (T : List Nat) (s : Sys) (t : Nat) (op : Op) (hsub : ∀ x ∈ opTraces op, x ∈ T) (h : Prov T s) :
    Prov T (exec s t op).1 ∧ ∀ rs, (exec s t op).2 = .report (some rs) → RecsOk T rs := by
  have noRep : ∀ {S : Sys} {o : Obs}, Prov T S → (∀ rs, o ≠ .report (some rs)) →
      Prov T (S, o).1 ∧ ∀ rs, (S, o).2 = .report (some rs) → RecsOk T rs :=
    fun hp hne => ⟨hp, fun rs e => absurd e (hne rs)⟩
  cases op with
  | setReporter c =>
    simp only [exec]
    exact noRep ⟨h.spans, h.adapters, h.threads, h.rxs, h.cyc, h.coll⟩ (by intro rs e; cases e)
  | spawn =>
    simp only [exec]
    exact noRep ((h.setTh t _ (h.threads t)).putCtr t _) (by intro rs e; cases e)
  | touch =>
    simp only [exec]
    cases hr : s.register t with
    | none => exact noRep h (by intro rs e; cases e)
    | some s' => exact noRep (h.register t hr) (by intro rs e; cases e)
  | root v n tr sp b =>
    simp only [exec]
    split
    · exact noRep (h.setSpan v none (svOk_none T)) (by intro rs e; cases e)
    · split
      · exact noRep h (by intro rs e; cases e)
      · have htok : ∀ cid, TokOk T [⟨tr, sp, cid, true, b⟩] := by
          intro cid it hit hs
          simp only [List.mem_singleton] at hit
          subst hit
          simp only at hs
          subst hs
          exact hsub tr (by simp [opTraces])
        split
        · dsimp only
          exact noRep (((h.withNextCollect _).sendCmd t (.start s.nextCollect) false trivial).newSpan t v n _ _ (htok _)) (by intro rs e; cases e)
        · dsimp only
          exact noRep (h.newSpan t v n _ _ (htok _)) (by intro rs e; cases e)
  | child1 v n p =>
    simp only [exec]
    cases hg : assocGet s.spans p with
    | none => exact noRep h (by intro rs e; cases e)
    | some sv =>
      cases sv with
      | none => exact noRep (h.setSpan v none (svOk_none T)) (by intro rs e; cases e)
      | some sp => exact noRep (h.newSpan t v n _ none (tokOk_issue (h.getSpan hg sp rfl))) (by intro rs e; cases e)
  | childN v n ps =>
    simp only [exec]
    split
    · exact noRep h (by intro rs e; cases e)
    · exact noRep (h.newSpan t v n _ none (tokOk_flatMap h ps)) (by intro rs e; cases e)
  | childLocal v n =>
    simp only [exec]
    cases hc : (s.th t).stack.currentToken with
    | some tok => exact noRep (h.newSpan t v n tok none ((h.threads t).1.currentToken hc)) (by intro rs e; cases e)
    | none => exact noRep (h.setSpan v none (svOk_none T)) (by intro rs e; cases e)
  | withProps v cl =>
    simp only [exec]
    cases hg : assocGet s.spans v with
    | none => exact noRep h (by intro rs e; cases e)
    | some sv =>
      cases sv with
      | none => exact noRep h (by intro rs e; cases e)
      | some sp =>
        dsimp only
        refine noRep ((h.runClosure t cl).setSpan v _ ?_) (by intro rs e; cases e)
        intro sp' e
        cases e
        exact h.getSpan hg sp rfl
  | addProps v cl =>
    simp only [exec]
    cases hg : assocGet s.spans v with
    | none => exact noRep h (by intro rs e; cases e)
    | some sv =>
      cases sv with
      | none => exact noRep h (by intro rs e; cases e)
      | some sp =>
        dsimp only
        exact noRep (((h.putCtr t _).runClosure t cl).submitSpans t _ _ (tokOk_issue (h.getSpan hg sp rfl)))
          (by intro rs e; cases e)
  | addEvent v n p =>
    simp only [exec]
    cases hg : assocGet s.spans v with
    | none => exact noRep h (by intro rs e; cases e)
    | some sv =>
      cases sv with
      | none => exact noRep h (by intro rs e; cases e)
      | some sp =>
        dsimp only
        exact noRep ((h.putCtr t _).submitSpans t _ _ (tokOk_issue (h.getSpan hg sp rfl))) (by intro rs e; cases e)
  | pushChild v x =>
    simp only [exec]
    cases hg : assocGet s.spans v with
    | none => exact noRep h (by intro rs e; cases e)
    | some sv =>
      cases hx : assocGet s.lspans x with
      | none => exact noRep h (by intro rs e; cases e)
      | some ls =>
        dsimp only
        cases sv with
        | none => exact noRep h (by intro rs e; cases e)
        | some sp =>
          dsimp only
          split
          · exact noRep h (by intro rs e; cases e)
          · exact noRep (h.submitSpans t _ _ (tokOk_issue (h.getSpan hg sp rfl))) (by intro rs e; cases e)
  | elapsed v =>
    simp only [exec]
    split <;> exact noRep h (by intro rs e; cases e)
  | cancel v =>
    simp only [exec]
    split
    · exact noRep h (by intro rs e; cases e)
    · exact noRep h (by intro rs e; cases e)
    · split
      · exact noRep (h.sendCmd t _ true trivial) (by intro rs e; cases e)
      · exact noRep h (by intro rs e; cases e)
  | drop v =>
    simp only [exec]
    cases hg : assocGet s.spans v with
    | none => exact noRep h (by intro rs e; cases e)
    | some sv => exact noRep ((h.delSpan v).dropSpanVal t sv (h.getSpan hg)) (by intro rs e; cases e)
  | scope v =>
    simp only [exec]
    cases hg : assocGet s.spans v with
    | none => exact noRep h (by intro rs e; cases e)
    | some sv =>
      cases sv with
      | none => exact noRep (h.setGuards t _) (by intro rs e; cases e)
      | some sp =>
        dsimp only
        cases hr : (s.th t).stack.registerLine (some (issueToken sp)) with
        | none => exact noRep (h.setGuards t _) (by intro rs e; cases e)
        | some res =>
          obtain ⟨st1, ep⟩ := res
          dsimp only
          refine noRep (h.setSG t st1 _ ((h.threads t).1.registerLine ?_ hr)) (by intro rs e; cases e)
          intro tk htk
          cases htk
          exact tokOk_issue (h.getSpan hg sp rfl)
  | localEnter n =>
    simp only [exec]
    cases hs : (s.th t).stack.enterSpan (s.ctr t) n with
    | none => exact noRep (h.setGuards t _) (by intro rs e; cases e)
    | some res =>
      obtain ⟨st1, hd, c1⟩ := res
      dsimp only
      exact noRep ((h.setSG t st1 _ ((h.threads t).1.enterSpan hs)).putCtr t _) (by intro rs e; cases e)
  | collectorStart =>
    simp only [exec]
    cases hr : (s.th t).stack.registerLine none with
    | none => exact noRep (h.setGuards t _) (by intro rs e; cases e)
    | some res =>
      obtain ⟨st1, ep⟩ := res
      dsimp only
      exact noRep (h.setSG t st1 _ ((h.threads t).1.registerLine (fun tk e => by cases e) hr)) (by intro rs e; cases e)
  | close =>
    simp only [exec]
    cases hg : (s.th t).guards with
    | nil => exact noRep h (by intro rs e; cases e)
    | cons g gs => exact noRep ((h.setGuards t gs).closeGuard t g) (by intro rs e; cases e)
  | collect x =>
    simp only [exec]
    split
    · rename_i e gs _
      dsimp only
      have h0 := h.setGuards t gs
      cases e with
      | none =>
        dsimp only
        exact noRep ((h0.putCtr t _).withLspans _) (by intro rs e; cases e)
      | some epoch =>
        dsimp only
        have h1 := h0.setStack t _ ((h0.threads t).1.unregister epoch).1
        exact noRep ((h1.putCtr t _).withLspans _) (by intro rs e; cases e)
    · exact noRep h (by intro rs e; cases e)
  | lWithProps cl =>
    simp only [exec]
    split
    · exact noRep h (by intro rs e; cases e)
    · rename_i hd _ _
      dsimp only
      have h1 := h.runClosure t cl
      exact noRep (h1.setStack t _ ((h1.threads t).1.withProps hd cl.kvs)) (by intro rs e; cases e)
    · exact noRep h (by intro rs e; cases e)
  | lAddProps cl =>
    simp only [exec]
    split
    · dsimp only
      have h1 := h.runClosure t cl
      exact noRep ((h1.setStack t _ ((h1.threads t).1.addProps _ cl.kvs)).putCtr t _) (by intro rs e; cases e)
    · exact noRep h (by intro rs e; cases e)
  | lAddEvent n p =>
    simp only [exec]
    exact noRep ((h.setStack t _ ((h.threads t).1.addEvent (s.ctr t) n p)).putCtr t _) (by intro rs e; cases e)
  | ctxOf v =>
    simp only [exec]
    split <;> exact noRep h (by intro rs e; cases e)
  | ctxLocal =>
    simp only [exec]
    split <;> exact noRep h (by intro rs e; cases e)
  | toRecords x tr sp =>
    simp only [exec]
    split <;> exact noRep h (by intro rs e; cases e)
  | cycle =>
    simp only [exec]
    split
    · exact noRep h (by intro rs e; cases e)
    · have := h.cycle
      exact ⟨this.1, fun rs e => this.2 rs (by simpa using e)⟩
  | flush =>
    simp only [exec]
    split
    · exact noRep h (by intro rs e; cases e)
    · have := h.cycle
      exact ⟨this.1, fun rs e => this.2 rs (by simpa using e)⟩
  | cycBegin => simp only [exec]; exact h.cycBegin
  | cycStep => simp only [exec]; exact h.cycStep
  | stats =>
    simp only [exec]
    split <;> exact noRep h (by intro rs e; cases e)
  | exit => simp only [exec]; exact noRep (h.exitThread t) (by intro rs e; cases e)
  | spam n =>
    simp only [exec]
    split
    · exact noRep h (by intro rs e; cases e)
    · exact noRep (Prov.spam n h t) (by intro rs e; cases e)
  | adNew a kind arg =>
    simp only [exec]
    cases kind with
    | enterOnPoll => exact noRep (h.setAdapter a _ (fun sv e => by cases e)) (by intro rs e; cases e)
    | inSpan | stream | sink =>
      all_goals
        dsimp only
        cases hg : assocGet s.spans arg with
        | none => exact noRep h (by intro rs e; cases e)
        | some sv =>
          refine noRep ?_ (by intro rs e; cases e)
          apply Prov.setAdapter (h.delSpan arg)
          intro sv' e
          cases e
          exact h.getSpan hg
  | adPoll a call =>
    simp only [exec]
    refine ⟨h.adPoll t a call, ?_⟩
    intro rs e
    exfalso
    unfold Sys.adPoll at e
    split at e
    · cases e
    · dsimp only at e
      split at e
      · split at e <;> cases e
      · split at e
        · split at e <;> cases e
        · cases e
  | adEnd a result =>
    simp only [exec]
    refine ⟨h.adEnd t a result, ?_⟩
    intro rs e
    exfalso
    unfold Sys.adEnd at e
    split at e
    · split at e
      · cases e
      · dsimp only at e
        split at e
        · split at e <;> cases e
        · cases e
    · cases e
  | adDrop a =>
    simp only [exec]
    cases hg : assocGet s.adapters a with
    | none => exact noRep h (by intro rs e; cases e)
    | some ad =>
      dsimp only
      cases hsp : ad.span with
      | none => exact noRep (h.delAdapter a) (by intro rs e; cases e)
      | some sv => exact noRep ((h.delAdapter a).dropSpanVal t sv (h.getAdapter hg sv hsp)) (by intro rs e; cases e)
  | closeUnder =>
    simp only [exec]
    refine ⟨h.closeUnder t, ?_⟩
    intro rs e
    exfalso
    unfold Sys.closeUnder at e
    dsimp only at e
    split at e
    · cases e
    · split at e
      · cases e
      · split at e <;> cases e
  | collectUnder x =>
    simp only [exec]
    refine ⟨h.collectUnder t x, ?_⟩
    intro rs e
    exfalso
    unfold Sys.collectUnder at e
    dsimp only at e
    split at e
    · split at e <;> cases e
    · cases e

  | unwind =>
    simp only [exec]
    exact noRep ((Prov.foldl_closeGuard (s.th t).guards h t).setGuards t []) (by intro rs e; cases e)

/-- the trace ids supplied to the sampled `root` operations of a program -/
def sampledRootTraces (p : Program) : List Nat := p.flatMap fun x => opTraces x.2

/-- **every report of every program carries only trace ids of sampled roots** -/
theorem run_prov (T : List Nat) (p : Program) (s : Sys) (hp : ∀ x ∈ p, ∀ tr ∈ opTraces x.2, tr ∈ T) (h : Prov T s) :
    ∀ o ∈ (run s p).2, ∀ rs, o = .report (some rs) → RecsOk T rs := by
  induction p generalizing s with
  | nil => intro o ho; cases ho
  | cons x rest ih =>
    obtain ⟨t, op⟩ := x
    have he := exec_prov T s t op (hp (t, op) (by simp)) h
    intro o ho rs hrs
    simp only [run, List.mem_cons] at ho
    rcases ho with rfl | ho
    · exact he.2 rs hrs
    · exact ih (exec s t op).1 (fun y hy => hp y (by simp [hy])) he.1 o ho rs hrs

end Fastrace
