import FastraceModel.Lemmas.Fifo

/-!
The channel invariant `ChanInv` and the step relation `Step` for every state helper of
`Model/Api.lean` that is not a collector cycle:

* `ChanInv.cons`  — conservation of commands (see `Lemmas/Flow.lean`);
* `ChanInv.sig`   — an overflow list only ever holds finish / cancel signals (`CommitCollect`,
                 `DropCollect`): best-effort sends are never parked;
* `ChanInv.wf`    — once the first drain pass is over no receiver is left unvisited.

`Step s s'` says: `s'` keeps `ChanInv`, and the collector state, the consumed commands and the
reported records are untouched (only a cycle changes those).
-/
namespace Fastrace

/-- finish / cancel signals: the commands sent with `force_send_command` -/
def Cmd.isSignal : Cmd → Bool
  | .commit _ => true
  | .drop _ => true
  | _ => false

def CycWF (s : Sys) : Prop :=
  ∀ cs, s.cyc = some cs → (cs.phase = .atRx2 ∨ cs.phase = .atReport) → cs.todo = []

structure ChanInv (s : Sys) : Prop where
  cons : ∀ w, Additive w → wsum w s.g.accepted + wsum w (s.g.injected.map Cmd.drop) = s.flow w + s.g.out w
  sig : ∀ e ∈ s.threads, ∀ c ∈ e.2.pending, c.isSignal = true
  wf : CycWF s
  lost : ∀ c ∈ s.g.lostAtExit, c.isSignal = true

/-- the overflow list of thread `t` as the operations see it -/
theorem ChanInv.sig' {s : Sys} (h : ChanInv s) (t : Nat) : ∀ c ∈ (s.th t).pending, c.isSignal = true := by
  unfold Sys.th
  cases hg : natGet s.threads t with
  | none => intro c hc; simp [Th.fresh] at hc
  | some th =>
    obtain ⟨e, he, rfl⟩ := natGet_mem hg
    exact h.sig e he

theorem Sys.setRing_threads (s : Sys) (t : Nat) (r : Ring Cmd) : (s.setRing t r).threads = s.threads := by
  unfold Sys.setRing
  cases s.cyc with
  | none => rfl
  | some cs =>
    simp only
    split
    · rfl
    · split <;> rfl

structure Step (s s' : Sys) : Prop where
  chan : ChanInv s → ChanInv s'
  coll : s'.coll = s.coll
  consumed : s'.g.consumed = s.g.consumed
  reported : s'.g.reported = s.g.reported
  discarded : s'.g.discarded = s.g.discarded
  fifo : FifoInv s → FifoInv s'

theorem Step.refl (s : Sys) : Step s s := ⟨id, rfl, rfl, rfl, rfl, id⟩

theorem Step.trans {a b c : Sys} (h1 : Step a b) (h2 : Step b c) : Step a c :=
  ⟨fun h => h2.chan (h1.chan h), h2.coll.trans h1.coll, h2.consumed.trans h1.consumed, h2.reported.trans h1.reported,
   h2.discarded.trans h1.discarded, fun h => h2.fifo (h1.fifo h)⟩

/-- a change that touches neither the channels nor the collector nor the history -/
theorem Step.of_fields {s s' : Sys} (h1 : s'.cyc = s.cyc) (h2 : s'.rxs = s.rxs) (h3 : s'.threads = s.threads)
    (h4 : s'.deferred = s.deferred) (h5 : s'.g = s.g) (h6 : s'.coll = s.coll) (h7 : s'.carried = s.carried) : Step s s' := by
  have hth : ∀ t, s'.th t = s.th t := by intro t; unfold Sys.th; rw [h3]
  have hro : ∀ t, s'.ringOf t = s.ringOf t := by intro t; unfold Sys.ringOf; rw [h1, h2]
  have hrk : s'.ringKeys = s.ringKeys := by unfold Sys.ringKeys; rw [h1, h2]
  refine ⟨fun h => ⟨?_, ?_, ?_, ?_⟩, h6, by rw [h5], by rw [h5], by rw [h5], fun h => ⟨?_, ?_, ?_⟩⟩
  · intro w hw
    have := h.cons w hw
    unfold Sys.flow at this ⊢
    rw [h1, h2, h3, h4, h5, h7]
    exact this
  · rw [h3]; exact h.sig
  · intro cs hcs
    rw [h1] at hcs
    exact h.wf cs hcs
  · rw [h5]; exact h.lost
  · intro t ha
    rw [hth] at ha ⊢
    unfold Sys.ringQ
    rw [hro, h5]
    exact h.order t ha
  · rw [hrk]; exact h.nodup
  · intro t ht
    rw [hrk] at ht
    rw [hth]
    exact h.reg t ht

theorem Step.setTh {s : Sys} (t : Nat) (th' : Th) (h : th'.pending = (s.th t).pending)
    (ha : th'.alive = (s.th t).alive := by rfl) (hr : th'.registered = (s.th t).registered := by rfl) :
    Step s (s.setTh t th') := by
  refine ⟨fun hc => ⟨?_, ?_, hc.wf, hc.lost⟩, rfl, rfl, rfl, rfl, fun hf => ⟨?_, hf.nodup, ?_⟩⟩
  rotate_left 2
  · intro t2 hal
    by_cases e : t2 = t
    · subst e
      rw [Sys.th_setTh_same] at hal ⊢
      rw [h]
      exact hf.order t2 (by rw [← ha]; exact hal)
    · rw [Sys.th_setTh_other _ _ _ _ e] at hal ⊢
      exact hf.order t2 hal
  · intro t2 ht2
    by_cases e : t2 = t
    · subst e
      rw [Sys.th_setTh_same, hr]
      exact hf.reg t2 ht2
    · rw [Sys.th_setTh_other _ _ _ _ e]
      exact hf.reg t2 ht2
  · intro w hw
    rw [Sys.setTh_flow_same w s t th' h]
    exact hc.cons w hw
  · intro e he
    rcases mem_natSet he with he | rfl
    · exact hc.sig e he
    · show ∀ c ∈ th'.pending, _
      rw [h]
      exact hc.sig' t

theorem Step.putCtr {s : Sys} (t : Nat) (c : Ctr) : Step s (s.putCtr t c) := by
  unfold Sys.putCtr
  exact (Step.setTh (s := s) t { s.th t with suffix := c.suffix } rfl rfl rfl).trans (Step.of_fields rfl rfl rfl rfl rfl rfl rfl)

theorem Step.withSpans {s : Sys} (x : List (String × SpanVal)) : Step s { s with spans := x } :=
  Step.of_fields rfl rfl rfl rfl rfl rfl rfl
theorem Step.withLspans {s : Sys} (x : List (String × LocalSpansVal)) : Step s { s with lspans := x } :=
  Step.of_fields rfl rfl rfl rfl rfl rfl rfl
theorem Step.withAdapters {s : Sys} (x : List (String × Adapter)) : Step s { s with adapters := x } :=
  Step.of_fields rfl rfl rfl rfl rfl rfl rfl
theorem Step.withSpansAdapters {s : Sys} (x : List (String × SpanVal)) (y : List (String × Adapter)) :
    Step s { s with spans := x, adapters := y } :=
  Step.of_fields rfl rfl rfl rfl rfl rfl rfl
theorem Step.withNextCollect {s : Sys} (n : Nat) : Step s { s with nextCollect := n } :=
  Step.of_fields rfl rfl rfl rfl rfl rfl rfl
theorem Step.withParked {s : Sys} (x : List Nat) : Step s { s with parkedCancels := x } :=
  Step.of_fields rfl rfl rfl rfl rfl rfl rfl
theorem Step.noteParked (s : Sys) (t cid : Nat) : Step s (s.noteParked t cid) := by
  unfold Sys.noteParked
  split
  · exact Step.refl s
  · exact Step.withParked _

/-! ### `register`, `setRing` and the drain's bookkeeping -/

theorem Sys.register_wf (s s' : Sys) (t : Nat) (h : s.register t = some s') (hw : CycWF s) : CycWF s' := by
  unfold Sys.register at h
  split at h
  · cases h; exact hw
  · cases hc : s.cyc with
    | none =>
      rw [hc] at h
      simp only [Option.some.injEq] at h
      subst h
      intro cs hcs
      have : (s.setTh t { s.th t with registered := true }).cyc = s.cyc := rfl
      simp only [this, hc] at hcs
      cases hcs
    | some cs =>
      rw [hc] at h
      dsimp only at h
      split at h
      · cases h
      · simp only [Option.some.injEq] at h
        subst h
        intro cs' hcs' hp
        simp only [Option.some.injEq] at hcs'
        subst hcs'
        exact hw cs hc hp

theorem Sys.setRing_wf (s : Sys) (t : Nat) (r : Ring Cmd) (hw : CycWF s) : CycWF (s.setRing t r) := by
  unfold Sys.setRing
  cases hc : s.cyc with
  | none => dsimp only; intro cs hcs; simp only [hc] at hcs; cases hcs
  | some cs =>
    dsimp only
    split
    · rename_i hsome
      intro cs' hcs' hp
      simp only [Option.some.injEq] at hcs'
      subst hcs'
      have := hw cs hc hp
      rw [this] at hsome
      simp [natGet] at hsome
    · split
      · intro cs' hcs' hp
        simp only [Option.some.injEq] at hcs'
        subst hcs'
        exact hw cs hc hp
      · exact hw

theorem Sys.setRing_g (s : Sys) (t : Nat) (r : Ring Cmd) : (s.setRing t r).g = s.g := by
  unfold Sys.setRing
  cases s.cyc with
  | none => rfl
  | some cs =>
    simp only
    split
    · rfl
    · split <;> rfl

theorem Sys.setRing_coll (s : Sys) (t : Nat) (r : Ring Cmd) : (s.setRing t r).coll = s.coll := by
  unfold Sys.setRing
  cases s.cyc with
  | none => rfl
  | some cs =>
    simp only
    split
    · rfl
    · split <;> rfl

/-- a command whose sender is blocked or orphaned changes only the `blocked` / `orphaned` logs -/
theorem ChanInv.withG_side {s : Sys} (h : ChanInv s) (g : Ghost) (h1 : g.accepted = s.g.accepted) (h2 : g.consumed = s.g.consumed)
    (h3 : g.discarded = s.g.discarded) (h4 : g.lostAtExit = s.g.lostAtExit)
    (h5 : g.injected = s.g.injected := by rfl) : ChanInv (s.withG g) := by
  refine ⟨?_, h.sig, h.wf, by rw [Sys.withG_g, h4]; exact h.lost⟩
  intro w hw
  have := h.cons w hw
  simp only [Sys.withG_g, Sys.withG_flow, Ghost.out, h1, h2, h3, h4, h5] at this ⊢
  exact this

theorem FifoInv.withG_side {s : Sys} (h : FifoInv s) (g : Ghost) (h6 : g.acceptedBy = s.g.acceptedBy)
    (h7 : g.drainedBy = s.g.drainedBy) : FifoInv (s.withG g) := by
  refine ⟨?_, h.nodup, h.reg⟩
  intro t ha
  have := h.order t ha
  show (byT t g.acceptedBy).reverse = (byT t g.drainedBy).reverse ++ s.ringQ t ++ (s.th t).pending
  rw [h6, h7]
  exact this

theorem Step.withG_side {s : Sys} (g : Ghost) (h1 : g.accepted = s.g.accepted) (h2 : g.consumed = s.g.consumed)
    (h3 : g.discarded = s.g.discarded) (h4 : g.lostAtExit = s.g.lostAtExit) (h5 : g.reported = s.g.reported)
    (h6 : g.acceptedBy = s.g.acceptedBy := by rfl) (h7 : g.drainedBy = s.g.drainedBy := by rfl)
    (h8 : g.injected = s.g.injected := by rfl) :
    Step s (s.withG g) :=
  ⟨fun h => h.withG_side g h1 h2 h3 h4 h8, rfl, h2, h5, h3, fun h => h.withG_side g h6 h7⟩

theorem orElse_none' {α : Type} (o : Option α) : (o.orElse fun _ => none) = o := by cases o <;> rfl

/-- first use of a thread's channel: an empty ring is added under a key that was not there -/
theorem FifoInv.register {s s1 : Sys} (h : FifoInv s) (t : Nat) (hreg : s.register t = some s1) : FifoInv s1 := by
  unfold Sys.register at hreg
  split at hreg
  · cases hreg; exact h
  · rename_i hnr
    have hnk : t ∉ s.ringKeys := by
      intro hk
      exact hnr (h.reg t hk)
    have hth : ∀ t2, ((s.setTh t { s.th t with registered := true }).th t2).alive = (s.th t2).alive ∧
        ((s.setTh t { s.th t with registered := true }).th t2).pending = (s.th t2).pending ∧
        ((s.th t2).registered = true → ((s.setTh t { s.th t with registered := true }).th t2).registered = true) := by
      intro t2
      by_cases e : t2 = t
      · subst e; rw [Sys.th_setTh_same]; exact ⟨rfl, rfl, fun _ => rfl⟩
      · rw [Sys.th_setTh_other _ _ _ _ e]; exact ⟨rfl, rfl, id⟩
    have hq0 : s.ringQ t = [] := by
      unfold Sys.ringQ; rw [Sys.ringOf_none_of_not_mem s t hnk]; rfl
    cases hc : s.cyc with
    | none =>
      rw [hc] at hreg
      simp only [Option.some.injEq] at hreg
      subst hreg
      have hk : Sys.ringKeys ({ (s.setTh t { s.th t with registered := true }) with rxs := s.rxs ++ [(t, Ring.new Consts.ringCap)] } : Sys)
          = s.ringKeys ++ [t] := by
        unfold Sys.ringKeys
        show (match s.cyc with | none => _ | some cs => _) = (match s.cyc with | none => _ | some cs => _) ++ [t]
        rw [hc]; simp
      have hro : ∀ t2, Sys.ringQ ({ (s.setTh t { s.th t with registered := true }) with rxs := s.rxs ++ [(t, Ring.new Consts.ringCap)] } : Sys) t2
          = s.ringQ t2 := by
        intro t2
        unfold Sys.ringQ Sys.ringOf
        show ((match s.cyc with | none => natGet (s.rxs ++ [(t, Ring.new Consts.ringCap)]) t2 | some cs => _).map (fun r : Ring Cmd => r.q)).getD [] =
          ((match s.cyc with | none => natGet s.rxs t2 | some cs => _).map (fun r : Ring Cmd => r.q)).getD []
        rw [hc]
        dsimp only
        rw [natGet_append]
        by_cases e : t2 = t
        · subst e
          have : natGet s.rxs t2 = none := by
            have := Sys.ringOf_none_of_not_mem s t2 hnk
            unfold Sys.ringOf at this; rw [hc] at this; exact this
          rw [this]
          simp [natGet, Ring.new]
        · have : natGet [(t, Ring.new (α := Cmd) Consts.ringCap)] t2 = none := by
            have hb : (t == t2) = false := by simp; exact fun x => e x.symm
            simp [natGet, List.find?, hb]
          rw [this, orElse_none']
      refine ⟨?_, ?_, ?_⟩
      · intro t2 ha
        rw [hro t2]
        show _ = _ ++ _ ++ ((s.setTh t { s.th t with registered := true }).th t2).pending
        rw [(hth t2).2.1]
        exact h.order t2 (by rw [← (hth t2).1]; exact ha)
      · rw [hk]
        exact List.nodup_append.mpr ⟨h.nodup, by simp, by
          intro a ha b hb
          simp only [List.mem_singleton] at hb
          subst hb
          intro e; subst e; exact hnk ha⟩
      · intro t2 ht2
        rw [hk, List.mem_append, List.mem_singleton] at ht2
        show ((s.setTh t { s.th t with registered := true }).th t2).registered = true
        rcases ht2 with ht2 | rfl
        · exact (hth t2).2.2 (h.reg t2 ht2)
        · rw [Sys.th_setTh_same]
    | some cs =>
      rw [hc] at hreg
      dsimp only at hreg
      split at hreg
      · cases hreg
      · simp only [Option.some.injEq] at hreg
        subst hreg
        have hk : Sys.ringKeys ({ (s.setTh t { s.th t with registered := true }) with
            cyc := some { cs with kept := cs.kept ++ [(t, Ring.new Consts.ringCap)] } } : Sys) = s.ringKeys ++ [t] := by
          unfold Sys.ringKeys
          show _ = (match s.cyc with | none => _ | some cs => _) ++ [t]
          rw [hc]; simp
        have hro : ∀ t2, Sys.ringQ ({ (s.setTh t { s.th t with registered := true }) with
            cyc := some { cs with kept := cs.kept ++ [(t, Ring.new Consts.ringCap)] } } : Sys) t2 = s.ringQ t2 := by
          intro t2
          unfold Sys.ringQ Sys.ringOf
          show (((natGet cs.todo t2).orElse fun _ => natGet (cs.kept ++ [(t, Ring.new Consts.ringCap)]) t2).map (fun r : Ring Cmd => r.q)).getD [] =
            ((match s.cyc with | none => natGet s.rxs t2 | some cs => (natGet cs.todo t2).orElse fun _ => natGet cs.kept t2).map (fun r : Ring Cmd => r.q)).getD []
          rw [hc]
          dsimp only
          rw [natGet_append]
          by_cases e : t2 = t
          · subst e
            have hn : (natGet cs.todo t2).orElse (fun _ => natGet cs.kept t2) = none := by
              have := Sys.ringOf_none_of_not_mem s t2 hnk
              unfold Sys.ringOf at this; rw [hc] at this; exact this
            cases h1 : natGet cs.todo t2 with
            | some x => rw [h1] at hn; cases hn
            | none =>
              rw [h1] at hn
              simp only [Option.orElse] at hn
              rw [hn]
              simp [natGet, Ring.new]
          · have : natGet [(t, Ring.new (α := Cmd) Consts.ringCap)] t2 = none := by
              have hb : (t == t2) = false := by simp; exact fun x => e x.symm
              simp [natGet, List.find?, hb]
            rw [this, orElse_none']
        refine ⟨?_, ?_, ?_⟩
        · intro t2 ha
          rw [hro t2]
          show _ = _ ++ _ ++ ((s.setTh t { s.th t with registered := true }).th t2).pending
          rw [(hth t2).2.1]
          exact h.order t2 (by rw [← (hth t2).1]; exact ha)
        · rw [hk]
          exact List.nodup_append.mpr ⟨h.nodup, by simp, by
            intro a ha b hb
            simp only [List.mem_singleton] at hb
            subst hb
            intro e; subst e; exact hnk ha⟩
        · intro t2 ht2
          rw [hk, List.mem_append, List.mem_singleton] at ht2
          show ((s.setTh t { s.th t with registered := true }).th t2).registered = true
          rcases ht2 with ht2 | rfl
          · exact (hth t2).2.2 (h.reg t2 ht2)
          · rw [Sys.th_setTh_same]

theorem Step.register {s s1 : Sys} (t : Nat) (hreg : s.register t = some s1) : Step s s1 := by
  obtain ⟨_, g1, c1⟩ := Sys.register_flow (fun _ => 0) s s1 t hreg
  refine ⟨fun h => ⟨?_, ?_, Sys.register_wf s s1 t hreg h.wf, by rw [g1]; exact h.lost⟩, c1, by rw [g1], by rw [g1], by rw [g1],
    fun h => h.register t hreg⟩
  · intro w hw
    rw [(Sys.register_flow w s s1 t hreg).1, g1]
    exact h.cons w hw
  · rcases Sys.register_some s s1 t hreg with rfl | ⟨r, c, rfl⟩
    · exact h.sig
    · intro e he
      rcases mem_natSet he with he | rfl
      · exact h.sig e he
      · exact h.sig' t

/-! ### `send_command` / `force_send_command` -/

/-- the ring and the overflow list of thread `t` are replaced; `added` is what the channel took -/
theorem ChanInv.afterSend {s1 : Sys} (h : ChanInv s1) (t : Nat) (r r' : Ring Cmd) (th' : Th) (g' : Ghost) (added : List Cmd)
    (hring : s1.ringOf t = some r)
    (hflow : ∀ w, wsum w r'.q + wsum w th'.pending = wsum w r.q + wsum w (s1.th t).pending + wsum w added)
    (ha : g'.accepted = added ++ s1.g.accepted) (hc : g'.consumed = s1.g.consumed) (hd : g'.discarded = s1.g.discarded)
    (hl : g'.lostAtExit = s1.g.lostAtExit) (hsig : ∀ c ∈ th'.pending, c.isSignal = true)
    (hi : g'.injected = s1.g.injected := by rfl) :
    ChanInv (((s1.setRing t r').setTh t th').withG g') := by
  refine ⟨?_, ?_, ?_, ?_⟩
  · intro w hw
    have e1 := hflow w
    have e2 := Sys.setRing_flow w s1 t r r' hring
    have e3 := Sys.setTh_flow w (s1.setRing t r') t th'
    rw [Sys.setRing_th] at e3
    have e4 := h.cons w hw
    simp only [Sys.withG_g, Sys.withG_flow, Ghost.out, ha, hc, hd, hl, hi, wsum_append] at e4 ⊢
    omega
  · intro e he
    rw [Sys.withG_threads] at he
    rcases mem_natSet he with he | rfl
    · rw [Sys.setRing_threads] at he
      exact h.sig e he
    · exact hsig
  · exact Sys.setRing_wf s1 t _ h.wf
  · rw [Sys.withG_g, hl]; exact h.lost

/-- the same replacement, seen per thread: `ring ++ overflow` of thread `t` grows by `added` at the end -/
theorem FifoInv.afterSend {s1 : Sys} (h : FifoInv s1) (t : Nat) (r r' : Ring Cmd) (th' : Th) (g' : Ghost) (added : List Cmd)
    (hring : s1.ringOf t = some r)
    (hseq : r'.q ++ th'.pending = r.q ++ (s1.th t).pending ++ added)
    (hab : g'.acceptedBy = (added.map fun c => (t, c)).reverse ++ s1.g.acceptedBy) (hdb : g'.drainedBy = s1.g.drainedBy)
    (hal : th'.alive = (s1.th t).alive) (hrg : th'.registered = (s1.th t).registered) :
    FifoInv (((s1.setRing t r').setTh t th').withG g') := by
  refine ⟨?_, ?_, ?_⟩
  · intro t2 ha
    rw [Sys.withG_th] at ha
    show (byT t2 g'.acceptedBy).reverse = (byT t2 g'.drainedBy).reverse ++ Sys.ringQ ((s1.setRing t r').setTh t th') t2
      ++ (((s1.setRing t r').setTh t th').th t2).pending
    have hq : Sys.ringQ ((s1.setRing t r').setTh t th') t2 = if t2 = t then r'.q else s1.ringQ t2 := by
      unfold Sys.ringQ
      rw [Sys.ringOf_setTh, Sys.ringOf_setRing s1 t t2 r r' hring]
      split <;> rfl
    rw [hq, hab, hdb, byT_append, byT_reverse, List.reverse_append, List.reverse_reverse]
    by_cases e : t2 = t
    · subst e
      rw [Sys.th_setTh_same] at ha ⊢
      have ho := h.order t2 (by rw [← hal]; exact ha)
      have hr0 : s1.ringQ t2 = r.q := by unfold Sys.ringQ; rw [hring]; rfl
      rw [hr0] at ho
      simp only [if_true, byT_tagged_same]
      have hseq' : (byT t2 s1.g.drainedBy).reverse ++ r'.q ++ th'.pending
          = (byT t2 s1.g.drainedBy).reverse ++ (r.q ++ (s1.th t2).pending ++ added) := by
        rw [List.append_assoc, hseq]
      rw [ho, hseq']
      simp [List.append_assoc]
    · rw [Sys.th_setTh_other _ _ _ _ e, Sys.setRing_th] at ha ⊢
      simp only [e, if_false, byT_tagged_other _ _ _ (fun x => e x.symm), List.reverse_nil, List.append_nil]
      exact h.order t2 ha
  · show (Sys.ringKeys ((s1.setRing t r').setTh t th')).Nodup
    rw [Sys.ringKeys_setTh, Sys.ringKeys_setRing s1 t r r' hring]
    exact h.nodup
  · intro t2 ht2
    have ht2' : t2 ∈ s1.ringKeys := by
      have : Sys.ringKeys (((s1.setRing t r').setTh t th').withG g') = s1.ringKeys := by
        rw [Sys.ringKeys_withG, Sys.ringKeys_setTh, Sys.ringKeys_setRing s1 t r r' hring]
      rw [this] at ht2; exact ht2
    rw [Sys.withG_th]
    by_cases e : t2 = t
    · subst e; rw [Sys.th_setTh_same, hrg]; exact h.reg t2 ht2'
    · rw [Sys.th_setTh_other _ _ _ _ e, Sys.setRing_th]; exact h.reg t2 ht2'

theorem Step.sendCmd (s : Sys) (t : Nat) (cmd : Cmd) (forced : Bool) (hf : forced = true → cmd.isSignal = true) :
    Step s (s.sendCmd t cmd forced) := by
  unfold Sys.sendCmd
  cases hreg : s.register t with
  | none => exact Step.withG_side _ rfl rfl rfl rfl rfl
  | some s1 =>
    dsimp only
    refine (Step.register t hreg).trans ?_
    cases hring : s1.ringOf t with
    | none => exact Step.withG_side _ rfl rfl rfl rfl rfl
    | some r =>
      dsimp only
      cases forced with
      | true =>
        simp only [if_true]
        refine ⟨fun h => ?_, ?_, rfl, rfl, rfl, fun h => ?_⟩
        rotate_left 2
        · refine FifoInv.afterSend h t r _ _ _ [cmd] hring ?_ rfl rfl rfl rfl
          have := Ring.forceSend_seq r (s1.th t).pending cmd
          exact this
        · refine ChanInv.afterSend h t r _ _ _ [cmd] hring ?_ rfl rfl rfl rfl ?_
          · intro w
            have := Ring.forceSend_w w r (s1.th t).pending cmd
            simp only [wsum_cons, wsum_nil]
            omega
          · intro c hc
            rcases Ring.forceSend_pending_sub r (s1.th t).pending cmd c hc with hc | rfl
            · exact h.sig' t c hc
            · exact hf rfl
        · simp only [Sys.withG_coll, Sys.setTh_coll, Sys.setRing_coll]
      | false =>
        simp only [Bool.false_eq_true, if_false]
        refine ⟨fun h => ?_, ?_, ?_, ?_, ?_, fun h => ?_⟩
        rotate_left 5
        · refine FifoInv.afterSend h t r _ _ _ (if (r.send (s1.th t).pending cmd).2.2 then [cmd] else []) hring ?_ ?_ ?_ rfl rfl
          · exact Ring.send_seq r (s1.th t).pending cmd
          · cases hok : (r.send (s1.th t).pending cmd).2.2 <;> simp [hok]
          · cases hok : (r.send (s1.th t).pending cmd).2.2 <;> simp [hok]
        · refine ChanInv.afterSend h t r _ _ _ (if (r.send (s1.th t).pending cmd).2.2 then [cmd] else []) hring ?_ ?_ ?_ ?_ ?_ ?_
            (by cases hok : (r.send (s1.th t).pending cmd).2.2 <;> simp [hok])
          · intro w
            have := Ring.send_w w r (s1.th t).pending cmd
            cases hok : (r.send (s1.th t).pending cmd).2.2 <;>
              simp only [hok, if_true, Bool.false_eq_true, if_false, wsum_cons, wsum_nil] at this ⊢ <;> omega
          · cases hok : (r.send (s1.th t).pending cmd).2.2 <;> simp [hok]
          · cases hok : (r.send (s1.th t).pending cmd).2.2 <;> simp [hok]
          · cases hok : (r.send (s1.th t).pending cmd).2.2 <;> simp [hok]
          · cases hok : (r.send (s1.th t).pending cmd).2.2 <;> simp [hok]
          · intro c hc
            exact h.sig' t c (Ring.send_pending_sub r (s1.th t).pending cmd c hc)
        · simp only [Sys.withG_coll, Sys.setTh_coll, Sys.setRing_coll]
        · show (if _ then _ else _ : Ghost).consumed = _
          split <;> rfl
        · show (if _ then _ else _ : Ghost).reported = _
          split <;> rfl
        · show (if _ then _ else _ : Ghost).discarded = _
          split <;> rfl

theorem Step.submitSpans (s : Sys) (t : Nat) (spans : SpanSet) (tok : Token) : Step s (s.submitSpans t spans tok) := by
  unfold Sys.submitSpans
  dsimp only
  split
  · exact Step.refl s
  · exact Step.sendCmd s t _ false (fun h => by cases h)

theorem Step.newSpan (s : Sys) (t : Nat) (v n : String) (tok : Token) (cid : Option Nat) :
    Step s (s.newSpan t v n tok cid) := by
  unfold Sys.newSpan
  exact (Step.putCtr t _).trans (Step.withSpans _)

theorem Step.dropSpanVal (s : Sys) (t : Nat) (sv : SpanVal) : Step s (s.dropSpanVal t sv) := by
  unfold Sys.dropSpanVal
  cases sv with
  | none => exact Step.refl s
  | some sp =>
    dsimp only
    have h1 := (Step.putCtr (s := s) t ((s.ctr t).now).2).trans (Step.submitSpans _ t (.span { sp.raw with endT := ((s.ctr t).now).1 }) sp.token)
    cases sp.collectId with
    | none => exact h1
    | some cid => exact h1.trans (Step.sendCmd _ t (.commit cid) true (fun _ => rfl))

theorem Step.closeGuard (s : Sys) (t : Nat) (g : Guard) : Step s (s.closeGuard t g) := by
  unfold Sys.closeGuard
  cases g with
  | scope e =>
    cases e with
    | none => exact Step.refl s
    | some epoch =>
      dsimp only
      have h1 : Step s ((s.setTh t { s.th t with stack := ((s.th t).stack.unregisterAndCollect epoch).1 })) :=
        Step.setTh t _ (by rfl)
      split
      · exact (h1.trans (Step.putCtr t _)).trans (Step.submitSpans _ t _ _)
      · exact h1.trans (Step.putCtr t _)
  | localSpan h =>
    cases h with
    | none => exact Step.refl s
    | some h => dsimp only; exact (Step.setTh t _ (by rfl)).trans (Step.putCtr t _)
  | collector e =>
    cases e with
    | none => exact Step.refl s
    | some epoch => dsimp only; exact Step.setTh t _ (by rfl)

theorem Step.foldl_closeGuard (gs : List Guard) (s : Sys) (t : Nat) :
    Step s (gs.foldl (fun s g => s.closeGuard t g) s) := by
  induction gs generalizing s with
  | nil => exact Step.refl s
  | cons g gs ih => exact (Step.closeGuard s t g).trans (ih _)

theorem Step.enterExitLocal (s : Sys) (t : Nat) : Step s (s.enterExitLocal t) := by
  unfold Sys.enterExitLocal
  dsimp only
  split
  · exact Step.refl s
  · exact (Step.setTh t _ (by rfl)).trans (Step.putCtr t _)

theorem Step.foldl_enterExitLocal {α : Type} (l : List α) (s : Sys) (t : Nat) :
    Step s (l.foldl (fun s _ => s.enterExitLocal t) s) := by
  induction l generalizing s with
  | nil => exact Step.refl s
  | cons x xs ih => exact (Step.enterExitLocal s t).trans (ih _)

theorem Step.runClosure (s : Sys) (t : Nat) (cl : Closure) : Step s (s.runClosure t cl) := by
  unfold Sys.runClosure
  split
  · exact Step.enterExitLocal s t
  · exact Step.foldl_enterExitLocal _ s t
  · dsimp only
    exact (Step.setTh t _ (by rfl)).trans (Step.putCtr t _)
  · split
    · exact Step.refl s
    · dsimp only
      exact ((Step.newSpan s t _ _ _ _).trans (Step.withSpans _)).trans (Step.dropSpanVal _ t _)
  · exact Step.refl s

theorem Step.spamOnce (s : Sys) (t : Nat) : Step s (s.spamOnce t) := by
  unfold Sys.spamOnce
  split
  · exact Step.refl s
  · dsimp only
    exact ((Step.newSpan s t _ _ _ _).trans (Step.withSpans _)).trans (Step.dropSpanVal _ t _)

theorem Step.spam (n : Nat) (s : Sys) (t : Nat) : Step s (Nat.rec s (fun _ acc => acc.spamOnce t) n) := by
  induction n with
  | zero => exact Step.refl s
  | succ k ih => exact ih.trans (Step.spamOnce _ t)

/-! ### thread exit: the parked values that do not fit are lost (finding D3) and accounted for -/

theorem Step.exitThread (s : Sys) (t : Nat) : Step s (s.exitThread t) := by
  unfold Sys.exitThread
  dsimp only
  refine (Step.foldl_closeGuard (s.th t).guards s t).trans ?_
  generalize (s.th t).guards.foldl (fun s g => s.closeGuard t g) s = s1
  split
  · -- registered
    cases hring : (s1.setTh t { s1.th t with guards := [], alive := false, pending := [] }).ringOf t with
    | some r =>
      dsimp only
      refine ⟨fun h => ⟨?_, ?_, ?_, ?_⟩, ?_, rfl, rfl, rfl, fun hf => ?_⟩
      rotate_left 5
      · -- per-thread order: thread `t` is dead now (no claim), the others are untouched
        have hring0 : s1.ringOf t = some r := hring
        refine ⟨?_, ?_, ?_⟩
        · intro t2 ha
          rw [Sys.withG_th, Sys.setRing_th] at ha
          by_cases e : t2 = t
          · subst e; rw [Sys.th_setTh_same] at ha; cases ha
          · rw [Sys.th_setTh_other _ _ _ _ e] at ha
            show _ = _ ++ Sys.ringQ (Sys.setRing _ t _) t2 ++ (Sys.th (Sys.setRing _ t _) t2).pending
            have hq : Sys.ringQ (Sys.setRing (s1.setTh t { s1.th t with guards := [], alive := false, pending := [] }) t
                (r.senderDrop (s1.th t).pending)) t2 = s1.ringQ t2 := by
              unfold Sys.ringQ
              rw [Sys.ringOf_setRing _ t t2 r _ hring]
              simp only [e, if_false]
              rfl
            rw [hq, Sys.setRing_th, Sys.th_setTh_other _ _ _ _ e]
            exact hf.order t2 ha
        · show (Sys.ringKeys (Sys.setRing _ t _)).Nodup
          rw [Sys.ringKeys_setRing _ t r _ hring]
          exact hf.nodup
        · intro t2 ht2
          have : t2 ∈ s1.ringKeys := by
            have hk : Sys.ringKeys (Sys.setRing (s1.setTh t { s1.th t with guards := [], alive := false, pending := [] }) t
                (r.senderDrop (s1.th t).pending)) = s1.ringKeys := by
              rw [Sys.ringKeys_setRing _ t r _ hring]; rfl
            rw [Sys.ringKeys_withG, hk] at ht2; exact ht2
          rw [Sys.withG_th, Sys.setRing_th]
          by_cases e : t2 = t
          · subst e; rw [Sys.th_setTh_same]; exact hf.reg t2 this
          · rw [Sys.th_setTh_other _ _ _ _ e]; exact hf.reg t2 this
      · intro w hw
        have e1 := Ring.senderDrop_w w r (s1.th t).pending
        have e2 := Sys.setRing_flow w _ t r (r.senderDrop (s1.th t).pending) hring
        have e3 := Sys.setTh_flow w s1 t { s1.th t with guards := [], alive := false, pending := [] }
        have e4 := h.cons w hw
        simp only [Sys.withG_g, Sys.withG_flow, Ghost.out, wsum_append, Sys.setRing_g, Sys.setTh_g, wsum_nil] at e2 e3 e4 ⊢
        omega
      · intro e he
        rw [Sys.withG_threads, Sys.setRing_threads] at he
        rcases mem_natSet he with he | rfl
        · exact h.sig e he
        · intro c hc; cases hc
      · exact Sys.setRing_wf _ t _ h.wf
      · intro c hc
        rw [Sys.withG_g] at hc
        simp only [List.mem_append, Sys.setTh_g] at hc
        rcases hc with hc | hc
        · exact h.sig' t c (Ring.senderDropLost_sub r _ c hc)
        · exact h.lost c hc
      · show (Sys.setRing _ _ _).coll = _
        rw [Sys.setRing_coll]; rfl
    | none =>
      dsimp only
      refine ⟨fun h => ⟨?_, ?_, ?_, ?_⟩, rfl, rfl, rfl, rfl, fun hf => ?_⟩
      rotate_left 4
      · refine ⟨?_, hf.nodup, ?_⟩
        · intro t2 ha
          rw [Sys.withG_th] at ha ⊢
          by_cases e : t2 = t
          · subst e; rw [Sys.th_setTh_same] at ha; cases ha
          · rw [Sys.th_setTh_other _ _ _ _ e] at ha ⊢
            exact hf.order t2 ha
        · intro t2 ht2
          rw [Sys.withG_th]
          by_cases e : t2 = t
          · subst e; rw [Sys.th_setTh_same]; exact hf.reg t2 ht2
          · rw [Sys.th_setTh_other _ _ _ _ e]; exact hf.reg t2 ht2
      · intro w hw
        have e3 := Sys.setTh_flow w s1 t { s1.th t with guards := [], alive := false, pending := [] }
        have e4 := h.cons w hw
        simp only [Sys.withG_g, Sys.withG_flow, Ghost.out, wsum_append, Sys.setTh_g, wsum_nil] at e3 e4 ⊢
        omega
      · intro e he
        rw [Sys.withG_threads] at he
        rcases mem_natSet he with he | rfl
        · exact h.sig e he
        · intro c hc; cases hc
      · exact h.wf
      · intro c hc
        rw [Sys.withG_g] at hc
        simp only [List.mem_append, Sys.setTh_g] at hc
        rcases hc with hc | hc
        · exact h.sig' t c hc
        · exact h.lost c hc
  · -- never used the channel (its overflow list is empty, but the accounting does not need to know)
    refine ⟨fun h => ⟨?_, ?_, h.wf, ?_⟩, rfl, rfl, rfl, rfl, fun hf => ?_⟩
    rotate_left 3
    · refine ⟨?_, hf.nodup, ?_⟩
      · intro t2 ha
        rw [Sys.withG_th] at ha ⊢
        by_cases e : t2 = t
        · subst e; rw [Sys.th_setTh_same] at ha; cases ha
        · rw [Sys.th_setTh_other _ _ _ _ e] at ha ⊢
          exact hf.order t2 ha
      · intro t2 ht2
        rw [Sys.withG_th]
        by_cases e : t2 = t
        · subst e; rw [Sys.th_setTh_same]; exact hf.reg t2 ht2
        · rw [Sys.th_setTh_other _ _ _ _ e]; exact hf.reg t2 ht2
    · intro w hw
      have e3 := Sys.setTh_flow w s1 t { s1.th t with guards := [], alive := false, pending := [] }
      have e4 := h.cons w hw
      simp only [Sys.withG_g, Sys.withG_flow, Ghost.out, wsum_append, Sys.setTh_g, wsum_nil] at e3 e4 ⊢
      omega
    · intro e he
      rw [Sys.withG_threads] at he
      rcases mem_natSet he with he | rfl
      · exact h.sig e he
      · intro c hc; cases hc
    · intro c hc
      rw [Sys.withG_g] at hc
      simp only [List.mem_append, Sys.setTh_g] at hc
      rcases hc with hc | hc
      · exact h.sig' t c hc
      · exact h.lost c hc

/-! ### continuation style: `h.thenX …` extends a step by one helper (elaborates against a known goal) -/

section thenLemmas
variable {s s1 : Sys}

theorem Step.thenSetTh (h : Step s s1) (t : Nat) (th' : Th) (hp : th'.pending = (s1.th t).pending := by rfl)
    (ha : th'.alive = (s1.th t).alive := by rfl) (hr : th'.registered = (s1.th t).registered := by rfl) :
    Step s (s1.setTh t th') := h.trans (Step.setTh t th' hp ha hr)
theorem Step.thenPutCtr (h : Step s s1) (t : Nat) (c : Ctr) : Step s (s1.putCtr t c) := h.trans (Step.putCtr t c)
theorem Step.thenSpans (h : Step s s1) (x : List (String × SpanVal)) : Step s { s1 with spans := x } :=
  h.trans (Step.withSpans x)
theorem Step.thenLspans (h : Step s s1) (x : List (String × LocalSpansVal)) : Step s { s1 with lspans := x } :=
  h.trans (Step.withLspans x)
theorem Step.thenAdapters (h : Step s s1) (x : List (String × Adapter)) : Step s { s1 with adapters := x } :=
  h.trans (Step.withAdapters x)
theorem Step.thenSpansAdapters (h : Step s s1) (x : List (String × SpanVal)) (y : List (String × Adapter)) :
    Step s { s1 with spans := x, adapters := y } := h.trans (Step.withSpansAdapters x y)
theorem Step.thenNextCollect (h : Step s s1) (n : Nat) : Step s { s1 with nextCollect := n } :=
  h.trans (Step.withNextCollect n)
theorem Step.thenSend (h : Step s s1) (t : Nat) (cmd : Cmd) (f : Bool) (hf : f = true → cmd.isSignal = true) :
    Step s (s1.sendCmd t cmd f) := h.trans (Step.sendCmd s1 t cmd f hf)
theorem Step.thenSubmit (h : Step s s1) (t : Nat) (sp : SpanSet) (tok : Token) : Step s (s1.submitSpans t sp tok) :=
  h.trans (Step.submitSpans s1 t sp tok)
theorem Step.thenNewSpan (h : Step s s1) (t : Nat) (v n : String) (tok : Token) (cid : Option Nat) :
    Step s (s1.newSpan t v n tok cid) := h.trans (Step.newSpan s1 t v n tok cid)
theorem Step.thenDrop (h : Step s s1) (t : Nat) (sv : SpanVal) : Step s (s1.dropSpanVal t sv) :=
  h.trans (Step.dropSpanVal s1 t sv)
theorem Step.thenClose (h : Step s s1) (t : Nat) (g : Guard) : Step s (s1.closeGuard t g) :=
  h.trans (Step.closeGuard s1 t g)
theorem Step.thenClosure (h : Step s s1) (t : Nat) (cl : Closure) : Step s (s1.runClosure t cl) :=
  h.trans (Step.runClosure s1 t cl)

end thenLemmas

end Fastrace