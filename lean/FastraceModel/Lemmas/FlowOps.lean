import FastraceModel.Lemmas.Flow

/-!
The channel invariant `ChanInv` and the step relation `Step` for every state helper of
`Model/Api.lean` that is not a collector cycle:

* `ChanInv.cons`  — conservation of commands (see `Lemmas/Flow.lean`);
* `ChanInv.sig`   — an overflow list only ever holds finish / cancel signals (`CommitCollect`,
                 `DropCollect`): best-effort sends are never parked;
* `ChanInv.wf`    — once the first drain pass is over no receiver is left unvisited.

`Step s s'` says: `s'` keeps `ChanInv`, and the collector state, the consumed commands and the
reported records are untouched (only a cycle changes those).
-/
namespace Fastrace

/-- finish / cancel signals: the commands sent with `force_send_command` -/
def Cmd.isSignal : Cmd → Bool
  | .commit _ => true
  | .drop _ => true
  | _ => false

def CycWF (s : Sys) : Prop :=
  ∀ cs, s.cyc = some cs → (cs.phase = .atRx2 ∨ cs.phase = .atReport) → cs.todo = []

structure ChanInv (s : Sys) : Prop where
  cons : ∀ w, Additive w → wsum w s.g.accepted = s.flow w + s.g.out w
  sig : ∀ e ∈ s.threads, ∀ c ∈ e.2.pending, c.isSignal = true
  wf : CycWF s
  lost : ∀ c ∈ s.g.lostAtExit, c.isSignal = true

/-- the overflow list of thread `t` as the operations see it -/
theorem ChanInv.sig' {s : Sys} (h : ChanInv s) (t : Nat) : ∀ c ∈ (s.th t).pending, c.isSignal = true := by
  unfold Sys.th
  cases hg : natGet s.threads t with
  | none => intro c hc; simp [Th.fresh] at hc
  | some th =>
    obtain ⟨e, he, rfl⟩ := natGet_mem hg
    exact h.sig e he

theorem Sys.setRing_threads (s : Sys) (t : Nat) (r : Ring Cmd) : (s.setRing t r).threads = s.threads := by
  unfold Sys.setRing
  cases s.cyc with
  | none => rfl
  | some cs =>
    simp only
    split
    · rfl
    · split <;> rfl

structure Step (s s' : Sys) : Prop where
  chan : ChanInv s → ChanInv s'
  coll : s'.coll = s.coll
  consumed : s'.g.consumed = s.g.consumed
  reported : s'.g.reported = s.g.reported
  discarded : s'.g.discarded = s.g.discarded

theorem Step.refl (s : Sys) : Step s s := ⟨id, rfl, rfl, rfl, rfl⟩

theorem Step.trans {a b c : Sys} (h1 : Step a b) (h2 : Step b c) : Step a c :=
  ⟨fun h => h2.chan (h1.chan h), h2.coll.trans h1.coll, h2.consumed.trans h1.consumed, h2.reported.trans h1.reported,
   h2.discarded.trans h1.discarded⟩

/-- a change that touches neither the channels nor the collector nor the history -/
theorem Step.of_fields {s s' : Sys} (h1 : s'.cyc = s.cyc) (h2 : s'.rxs = s.rxs) (h3 : s'.threads = s.threads)
    (h4 : s'.deferred = s.deferred) (h5 : s'.g = s.g) (h6 : s'.coll = s.coll) (h7 : s'.carried = s.carried) : Step s s' := by
  refine ⟨fun h => ⟨?_, ?_, ?_, ?_⟩, h6, by rw [h5], by rw [h5], by rw [h5]⟩
  · intro w hw
    have := h.cons w hw
    unfold Sys.flow at this ⊢
    rw [h1, h2, h3, h4, h5, h7]
    exact this
  · rw [h3]; exact h.sig
  · intro cs hcs
    rw [h1] at hcs
    exact h.wf cs hcs
  · rw [h5]; exact h.lost

theorem Step.setTh {s : Sys} (t : Nat) (th' : Th) (h : th'.pending = (s.th t).pending) : Step s (s.setTh t th') := by
  refine ⟨fun hc => ⟨?_, ?_, hc.wf, hc.lost⟩, rfl, rfl, rfl, rfl⟩
  · intro w hw
    rw [Sys.setTh_flow_same w s t th' h]
    exact hc.cons w hw
  · intro e he
    rcases mem_natSet he with he | rfl
    · exact hc.sig e he
    · show ∀ c ∈ th'.pending, _
      rw [h]
      exact hc.sig' t

theorem Step.putCtr {s : Sys} (t : Nat) (c : Ctr) : Step s (s.putCtr t c) := by
  unfold Sys.putCtr
  exact (Step.setTh (s := s) t { s.th t with suffix := c.suffix } rfl).trans (Step.of_fields rfl rfl rfl rfl rfl rfl rfl)

theorem Step.withSpans {s : Sys} (x : List (String × SpanVal)) : Step s { s with spans := x } :=
  Step.of_fields rfl rfl rfl rfl rfl rfl rfl
theorem Step.withLspans {s : Sys} (x : List (String × LocalSpansVal)) : Step s { s with lspans := x } :=
  Step.of_fields rfl rfl rfl rfl rfl rfl rfl
theorem Step.withAdapters {s : Sys} (x : List (String × Adapter)) : Step s { s with adapters := x } :=
  Step.of_fields rfl rfl rfl rfl rfl rfl rfl
theorem Step.withSpansAdapters {s : Sys} (x : List (String × SpanVal)) (y : List (String × Adapter)) :
    Step s { s with spans := x, adapters := y } :=
  Step.of_fields rfl rfl rfl rfl rfl rfl rfl
theorem Step.withNextCollect {s : Sys} (n : Nat) : Step s { s with nextCollect := n } :=
  Step.of_fields rfl rfl rfl rfl rfl rfl rfl

/-! ### `register`, `setRing` and the drain's bookkeeping -/

theorem Sys.register_wf (s s' : Sys) (t : Nat) (h : s.register t = some s') (hw : CycWF s) : CycWF s' := by
  unfold Sys.register at h
  split at h
  · cases h; exact hw
  · cases hc : s.cyc with
    | none =>
      rw [hc] at h
      simp only [Option.some.injEq] at h
      subst h
      intro cs hcs
      have : (s.setTh t { s.th t with registered := true }).cyc = s.cyc := rfl
      simp only [this, hc] at hcs
      cases hcs
    | some cs =>
      rw [hc] at h
      dsimp only at h
      split at h
      · cases h
      · simp only [Option.some.injEq] at h
        subst h
        intro cs' hcs' hp
        simp only [Option.some.injEq] at hcs'
        subst hcs'
        exact hw cs hc hp

theorem Sys.setRing_wf (s : Sys) (t : Nat) (r : Ring Cmd) (hw : CycWF s) : CycWF (s.setRing t r) := by
  unfold Sys.setRing
  cases hc : s.cyc with
  | none => dsimp only; intro cs hcs; simp only [hc] at hcs; cases hcs
  | some cs =>
    dsimp only
    split
    · rename_i hsome
      intro cs' hcs' hp
      simp only [Option.some.injEq] at hcs'
      subst hcs'
      have := hw cs hc hp
      rw [this] at hsome
      simp [natGet] at hsome
    · split
      · intro cs' hcs' hp
        simp only [Option.some.injEq] at hcs'
        subst hcs'
        exact hw cs hc hp
      · exact hw

theorem Sys.setRing_g (s : Sys) (t : Nat) (r : Ring Cmd) : (s.setRing t r).g = s.g := by
  unfold Sys.setRing
  cases s.cyc with
  | none => rfl
  | some cs =>
    simp only
    split
    · rfl
    · split <;> rfl

theorem Sys.setRing_coll (s : Sys) (t : Nat) (r : Ring Cmd) : (s.setRing t r).coll = s.coll := by
  unfold Sys.setRing
  cases s.cyc with
  | none => rfl
  | some cs =>
    simp only
    split
    · rfl
    · split <;> rfl

/-- a command whose sender is blocked or orphaned changes only the `blocked` / `orphaned` logs -/
theorem Step.withG_side {s : Sys} (g : Ghost) (h1 : g.accepted = s.g.accepted) (h2 : g.consumed = s.g.consumed)
    (h3 : g.discarded = s.g.discarded) (h4 : g.lostAtExit = s.g.lostAtExit) (h5 : g.reported = s.g.reported) :
    Step s (s.withG g) := by
  refine ⟨fun h => ⟨?_, h.sig, h.wf, by rw [Sys.withG_g, h4]; exact h.lost⟩, rfl, h2, h5, h3⟩
  intro w hw
  have := h.cons w hw
  simp only [Sys.withG_g, Sys.withG_flow, Ghost.out, h1, h2, h3, h4] at this ⊢
  exact this

theorem Step.register {s s1 : Sys} (t : Nat) (hreg : s.register t = some s1) : Step s s1 := by
  obtain ⟨_, g1, c1⟩ := Sys.register_flow (fun _ => 0) s s1 t hreg
  refine ⟨fun h => ⟨?_, ?_, Sys.register_wf s s1 t hreg h.wf, by rw [g1]; exact h.lost⟩, c1, by rw [g1], by rw [g1], by rw [g1]⟩
  · intro w hw
    rw [(Sys.register_flow w s s1 t hreg).1, g1]
    exact h.cons w hw
  · rcases Sys.register_some s s1 t hreg with rfl | ⟨r, c, rfl⟩
    · exact h.sig
    · intro e he
      rcases mem_natSet he with he | rfl
      · exact h.sig e he
      · exact h.sig' t

/-! ### `send_command` / `force_send_command` -/

/-- the ring and the overflow list of thread `t` are replaced; `added` is what the channel took -/
theorem ChanInv.afterSend {s1 : Sys} (h : ChanInv s1) (t : Nat) (r r' : Ring Cmd) (th' : Th) (g' : Ghost) (added : List Cmd)
    (hring : s1.ringOf t = some r)
    (hflow : ∀ w, wsum w r'.q + wsum w th'.pending = wsum w r.q + wsum w (s1.th t).pending + wsum w added)
    (ha : g'.accepted = added ++ s1.g.accepted) (hc : g'.consumed = s1.g.consumed) (hd : g'.discarded = s1.g.discarded)
    (hl : g'.lostAtExit = s1.g.lostAtExit) (hsig : ∀ c ∈ th'.pending, c.isSignal = true) :
    ChanInv (((s1.setRing t r').setTh t th').withG g') := by
  refine ⟨?_, ?_, ?_, ?_⟩
  · intro w hw
    have e1 := hflow w
    have e2 := Sys.setRing_flow w s1 t r r' hring
    have e3 := Sys.setTh_flow w (s1.setRing t r') t th'
    rw [Sys.setRing_th] at e3
    have e4 := h.cons w hw
    simp only [Sys.withG_g, Sys.withG_flow, Ghost.out, ha, hc, hd, hl, wsum_append] at e4 ⊢
    omega
  · intro e he
    rw [Sys.withG_threads] at he
    rcases mem_natSet he with he | rfl
    · rw [Sys.setRing_threads] at he
      exact h.sig e he
    · exact hsig
  · exact Sys.setRing_wf s1 t _ h.wf
  · rw [Sys.withG_g, hl]; exact h.lost

theorem Step.sendCmd (s : Sys) (t : Nat) (cmd : Cmd) (forced : Bool) (hf : forced = true → cmd.isSignal = true) :
    Step s (s.sendCmd t cmd forced) := by
  unfold Sys.sendCmd
  cases hreg : s.register t with
  | none => exact Step.withG_side _ rfl rfl rfl rfl rfl
  | some s1 =>
    dsimp only
    refine (Step.register t hreg).trans ?_
    cases hring : s1.ringOf t with
    | none => exact Step.withG_side _ rfl rfl rfl rfl rfl
    | some r =>
      dsimp only
      cases forced with
      | true =>
        simp only [if_true]
        refine ⟨fun h => ?_, ?_, rfl, rfl, rfl⟩
        · refine ChanInv.afterSend h t r _ _ _ [cmd] hring ?_ rfl rfl rfl rfl ?_
          · intro w
            have := Ring.forceSend_w w r (s1.th t).pending cmd
            simp only [wsum_cons, wsum_nil]
            omega
          · intro c hc
            rcases Ring.forceSend_pending_sub r (s1.th t).pending cmd c hc with hc | rfl
            · exact h.sig' t c hc
            · exact hf rfl
        · simp only [Sys.withG_coll, Sys.setTh_coll, Sys.setRing_coll]
      | false =>
        simp only [Bool.false_eq_true, if_false]
        refine ⟨fun h => ?_, ?_, ?_, ?_, ?_⟩
        · refine ChanInv.afterSend h t r _ _ _ (if (r.send (s1.th t).pending cmd).2.2 then [cmd] else []) hring ?_ ?_ ?_ ?_ ?_ ?_
          · intro w
            have := Ring.send_w w r (s1.th t).pending cmd
            cases hok : (r.send (s1.th t).pending cmd).2.2 <;>
              simp only [hok, if_true, Bool.false_eq_true, if_false, wsum_cons, wsum_nil] at this ⊢ <;> omega
          · cases hok : (r.send (s1.th t).pending cmd).2.2 <;> simp [hok]
          · cases hok : (r.send (s1.th t).pending cmd).2.2 <;> simp [hok]
          · cases hok : (r.send (s1.th t).pending cmd).2.2 <;> simp [hok]
          · cases hok : (r.send (s1.th t).pending cmd).2.2 <;> simp [hok]
          · intro c hc
            exact h.sig' t c (Ring.send_pending_sub r (s1.th t).pending cmd c hc)
        · simp only [Sys.withG_coll, Sys.setTh_coll, Sys.setRing_coll]
        · show (if _ then _ else _ : Ghost).consumed = _
          split <;> rfl
        · show (if _ then _ else _ : Ghost).reported = _
          split <;> rfl
        · show (if _ then _ else _ : Ghost).discarded = _
          split <;> rfl

theorem Step.submitSpans (s : Sys) (t : Nat) (spans : SpanSet) (tok : Token) : Step s (s.submitSpans t spans tok) := by
  unfold Sys.submitSpans
  dsimp only
  split
  · exact Step.refl s
  · exact Step.sendCmd s t _ false (fun h => by cases h)

theorem Step.newSpan (s : Sys) (t : Nat) (v n : String) (tok : Token) (cid : Option Nat) :
    Step s (s.newSpan t v n tok cid) := by
  unfold Sys.newSpan
  exact (Step.putCtr t _).trans (Step.withSpans _)

theorem Step.dropSpanVal (s : Sys) (t : Nat) (sv : SpanVal) : Step s (s.dropSpanVal t sv) := by
  unfold Sys.dropSpanVal
  cases sv with
  | none => exact Step.refl s
  | some sp =>
    dsimp only
    have h1 := (Step.putCtr (s := s) t ((s.ctr t).now).2).trans (Step.submitSpans _ t (.span { sp.raw with endT := ((s.ctr t).now).1 }) sp.token)
    cases sp.collectId with
    | none => exact h1
    | some cid => exact h1.trans (Step.sendCmd _ t (.commit cid) true (fun _ => rfl))

theorem Step.closeGuard (s : Sys) (t : Nat) (g : Guard) : Step s (s.closeGuard t g) := by
  unfold Sys.closeGuard
  cases g with
  | scope e =>
    cases e with
    | none => exact Step.refl s
    | some epoch =>
      dsimp only
      have h1 : Step s ((s.setTh t { s.th t with stack := ((s.th t).stack.unregisterAndCollect epoch).1 })) :=
        Step.setTh t _ (by rfl)
      split
      · exact (h1.trans (Step.putCtr t _)).trans (Step.submitSpans _ t _ _)
      · exact h1.trans (Step.putCtr t _)
  | localSpan h =>
    cases h with
    | none => exact Step.refl s
    | some h => dsimp only; exact (Step.setTh t _ (by rfl)).trans (Step.putCtr t _)
  | collector e =>
    cases e with
    | none => exact Step.refl s
    | some epoch => dsimp only; exact Step.setTh t _ (by rfl)

theorem Step.foldl_closeGuard (gs : List Guard) (s : Sys) (t : Nat) :
    Step s (gs.foldl (fun s g => s.closeGuard t g) s) := by
  induction gs generalizing s with
  | nil => exact Step.refl s
  | cons g gs ih => exact (Step.closeGuard s t g).trans (ih _)

theorem Step.enterExitLocal (s : Sys) (t : Nat) : Step s (s.enterExitLocal t) := by
  unfold Sys.enterExitLocal
  dsimp only
  split
  · exact Step.refl s
  · exact (Step.setTh t _ (by rfl)).trans (Step.putCtr t _)

theorem Step.foldl_enterExitLocal {α : Type} (l : List α) (s : Sys) (t : Nat) :
    Step s (l.foldl (fun s _ => s.enterExitLocal t) s) := by
  induction l generalizing s with
  | nil => exact Step.refl s
  | cons x xs ih => exact (Step.enterExitLocal s t).trans (ih _)

theorem Step.runClosure (s : Sys) (t : Nat) (cl : Closure) : Step s (s.runClosure t cl) := by
  unfold Sys.runClosure
  split
  · exact Step.enterExitLocal s t
  · exact Step.foldl_enterExitLocal _ s t
  · dsimp only
    exact (Step.setTh t _ (by rfl)).trans (Step.putCtr t _)
  · split
    · exact Step.refl s
    · dsimp only
      exact ((Step.newSpan s t _ _ _ _).trans (Step.withSpans _)).trans (Step.dropSpanVal _ t _)
  · exact Step.refl s

theorem Step.spamOnce (s : Sys) (t : Nat) : Step s (s.spamOnce t) := by
  unfold Sys.spamOnce
  split
  · exact Step.refl s
  · dsimp only
    exact ((Step.newSpan s t _ _ _ _).trans (Step.withSpans _)).trans (Step.dropSpanVal _ t _)

theorem Step.spam (n : Nat) (s : Sys) (t : Nat) : Step s (Nat.rec s (fun _ acc => acc.spamOnce t) n) := by
  induction n with
  | zero => exact Step.refl s
  | succ k ih => exact ih.trans (Step.spamOnce _ t)

/-! ### thread exit: the parked values that do not fit are lost (finding D3) and accounted for -/

theorem Step.exitThread (s : Sys) (t : Nat) : Step s (s.exitThread t) := by
  unfold Sys.exitThread
  dsimp only
  refine (Step.foldl_closeGuard (s.th t).guards s t).trans ?_
  generalize (s.th t).guards.foldl (fun s g => s.closeGuard t g) s = s1
  split
  · -- registered
    cases hring : (s1.setTh t { s1.th t with guards := [], alive := false, pending := [] }).ringOf t with
    | some r =>
      dsimp only
      refine ⟨fun h => ⟨?_, ?_, ?_, ?_⟩, ?_, rfl, rfl, rfl⟩
      · intro w hw
        have e1 := Ring.senderDrop_w w r (s1.th t).pending
        have e2 := Sys.setRing_flow w _ t r (r.senderDrop (s1.th t).pending) hring
        have e3 := Sys.setTh_flow w s1 t { s1.th t with guards := [], alive := false, pending := [] }
        have e4 := h.cons w hw
        simp only [Sys.withG_g, Sys.withG_flow, Ghost.out, wsum_append, Sys.setRing_g, Sys.setTh_g, wsum_nil] at e2 e3 e4 ⊢
        omega
      · intro e he
        rw [Sys.withG_threads, Sys.setRing_threads] at he
        rcases mem_natSet he with he | rfl
        · exact h.sig e he
        · intro c hc; cases hc
      · exact Sys.setRing_wf _ t _ h.wf
      · intro c hc
        rw [Sys.withG_g] at hc
        simp only [List.mem_append, Sys.setTh_g] at hc
        rcases hc with hc | hc
        · exact h.sig' t c (Ring.senderDropLost_sub r _ c hc)
        · exact h.lost c hc
      · show (Sys.setRing _ _ _).coll = _
        rw [Sys.setRing_coll]; rfl
    | none =>
      dsimp only
      refine ⟨fun h => ⟨?_, ?_, ?_, ?_⟩, rfl, rfl, rfl, rfl⟩
      · intro w hw
        have e3 := Sys.setTh_flow w s1 t { s1.th t with guards := [], alive := false, pending := [] }
        have e4 := h.cons w hw
        simp only [Sys.withG_g, Sys.withG_flow, Ghost.out, wsum_append, Sys.setTh_g, wsum_nil] at e3 e4 ⊢
        omega
      · intro e he
        rw [Sys.withG_threads] at he
        rcases mem_natSet he with he | rfl
        · exact h.sig e he
        · intro c hc; cases hc
      · exact h.wf
      · intro c hc
        rw [Sys.withG_g] at hc
        simp only [List.mem_append, Sys.setTh_g] at hc
        rcases hc with hc | hc
        · exact h.sig' t c hc
        · exact h.lost c hc
  · -- never used the channel (its overflow list is empty, but the accounting does not need to know)
    refine ⟨fun h => ⟨?_, ?_, h.wf, ?_⟩, rfl, rfl, rfl, rfl⟩
    · intro w hw
      have e3 := Sys.setTh_flow w s1 t { s1.th t with guards := [], alive := false, pending := [] }
      have e4 := h.cons w hw
      simp only [Sys.withG_g, Sys.withG_flow, Ghost.out, wsum_append, Sys.setTh_g, wsum_nil] at e3 e4 ⊢
      omega
    · intro e he
      rw [Sys.withG_threads] at he
      rcases mem_natSet he with he | rfl
      · exact h.sig e he
      · intro c hc; cases hc
    · intro c hc
      rw [Sys.withG_g] at hc
      simp only [List.mem_append, Sys.setTh_g] at hc
      rcases hc with hc | hc
      · exact h.sig' t c hc
      · exact h.lost c hc

/-! ### continuation style: `h.thenX …` extends a step by one helper (elaborates against a known goal) -/

section thenLemmas
variable {s s1 : Sys}

theorem Step.thenSetTh (h : Step s s1) (t : Nat) (th' : Th) (hp : th'.pending = (s1.th t).pending := by rfl) :
    Step s (s1.setTh t th') := h.trans (Step.setTh t th' hp)
theorem Step.thenPutCtr (h : Step s s1) (t : Nat) (c : Ctr) : Step s (s1.putCtr t c) := h.trans (Step.putCtr t c)
theorem Step.thenSpans (h : Step s s1) (x : List (String × SpanVal)) : Step s { s1 with spans := x } :=
  h.trans (Step.withSpans x)
theorem Step.thenLspans (h : Step s s1) (x : List (String × LocalSpansVal)) : Step s { s1 with lspans := x } :=
  h.trans (Step.withLspans x)
theorem Step.thenAdapters (h : Step s s1) (x : List (String × Adapter)) : Step s { s1 with adapters := x } :=
  h.trans (Step.withAdapters x)
theorem Step.thenSpansAdapters (h : Step s s1) (x : List (String × SpanVal)) (y : List (String × Adapter)) :
    Step s { s1 with spans := x, adapters := y } := h.trans (Step.withSpansAdapters x y)
theorem Step.thenNextCollect (h : Step s s1) (n : Nat) : Step s { s1 with nextCollect := n } :=
  h.trans (Step.withNextCollect n)
theorem Step.thenSend (h : Step s s1) (t : Nat) (cmd : Cmd) (f : Bool) (hf : f = true → cmd.isSignal = true) :
    Step s (s1.sendCmd t cmd f) := h.trans (Step.sendCmd s1 t cmd f hf)
theorem Step.thenSubmit (h : Step s s1) (t : Nat) (sp : SpanSet) (tok : Token) : Step s (s1.submitSpans t sp tok) :=
  h.trans (Step.submitSpans s1 t sp tok)
theorem Step.thenNewSpan (h : Step s s1) (t : Nat) (v n : String) (tok : Token) (cid : Option Nat) :
    Step s (s1.newSpan t v n tok cid) := h.trans (Step.newSpan s1 t v n tok cid)
theorem Step.thenDrop (h : Step s s1) (t : Nat) (sv : SpanVal) : Step s (s1.dropSpanVal t sv) :=
  h.trans (Step.dropSpanVal s1 t sv)
theorem Step.thenClose (h : Step s s1) (t : Nat) (g : Guard) : Step s (s1.closeGuard t g) :=
  h.trans (Step.closeGuard s1 t g)
theorem Step.thenClosure (h : Step s s1) (t : Nat) (cl : Closure) : Step s (s1.runClosure t cl) :=
  h.trans (Step.runClosure s1 t cl)

end thenLemmas

end Fastrace