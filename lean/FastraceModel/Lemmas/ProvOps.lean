import FastraceModel.Lemmas.Prov

/-! Provenance: every operation of `Model/Api.lean` preserves `Prov` -/
namespace Fastrace

/-! ### the span stack never changes a scope's token -/

theorem stackOk_lines {T U : List Nat} {st st' : Stack} (h : StackOk T U st)
    (hl : ∀ l' ∈ st'.lines, ∃ l ∈ st.lines, l'.token = l.token) : StackOk T U st' := by
  intro l' hl' tok htok
  obtain ⟨l, hlm, e⟩ := hl l' hl'
  exact h l hlm tok (e ▸ htok)

theorem SpanLine.startSpan_token (l : SpanLine) (c : Ctr) (n : String) (l' : SpanLine) (h : LocalHandle) (c' : Ctr)
    (hs : l.startSpan c n = some (l', h, c')) : l'.token = l.token := by
  unfold SpanLine.startSpan at hs
  split at hs
  · cases hs
  · split at hs
    · cases hs
    · simp only [Option.some.injEq, Prod.mk.injEq] at hs
      rw [← hs.1]

theorem SpanLine.finishSpan_token (l : SpanLine) (c : Ctr) (h : LocalHandle) : (l.finishSpan c h).1.token = l.token := by
  unfold SpanLine.finishSpan
  split <;> rfl

theorem SpanLine.addEvent_token (l : SpanLine) (c : Ctr) (n : String) (p : Option Props) :
    (l.addEvent c n p).1.token = l.token := by
  unfold SpanLine.addEvent
  split <;> rfl

theorem SpanLine.addProps_token (l : SpanLine) (c : Ctr) (kvs : Props) : (l.addProps c kvs).1.token = l.token := by
  unfold SpanLine.addProps
  split <;> rfl

theorem SpanLine.withProps_token (l : SpanLine) (h : LocalHandle) (kvs : Props) : (l.withProps h kvs).token = l.token := by
  unfold SpanLine.withProps
  split
  · rfl
  · split <;> rfl

theorem head_upd {st : Stack} {l l' : SpanLine} {ls : List SpanLine} (hst : st.lines = l :: ls) (ht : l'.token = l.token) :
    ∀ x ∈ l' :: ls, ∃ y ∈ st.lines, x.token = y.token := by
  intro x hx
  simp only [List.mem_cons] at hx
  rcases hx with rfl | hx
  · exact ⟨l, by simp [hst], ht⟩
  · exact ⟨x, by simp [hst, hx], rfl⟩

theorem StackOk.enterSpan {T U : List Nat} {st st' : Stack} {c c' : Ctr} {n : String} {h : LocalHandle}
    (hok : StackOk T U st) (hs : st.enterSpan c n = some (st', h, c')) : StackOk T U st' := by
  unfold Stack.enterSpan at hs
  cases hl : st.lines with
  | nil => rw [hl] at hs; cases hs
  | cons l ls =>
    rw [hl] at hs
    dsimp only at hs
    cases hss : l.startSpan c n with
    | none => rw [hss] at hs; cases hs
    | some res =>
      obtain ⟨l', h', c''⟩ := res
      rw [hss] at hs
      simp only [Option.some.injEq, Prod.mk.injEq] at hs
      rw [← hs.1]
      exact stackOk_lines hok (head_upd hl (SpanLine.startSpan_token l c n l' h' c'' hss))

theorem StackOk.exitSpan {T U : List Nat} {st : Stack} (hok : StackOk T U st) (c : Ctr) (h : LocalHandle) :
    StackOk T U (st.exitSpan c h).1 := by
  unfold Stack.exitSpan
  cases hl : st.lines with
  | nil => dsimp only; exact hok
  | cons l ls => exact stackOk_lines hok (head_upd hl (SpanLine.finishSpan_token l c h))

theorem StackOk.addEvent {T U : List Nat} {st : Stack} (hok : StackOk T U st) (c : Ctr) (n : String) (p : Option Props) :
    StackOk T U (st.addEvent c n p).1 := by
  unfold Stack.addEvent
  cases hl : st.lines with
  | nil => dsimp only; exact hok
  | cons l ls => exact stackOk_lines hok (head_upd hl (SpanLine.addEvent_token l c n p))

theorem StackOk.addProps {T U : List Nat} {st : Stack} (hok : StackOk T U st) (c : Ctr) (kvs : Props) :
    StackOk T U (st.addProps c kvs).1 := by
  unfold Stack.addProps
  cases hl : st.lines with
  | nil => dsimp only; exact hok
  | cons l ls => exact stackOk_lines hok (head_upd hl (SpanLine.addProps_token l c kvs))

theorem StackOk.withProps {T U : List Nat} {st : Stack} (hok : StackOk T U st) (h : LocalHandle) (kvs : Props) :
    StackOk T U (st.withProps h kvs) := by
  unfold Stack.withProps
  cases hl : st.lines with
  | nil => dsimp only; exact hok
  | cons l ls => exact stackOk_lines hok (head_upd hl (SpanLine.withProps_token l h kvs))

theorem StackOk.registerLine {T U : List Nat} {st st' : Stack} {tok : Option Token} {e : Nat}
    (hok : StackOk T U st) (ht : ∀ t, tok = some t → TokOk T U t) (hr : st.registerLine tok = some (st', e)) :
    StackOk T U st' := by
  unfold Stack.registerLine at hr
  split at hr
  · cases hr
  · simp only [Option.some.injEq, Prod.mk.injEq] at hr
    rw [← hr.1]
    intro l hl
    simp only [List.mem_cons] at hl
    rcases hl with rfl | hl
    · intro t htk; exact ht t (by simpa [SpanLine.new] using htk)
    · exact hok l hl

theorem StackOk.unregister {T U : List Nat} {st : Stack} (hok : StackOk T U st) (e : Nat) :
    StackOk T U (st.unregisterAndCollect e).1 ∧
    ∀ spans tok, (st.unregisterAndCollect e).2 = some (spans, some tok) → TokOk T U tok := by
  unfold Stack.unregisterAndCollect
  cases hl : st.lines with
  | nil => exact ⟨by dsimp only; exact hok, by simp⟩
  | cons l ls =>
    dsimp only
    refine ⟨fun x hx => hok x (by simp [hl, hx]), ?_⟩
    intro spans tok hc
    unfold SpanLine.collect at hc
    split at hc
    · simp only [Option.some.injEq, Prod.mk.injEq] at hc
      exact hok l (by simp [hl]) tok hc.2
    · cases hc

theorem StackOk.currentToken {T U : List Nat} {st : Stack} (hok : StackOk T U st) {tok : Token}
    (hc : st.currentToken = some tok) : TokOk T U tok := by
  unfold Stack.currentToken at hc
  cases hl : st.lines with
  | nil => rw [hl] at hc; cases hc
  | cons l ls =>
    rw [hl] at hc
    dsimp only at hc
    unfold SpanLine.currentToken at hc
    simp only [Option.map_eq_some_iff] at hc
    obtain ⟨t0, ht0, rfl⟩ := hc
    intro it hit
    simp only [List.mem_map] at hit
    obtain ⟨it0, h0, rfl⟩ := hit
    exact hok l (by simp [hl]) t0 ht0 it0 h0

/-! ### guards, closures -/

theorem Prov.setSG {T U : List Nat} {s : Sys} (h : Prov T U s) (t : Nat) (st : Stack) (gs : List Guard)
    (hst : StackOk T U st) : Prov T U (s.setTh t { s.th t with stack := st, guards := gs }) :=
  h.setTh t _ ⟨hst, (h.threads t).2⟩

theorem Prov.setStack {T U : List Nat} {s : Sys} (h : Prov T U s) (t : Nat) (st : Stack)
    (hst : StackOk T U st) : Prov T U (s.setTh t { s.th t with stack := st }) :=
  h.setSG t st (s.th t).guards hst

theorem Prov.setGuards {T U : List Nat} {s : Sys} (h : Prov T U s) (t : Nat) (gs : List Guard) :
    Prov T U (s.setTh t { s.th t with guards := gs }) :=
  h.setSG t (s.th t).stack gs (h.threads t).1

theorem Prov.closeGuard {T U : List Nat} {s : Sys} (h : Prov T U s) (t : Nat) (g : Guard) : Prov T U (s.closeGuard t g) := by
  unfold Sys.closeGuard
  cases g with
  | scope e =>
    cases e with
    | none => exact h
    | some epoch =>
      dsimp only
      have hu := (h.threads t).1.unregister epoch
      have h1 := h.setStack t ((s.th t).stack.unregisterAndCollect epoch).1 hu.1
      cases hres : ((s.th t).stack.unregisterAndCollect epoch).2 with
      | none =>
        simp only [Option.getD]
        exact h1.putCtr t _
      | some res =>
        obtain ⟨spans, tok⟩ := res
        simp only [Option.getD]
        cases tok with
        | none => exact h1.putCtr t _
        | some tk => exact (h1.putCtr t _).submitSpans t _ tk (hu.2 spans tk hres)
  | localSpan hd =>
    cases hd with
    | none => exact h
    | some hh =>
      dsimp only
      exact (h.setStack t _ ((h.threads t).1.exitSpan (s.ctr t) hh)).putCtr t _
  | collector e =>
    cases e with
    | none => exact h
    | some epoch =>
      dsimp only
      exact h.setStack t _ ((h.threads t).1.unregister epoch).1

theorem Prov.enterExitLocal {T U : List Nat} {s : Sys} (h : Prov T U s) (t : Nat) : Prov T U (s.enterExitLocal t) := by
  unfold Sys.enterExitLocal
  dsimp only
  cases hs : (s.th t).stack.enterSpan (s.ctr t) "cl" with
  | none => exact h
  | some res =>
    obtain ⟨st1, hd, c1⟩ := res
    dsimp only
    exact (h.setStack t _ (((h.threads t).1.enterSpan hs).exitSpan c1 hd)).putCtr t _

theorem Prov.foldl_enterExitLocal {T U : List Nat} {α : Type} (l : List α) {s : Sys} (h : Prov T U s) (t : Nat) :
    Prov T U (l.foldl (fun s _ => s.enterExitLocal t) s) := by
  induction l generalizing s with
  | nil => exact h
  | cons x xs ih => exact ih (h.enterExitLocal t)

theorem Prov.runClosure {T U : List Nat} {s : Sys} (h : Prov T U s) (t : Nat) (cl : Closure) : Prov T U (s.runClosure t cl) := by
  unfold Sys.runClosure
  split
  · exact h.enterExitLocal t
  · exact Prov.foldl_enterExitLocal _ h t
  · dsimp only
    exact (h.setStack t _ ((h.threads t).1.addEvent (s.ctr t) "cl-ev" none)).putCtr t _
  · cases hc : (s.th t).stack.currentToken with
    | none => exact h
    | some tok =>
      dsimp only
      have htok := (h.threads t).1.currentToken hc
      have h1 := h.newSpan t "__cl" "cl-span" tok none htok
      have hsv : SvOk T U ((assocGet (s.newSpan t "__cl" "cl-span" tok none).spans "__cl").getD none) := by
        cases hg : assocGet (s.newSpan t "__cl" "cl-span" tok none).spans "__cl" with
        | none => exact svOk_none T U
        | some sv => exact h1.getSpan hg
      exact (h1.delSpan "__cl").dropSpanVal t _ hsv
  · exact h

/-! ### the collector's drain and cycle -/

theorem splitSecond_ok {T : List Nat} (cb : Bool) (c1 c2 : Coll) (cm : List Nat) (l : List Cmd) (h : ∀ c ∈ l, CmdOk T c) :
    (∀ c ∈ (splitSecond cb c1 c2 cm l).1, CmdOk T c) ∧ ∀ c ∈ (splitSecond cb c1 c2 cm l).2, CmdOk T c := by
  induction l with
  | nil => exact ⟨by simp [splitSecond], by simp [splitSecond]⟩
  | cons x xs ih =>
    obtain ⟨i1, i2⟩ := ih (fun c hc => h c (by simp [hc]))
    have hx := h x (by simp)
    cases x with
    | start id =>
      simp only [splitSecond]
      exact ⟨by intro c hc; simp only [List.mem_cons] at hc; rcases hc with rfl | hc; trivial; exact i1 c hc, i2⟩
    | commit id => simp only [splitSecond]; exact ⟨i1, i2⟩
    | drop id =>
      simp only [splitSecond]
      split
      · exact ⟨by intro c hc; simp only [List.mem_cons] at hc; rcases hc with rfl | hc; trivial; exact i1 c hc, i2⟩
      · exact ⟨i1, by intro c hc; simp only [List.mem_cons] at hc; rcases hc with rfl | hc; trivial; exact i2 c hc⟩
    | submit sp tok =>
      simp only [splitSecond]
      refine ⟨?_, ?_⟩
      · split
        · exact i1
        · intro c hc
          simp only [List.mem_cons] at hc
          rcases hc with rfl | hc
          · intro it hit; exact hx it (List.mem_filter.mp hit).1
          · exact i1 c hc
      · split
        · exact i2
        · intro c hc
          simp only [List.mem_cons] at hc
          rcases hc with rfl | hc
          · intro it hit; exact hx it (List.mem_filter.mp hit).1
          · exact i2 c hc

theorem Prov.finishCycle {T U : List Nat} {s : Sys} (h : Prov T U s) (kept : List (Nat × Ring Cmd)) (buf buf2 : List Cmd)
    (hk : RingsOk T kept) (hb : ∀ c ∈ buf, CmdOk T c) (hb2 : ∀ c ∈ buf2, CmdOk T c) :
    Prov T U (s.finishCycle kept buf buf2).1 ∧ ∀ rs, (s.finishCycle kept buf buf2).2 = some rs → RecsOk T rs := by
  have hsplit : (∀ c ∈ (s.cycleSplit buf buf2).1, CmdOk T c) ∧ ∀ c ∈ (s.cycleSplit buf buf2).2, CmdOk T c := by
    unfold Sys.cycleSplit
    exact splitSecond_ok (T := T) _ _ _ _ buf2 hb2
  have hbatch : ∀ c ∈ s.cycleBatch buf buf2, CmdOk T c := by
    intro c hc
    simp only [Sys.cycleBatch, List.mem_append, List.mem_map] at hc
    rcases hc with (⟨id, _, rfl⟩ | hc | hc) | hc
    · trivial
    · exact h.carried c hc
    · exact hb c hc
    · exact hsplit.1 c hc
  have hc := cycleProcess_ok T id s.coll _ h.coll hbatch
  unfold Sys.finishCycle
  dsimp only
  refine ⟨⟨h.spans, h.adapters, h.threads, hk, (fun cs hcs => nomatch hcs), hc.1, ?_⟩, hc.2⟩
  show ∀ c ∈ (if s.coll.hasReporter then (s.cycleSplit buf buf2).2 else []), CmdOk T c
  split
  · exact hsplit.2
  · intro c hc; cases hc

theorem Prov.finishCycleP {T U : List Nat} {s : Sys} (h : Prov T U s) (kept : List (Nat × Ring Cmd)) (buf buf2 : List Cmd)
    (hk : RingsOk T kept) (hb : ∀ c ∈ buf, CmdOk T c) (hb2 : ∀ c ∈ buf2, CmdOk T c) :
    Prov T U (s.finishCycleP kept buf buf2).1 ∧ ∀ rs, (s.finishCycleP kept buf buf2).2 = some rs → RecsOk T rs := by
  unfold Sys.finishCycleP
  split
  · have := h.finishCycle kept buf (buf2 ++ (takeParked (s.deferred ++ commitsOf buf) s.parkedCancels).1.map Cmd.drop) hk hb
      (by
        intro c hc
        simp only [List.mem_append, List.mem_map] at hc
        rcases hc with hc | ⟨id, _, rfl⟩
        · exact hb2 c hc
        · trivial)
    dsimp only
    exact ⟨(this.1.withParked _).withG _, this.2⟩
  · exact h.finishCycle kept buf buf2 hk hb hb2

theorem drainAll_ok {T : List Nat} (rxs : List (Nat × Ring Cmd)) (h : RingsOk T rxs) :
    RingsOk T (drainAll rxs).1 ∧ ∀ c ∈ (drainAll rxs).2, CmdOk T c := by
  induction rxs with
  | nil => exact ⟨by simp [drainAll, RingsOk], by simp [drainAll]⟩
  | cons e rest ih =>
    obtain ⟨t, r⟩ := e
    have ih' := ih (fun x hx => h x (by simp [hx]))
    simp only [drainAll, Ring.drain]
    refine ⟨?_, ?_⟩
    · by_cases hp : r.producerAlive = true
      · simp only [hp, if_true]
        intro x hx
        simp only [List.mem_cons] at hx
        rcases hx with rfl | hx
        · simp
        · exact ih'.1 x hx
      · simp only [hp, if_false]
        exact ih'.1
    · intro c hc
      simp only [List.mem_append] at hc
      rcases hc with hc | hc
      · exact h (t, r) (by simp) c hc
      · exact ih'.2 c hc

theorem Prov.cycle {T U : List Nat} {s : Sys} (h : Prov T U s) :
    Prov T U s.cycle.1 ∧ ∀ rs, s.cycle.2 = some rs → RecsOk T rs := by
  unfold Sys.cycle
  have hd := drainAll_ok s.rxs h.rxs
  exact (h.withG _).finishCycleP _ _ [] hd.1 hd.2 (by simp)

/-- what the drain state of a cycle in progress holds -/
def CycOk (T : List Nat) (cs : CycState) : Prop :=
  RingsOk T cs.todo ∧ RingsOk T cs.kept ∧ (∀ c ∈ cs.buf, CmdOk T c) ∧ ∀ c ∈ cs.buf2, CmdOk T c

theorem Prov.withCyc {T U : List Nat} {s : Sys} (h : Prov T U s) (cs : CycState)
    (hcs : CycOk T cs) : Prov T U { s with cyc := some cs } :=
  ⟨h.spans, h.adapters, h.threads, h.rxs, (fun cs' e => by cases e; exact hcs), h.coll, h.carried⟩

theorem CycOk.afterFirst {T : List Nat} {cs : CycState} (h : CycOk T cs) : CycOk T cs.afterFirst.1 := by
  rcases CycState.afterFirst_cases cs with e | e <;> rw [e] <;> exact h

theorem ringsOk_cons {T : List Nat} {e : Nat × Ring Cmd} {l : List (Nat × Ring Cmd)} :
    RingsOk T (e :: l) ↔ (∀ c ∈ e.2.q, CmdOk T c) ∧ RingsOk T l := by
  simp [RingsOk]

theorem ringsOk_append_single {T : List Nat} {e : Nat × Ring Cmd} {l : List (Nat × Ring Cmd)}
    (hl : RingsOk T l) (he : ∀ c ∈ e.2.q, CmdOk T c) : RingsOk T (l ++ [e]) := by
  intro x hx
  simp only [List.mem_append, List.mem_singleton] at hx
  rcases hx with hx | rfl
  · exact hl x hx
  · exact he

theorem Prov.cycStep {T U : List Nat} {s : Sys} (h : Prov T U s) :
    Prov T U s.cycStep.1 ∧ ∀ rs, s.cycStep.2 = .report (some rs) → RecsOk T rs := by
  unfold Sys.cycStep
  cases hc : s.cyc with
  | none => exact ⟨h, fun rs e => by cases e⟩
  | some cs =>
    have hcs : CycOk T cs := h.cyc cs hc
    obtain ⟨h1, h2, h3, h4⟩ := hcs
    dsimp only
    split
    · -- atReport
      have := h.finishCycleP cs.kept cs.buf cs.buf2 h2 h3 h4
      dsimp only
      exact ⟨this.1, fun rs e => this.2 rs (by simpa using e)⟩
    · -- atRx2
      split
      · exact ⟨h.withCyc _ ⟨h1, h2, h3, h4⟩, fun rs e => by cases e⟩
      · rename_i t rest _
        have hr : ∀ c ∈ ((natGet cs.kept t).getD (Ring.new Consts.ringCap)).q, CmdOk T c := by
          cases hg : natGet cs.kept t with
          | none => simp [Ring.new]
          | some r => simpa using h2.natGet hg
        have hk : RingsOk T (if (natGet cs.kept t).isSome then
            natSet cs.kept t { (natGet cs.kept t).getD (Ring.new Consts.ringCap) with q := [] } else cs.kept) := by
          split
          · exact h2.natSet t _ (by simp)
          · exact h2
        have hb2 : ∀ c ∈ cs.buf2 ++ ((natGet cs.kept t).getD (Ring.new Consts.ringCap)).q, CmdOk T c := by
          intro c hcm
          simp only [List.mem_append] at hcm
          rcases hcm with hcm | hcm
          · exact h4 c hcm
          · exact hr c hcm
        split
        · exact ⟨(h.withG _).withCyc _ ⟨h1, hk, h3, hb2⟩, fun rs e => by cases e⟩
        · exact ⟨(h.withG _).withCyc _ ⟨h1, hk, h3, hb2⟩, fun rs e => by cases e⟩
    · -- first pass over, nothing left to visit
      have hcs' : CycOk T cs.afterFirst.1 := CycOk.afterFirst ⟨h1, h2, h3, h4⟩
      exact ⟨h.withCyc _ hcs', fun rs e => by cases e⟩
    · -- atRx
      rename_i t r rest _ htodo
      rw [htodo] at h1
      have hh := ringsOk_cons.mp h1
      refine ⟨(h.withG _).withCyc _ ⟨?_, h2, ?_, h4⟩, fun rs e => by cases e⟩
      · exact ringsOk_cons.mpr ⟨by simp, hh.2⟩
      · intro c hcm
        simp only [List.mem_append] at hcm
        rcases hcm with hcm | hcm
        · exact h3 c hcm
        · exact hh.1 c hcm
    · -- atEmpty
      rename_i t r rest _ htodo
      rw [htodo] at h1
      have hh := ringsOk_cons.mp h1
      split
      · split
        · have hcs' : CycOk T (CycState.afterFirst { cs with phase := .atRx, todo := [], kept := cs.kept ++ [(t, r)] }).1 :=
            CycOk.afterFirst ⟨by simp [RingsOk], ringsOk_append_single h2 hh.1, h3, h4⟩
          exact ⟨h.withCyc _ hcs', fun rs e => by cases e⟩
        · exact ⟨h.withCyc _ ⟨hh.2, ringsOk_append_single h2 hh.1, h3, h4⟩, fun rs e => by cases e⟩
      · split
        · split
          · have hcs' : CycOk T (CycState.afterFirst { cs with phase := .atRx, todo := [] }).1 :=
              CycOk.afterFirst ⟨by simp [RingsOk], h2, h3, h4⟩
            exact ⟨h.withCyc _ hcs', fun rs e => by cases e⟩
          · exact ⟨h.withCyc _ ⟨hh.2, h2, h3, h4⟩, fun rs e => by cases e⟩
        · refine ⟨(h.withG _).withCyc _ ⟨?_, h2, ?_, h4⟩, fun rs e => by cases e⟩
          · exact ringsOk_cons.mpr ⟨by simp, hh.2⟩
          · intro c hcm
            simp only [List.mem_append] at hcm
            rcases hcm with hcm | hcm
            · exact h3 c hcm
            · exact hh.1 c hcm

theorem Prov.cycBegin {T U : List Nat} {s : Sys} (h : Prov T U s) :
    Prov T U s.cycBegin.1 ∧ ∀ rs, s.cycBegin.2 = .report (some rs) → RecsOk T rs := by
  unfold Sys.cycBegin
  cases hc : s.cyc with
  | some cs => exact ⟨h, fun rs e => by cases e⟩
  | none =>
    dsimp only
    split
    · exact ⟨h.withCyc _ ⟨by simp [RingsOk], by simp [RingsOk], by simp, by simp⟩, fun rs e => by cases e⟩
    · exact ⟨h.withCyc _ ⟨h.rxs, by simp [RingsOk], by simp, by simp⟩, fun rs e => by cases e⟩

/-! ### thread exit, spam, adapters -/

theorem Prov.foldl_closeGuard {T U : List Nat} (gs : List Guard) {s : Sys} (h : Prov T U s) (t : Nat) :
    Prov T U (gs.foldl (fun s g => s.closeGuard t g) s) := by
  induction gs generalizing s with
  | nil => exact h
  | cons g gs ih => exact ih (h.closeGuard t g)

theorem Prov.exitThread {T U : List Nat} {s : Sys} (h : Prov T U s) (t : Nat) : Prov T U (s.exitThread t) := by
  unfold Sys.exitThread
  dsimp only
  have h1 := Prov.foldl_closeGuard (s.th t).guards h t
  generalize (s.th t).guards.foldl (fun s g => s.closeGuard t g) s = s1 at h1 ⊢
  have hth := h1.threads t
  have h2 := h1.setTh t { s1.th t with guards := [], alive := false, pending := [] } ⟨hth.1, by simp⟩
  split
  · cases hr : (s1.setTh t { s1.th t with guards := [], alive := false, pending := [] }).ringOf t with
    | none => exact h2.withG _
    | some r =>
      dsimp only
      exact (h2.setRing t _ (Ring.senderDrop_all (CmdOk T) r _ (h2.ringOf hr) hth.2)).withG _
  · exact h2.withG _

theorem Prov.spamOnce {T U : List Nat} {s : Sys} (h : Prov T U s) (t : Nat) (h0 : 0 ∈ U) : Prov T U (s.spamOnce t) := by
  unfold Sys.spamOnce
  split
  · exact h
  · dsimp only
    have htok : TokOk T U [⟨0, 0, Consts.notSampledCollectId, true, false⟩] := by
      intro it hit
      simp only [List.mem_singleton] at hit
      subst hit
      exact ⟨(fun hs => nomatch hs), (fun _ => h0)⟩
    have h1 := h.newSpan t "__spam" "spam" _ (some Consts.notSampledCollectId) htok
    have hsv : SvOk T U ((assocGet (s.newSpan t "__spam" "spam" [⟨0, 0, Consts.notSampledCollectId, true, false⟩]
        (some Consts.notSampledCollectId)).spans "__spam").getD none) := by
      cases hg : assocGet (s.newSpan t "__spam" "spam" [⟨0, 0, Consts.notSampledCollectId, true, false⟩]
          (some Consts.notSampledCollectId)).spans "__spam" with
      | none => exact svOk_none T U
      | some sv => exact h1.getSpan hg
    exact (h1.delSpan "__spam").dropSpanVal t _ hsv

theorem Prov.spam {T U : List Nat} (n : Nat) {s : Sys} (h : Prov T U s) (t : Nat) (h0 : 0 < n → 0 ∈ U) :
    Prov T U (Nat.rec (motive := fun _ => Sys) s (fun _ acc => acc.spamOnce t) n) := by
  induction n with
  | zero => exact h
  | succ n ih =>
    have hz := h0 (Nat.succ_pos n)
    exact Prov.spamOnce (ih (fun _ => hz)) t hz

theorem Prov.getAdapter {T U : List Nat} {s : Sys} (h : Prov T U s) {a : String} {ad : Adapter}
    (hg : assocGet s.adapters a = some ad) : ∀ sv, ad.span = some sv → SvOk T U sv := by
  obtain ⟨e, he, rfl⟩ := assocGet_mem hg
  exact h.adapters e he

theorem Prov.setAdapter {T U : List Nat} {s : Sys} (h : Prov T U s) (a : String) (ad : Adapter)
    (had : ∀ sv, ad.span = some sv → SvOk T U sv) : Prov T U { s with adapters := assocSet s.adapters a ad } :=
  h.withAdapters _ (fun e he => by
    rcases mem_assocSet he with he | rfl
    · exact h.adapters e he
    · exact had)

theorem Prov.delAdapter {T U : List Nat} {s : Sys} (h : Prov T U s) (a : String) :
    Prov T U { s with adapters := assocDel s.adapters a } :=
  h.withAdapters _ (fun e he => h.adapters e (mem_assocDel he))

theorem Prov.adPoll {T U : List Nat} {s : Sys} (h : Prov T U s) (t : Nat) (a call : String) : Prov T U (s.adPoll t a call).1 := by
  unfold Sys.adPoll
  cases hg : assocGet s.adapters a with
  | none => exact h
  | some ad =>
    dsimp only
    have had := h.getAdapter hg
    have hth : ThOk T U (s.th t) := h.threads t
    cases hk : ad.kind with
    | enterOnPoll =>
      dsimp only
      cases hs : (s.th t).stack.enterSpan (s.ctr t) ad.name with
      | none =>
        dsimp only
        apply Prov.setTh
        · exact h.setAdapter a _ had
        · exact hth
      | some res =>
        obtain ⟨st1, hd, c1⟩ := res
        dsimp only
        apply Prov.putCtr
        apply Prov.setTh
        · exact h.setAdapter a _ had
        · exact ⟨hth.1.enterSpan hs, hth.2⟩
    | inSpan | stream | sink =>
      all_goals
        dsimp only
        cases hsp : ad.span with
        | none =>
          dsimp only
          apply Prov.setTh
          · exact h.setAdapter a _ (fun sv e => by cases e)
          · exact hth
        | some sv =>
          have hsv : ∀ sv', some sv = some sv' → SvOk T U sv' := by
            intro sv' e; cases e; exact had _ hsp
          cases sv with
          | none =>
            dsimp only
            apply Prov.setTh
            · exact h.setAdapter a _ hsv
            · exact hth
          | some sp =>
            dsimp only
            cases hr : (s.th t).stack.registerLine (some (issueToken sp)) with
            | none =>
              dsimp only
              apply Prov.setTh
              · exact h.setAdapter a _ hsv
              · exact hth
            | some res =>
              obtain ⟨st1, ep⟩ := res
              dsimp only
              apply Prov.setTh
              · exact h.setAdapter a _ hsv
              · refine ⟨hth.1.registerLine ?_ hr, hth.2⟩
                intro tk htk
                cases htk
                exact tokOk_issue (had _ hsp sp rfl)

theorem Prov.adEnd {T U : List Nat} {s : Sys} (h : Prov T U s) (t : Nat) (a result : String) : Prov T U (s.adEnd t a result).1 := by
  unfold Sys.adEnd
  cases hg : assocGet s.adapters a with
  | none => exact h
  | some ad =>
    cases hgs : (s.th t).guards with
    | nil => exact h
    | cons g gs =>
      dsimp only
      have had := h.getAdapter hg
      cases hic : ad.inCall with
      | none => exact h
      | some call =>
        dsimp only
        have h1 : Prov T U ((s.setTh t { s.th t with guards := gs }).closeGuard t g) :=
          (h.setGuards t gs).closeGuard t g
        split
        · have h2 := h1.setAdapter a { ad with span := none, inCall := none } (fun sv e => by cases e)
          cases hsp : ad.span with
          | none => exact h2
          | some sv => exact h2.dropSpanVal t sv (had sv hsp)
        · exact h1.setAdapter a { ad with inCall := none } had

theorem Prov.closeUnder {T U : List Nat} {s : Sys} (h : Prov T U s) (t : Nat) : Prov T U (s.closeUnder t).1 := by
  unfold Sys.closeUnder
  dsimp only
  split
  · exact h
  · split
    · exact h
    · split
      · dsimp only; exact (h.setGuards t _).closeGuard t _
      · dsimp only; exact (h.setGuards t _).closeGuard t _
      · exact h

theorem Prov.collectUnder {T U : List Nat} {s : Sys} (h : Prov T U s) (t : Nat) (x : String) : Prov T U (s.collectUnder t x).1 := by
  unfold Sys.collectUnder
  dsimp only
  split
  · split
    · exact h
    · dsimp only
      rename_i epoch _ _ _
      exact ((h.setSG t _ _ ((h.threads t).1.unregister epoch).1).putCtr t _).withLspans _
  · exact h

end Fastrace
