import FastraceModel.Lemmas.Default

/-!
Nothing is invented, in either configuration: if every buffered collection and every collection
submitted in the batch satisfies `P`, then after the cycle every buffered collection still
does, and every record of the report is a record of a collection satisfying `P`.
(`P` will be "is a copy of a span set that some channel accepted".)
-/
namespace Fastrace
open List

def ColsIn (P : Collection → Prop) (c : Coll) : Prop := ∀ col ∈ allCols c.active, P col

def RecsFrom (conv : Nat → Nat) (P : Collection → Prop) (recs : List Record) : Prop :=
  ∀ k ∈ recs.map Record.core, ∃ col, P col ∧ k ∈ collectionCores conv col

theorem mem_allCols {active : List (Nat × Active)} {col : Collection} :
    col ∈ allCols active ↔ ∃ e ∈ active, col ∈ e.2.collections := by
  simp [allCols, List.mem_flatMap]

theorem Coll.find?_some_mem (c : Coll) (id : Nat) (a : Active) (h : c.find? id = some a) :
    ∃ e ∈ c.active, e.2 = a := by
  unfold Coll.find? at h
  cases hf : List.find? (fun e => e.1 == id) c.active with
  | none => rw [hf] at h; cases h
  | some e =>
    rw [hf] at h
    simp only [Option.map_some, Option.some.injEq] at h
    exact ⟨e, List.mem_of_find?_eq_some hf, h⟩

theorem ColsIn.insert {P : Collection → Prop} {c : Coll} (h : ColsIn P c) (id : Nat) (a : Active)
    (ha : ∀ col ∈ a.collections, P col) : ColsIn P (c.insert id a) := by
  intro col hcol
  obtain ⟨e, he, hc⟩ := mem_allCols.mp hcol
  simp only [Coll.insert, List.mem_append, List.mem_filter, List.mem_singleton] at he
  rcases he with he | rfl
  · exact h col (mem_allCols.mpr ⟨e, he.1, hc⟩)
  · exact ha col hc

theorem ColsIn.remove {P : Collection → Prop} {c : Coll} (h : ColsIn P c) (id : Nat) : ColsIn P (c.remove id) := by
  intro col hcol
  obtain ⟨e, he, hc⟩ := mem_allCols.mp hcol
  simp only [Coll.remove, List.mem_filter] at he
  exact h col (mem_allCols.mpr ⟨e, he.1, hc⟩)

theorem ColsIn.find {P : Collection → Prop} {c : Coll} (h : ColsIn P c) {id : Nat} {a : Active}
    (hf : c.find? id = some a) : ∀ col ∈ a.collections, P col := by
  intro col hc
  obtain ⟨e, he, rfl⟩ := Coll.find?_some_mem c id a hf
  exact h col (mem_allCols.mpr ⟨e, he, hc⟩)

theorem foldl_insert_colsIn {P : Collection → Prop} (ids : List Nat) (c : Coll) (h : ColsIn P c) :
    ColsIn P (ids.foldl (fun c id => c.insert id Active.empty) c) := by
  induction ids generalizing c with
  | nil => exact h
  | cons i is ih => exact ih _ (h.insert i Active.empty (by intro col hc; cases hc))

theorem foldl_drop_colsIn {P : Collection → Prop} (ids : List Nat) (c : Coll) (h : ColsIn P c) :
    ColsIn P (ids.foldl (fun c id => if c.cancelable then c.remove id else c) c) := by
  induction ids generalizing c with
  | nil => exact h
  | cons i is ih =>
    simp only [List.foldl]
    split
    · exact ih _ (h.remove i)
    · exact ih _ h

theorem submitItem_sound {P : Collection → Prop} (cb : Bool) (spans : SpanSet) (st : Coll × List Collection) (it : TokenItem)
    (h1 : ColsIn P st.1) (h2 : ∀ col ∈ st.2, P col) (hp : P ⟨spans, it.traceId, it.parentId⟩) :
    ColsIn P (submitItem cb spans st it).1 ∧ ∀ col ∈ (submitItem cb spans st it).2, P col := by
  unfold submitItem
  dsimp only
  cases hf : st.1.find? it.collectId with
  | some a =>
    dsimp only
    refine ⟨h1.insert _ _ ?_, h2⟩
    intro col hc
    simp only [List.mem_append, List.mem_singleton] at hc
    rcases hc with hc | rfl
    · exact h1.find hf col hc
    · exact hp
  | none =>
    dsimp only
    split
    · exact ⟨h1, h2⟩
    · refine ⟨h1, ?_⟩
      intro col hc
      simp only [List.mem_append, List.mem_singleton] at hc
      rcases hc with hc | rfl
      · exact h2 col hc
      · exact hp

theorem foldl_submitItem_sound {P : Collection → Prop} (cb : Bool) (spans : SpanSet) (tok : Token) (st : Coll × List Collection)
    (h1 : ColsIn P st.1) (h2 : ∀ col ∈ st.2, P col) (hp : ∀ it ∈ tok, P ⟨spans, it.traceId, it.parentId⟩) :
    ColsIn P (tok.foldl (submitItem cb spans) st).1 ∧ ∀ col ∈ (tok.foldl (submitItem cb spans) st).2, P col := by
  induction tok generalizing st with
  | nil => exact ⟨h1, h2⟩
  | cons it its ih =>
    simp only [List.foldl]
    obtain ⟨a, b⟩ := submitItem_sound cb spans st it h1 h2 (hp it (by simp))
    exact ih _ a b (fun x hx => hp x (by simp [hx]))

theorem foldl_processSubmit_sound {P : Collection → Prop} (subs : List (SpanSet × Token)) (st : Coll × List Collection)
    (h1 : ColsIn P st.1) (h2 : ∀ col ∈ st.2, P col) (hp : ∀ col ∈ submitted subs, P col) :
    ColsIn P (subs.foldl processSubmit st).1 ∧ ∀ col ∈ (subs.foldl processSubmit st).2, P col := by
  induction subs generalizing st with
  | nil => exact ⟨h1, h2⟩
  | cons sub subs ih =>
    simp only [List.foldl]
    have hsub : ∀ it ∈ sub.2, P ⟨sub.1, it.traceId, it.parentId⟩ := by
      intro it hit
      apply hp
      simp only [submitted, List.flatMap_cons, List.mem_append, List.mem_map]
      exact .inl ⟨it, hit, rfl⟩
    obtain ⟨a, b⟩ := foldl_submitItem_sound st.1.cancelable sub.1 sub.2 st h1 h2 hsub
    refine ih _ a b ?_
    intro col hc
    apply hp
    simp only [submitted, List.flatMap_cons, List.mem_append]
    exact .inr hc

theorem recsFrom_append {conv : Nat → Nat} {P : Collection → Prop} {recs : List Record} {cols : List Collection}
    {recs' : List Record} (h : RecsFrom conv P recs) (hc : ∀ col ∈ cols, P col)
    (e : recs'.map Record.core = recs.map Record.core ++ cols.flatMap (collectionCores conv)) : RecsFrom conv P recs' := by
  intro k hk
  rw [e, List.mem_append] at hk
  rcases hk with hk | hk
  · exact h k hk
  · obtain ⟨col, hcol, hk⟩ := List.mem_flatMap.mp hk
    exact ⟨col, hc col hcol, hk⟩

theorem processCommit_sound {P : Collection → Prop} (conv : Nat → Nat) (st : Coll × List Record) (id : Nat)
    (h1 : ColsIn P st.1) (h2 : RecsFrom conv P st.2) :
    ColsIn P (processCommit conv st id).1 ∧ RecsFrom conv P (processCommit conv st id).2 := by
  unfold processCommit
  cases hf : st.1.find? id with
  | none => exact ⟨h1, h2⟩
  | some a =>
    dsimp only
    exact ⟨h1.remove id, recsFrom_append h2 (h1.find hf) (postprocess_core conv a.collections st.2 a.danglings)⟩

theorem foldl_processCommit_sound {P : Collection → Prop} (conv : Nat → Nat) (ids : List Nat) (st : Coll × List Record)
    (h1 : ColsIn P st.1) (h2 : RecsFrom conv P st.2) :
    ColsIn P (ids.foldl (processCommit conv) st).1 ∧ RecsFrom conv P (ids.foldl (processCommit conv) st).2 := by
  induction ids generalizing st with
  | nil => exact ⟨h1, h2⟩
  | cons i is ih =>
    simp only [List.foldl]
    obtain ⟨a, b⟩ := processCommit_sound conv st i h1 h2
    exact ih _ a b

/-- **a whole cycle** -/
theorem cycle_sound {P : Collection → Prop} (conv : Nat → Nat) (c : Coll) (batch : List Cmd)
    (h1 : ColsIn P c) (hp : ∀ col ∈ submitted (submitsOf batch), P col) :
    ColsIn P (cycleProcess conv c batch).1 ∧
    ∀ recs, (cycleProcess conv c batch).2 = some recs → RecsFrom conv P recs := by
  cases hr : c.hasReporter with
  | false =>
    have : cycleProcess conv c batch = (c, none) := by simp [cycleProcess, hr]
    rw [this]
    exact ⟨h1, fun recs e => by cases e⟩
  | true =>
    rw [cycleProcess_eq conv c batch hr]
    dsimp only
    have c1 : ColsIn P (phaseDrops (phaseStarts c batch) batch) := by
      unfold phaseDrops phaseStarts
      exact foldl_drop_colsIn _ _ (foldl_insert_colsIn _ _ h1)
    obtain ⟨a2, b2⟩ := foldl_processSubmit_sound (submitsOf batch) (phaseDrops (phaseStarts c batch) batch, []) c1
      (by intro col hc; cases hc) hp
    generalize (submitsOf batch).foldl processSubmit (phaseDrops (phaseStarts c batch) batch, []) = s2 at a2 b2 ⊢
    obtain ⟨a3, b3⟩ := foldl_processCommit_sound conv (commitsOf batch) (s2.1, []) a2 (by intro k hk; cases hk)
    generalize (commitsOf batch).foldl (processCommit conv) (s2.1, []) = s3 at a3 b3 ⊢
    split
    · -- cancelable: what is not committed stays buffered
      refine ⟨a3, ?_⟩
      intro recs e
      simp only [Option.some.injEq] at e
      subst e
      exact recsFrom_append b3 b2 (foldl_stale_records conv s2.2 s3.2)
    · -- default: everything buffered is flushed
      obtain ⟨r4, a4⟩ := foldl_flushActive_records conv s3.1.active ([], s3.2)
      refine ⟨?_, ?_⟩
      · intro col hcol
        change col ∈ allCols (s3.1.active.foldl (flushActive conv) ([], s3.2)).1 at hcol
        rw [a4] at hcol
        cases hcol
      · intro recs e
        simp only [Option.some.injEq] at e
        subst e
        have b4 : RecsFrom conv P (s3.1.active.foldl (flushActive conv) ([], s3.2)).2 :=
          recsFrom_append b3 a3 r4
        exact recsFrom_append b4 b2 (foldl_stale_records conv s2.2 _)

end Fastrace
