import FastraceModel.Lemmas.Groups

/-! default (non-cancelable) configuration: everything drained in a cycle is reported in that
cycle, exactly once — a conservation argument over the collector's association list -/
namespace Fastrace
open List

def allCols (active : List (Nat × Active)) : List Collection := active.flatMap (·.2.collections)

def KeysNodup (c : Coll) : Prop := c.keys.Nodup

theorem keysNodup_insert (c : Coll) (id : Nat) (a : Active) (h : KeysNodup c) : KeysNodup (c.insert id a) := by
  unfold KeysNodup at *
  rw [Coll.keys_insert]
  refine List.nodup_append.mpr ⟨h.filter _, by simp, ?_⟩
  intro x hx y hy
  simp only [List.mem_singleton] at hy
  subst hy
  intro e; subst e
  simp [List.mem_filter] at hx

theorem keysNodup_remove (c : Coll) (id : Nat) (h : KeysNodup c) : KeysNodup (c.remove id) := by
  unfold KeysNodup at *
  rw [Coll.keys_remove]; exact h.filter _

/-- splitting off one entry of a duplicate-free association list -/
theorem allCols_split (active : List (Nat × Active)) (id : Nat) (a : Active)
    (hn : (active.map (·.1)).Nodup) (hf : (List.find? (fun e => e.1 == id) active).map (·.2) = some a) :
    (allCols active).Perm (a.collections ++ allCols (active.filter (fun e => e.1 != id))) := by
  induction active with
  | nil => simp at hf
  | cons e es ih =>
    have hn' := (List.nodup_cons.mp hn)
    by_cases h : e.1 = id
    · have h1 : (e.1 == id) = true := by simp [h]
      have h2 : (e.1 != id) = false := by simp [h]
      simp only [List.find?, h1, Option.map_some, Option.some.injEq] at hf
      subst hf
      have hnot : id ∉ es.map (·.1) := h ▸ hn'.1
      have hfil : es.filter (fun e => e.1 != id) = es := by
        apply List.filter_eq_self.mpr
        intro x hx
        have : x.1 ≠ id := fun e2 => hnot (e2 ▸ List.mem_map_of_mem hx)
        simp [this]
      simp only [allCols, List.flatMap_cons, List.filter, h2]
      rw [hfil]
    · have h1 : (e.1 == id) = false := by simp [h]
      have h2 : (e.1 != id) = true := by simp [h]
      simp only [List.find?, h1] at hf
      have := ih hn'.2 hf
      simp only [allCols, List.flatMap_cons, List.filter, h2] at this ⊢
      calc e.2.collections ++ List.flatMap (fun x => x.2.collections) es
          _ ~ e.2.collections ++ (a.collections ++ List.flatMap (fun x => x.2.collections) (es.filter fun e => e.1 != id)) :=
            List.Perm.append_left _ this
          _ ~ a.collections ++ (e.2.collections ++ List.flatMap (fun x => x.2.collections) (es.filter fun e => e.1 != id)) := by
            rw [← List.append_assoc, ← List.append_assoc]
            exact List.Perm.append_right _ List.perm_append_comm

theorem allCols_insert_append (c : Coll) (id : Nat) (a : Active) (col : Collection)
    (hn : KeysNodup c) (hf : c.find? id = some a) :
    (allCols (c.insert id { a with collections := a.collections ++ [col] }).active).Perm (allCols c.active ++ [col]) := by
  have hs := allCols_split c.active id a hn hf
  simp only [Coll.insert, allCols, List.flatMap_append, List.flatMap_cons, List.flatMap_nil, List.append_nil] at hs ⊢
  calc List.flatMap (fun x => x.2.collections) (c.active.filter fun x => x.1 != id) ++ (a.collections ++ [col])
      _ ~ (a.collections ++ [col]) ++ List.flatMap (fun x => x.2.collections) (c.active.filter fun x => x.1 != id) :=
        List.perm_append_comm
      _ ~ (a.collections ++ List.flatMap (fun x => x.2.collections) (c.active.filter fun x => x.1 != id)) ++ [col] := by
        rw [List.append_assoc, List.append_assoc]
        exact List.Perm.append_left _ List.perm_append_comm
      _ ~ List.flatMap (fun x => x.2.collections) c.active ++ [col] := List.Perm.append_right _ hs.symm

/-- all collections held anywhere after a step of the submit loop = before + the new one
    (default configuration: nothing is discarded) -/
theorem submitItem_conserves (spans : SpanSet) (st : Coll × List Collection) (it : TokenItem) (hn : KeysNodup st.1) :
    (allCols (submitItem false spans st it).1.active ++ (submitItem false spans st it).2).Perm
      ((allCols st.1.active ++ st.2) ++ [⟨spans, it.traceId, it.parentId⟩]) ∧
    KeysNodup (submitItem false spans st it).1 := by
  unfold submitItem
  cases hf : st.1.find? it.collectId with
  | some a =>
    refine ⟨?_, keysNodup_insert _ _ _ hn⟩
    simp only
    have := allCols_insert_append st.1 it.collectId a ⟨spans, it.traceId, it.parentId⟩ hn hf
    calc allCols (st.1.insert it.collectId { a with collections := a.collections ++ [_] }).active ++ st.2
        _ ~ (allCols st.1.active ++ [⟨spans, it.traceId, it.parentId⟩]) ++ st.2 := List.Perm.append_right _ this
        _ ~ (allCols st.1.active ++ st.2) ++ [⟨spans, it.traceId, it.parentId⟩] := by
          rw [List.append_assoc, List.append_assoc]
          exact List.Perm.append_left _ List.perm_append_comm
  | none =>
    refine ⟨?_, hn⟩
    simp [List.append_assoc]

/-- the collections a batch submits: one per (submit, token item), in drain order -/
def submitted (subs : List (SpanSet × Token)) : List Collection :=
  subs.flatMap fun sub => sub.2.map fun it => ⟨sub.1, it.traceId, it.parentId⟩

theorem foldl_submitItem_conserves (spans : SpanSet) (tok : Token) (st : Coll × List Collection) (hn : KeysNodup st.1) :
    (allCols (tok.foldl (submitItem false spans) st).1.active ++ (tok.foldl (submitItem false spans) st).2).Perm
      ((allCols st.1.active ++ st.2) ++ tok.map fun it => ⟨spans, it.traceId, it.parentId⟩) ∧
    KeysNodup (tok.foldl (submitItem false spans) st).1 := by
  induction tok generalizing st with
  | nil => simpa using hn
  | cons it its ih =>
    simp only [List.foldl, List.map_cons]
    obtain ⟨p1, n1⟩ := submitItem_conserves spans st it hn
    obtain ⟨p2, n2⟩ := ih _ n1
    refine ⟨?_, n2⟩
    calc _ ~ _ := p2
      _ ~ ((allCols st.1.active ++ st.2) ++ [⟨spans, it.traceId, it.parentId⟩]) ++ its.map _ := List.Perm.append_right _ p1
      _ = _ := by simp [List.append_assoc]

theorem foldl_processSubmit_conserves (subs : List (SpanSet × Token)) (st : Coll × List Collection)
    (hc : st.1.cancelable = false) (hn : KeysNodup st.1) :
    (allCols (subs.foldl processSubmit st).1.active ++ (subs.foldl processSubmit st).2).Perm
      ((allCols st.1.active ++ st.2) ++ submitted subs) ∧
    KeysNodup (subs.foldl processSubmit st).1 := by
  induction subs generalizing st with
  | nil => simpa [submitted] using hn
  | cons s ss ih =>
    simp only [List.foldl]
    have hstep : processSubmit st s = s.2.foldl (submitItem false s.1) st := by
      unfold processSubmit; rw [hc]
    obtain ⟨p1, n1⟩ := foldl_submitItem_conserves s.1 s.2 st hn
    have hc' : (processSubmit st s).1.cancelable = false := by
      have := processSubmit_flags st s
      simp only [Coll.flags, Prod.mk.injEq] at this
      rw [this.1]; exact hc
    rw [hstep] at hc' ⊢
    obtain ⟨p2, n2⟩ := ih _ hc' n1
    refine ⟨?_, n2⟩
    calc _ ~ _ := p2
      _ ~ ((allCols st.1.active ++ st.2) ++ s.2.map fun it => ⟨s.1, it.traceId, it.parentId⟩) ++ submitted ss :=
        List.Perm.append_right _ p1
      _ = _ := by simp [submitted, List.append_assoc]

/-- the commit loop moves groups out of the association list, nothing else -/
theorem commitGroups_conserves (c : Coll) (ids : List Nat) (conv : Nat → Nat) (recs : List Record) (hn : KeysNodup c) :
    (allCols c.active).Perm
      ((commitGroups c ids).flatMap (·.2) ++ allCols (ids.foldl (processCommit conv) (c, recs)).1.active) ∧
    KeysNodup (ids.foldl (processCommit conv) (c, recs)).1 := by
  induction ids generalizing c recs with
  | nil => simpa [commitGroups] using hn
  | cons id ids ih =>
    simp only [List.foldl, commitGroups]
    unfold processCommit
    cases hf : c.find? id with
    | some a =>
      simp only
      obtain ⟨p, n⟩ := ih (c.remove id) (postprocess conv a.collections recs a.danglings).1 (keysNodup_remove c id hn)
      refine ⟨?_, n⟩
      have hs := allCols_split c.active id a hn hf
      simp only [List.flatMap_cons, List.append_assoc]
      exact hs.trans (List.Perm.append_left _ p)
    | none =>
      simp only
      exact ih c recs hn

theorem foldl_flushActive_records (conv : Nat → Nat) (es : List (Nat × Active)) (st : List (Nat × Active) × List Record) :
    (es.foldl (flushActive conv) st).2.map Record.core
      = st.2.map Record.core ++ (allCols es).flatMap (collectionCores conv) ∧
    allCols (es.foldl (flushActive conv) st).1 = allCols st.1 := by
  induction es generalizing st with
  | nil => simp [allCols]
  | cons e es ih =>
    simp only [List.foldl]
    obtain ⟨h1, h2⟩ := ih (flushActive conv st e)
    refine ⟨?_, ?_⟩
    · rw [h1]
      simp [flushActive, postprocess_core, allCols, List.append_assoc]
    · rw [h2]; simp [flushActive, allCols]

theorem foldl_stale_records (conv : Nat → Nat) (stale : List Collection) (recs : List Record) :
    (stale.foldl (fun recs col => (postprocess conv [col] recs []).1) recs).map Record.core
      = recs.map Record.core ++ stale.flatMap (collectionCores conv) := by
  induction stale generalizing recs with
  | nil => simp
  | cons col cols ih =>
    simp only [List.foldl]
    rw [ih, postprocess_core]
    simp [List.append_assoc]

end Fastrace
