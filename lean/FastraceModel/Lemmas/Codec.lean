import FastraceModel.Model.Codec

namespace Fastrace

/-! ### hex digits -/

theorem hexDigitVal_hexChar (d : Nat) (h : d < 16) : hexDigitVal (hexChar d) = some d := by
  have : d = 0 ∨ d = 1 ∨ d = 2 ∨ d = 3 ∨ d = 4 ∨ d = 5 ∨ d = 6 ∨ d = 7 ∨ d = 8 ∨ d = 9 ∨
      d = 10 ∨ d = 11 ∨ d = 12 ∨ d = 13 ∨ d = 14 ∨ d = 15 := by omega
  rcases this with h|h|h|h|h|h|h|h|h|h|h|h|h|h|h|h <;> subst h <;> decide

/-- lowercase-hex characters -/
def isLowerHex (c : Char) : Bool :=
  (48 ≤ c.toNat && c.toNat ≤ 57) || (97 ≤ c.toNat && c.toNat ≤ 102)

theorem hexChar_lower (d : Nat) (h : d < 16) : isLowerHex (hexChar d) = true := by
  have : d = 0 ∨ d = 1 ∨ d = 2 ∨ d = 3 ∨ d = 4 ∨ d = 5 ∨ d = 6 ∨ d = 7 ∨ d = 8 ∨ d = 9 ∨
      d = 10 ∨ d = 11 ∨ d = 12 ∨ d = 13 ∨ d = 14 ∨ d = 15 := by omega
  rcases this with h|h|h|h|h|h|h|h|h|h|h|h|h|h|h|h <;> subst h <;> decide

theorem hexChar_ne_dash (d : Nat) (h : d < 16) : hexChar d ≠ dash := by
  have : d = 0 ∨ d = 1 ∨ d = 2 ∨ d = 3 ∨ d = 4 ∨ d = 5 ∨ d = 6 ∨ d = 7 ∨ d = 8 ∨ d = 9 ∨
      d = 10 ∨ d = 11 ∨ d = 12 ∨ d = 13 ∨ d = 14 ∨ d = 15 := by omega
  rcases this with h|h|h|h|h|h|h|h|h|h|h|h|h|h|h|h <;> subst h <;> decide

theorem hexChar_ne_plus (d : Nat) (h : d < 16) : hexChar d ≠ '+' := by
  have : d = 0 ∨ d = 1 ∨ d = 2 ∨ d = 3 ∨ d = 4 ∨ d = 5 ∨ d = 6 ∨ d = 7 ∨ d = 8 ∨ d = 9 ∨
      d = 10 ∨ d = 11 ∨ d = 12 ∨ d = 13 ∨ d = 14 ∨ d = 15 := by omega
  rcases this with h|h|h|h|h|h|h|h|h|h|h|h|h|h|h|h <;> subst h <;> decide

/-! ### toHexFixed -/

@[simp] theorem toHexFixed_length (w n : Nat) : (toHexFixed w n).length = w := by
  induction w with
  | zero => rfl
  | succ w ih => simp [toHexFixed, ih]

theorem toHexFixed_lower (w n : Nat) : ∀ c ∈ toHexFixed w n, isLowerHex c = true := by
  induction w with
  | zero => simp [toHexFixed]
  | succ w ih =>
    intro c hc
    simp only [toHexFixed, List.mem_cons] at hc
    rcases hc with rfl | hc
    · exact hexChar_lower _ (Nat.mod_lt _ (by decide))
    · exact ih c hc

theorem toHexFixed_no_dash (w n : Nat) : ∀ c ∈ toHexFixed w n, c ≠ dash := by
  induction w with
  | zero => simp [toHexFixed]
  | succ w ih =>
    intro c hc
    simp only [toHexFixed, List.mem_cons] at hc
    rcases hc with rfl | hc
    · exact hexChar_ne_dash _ (Nat.mod_lt _ (by decide))
    · exact ih c hc

/-- parsing the fixed-width rendering: the accumulator is shifted and the low `w` digits of
    `n` are appended, provided the result fits the bound. -/
theorem parseDigits_toHexFixed (B w n acc : Nat)
    (h : acc * 16 ^ w + n % 16 ^ w < B) :
    parseDigits B (toHexFixed w n) acc = some (acc * 16 ^ w + n % 16 ^ w) := by
  induction w generalizing acc with
  | zero => simp [toHexFixed, parseDigits, Nat.mod_one]
  | succ w ih =>
    have hd : n / 16 ^ w % 16 < 16 := Nat.mod_lt _ (by decide)
    have hpos : 0 < 16 ^ w := Nat.pow_pos (by decide)
    have hsplit : n % 16 ^ (w + 1) = n % 16 ^ w + 16 ^ w * (n / 16 ^ w % 16) := Nat.mod_pow_succ
    have hfin : (acc * 16 + n / 16 ^ w % 16) * 16 ^ w + n % 16 ^ w
        = acc * 16 ^ (w + 1) + n % 16 ^ (w + 1) := by
      rw [hsplit, Nat.pow_succ, Nat.add_mul, Nat.mul_assoc, Nat.mul_comm 16 (16 ^ w)]
      rw [Nat.mul_comm (n / 16 ^ w % 16) (16 ^ w)]
      omega
    have hle : acc * 16 + n / 16 ^ w % 16 ≤ (acc * 16 + n / 16 ^ w % 16) * 16 ^ w :=
      Nat.le_mul_of_pos_right _ hpos
    have hlt : acc * 16 + n / 16 ^ w % 16 < B := by omega
    simp only [toHexFixed, parseDigits, hexDigitVal_hexChar _ hd, hlt, if_true]
    rw [ih (acc * 16 + n / 16 ^ w % 16) (by omega), hfin]

theorem parseDigits_toHexFixed_zero (B w n : Nat) (hn : n < 16 ^ w) (hB : 16 ^ w ≤ B) :
    parseDigits B (toHexFixed w n) 0 = some n := by
  have := parseDigits_toHexFixed B w n 0 (by rw [Nat.mod_eq_of_lt hn]; omega)
  simpa [Nat.mod_eq_of_lt hn] using this

theorem parseRadix16_toHexFixed (bits w n : Nat) (hw : 2 ≤ w) (hn : n < 16 ^ w)
    (hB : 16 ^ w ≤ 2 ^ bits) : parseRadix16 bits (toHexFixed w n) = some n := by
  obtain ⟨w', rfl⟩ : ∃ w', w = w' + 2 := ⟨w - 2, by omega⟩
  have hp := parseDigits_toHexFixed_zero (2 ^ bits) (w' + 2) n hn hB
  have hne : hexChar (n / 16 ^ (w' + 1) % 16) ≠ '+' :=
    hexChar_ne_plus _ (Nat.mod_lt _ (by decide))
  simp only [toHexFixed] at hp ⊢
  simp only [parseRadix16, hne, if_false]
  exact hp

/-! ### splitOn -/

theorem splitOn_ne_nil (sep : Char) (s : List Char) : splitOn sep s ≠ [] := by
  cases s with
  | nil => simp [splitOn]
  | cons c cs =>
    simp only [splitOn]
    split
    · simp
    · split <;> simp

theorem splitOn_no_sep (sep : Char) (s : List Char) (h : ∀ c ∈ s, c ≠ sep) :
    splitOn sep s = [s] := by
  induction s with
  | nil => rfl
  | cons c cs ih =>
    have hc : c ≠ sep := h c (by simp)
    have ih' := ih (fun x hx => h x (by simp [hx]))
    simp [splitOn, hc, ih']

theorem splitOn_append_sep (sep : Char) (a b : List Char) (h : ∀ c ∈ a, c ≠ sep) :
    splitOn sep (a ++ sep :: b) = a :: splitOn sep b := by
  induction a with
  | nil => simp [splitOn]
  | cons c cs ih =>
    have hc : c ≠ sep := h c (by simp)
    have ih' := ih (fun x hx => h x (by simp [hx]))
    simp [splitOn, hc, ih']

/-! ### the unbounded reading of a hexadecimal numeral (specification side) -/

/-- Horner value of a digit string, no bound; `none` if some char is not a hex digit. -/
def hexValue : List Char → Nat → Option Nat
  | [], acc => some acc
  | c :: cs, acc =>
    match hexDigitVal c with
    | none => none
    | some d => hexValue cs (acc * 16 + d)

theorem hexValue_mono (s : List Char) (acc v : Nat) (h : hexValue s acc = some v) : acc ≤ v := by
  induction s generalizing acc with
  | nil => simp [hexValue] at h; omega
  | cons c cs ih =>
    simp only [hexValue] at h
    split at h
    · cases h
    · have := ih _ h; omega

/-- the checked parser agrees with the unbounded reading whenever that reading fits, and
    fails exactly when it does not exist or does not fit -/
theorem parseDigits_eq (B : Nat) (s : List Char) (acc : Nat) (hacc : acc < B) :
    parseDigits B s acc =
      match hexValue s acc with
      | some v => if v < B then some v else none
      | none => none := by
  induction s generalizing acc with
  | nil => simp [parseDigits, hexValue, hacc]
  | cons c cs ih =>
    simp only [parseDigits, hexValue]
    cases hd : hexDigitVal c with
    | none => simp
    | some d =>
      simp only
      by_cases hlt : acc * 16 + d < B
      · simp only [hlt, if_true]; exact ih _ hlt
      · simp only [hlt, if_false]
        cases hv : hexValue cs (acc * 16 + d) with
        | none => simp
        | some v =>
          have := hexValue_mono _ _ _ hv
          have : ¬ v < B := by omega
          simp [this]

/-- the body of a numeral: `s` with one optional leading `+` removed; `none` for the strings
    Rust rejects outright (empty, lone sign) -/
def numeralBody (s : List Char) : Option (List Char) :=
  match s with
  | [] => none
  | [c] => if c = '+' ∨ c = '-' then none else some [c]
  | c :: rest => if c = '+' then some rest else some (c :: rest)

/-- `HexFits bits s v`: `s` is a hexadecimal numeral (optional `+`, at least one digit, only
    hex digits) whose value `v` fits in `bits` bits. Defined without the parser's bound
    checks. -/
def HexFits (bits : Nat) (s : List Char) (v : Nat) : Prop :=
  ∃ body, numeralBody s = some body ∧ hexValue body 0 = some v ∧ v < 2 ^ bits

theorem parseRadix16_eq_some_iff (bits : Nat) (s : List Char) (v : Nat) :
    parseRadix16 bits s = some v ↔ HexFits bits s v := by
  have hpos : 0 < 2 ^ bits := Nat.pow_pos (by decide)
  have key : ∀ body, parseDigits (2 ^ bits) body 0 = some v ↔
      (hexValue body 0 = some v ∧ v < 2 ^ bits) := by
    intro body
    rw [parseDigits_eq _ _ _ hpos]
    cases hv : hexValue body 0 with
    | none => simp
    | some w =>
      by_cases hw : w < 2 ^ bits
      · simp only [hw, if_true, Option.some.injEq]
        constructor
        · rintro rfl; exact ⟨rfl, hw⟩
        · rintro ⟨h, _⟩; exact h
      · simp only [hw, if_false]
        constructor
        · intro h; cases h
        · rintro ⟨h, h2⟩; cases h; exact absurd h2 hw
  unfold HexFits
  match s with
  | [] => simp [parseRadix16, numeralBody]
  | [c] =>
    simp only [parseRadix16, numeralBody]
    by_cases hc : c = '+' ∨ c = '-'
    · simp [hc]
    · simp only [hc, if_false, Option.some.injEq, exists_eq_left']
      exact key [c]
  | c :: d :: rest =>
    simp only [parseRadix16, numeralBody]
    by_cases hc : c = '+'
    · simp only [hc, if_true, Option.some.injEq, exists_eq_left']
      exact key (d :: rest)
    · simp only [hc, if_false, Option.some.injEq, exists_eq_left']
      exact key (c :: d :: rest)

theorem parseRadix16_eq_none_iff (bits : Nat) (s : List Char) :
    parseRadix16 bits s = none ↔ ¬ ∃ v, HexFits bits s v := by
  constructor
  · intro h ⟨v, hv⟩
    rw [← parseRadix16_eq_some_iff] at hv
    rw [h] at hv; cases hv
  · intro h
    cases hp : parseRadix16 bits s with
    | none => rfl
    | some v => exact absurd ⟨v, (parseRadix16_eq_some_iff _ _ _).mp hp⟩ h

end Fastrace
