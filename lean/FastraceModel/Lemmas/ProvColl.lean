import FastraceModel.Lemmas.Groups

/-!
Provenance, collector side: whatever a collector cycle reports carries a trace id that was
already in the collector (a buffered collection) or arrives in this batch (a token item of a
`SubmitSpans` command).  Nothing invents a trace id.
-/
namespace Fastrace

/-- all buffered collections carry trace ids from `T` -/
def CollOk (T : List Nat) (c : Coll) : Prop := ∀ e ∈ c.active, ∀ col ∈ e.2.collections, col.traceId ∈ T

/-- a command carries only trace ids from `T` -/
def CmdOk (T : List Nat) : Cmd → Prop
  | .submit _ tok => ∀ it ∈ tok, it.traceId ∈ T
  | _ => True

def RecsOk (T : List Nat) (rs : List Record) : Prop := ∀ r ∈ rs, r.traceId ∈ T

theorem localCore_trace (conv : Nat → Nat) (endT trace p : Nat) (raw : RawSpan) :
    ∀ c ∈ localCore conv endT trace p raw, c.traceId = trace := by
  unfold localCore
  cases raw.kind <;> simp

theorem spanCore_trace (conv : Nat → Nat) (trace p : Nat) (raw : RawSpan) :
    ∀ c ∈ spanCore conv trace p raw, c.traceId = trace := by
  unfold spanCore
  cases raw.kind <;> simp

theorem collectionCores_trace (conv : Nat → Nat) (col : Collection) :
    ∀ c ∈ collectionCores conv col, c.traceId = col.traceId := by
  unfold collectionCores
  cases col.spans with
  | span raw => exact spanCore_trace conv _ _ raw
  | locals spans endT =>
    intro c hc
    simp only [List.mem_flatMap] at hc
    obtain ⟨raw, _, h⟩ := hc
    exact localCore_trace conv endT _ _ raw c h

/-- `postprocess_span_collection` only emits trace ids of its collections -/
theorem postprocess_recsOk (T : List Nat) (conv : Nat → Nat) (cols : List Collection) (committed : List Record)
    (d : Danglings) (hc : RecsOk T committed) (hcols : ∀ col ∈ cols, col.traceId ∈ T) :
    RecsOk T (postprocess conv cols committed d).1 := by
  intro r hr
  have hcore : r.core ∈ (postprocess conv cols committed d).1.map Record.core := List.mem_map_of_mem hr
  rw [postprocess_core] at hcore
  simp only [List.mem_append, List.mem_map, List.mem_flatMap] at hcore
  rcases hcore with ⟨r0, h0, e0⟩ | ⟨col, hcol, hin⟩
  · have : r.traceId = r0.traceId := by
      have := congrArg Core.traceId e0
      simpa [Record.core] using this.symm
    rw [this]; exact hc r0 h0
  · have := collectionCores_trace conv col _ hin
    have h2 : r.traceId = col.traceId := by simpa [Record.core] using this
    rw [h2]; exact hcols col hcol

theorem CollOk.insert {T : List Nat} {c : Coll} (h : CollOk T c) (id : Nat) (a : Active)
    (ha : ∀ col ∈ a.collections, col.traceId ∈ T) : CollOk T (c.insert id a) := by
  intro e he col hcol
  simp only [Coll.insert, List.mem_append, List.mem_filter, List.mem_singleton] at he
  rcases he with ⟨he, _⟩ | rfl
  · exact h e he col hcol
  · exact ha col hcol

theorem CollOk.remove {T : List Nat} {c : Coll} (h : CollOk T c) (id : Nat) : CollOk T (c.remove id) := by
  intro e he col hcol
  simp only [Coll.remove, List.mem_filter] at he
  exact h e he.1 col hcol

theorem CollOk.find {T : List Nat} {c : Coll} (h : CollOk T c) (id : Nat) (a : Active) (hf : c.find? id = some a) :
    ∀ col ∈ a.collections, col.traceId ∈ T := by
  unfold Coll.find? at hf
  simp only [Option.map_eq_some_iff] at hf
  obtain ⟨e, he, rfl⟩ := hf
  exact h e (List.mem_of_find?_eq_some he)

theorem foldl_starts_ok {T : List Nat} (ids : List Nat) (c : Coll) (h : CollOk T c) :
    CollOk T (ids.foldl (fun c id => c.insert id Active.empty) c) := by
  induction ids generalizing c with
  | nil => exact h
  | cons id ids ih => exact ih _ (h.insert id _ (by simp [Active.empty]))

theorem foldl_drops_ok {T : List Nat} (ids : List Nat) (c : Coll) (h : CollOk T c) :
    CollOk T (ids.foldl (fun c id => if c.cancelable then c.remove id else c) c) := by
  induction ids generalizing c with
  | nil => exact h
  | cons id ids ih =>
    simp only [List.foldl]
    apply ih
    split
    · exact h.remove id
    · exact h

/-- the state threaded through the submit phase -/
def SubOk (T : List Nat) (st : Coll × List Collection) : Prop := CollOk T st.1 ∧ ∀ col ∈ st.2, col.traceId ∈ T

theorem submitItem_ok {T : List Nat} (cb : Bool) (spans : SpanSet) (st : Coll × List Collection) (it : TokenItem)
    (h : SubOk T st) (hit : it.traceId ∈ T) : SubOk T (submitItem cb spans st it) := by
  unfold submitItem
  dsimp only
  cases hf : st.1.find? it.collectId with
  | some a =>
    dsimp only
    refine ⟨h.1.insert _ _ ?_, h.2⟩
    intro col hcol
    simp only [List.mem_append, List.mem_singleton] at hcol
    rcases hcol with hcol | rfl
    · exact h.1.find _ a hf col hcol
    · exact hit
  | none =>
    dsimp only
    split
    · exact h
    · refine ⟨h.1, ?_⟩
      intro col hcol
      simp only [List.mem_append, List.mem_singleton] at hcol
      rcases hcol with hcol | rfl
      · exact h.2 col hcol
      · exact hit

theorem foldl_submitItem_ok {T : List Nat} (cb : Bool) (spans : SpanSet) (tok : Token) (st : Coll × List Collection)
    (h : SubOk T st) (ht : ∀ it ∈ tok, it.traceId ∈ T) : SubOk T (tok.foldl (submitItem cb spans) st) := by
  induction tok generalizing st with
  | nil => exact h
  | cons it tok ih =>
    simp only [List.foldl]
    exact ih _ (submitItem_ok cb spans st it h (ht it (by simp))) (fun x hx => ht x (by simp [hx]))

theorem foldl_processSubmit_ok {T : List Nat} (subs : List (SpanSet × Token)) (st : Coll × List Collection)
    (h : SubOk T st) (hs : ∀ sub ∈ subs, ∀ it ∈ sub.2, it.traceId ∈ T) :
    SubOk T (subs.foldl processSubmit st) := by
  induction subs generalizing st with
  | nil => exact h
  | cons sub subs ih =>
    simp only [List.foldl]
    apply ih
    · unfold processSubmit
      exact foldl_submitItem_ok _ _ _ _ h (hs sub (by simp))
    · exact fun x hx => hs x (by simp [hx])

theorem submitsOf_ok {T : List Nat} (batch : List Cmd) (h : ∀ c ∈ batch, CmdOk T c) :
    ∀ sub ∈ submitsOf batch, ∀ it ∈ sub.2, it.traceId ∈ T := by
  intro sub hsub
  unfold submitsOf at hsub
  simp only [List.mem_filterMap] at hsub
  obtain ⟨c, hc, hcs⟩ := hsub
  cases c with
  | submit s t =>
    simp only [Option.some.injEq] at hcs
    subst hcs
    exact h _ hc
  | start _ => simp at hcs
  | drop _ => simp at hcs
  | commit _ => simp at hcs

def ComOk (T : List Nat) (st : Coll × List Record) : Prop := CollOk T st.1 ∧ RecsOk T st.2

theorem processCommit_ok {T : List Nat} (conv : Nat → Nat) (st : Coll × List Record) (id : Nat) (h : ComOk T st) :
    ComOk T (processCommit conv st id) := by
  unfold processCommit
  cases hf : st.1.find? id with
  | none => exact h
  | some a =>
    dsimp only
    exact ⟨h.1.remove id, postprocess_recsOk T conv _ _ _ h.2 (h.1.find id a hf)⟩

theorem foldl_processCommit_ok {T : List Nat} (conv : Nat → Nat) (ids : List Nat) (st : Coll × List Record)
    (h : ComOk T st) : ComOk T (ids.foldl (processCommit conv) st) := by
  induction ids generalizing st with
  | nil => exact h
  | cons id ids ih => exact ih _ (processCommit_ok conv st id h)

theorem foldl_flushActive_ok {T : List Nat} (conv : Nat → Nat) (es : List (Nat × Active))
    (st : List (Nat × Active) × List Record)
    (hes : ∀ e ∈ es, ∀ col ∈ e.2.collections, col.traceId ∈ T)
    (h1 : ∀ e ∈ st.1, ∀ col ∈ e.2.collections, col.traceId ∈ T) (h2 : RecsOk T st.2) :
    (∀ e ∈ (es.foldl (flushActive conv) st).1, ∀ col ∈ e.2.collections, col.traceId ∈ T) ∧
    RecsOk T (es.foldl (flushActive conv) st).2 := by
  induction es generalizing st with
  | nil => exact ⟨h1, h2⟩
  | cons e es ih =>
    simp only [List.foldl]
    apply ih
    · exact fun x hx => hes x (by simp [hx])
    · unfold flushActive
      dsimp only
      intro x hx col hcol
      simp only [List.mem_append, List.mem_singleton] at hx
      rcases hx with hx | rfl
      · exact h1 x hx col hcol
      · simp at hcol
    · unfold flushActive
      dsimp only
      exact postprocess_recsOk T conv _ _ _ h2 (hes e (by simp))

theorem foldl_stale_ok {T : List Nat} (conv : Nat → Nat) (stale : List Collection) (recs : List Record)
    (hs : ∀ col ∈ stale, col.traceId ∈ T) (hr : RecsOk T recs) :
    RecsOk T (stale.foldl (fun recs col => (postprocess conv [col] recs []).1) recs) := by
  induction stale generalizing recs with
  | nil => exact hr
  | cons col stale ih =>
    simp only [List.foldl]
    apply ih
    · exact fun x hx => hs x (by simp [hx])
    · exact postprocess_recsOk T conv _ _ _ hr (by
        intro c hc
        simp only [List.mem_singleton] at hc
        subst hc
        exact hs _ (by simp))

/-- **a collector cycle reports only trace ids it was given**: the collections it held and the
    token items of this batch's `SubmitSpans` commands; and what it keeps is again of that kind -/
theorem cycleProcess_ok (T : List Nat) (conv : Nat → Nat) (c : Coll) (batch : List Cmd)
    (hc : CollOk T c) (hb : ∀ cmd ∈ batch, CmdOk T cmd) :
    CollOk T (cycleProcess conv c batch).1 ∧
    ∀ rs, (cycleProcess conv c batch).2 = some rs → RecsOk T rs := by
  cases hrep : c.hasReporter with
  | false => simp [cycleProcess, hrep, hc]
  | true =>
    rw [cycleProcess_eq conv c batch hrep]
    dsimp only
    have h1 : CollOk T (phaseDrops (phaseStarts c batch) batch) := foldl_drops_ok _ _ (foldl_starts_ok _ _ hc)
    have h2 := foldl_processSubmit_ok (T := T) (submitsOf batch) (phaseDrops (phaseStarts c batch) batch, [])
      ⟨h1, by simp⟩ (submitsOf_ok batch hb)
    have h3 := foldl_processCommit_ok (T := T) conv (commitsOf batch)
      (((submitsOf batch).foldl processSubmit (phaseDrops (phaseStarts c batch) batch, [])).1, []) ⟨h2.1, by simp [RecsOk]⟩
    split
    · refine ⟨h3.1, ?_⟩
      intro rs hrs
      simp only [Option.some.injEq] at hrs
      subst hrs
      exact foldl_stale_ok conv _ _ h2.2 h3.2
    · have h4 := foldl_flushActive_ok (T := T) conv _ ([], _) h3.1 (by simp) h3.2
      refine ⟨h4.1, ?_⟩
      intro rs hrs
      simp only [Option.some.injEq] at hrs
      subst hrs
      exact foldl_stale_ok conv _ _ h2.2 h4.2

theorem CollOk.mono {T T' : List Nat} {c : Coll} (h : CollOk T c) (hs : ∀ x ∈ T, x ∈ T') : CollOk T' c :=
  fun e he col hcol => hs _ (h e he col hcol)

theorem CmdOk.mono {T T' : List Nat} {c : Cmd} (h : CmdOk T c) (hs : ∀ x ∈ T, x ∈ T') : CmdOk T' c := by
  cases c with
  | submit s t => exact fun it hit => hs _ (h it hit)
  | start _ => trivial
  | drop _ => trivial
  | commit _ => trivial

end Fastrace
