import FastraceModel.Lemmas.Assoc

/-! operations of one thread never touch another thread's state -/
namespace Fastrace

theorem Sys.setRing_th (s : Sys) (t : Nat) (r : Ring Cmd) (t2 : Nat) : (s.setRing t r).th t2 = s.th t2 := by
  unfold Sys.setRing
  cases s.cyc with
  | none => rfl
  | some cs =>
    simp only
    split
    · rfl
    · split <;> rfl

/-- what `register` can do: nothing, or mark the thread registered and add one empty receiver
    (to the registry, or — during the report phase — to the receivers the cycle retains) -/
theorem Sys.register_some (s s' : Sys) (t : Nat) (h : s.register t = some s') :
    s' = s ∨ ∃ rxs' cyc', s' = { (s.setTh t { s.th t with registered := true }) with rxs := rxs', cyc := cyc' } := by
  unfold Sys.register at h
  split at h
  · cases h; exact .inl rfl
  · cases hc : s.cyc with
    | none =>
      rw [hc] at h
      simp only [Option.some.injEq] at h
      subst h
      exact .inr ⟨s.rxs ++ [(t, Ring.new Consts.ringCap)], none, by simp [Sys.setTh, hc]⟩
    | some cs =>
      rw [hc] at h
      dsimp only at h
      split at h
      · cases h
      · simp only [Option.some.injEq] at h
        subst h
        exact .inr ⟨s.rxs, _, rfl⟩

theorem Sys.register_th_other (s s' : Sys) (t t2 : Nat) (h : s.register t = some s') (hne : t2 ≠ t) :
    s'.th t2 = s.th t2 := by
  rcases Sys.register_some s s' t h with rfl | ⟨r, c, rfl⟩
  · rfl
  · show (Sys.th (s.setTh t _) t2) = _
    exact Sys.th_setTh_other _ _ _ _ hne

theorem Sys.sendCmd_th_other (s : Sys) (t t2 : Nat) (cmd : Cmd) (f : Bool) (hne : t2 ≠ t) :
    (s.sendCmd t cmd f).th t2 = s.th t2 := by
  unfold Sys.sendCmd
  cases hr : s.register t with
  | none => rfl
  | some s' =>
    have h1 := Sys.register_th_other s s' t t2 hr hne
    simp only
    cases s'.ringOf t with
    | none => exact h1
    | some r =>
      simp only
      split
      · rw [Sys.withG_th, Sys.th_setTh_other _ _ _ _ hne, Sys.setRing_th, h1]
      · rw [Sys.withG_th, Sys.th_setTh_other _ _ _ _ hne, Sys.setRing_th, h1]

theorem Sys.submitSpans_th_other (s : Sys) (t t2 : Nat) (sp : SpanSet) (tok : Token) (hne : t2 ≠ t) :
    (s.submitSpans t sp tok).th t2 = s.th t2 := by
  unfold Sys.submitSpans
  simp only
  split
  · rfl
  · exact Sys.sendCmd_th_other _ _ _ _ _ hne

theorem Sys.newSpan_th_other (s : Sys) (t t2 : Nat) (v n : String) (tok : Token) (cid : Option Nat) (hne : t2 ≠ t) :
    (s.newSpan t v n tok cid).th t2 = s.th t2 := by
  unfold Sys.newSpan
  show (Sys.th { (s.putCtr t _) with spans := _ } t2) = _
  exact Sys.putCtr_th_other _ _ _ _ hne

theorem Sys.dropSpanVal_th_other (s : Sys) (t t2 : Nat) (sv : SpanVal) (hne : t2 ≠ t) :
    (s.dropSpanVal t sv).th t2 = s.th t2 := by
  unfold Sys.dropSpanVal
  cases sv with
  | none => rfl
  | some sp =>
    simp only
    cases sp.collectId with
    | none => rw [Sys.submitSpans_th_other _ _ _ _ _ hne, Sys.putCtr_th_other _ _ _ _ hne]
    | some cid =>
      rw [Sys.sendCmd_th_other _ _ _ _ _ hne, Sys.submitSpans_th_other _ _ _ _ _ hne, Sys.putCtr_th_other _ _ _ _ hne]

theorem Sys.closeGuard_th_other (s : Sys) (t t2 : Nat) (g : Guard) (hne : t2 ≠ t) :
    (s.closeGuard t g).th t2 = s.th t2 := by
  unfold Sys.closeGuard
  cases g with
  | scope e =>
    cases e with
    | none => rfl
    | some epoch =>
      simp only
      split
      · rw [Sys.submitSpans_th_other _ _ _ _ _ hne, Sys.putCtr_th_other _ _ _ _ hne, Sys.th_setTh_other _ _ _ _ hne]
      · rw [Sys.putCtr_th_other _ _ _ _ hne, Sys.th_setTh_other _ _ _ _ hne]
  | localSpan h =>
    cases h with
    | none => rfl
    | some h => simp only; rw [Sys.putCtr_th_other _ _ _ _ hne, Sys.th_setTh_other _ _ _ _ hne]
  | collector e =>
    cases e with
    | none => rfl
    | some epoch => simp only; rw [Sys.th_setTh_other _ _ _ _ hne]

end Fastrace

namespace Fastrace

theorem th_withSpans (s : Sys) (x : List (String × SpanVal)) (t2 : Nat) :
    ({ s with spans := x } : Sys).th t2 = s.th t2 := rfl

theorem Sys.enterExitLocal_th_other (s : Sys) (t t2 : Nat) (hne : t2 ≠ t) : (s.enterExitLocal t).th t2 = s.th t2 := by
  unfold Sys.enterExitLocal
  dsimp only
  split
  · rfl
  · rw [Sys.putCtr_th_other _ _ _ _ hne, Sys.th_setTh_other _ _ _ _ hne]

theorem foldl_enterExitLocal_th_other {α : Type} (l : List α) (s : Sys) (t t2 : Nat) (hne : t2 ≠ t) :
    (l.foldl (fun s _ => s.enterExitLocal t) s).th t2 = s.th t2 := by
  induction l generalizing s with
  | nil => rfl
  | cons x xs ih => simp only [List.foldl]; rw [ih, Sys.enterExitLocal_th_other _ _ _ hne]

theorem Sys.runClosure_th_other (s : Sys) (t t2 : Nat) (cl : Closure) (hne : t2 ≠ t) :
    (s.runClosure t cl).th t2 = s.th t2 := by
  unfold Sys.runClosure
  split
  · exact Sys.enterExitLocal_th_other s t t2 hne
  · exact foldl_enterExitLocal_th_other _ s t t2 hne
  · dsimp only
    rw [Sys.putCtr_th_other _ _ _ _ hne, Sys.th_setTh_other _ _ _ _ hne]
  · split
    · rfl
    · dsimp only
      rw [Sys.dropSpanVal_th_other _ _ _ _ hne, th_withSpans, Sys.newSpan_th_other _ _ _ _ _ _ _ hne]
  · rfl

theorem foldl_closeGuard_th_other (gs : List Guard) (s : Sys) (t t2 : Nat) (hne : t2 ≠ t) :
    (gs.foldl (fun s g => s.closeGuard t g) s).th t2 = s.th t2 := by
  induction gs generalizing s with
  | nil => rfl
  | cons g gs ih => simp only [List.foldl]; rw [ih, Sys.closeGuard_th_other _ _ _ _ hne]

theorem Sys.exitThread_th_other (s : Sys) (t t2 : Nat) (hne : t2 ≠ t) : (s.exitThread t).th t2 = s.th t2 := by
  unfold Sys.exitThread
  simp only
  split
  · split
    · rw [Sys.withG_th, Sys.setRing_th, Sys.th_setTh_other _ _ _ _ hne, foldl_closeGuard_th_other _ _ _ _ hne]
    · rw [Sys.withG_th, Sys.th_setTh_other _ _ _ _ hne, foldl_closeGuard_th_other _ _ _ _ hne]
  · rw [Sys.withG_th, Sys.th_setTh_other _ _ _ _ hne, foldl_closeGuard_th_other _ _ _ _ hne]

theorem Sys.spamOnce_th_other (s : Sys) (t t2 : Nat) (hne : t2 ≠ t) : (s.spamOnce t).th t2 = s.th t2 := by
  unfold Sys.spamOnce
  split
  · rfl
  · dsimp only
    rw [Sys.dropSpanVal_th_other _ _ _ _ hne, th_withSpans, Sys.newSpan_th_other _ _ _ _ _ _ _ hne]

theorem spam_th_other (n : Nat) (s : Sys) (t t2 : Nat) (hne : t2 ≠ t) :
    (Nat.rec (motive := fun _ => Sys) s (fun _ acc => acc.spamOnce t) n).th t2 = s.th t2 := by
  induction n with
  | zero => rfl
  | succ n ih => show (Sys.spamOnce _ t).th t2 = _; rw [Sys.spamOnce_th_other _ _ _ hne, ih]

theorem Sys.finishCycle_th (s : Sys) (kept : List (Nat × Ring Cmd)) (buf buf2 : List Cmd) (t2 : Nat) :
    (s.finishCycle kept buf buf2).1.th t2 = s.th t2 := rfl

theorem Sys.noteParked_threads (s : Sys) (t cid : Nat) : (s.noteParked t cid).threads = s.threads := by
  unfold Sys.noteParked
  split <;> rfl

theorem Sys.noteParked_th (s : Sys) (t cid t2 : Nat) : (s.noteParked t cid).th t2 = s.th t2 := by
  unfold Sys.noteParked
  split <;> rfl

theorem Sys.finishCycleP_threads (s : Sys) (kept : List (Nat × Ring Cmd)) (buf buf2 : List Cmd) :
    (s.finishCycleP kept buf buf2).1.threads = s.threads := by
  unfold Sys.finishCycleP
  split <;> rfl

theorem Sys.finishCycleP_th (s : Sys) (kept : List (Nat × Ring Cmd)) (buf buf2 : List Cmd) (t2 : Nat) :
    (s.finishCycleP kept buf buf2).1.th t2 = s.th t2 := by
  unfold Sys.finishCycleP
  split <;> rfl

theorem CycState.afterFirst_cases (cs : CycState) :
    cs.afterFirst = ({ cs with phase := .atReport }, "report") ∨
    cs.afterFirst = ({ cs with phase := .atRx2, todo2 := cs.kept.map (·.1) }, "rx2") := by
  unfold CycState.afterFirst
  split
  · exact .inl rfl
  · exact .inr rfl

/-- a collector step touches nothing but the collector's own state -/
theorem Sys.cycStep_threads (s : Sys) : s.cycStep.1.threads = s.threads := by
  unfold Sys.cycStep
  split
  · rfl
  · split
    · exact Sys.finishCycleP_threads _ _ _ _
    · split
      · rfl
      · dsimp only
        split <;> rfl
    · rfl
    · rfl
    · dsimp only
      split
      · split <;> rfl
      · split
        · split <;> rfl
        · rfl

/-- a collector step answers with a report, a phase name, or a refusal -/
theorem Sys.cycStep_obs (s : Sys) :
    (∃ r, s.cycStep.2 = .report r) ∨ (∃ p, s.cycStep.2 = .phase p) ∨ (∃ w, s.cycStep.2 = .badOp w) := by
  have leaf_r : ∀ (S : Sys) r, (∃ r', (S, Obs.report r).2 = .report r') ∨ (∃ p, (S, Obs.report r).2 = .phase p) ∨
      (∃ w, (S, Obs.report r).2 = .badOp w) := fun _ r => .inl ⟨r, rfl⟩
  have leaf_p : ∀ (S : Sys) p, (∃ r', (S, Obs.phase p).2 = .report r') ∨ (∃ p', (S, Obs.phase p).2 = .phase p') ∨
      (∃ w, (S, Obs.phase p).2 = .badOp w) := fun _ p => .inr (.inl ⟨p, rfl⟩)
  unfold Sys.cycStep
  split
  · exact .inr (.inr ⟨_, rfl⟩)
  · split
    · exact leaf_r _ _
    · split
      · exact leaf_p _ _
      · dsimp only
        split <;> exact leaf_p _ _
    · exact leaf_p _ _
    · exact leaf_p _ _
    · dsimp only
      split
      · split <;> exact leaf_p _ _
      · split
        · split <;> exact leaf_p _ _
        · exact leaf_p _ _

theorem Sys.cycStep_th (s : Sys) (t2 : Nat) : s.cycStep.1.th t2 = s.th t2 := by
  unfold Sys.th
  rw [Sys.cycStep_threads]

/-- what processing leaves alone -/
theorem Sys.finishCycleP_fields (s : Sys) (kept : List (Nat × Ring Cmd)) (buf buf2 : List Cmd) :
    (s.finishCycleP kept buf buf2).1.cyc = none ∧ (s.finishCycleP kept buf buf2).1.rxs = kept ∧
    (∀ t, (s.finishCycleP kept buf buf2).1.th t = s.th t) ∧
    (s.finishCycleP kept buf buf2).1.g.acceptedBy = s.g.acceptedBy ∧
    (s.finishCycleP kept buf buf2).1.g.drainedBy = s.g.drainedBy := by
  unfold Sys.finishCycleP Sys.finishCycle
  dsimp only [Sys.withG]
  cases s.coll.hasReporter <;> exact ⟨rfl, rfl, fun _ => rfl, rfl, rfl⟩

theorem Sys.cycle_th (s : Sys) (t2 : Nat) : s.cycle.1.th t2 = s.th t2 := by
  unfold Sys.cycle
  exact Sys.finishCycleP_th _ _ _ _ t2

theorem Sys.cycBegin_th (s : Sys) (t2 : Nat) : s.cycBegin.1.th t2 = s.th t2 := by
  unfold Sys.cycBegin
  split
  · rfl
  · split <;> rfl

end Fastrace

namespace Fastrace

theorem th_withLspans (s : Sys) (x : List (String × LocalSpansVal)) (t2 : Nat) :
    ({ s with lspans := x } : Sys).th t2 = s.th t2 := rfl
theorem th_withNextCollect (s : Sys) (x : Nat) (t2 : Nat) :
    ({ s with nextCollect := x } : Sys).th t2 = s.th t2 := rfl
theorem th_withAdapters (s : Sys) (x : List (String × Adapter)) (t2 : Nat) :
    ({ s with adapters := x } : Sys).th t2 = s.th t2 := rfl
theorem th_withSpansAdapters (s : Sys) (x : List (String × SpanVal)) (y : List (String × Adapter)) (t2 : Nat) :
    ({ s with spans := x, adapters := y } : Sys).th t2 = s.th t2 := rfl

/-- closes goals `(… .th t2) = s.th t2` built from the state-update helpers -/
macro "th_other_tac" h:ident : tactic => `(tactic| repeat' (first
  | rw [Sys.th_setTh_other _ _ _ _ $h]
  | rw [Sys.putCtr_th_other _ _ _ _ $h]
  | rw [Sys.dropSpanVal_th_other _ _ _ _ $h]
  | rw [Sys.closeGuard_th_other _ _ _ _ $h]
  | rw [th_withAdapters]
  | rw [th_withSpansAdapters]
  | rw [th_withSpans]
  | split
  | rfl))

theorem Sys.adPoll_th_other (s : Sys) (t t2 : Nat) (a call : String) (hne : t2 ≠ t) :
    (s.adPoll t a call).1.th t2 = s.th t2 := by
  unfold Sys.adPoll
  cases assocGet s.adapters a with
  | none => rfl
  | some ad =>
    dsimp only
    cases ad.kind with
    | enterOnPoll =>
      dsimp only
      cases (s.th t).stack.enterSpan (s.ctr t) ad.name with
      | none => dsimp only; rw [Sys.th_setTh_other _ _ _ _ hne, th_withAdapters]
      | some r => dsimp only; rw [Sys.putCtr_th_other _ _ _ _ hne, Sys.th_setTh_other _ _ _ _ hne, th_withAdapters]
    | inSpan | stream | sink =>
      all_goals
        dsimp only
        cases ad.span with
        | none => dsimp only; rw [Sys.th_setTh_other _ _ _ _ hne, th_withAdapters]
        | some sv =>
          cases sv with
          | none => dsimp only; rw [Sys.th_setTh_other _ _ _ _ hne, th_withAdapters]
          | some sp =>
            dsimp only
            cases (s.th t).stack.registerLine (some (issueToken sp)) with
            | none => dsimp only; rw [Sys.th_setTh_other _ _ _ _ hne, th_withAdapters]
            | some r => dsimp only; rw [Sys.th_setTh_other _ _ _ _ hne, th_withAdapters]

theorem Sys.adEnd_th_other (s : Sys) (t t2 : Nat) (a result : String) (hne : t2 ≠ t) :
    (s.adEnd t a result).1.th t2 = s.th t2 := by
  unfold Sys.adEnd
  cases assocGet s.adapters a with
  | none => rfl
  | some ad =>
    cases (s.th t).guards with
    | nil => rfl
    | cons g gs =>
      dsimp only
      cases ad.inCall with
      | none => rfl
      | some call =>
        dsimp only
        split
        · cases ad.span with
          | none =>
            dsimp only
            rw [th_withAdapters, Sys.closeGuard_th_other _ _ _ _ hne, Sys.th_setTh_other _ _ _ _ hne]
          | some sv =>
            dsimp only
            rw [Sys.dropSpanVal_th_other _ _ _ _ hne, th_withAdapters, Sys.closeGuard_th_other _ _ _ _ hne,
              Sys.th_setTh_other _ _ _ _ hne]
        · rw [th_withAdapters, Sys.closeGuard_th_other _ _ _ _ hne, Sys.th_setTh_other _ _ _ _ hne]

theorem Sys.closeUnder_th_other (s : Sys) (t t2 : Nat) (hne : t2 ≠ t) : ((s.closeUnder t).1.th t2) = s.th t2 := by
  unfold Sys.closeUnder
  dsimp only
  split
  · rfl
  · split
    · rfl
    · split
      · rw [Sys.closeGuard_th_other _ _ _ _ hne, Sys.th_setTh_other _ _ _ _ hne]
      · rw [Sys.closeGuard_th_other _ _ _ _ hne, Sys.th_setTh_other _ _ _ _ hne]
      · rfl

theorem Sys.collectUnder_th_other (s : Sys) (t t2 : Nat) (x : String) (hne : t2 ≠ t) :
    ((s.collectUnder t x).1.th t2) = s.th t2 := by
  unfold Sys.collectUnder
  dsimp only
  split
  · split
    · rfl
    · dsimp only
      rw [th_withLspans, Sys.putCtr_th_other _ _ _ _ hne, Sys.th_setTh_other _ _ _ _ hne]
  · rfl

theorem Sys.rootOp_th_other (s : Sys) (t t2 : Nat) (v n : String) (tr sp : Nat) (b : Bool) (hne : t2 ≠ t) :
    (s.rootOp t v n tr sp b).1.th t2 = s.th t2 := by
  unfold Sys.rootOp
  split
  · rfl
  · split
    · rfl
    · split
      · rw [Sys.newSpan_th_other _ _ _ _ _ _ _ hne, Sys.sendCmd_th_other _ _ _ _ _ hne]; rfl
      · rw [Sys.newSpan_th_other _ _ _ _ _ _ _ hne]

/-- **an operation of thread `t` leaves every other thread's local state exactly as it was** -/
theorem exec_th_other (s : Sys) (t t2 : Nat) (op : Op) (hne : t2 ≠ t) : (exec s t op).1.th t2 = s.th t2 := by
  cases op with
  | setReporter c => rfl
  | spawn => simp only [exec]; rw [Sys.putCtr_th_other _ _ _ _ hne, Sys.th_setTh_other _ _ _ _ hne]
  | touch =>
    simp only [exec]
    cases hr : s.register t with
    | none => rfl
    | some s' => exact Sys.register_th_other s s' t t2 hr hne
  | root v n tr sp b => simp only [exec]; exact Sys.rootOp_th_other s t t2 v n tr sp b hne
  | rootFrom v n p tp =>
    simp only [exec]
    split
    · rfl
    · rfl
    · split
      · rfl
      · exact Sys.rootOp_th_other s t t2 v n _ _ _ hne
  | rootFromLocal v n tp =>
    simp only [exec]
    split
    · rfl
    · split
      · rfl
      · exact Sys.rootOp_th_other s t t2 v n _ _ _ hne
  | child1 v n p =>
    simp only [exec]
    split
    · rfl
    · rfl
    · exact Sys.newSpan_th_other _ _ _ _ _ _ _ hne
  | childN v n ps =>
    simp only [exec]
    split
    · rfl
    · split
      · rfl
      · exact Sys.newSpan_th_other _ _ _ _ _ _ _ hne
  | childLocal v n =>
    simp only [exec]
    split
    · exact Sys.newSpan_th_other _ _ _ _ _ _ _ hne
    · rfl
  | withProps v cl =>
    simp only [exec]
    split
    · rfl
    · rfl
    · dsimp only; rw [th_withSpans, Sys.runClosure_th_other _ _ _ _ hne]
  | addProps v cl =>
    simp only [exec]
    split
    · rfl
    · rfl
    · dsimp only
      rw [Sys.submitSpans_th_other _ _ _ _ _ hne, Sys.runClosure_th_other _ _ _ _ hne, Sys.putCtr_th_other _ _ _ _ hne]
  | addEvent v n p =>
    simp only [exec]
    split
    · rfl
    · rfl
    · dsimp only
      rw [Sys.submitSpans_th_other _ _ _ _ _ hne, Sys.putCtr_th_other _ _ _ _ hne]
  | pushChild v x =>
    simp only [exec]
    split
    · split
      · rfl
      · split
        · rfl
        · exact Sys.submitSpans_th_other _ _ _ _ _ hne
    · rfl
  | elapsed v => simp only [exec]; split <;> rfl
  | cancel v =>
    simp only [exec]
    split
    · rfl
    · rfl
    · split
      · rw [Sys.noteParked_th]
        exact Sys.sendCmd_th_other _ _ _ _ _ hne
      · rfl
  | drop v =>
    simp only [exec]
    split
    · rfl
    · rw [Sys.dropSpanVal_th_other _ _ _ _ hne]; rfl
  | scope v =>
    simp only [exec]
    split
    · rfl
    · exact Sys.th_setTh_other _ _ _ _ hne
    · split <;> exact Sys.th_setTh_other _ _ _ _ hne
  | localEnter n =>
    simp only [exec]
    split
    · exact Sys.th_setTh_other _ _ _ _ hne
    · rw [Sys.putCtr_th_other _ _ _ _ hne, Sys.th_setTh_other _ _ _ _ hne]
  | collectorStart =>
    simp only [exec]
    split <;> exact Sys.th_setTh_other _ _ _ _ hne
  | close =>
    simp only [exec]
    split
    · rfl
    · rw [Sys.closeGuard_th_other _ _ _ _ hne, Sys.th_setTh_other _ _ _ _ hne]
  | collect x =>
    simp only [exec]
    split
    · dsimp only
      split
      · rw [th_withLspans, Sys.putCtr_th_other _ _ _ _ hne, Sys.th_setTh_other _ _ _ _ hne]
      · dsimp only
        rw [th_withLspans, Sys.putCtr_th_other _ _ _ _ hne, Sys.th_setTh_other _ _ _ _ hne, Sys.th_setTh_other _ _ _ _ hne]
    · rfl
  | lWithProps cl =>
    simp only [exec]
    split
    · rfl
    · dsimp only; rw [Sys.th_setTh_other _ _ _ _ hne, Sys.runClosure_th_other _ _ _ _ hne]
    · rfl
  | lAddProps cl =>
    simp only [exec]
    split
    · dsimp only
      rw [Sys.putCtr_th_other _ _ _ _ hne, Sys.th_setTh_other _ _ _ _ hne, Sys.runClosure_th_other _ _ _ _ hne]
    · rfl
  | lAddEvent n p =>
    simp only [exec]
    rw [Sys.putCtr_th_other _ _ _ _ hne, Sys.th_setTh_other _ _ _ _ hne]
  | ctxOf v => simp only [exec]; split <;> rfl
  | ctxLocal => simp only [exec]; split <;> rfl
  | toRecords x tr sp => simp only [exec]; split <;> rfl
  | dropLocalSpans x => rfl
  | cycle => simp only [exec]; split <;> first | rfl | exact Sys.cycle_th s t2
  | flush => simp only [exec]; split <;> first | rfl | exact Sys.cycle_th s t2
  | cycBegin => exact Sys.cycBegin_th s t2
  | cycStep => exact Sys.cycStep_th s t2
  | stats => simp only [exec]; split <;> rfl
  | exit => exact Sys.exitThread_th_other s t t2 hne
  | spam n =>
    simp only [exec]
    split
    · rfl
    · exact spam_th_other n s t t2 hne
  | adNew a kind arg =>
    simp only [exec]
    cases kind with
    | enterOnPoll => rfl
    | inSpan | stream | sink => all_goals (dsimp only; split <;> rfl)
  | adPoll a call => simp only [exec]; exact Sys.adPoll_th_other s t t2 a call hne
  | adEnd a result => simp only [exec]; exact Sys.adEnd_th_other s t t2 a result hne
  | adDrop a =>
    simp only [exec]
    split
    · rfl
    · split
      · rw [Sys.dropSpanVal_th_other _ _ _ _ hne]; rfl
      · rfl
  | closeUnder => simp only [exec]; exact Sys.closeUnder_th_other s t t2 hne
  | collectUnder x => simp only [exec]; exact Sys.collectUnder_th_other s t t2 x hne
  | unwind =>
    simp only [exec]
    rw [Sys.th_setTh_other _ _ _ _ hne, foldl_closeGuard_th_other _ _ _ _ hne]

end Fastrace

namespace Fastrace

/-- the thread-local recording state: span stack, guard stack, id prefix -/
def Th.loc (th : Th) : Stack × List Guard × Nat := (th.stack, th.guards, th.pref)

theorem Sys.register_loc (s s' : Sys) (t t2 : Nat) (h : s.register t = some s') : (s'.th t2).loc = (s.th t2).loc := by
  by_cases hne : t2 = t
  · subst hne
    rcases Sys.register_some s s' t2 h with rfl | ⟨r, c, rfl⟩
    · rfl
    · show (Sys.th (s.setTh t2 _) t2).loc = _
      rw [Sys.th_setTh_same]; rfl
  · rw [Sys.register_th_other s s' t t2 h hne]

theorem Sys.sendCmd_loc (s : Sys) (t t2 : Nat) (cmd : Cmd) (f : Bool) : ((s.sendCmd t cmd f).th t2).loc = (s.th t2).loc := by
  by_cases hne : t2 = t
  · subst hne
    unfold Sys.sendCmd
    cases hr : s.register t2 with
    | none => rfl
    | some s' =>
      have h1 := Sys.register_loc s s' t2 t2 hr
      dsimp only
      cases s'.ringOf t2 with
      | none => exact h1
      | some r =>
        dsimp only
        split
        · rw [Sys.withG_th, Sys.th_setTh_same]; exact h1
        · rw [Sys.withG_th, Sys.th_setTh_same]; exact h1
  · rw [Sys.sendCmd_th_other _ _ _ _ _ hne]

theorem Sys.submitSpans_loc (s : Sys) (t t2 : Nat) (sp : SpanSet) (tok : Token) :
    ((s.submitSpans t sp tok).th t2).loc = (s.th t2).loc := by
  unfold Sys.submitSpans
  dsimp only
  split
  · rfl
  · exact Sys.sendCmd_loc _ _ _ _ _

theorem Sys.putCtr_loc (s : Sys) (t t2 : Nat) (c : Ctr) : ((s.putCtr t c).th t2).loc = (s.th t2).loc := by
  by_cases hne : t2 = t
  · subst hne; rw [Sys.putCtr_th_same]; rfl
  · rw [Sys.putCtr_th_other _ _ _ _ hne]

theorem Sys.newSpan_loc (s : Sys) (t t2 : Nat) (v n : String) (tok : Token) (cid : Option Nat) :
    ((s.newSpan t v n tok cid).th t2).loc = (s.th t2).loc := by
  unfold Sys.newSpan
  dsimp only
  rw [th_withSpans]
  exact Sys.putCtr_loc _ _ _ _

theorem Sys.dropSpanVal_loc (s : Sys) (t t2 : Nat) (sv : SpanVal) : ((s.dropSpanVal t sv).th t2).loc = (s.th t2).loc := by
  unfold Sys.dropSpanVal
  cases sv with
  | none => rfl
  | some sp =>
    dsimp only
    cases sp.collectId with
    | none => dsimp only; rw [Sys.submitSpans_loc, Sys.putCtr_loc]
    | some cid => dsimp only; rw [Sys.sendCmd_loc, Sys.submitSpans_loc, Sys.putCtr_loc]

end Fastrace

namespace Fastrace

/-! sending commands never touches the adapter table -/

@[simp] theorem Sys.setTh_adapters (s : Sys) (t : Nat) (th : Th) : (s.setTh t th).adapters = s.adapters := rfl
@[simp] theorem Sys.putCtr_adapters (s : Sys) (t : Nat) (c : Ctr) : (s.putCtr t c).adapters = s.adapters := rfl

theorem Sys.setRing_adapters (s : Sys) (t : Nat) (r : Ring Cmd) : (s.setRing t r).adapters = s.adapters := by
  unfold Sys.setRing
  cases s.cyc with
  | none => rfl
  | some cs =>
    simp only
    split
    · rfl
    · split <;> rfl

theorem Sys.register_adapters (s s' : Sys) (t : Nat) (h : s.register t = some s') : s'.adapters = s.adapters := by
  rcases Sys.register_some s s' t h with rfl | ⟨r, c, rfl⟩ <;> rfl

theorem Sys.sendCmd_adapters (s : Sys) (t : Nat) (cmd : Cmd) (f : Bool) : (s.sendCmd t cmd f).adapters = s.adapters := by
  unfold Sys.sendCmd
  cases hr : s.register t with
  | none => rfl
  | some s' =>
    have h1 := Sys.register_adapters s s' t hr
    dsimp only
    cases s'.ringOf t with
    | none => exact h1
    | some r =>
      dsimp only
      split
      · rw [Sys.withG_adapters, Sys.setTh_adapters, Sys.setRing_adapters]; exact h1
      · rw [Sys.withG_adapters, Sys.setTh_adapters, Sys.setRing_adapters]; exact h1

theorem Sys.submitSpans_adapters (s : Sys) (t : Nat) (sp : SpanSet) (tok : Token) :
    (s.submitSpans t sp tok).adapters = s.adapters := by
  unfold Sys.submitSpans
  dsimp only
  split
  · rfl
  · exact Sys.sendCmd_adapters _ _ _ _

theorem Sys.dropSpanVal_adapters (s : Sys) (t : Nat) (sv : SpanVal) : (s.dropSpanVal t sv).adapters = s.adapters := by
  unfold Sys.dropSpanVal
  cases sv with
  | none => rfl
  | some sp =>
    dsimp only
    cases sp.collectId with
    | none => dsimp only; rw [Sys.submitSpans_adapters, Sys.putCtr_adapters]
    | some cid => dsimp only; rw [Sys.sendCmd_adapters, Sys.submitSpans_adapters, Sys.putCtr_adapters]

end Fastrace
