"""setup: build every harness binary once so that later checks are incremental"""
import sys
import common as C

CRATES = {"fh-core": ["fh-codec", "fh-seq", "fh-spsc"], "fh-rep": ["fh-rep"], "fh-off": ["fh-off"], "fh-macro": ["fh-macro"]}
bad = 0
for crate, bins in CRATES.items():
    ok, err = C.cargo_build(crate, bins)
    print("build %s %s: %s" % (crate, bins, "ok" if ok else "FAILED " + err))
    bad |= (not ok)
sys.exit(1 if bad else 0)
