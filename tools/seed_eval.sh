#!/bin/sh
# usage: seed_eval.sh <dir-id> [checks...]   — confirms a seeded change in its scratch worktree, then runs checks against it in /repo
ID=$1; shift
W=/tmp/mut/$ID; O=/tmp/mut/$ID-out
set -x
cd $W || exit 1
DEMO=$(git status --porcelain | grep -E 'demo' | awk '{print $2}' | head -1)
echo "demo file: $DEMO"
# (1)+(2) compiles and the existing suite passes with the change (demo moved aside)
mkdir -p /tmp/mut/aside && mv $W/$DEMO /tmp/mut/aside/demo_$ID.rs
cargo +1.80.0 nextest run --workspace --no-fail-fast --offline 2>&1 | tail -3
mv /tmp/mut/aside/demo_$ID.rs $W/$DEMO
