"""Shared runner for the API-tier properties (fh-seq harness vs fmodel seq driver)."""
import glob
import json
import os

import common as C
import oracles as O
import proggen
import seqrun

CORPUS = os.path.join(C.VERIF, "corpus")


def shrink(lines, still_fails, budget=400):
    """delta debugging over program lines; a candidate must stay a valid program (no bad-op)"""
    cur = list(lines)
    n = 2
    tries = 0
    while len(cur) >= 2 and tries < budget:
        chunk = max(1, len(cur) // n)
        reduced = False
        for i in range(0, len(cur), chunk):
            # thread set-up and collector steps stay: removing them changes which calls would block on the registry lock
            keep = [l for l in cur[i:i + chunk] if l.split()[1] in ("spawn", "touch", "setReporter", "cycBegin", "cycStep", "bgBegin", "bgAfter", "bgEnd")]
            if len(keep) == len(cur[i:i + chunk]):
                continue
            cand = cur[:i] + keep + cur[i + chunk:]
            tries += 1
            if cand and still_fails(cand):
                cur = cand
                n = max(n - 1, 2)
                reduced = True
                break
            if tries >= budget:
                break
        if not reduced:
            if chunk == 1:
                break
            n = min(n * 2, len(cur))
    return cur


def run_impl_early(progs, batch=360):
    """the implementation on every program, in batches; once three programs have died or hung (each costs the whole
    call deadline) the remaining batches are not run: their transcripts are None"""
    out, dead = [], 0
    for i in range(0, len(progs), batch):
        res = seqrun.run_impl(progs[i:i + batch])
        out += res
        dead += sum(1 for o in res if any(x in ("<dead>", "timeout") for x in o))
        if dead >= 3 and len(out) < len(progs):
            out += [None] * (len(progs) - len(out))
            break
    return out


def valid_program(lines):
    """replays the spec interpreter; a program is valid if it never refers to unknown things"""
    try:
        s = proggen.spec_of(lines)
        return s
    except Exception:
        return None


def eval_case(lines, outs, oracle_names, spec=None):
    spec = spec or proggen.spec_of(lines)
    tr = O.Transcript(lines, outs)
    fails = []
    for nm in oracle_names:
        for f in O.ALL[nm](spec, tr):
            fails.append((nm, f))
    return fails, tr


def load_corpus(prop):
    out = []
    for d in ("all", prop):
        for f in sorted(glob.glob(os.path.join(CORPUS, d, "*.txt"))):
            lines = [l.rstrip("\n") for l in open(f) if l.strip() and not l.startswith("#")]
            out.append((os.path.relpath(f, C.VERIF), lines))
    return out


def run(v, tier, seed, replay, prop, lean_modules, tree_oracles, wild_oracles=("no_panic",), knobs=None, n_quick=(500, 300), n_thorough=(40000, 20000),
        known=None, assumptions=None, extra_cases=None, nontrivial=None, wild_knobs=None):
    """known: function(case_meta, failure) -> finding id or None (attribution to an open finding)"""
    lean = C.lean_check(lean_modules, tier)
    ok, err = C.cargo_build("fh-core", ["fh-seq"])
    nt, nw = n_quick if tier == "quick" else n_thorough
    r = C.Rng(seed * 1000003 + int(prop[1:]))
    cases = []   # (kind, tag, lines, oracle names)
    if replay:
        rp = json.load(open(replay))
        cases.append(("replay", replay, rp["program"], list(tree_oracles) if rp.get("stream", "tree") == "tree" else list(wild_oracles)))
        nt = nw = 0
    else:
        for tag, lines in load_corpus(prop):
            stream = "wild" if "/wild-" in tag or tag.split("/")[-1].startswith("wild-") else "tree"
            cases.append(("corpus", tag, lines, list(tree_oracles) if stream == "tree" else list(wild_oracles)))
        for tag, lines, names in (extra_cases(r.fork()) if extra_cases else []):
            cases.append(("focus", tag, lines, names))
    for i in range(nt):
        g = proggen.make(r.fork(), "tree", knobs(r, i) if knobs else None)
        cases.append(("tree", "tree-%d" % i, g.lines, list(tree_oracles)))
    for i in range(nw):
        g = proggen.make(r.fork(), "wild", wild_knobs(r, i) if wild_knobs else None)
        cases.append(("wild", "wild-%d" % i, g.lines, list(wild_oracles)))
    progs = [c[2] for c in cases]
    impl = run_impl_early(progs) if ok else None
    model = seqrun.run_model(progs)

    fails, mism, kf_hits = [], [], []
    hist, nontriv, delivered = {}, set(), 0
    if impl is not None:
        for ci, (kind, tag, lines, names) in enumerate(cases):
            if impl[ci] is None:
                continue
            outs = impl[ci]
            for l in lines:
                op = l.split()[1]
                hist[op] = hist.get(op, 0) + 1
            try:
                f, tr = eval_case(lines, outs, names)
            except Exception as ex:   # an unparsable transcript is itself a finding
                f, tr = [("transcript", "unparsable implementation transcript: %s" % ex)], None
            if tr is not None:
                nd = len(tr.delivered())
                delivered += nd
                if (nontrivial(lines, tr) if nontrivial else nd > 0):
                    nontriv.add("\n".join(lines))
            for nm, msg in f:
                kid = known(lines, nm, msg) if known else None
                if kid:
                    kf_hits.append((ci, kid, msg))
                else:
                    fails.append((ci, nm, msg))
            if model is not None and ci < len(model) and not tag.startswith("nomodel/"):
                i = seqrun.first_mismatch(outs, model[ci])
                if i is not None:
                    mism.append((ci, i))

    reported = set()
    for ci, nm, msg in fails:
        if ci in reported or len(reported) >= 3:
            continue
        reported.add(ci)
        kind, tag, lines, names = cases[ci]

        def still(cand, nm=nm, names=names):
            if valid_program(cand) is None:
                return False
            o = seqrun.run_impl([cand])[0]
            if any(x.startswith("bad-op") for x in o):
                return False
            try:
                ff, _ = eval_case(cand, o, names)
            except Exception:
                return False
            return any(a == nm for a, _ in ff)
        small = lines
        # (directed programs — corpus witnesses, focus scenarios — are reported as they are: shrinking them only drifts to a
        # different failure of the same oracle)
        if kind in ("tree", "wild") and len(lines) <= 400:
            try:
                # a call that does not return costs the whole deadline per candidate: shrink those only a little
                slow = "did not return" in msg or "died" in msg
                small = shrink(lines, still, 3 if slow else (150 if tier == "quick" else 600))
            except Exception:
                small = lines
        o = seqrun.run_impl([small])[0]
        m = (seqrun.run_model([small]) or [None])[0]
        try:
            ff, _ = eval_case(small, o, names)
            msg2 = next((b for a, b in ff if a == nm), msg)
        except Exception:
            msg2 = msg
        v.violation(msg2, {"program": small, "stream": "tree" if set(names) != set(wild_oracles) else "wild", "oracle": nm, "origin": tag,
                           "implementation_transcript": o, "model_transcript": m, "original_length": len(lines),
                           "how_to_replay": "./check %s --replay <this file>" % prop})
    if not fails:
        if not ok:
            v.violation("harness does not build against /repo: " + err, {"obligation": "fh-seq builds", "stderr": err}, found_input=False, tag="build")
        elif mism:
            ci, i = mism[0]
            kind, tag, lines, names = cases[ci]
            v.violation("model/implementation correspondence broken: %r gives %r in the implementation and %r in the model; the %s oracles found no failure in %d programs"
                        % (lines[i] if i < len(lines) else "<end>", seqrun.strip_times(impl[ci][i])[:200] if i < len(impl[ci]) else None,
                           seqrun.strip_times(model[ci][i])[:200] if i < len(model[ci]) else None, prop, len(cases)),
                        {"correspondence": "fh-seq vs fmodel seq", "program": lines, "first_mismatch_line": i, "implementation_transcript": impl[ci], "model_transcript": model[ci],
                         "mismatching_programs": len(mism)}, found_input=False, tag="corr")
        elif lean["failures"]:
            v.violation("proof obligation no longer checks: " + "; ".join(lean["failures"])[:400], {"theorem_or_obligation": lean["failures"], "searched_programs": len(cases)}, found_input=False, tag="proof")
        elif impl is None or model is None:
            v.violation("driver produced no output", {}, found_input=False, tag="driver")
    seen_k = set()
    for ci, kid, msg in kf_hits:
        if kid not in seen_k:
            seen_k.add(kid)
            v.known.append("%s %s" % (kid, msg[:300]))
    v.coverage = {
        "obligations": lean["obligations"], "discharged": lean["discharged"] if not lean["failures"] else min(lean["discharged"], lean["obligations"] - 1),
        "checker_cmd": "cd lean && lake build " + " ".join("FastraceModel.Props.%s" % m for m in lean_modules) + " FastraceModel.Props.ParamsOk && lake env lean <#print axioms of every theorem>"
                       + (" && lake env leanchecker" if tier == "thorough" else ""),
        "trusted_base": C.TRUSTED_BASE + ["python specification of the span API (tools/proggen.py Spec) used by the oracles",
                                         "rtrb ring: sequentially consistent FIFO; operations of logical threads are serialised by the harness"],
        "theorems": lean["theorems"], "axioms": lean["axioms"],
        "evaluations": len(cases), "distinct_nontrivial": len(nontriv),
        "rule": "programs over the span API from VERIF_SEED: corpus first, then a fully specified 'tree' stream (1-3 threads, roots/children/multi-parent spans, nested scopes, local spans, "
                "collectors, attachments through every route, hand-off between threads, thread exit, cycles at random density, both configurations) checked by the property oracles, "
                "and a 'wild' stream (any call sequence incl. re-entrant closures, no reporter, drops under open scopes) checked for panics; every program also runs through the Lean model. "
                "non-trivial = distinct program in which at least one record was delivered",
        "samples": [{"origin": c[1], "program": c[2][:40]} for c in cases[:2]] + ([{"origin": cases[-1][1], "program": cases[-1][2][:40]}] if cases else []),
        "traces_validated_against_impl": sum(1 for o in impl if o is not None) if impl is not None else 0,
        "op_histogram": hist, "records_delivered": delivered, "streams": {k: sum(1 for c in cases if c[0] == k) for k in ("corpus", "focus", "tree", "wild", "replay")},
        "correspondence_mismatches": len(mism), "oracle_failures": len(fails), "known_finding_hits": len(kf_hits),
    }
    v.assumptions = (assumptions or []) + ["operations are atomic at the granularity of one API call / one collector step (finer interleavings: C09 tier)",
                                           "span ids: fewer than 2^32 ids per thread, distinct thread prefixes (checked: a collision shows up as a canonicalisation mismatch)"]
    return cases, impl, model
