"""Independent msgpack decoder (oracle side)."""
import struct


class Bad(Exception):
    pass


def decode(b):
    v, i = _val(b, 0)
    if i != len(b):
        raise Bad("trailing bytes")
    return v


def _take(b, i, n):
    if i + n > len(b):
        raise Bad("truncated")
    return b[i:i + n], i + n


def _val(b, i):
    if i >= len(b):
        raise Bad("truncated")
    m = b[i]
    i += 1
    if m < 0x80:
        return m, i
    if m >= 0xe0:
        return m - 256, i
    if 0x80 <= m <= 0x8f:
        return _map(b, i, m & 0xF)
    if 0x90 <= m <= 0x9f:
        return _arr(b, i, m & 0xF)
    if 0xa0 <= m <= 0xbf:
        s, i = _take(b, i, m & 0x1F)
        return s.decode("utf-8"), i
    if m == 0xc0:
        return None, i
    fm = {0xcc: ">B", 0xcd: ">H", 0xce: ">I", 0xcf: ">Q", 0xd0: ">b", 0xd1: ">h", 0xd2: ">i", 0xd3: ">q"}
    if m in fm:
        raw, i = _take(b, i, struct.calcsize(fm[m]))
        return struct.unpack(fm[m], raw)[0], i
    if m in (0xd9, 0xda, 0xdb):
        w = {0xd9: 1, 0xda: 2, 0xdb: 4}[m]
        raw, i = _take(b, i, w)
        s, i = _take(b, i, int.from_bytes(raw, "big"))
        return s.decode("utf-8"), i
    if m in (0xdc, 0xdd):
        w = 2 if m == 0xdc else 4
        raw, i = _take(b, i, w)
        return _arr(b, i, int.from_bytes(raw, "big"))
    if m in (0xde, 0xdf):
        w = 2 if m == 0xde else 4
        raw, i = _take(b, i, w)
        return _map(b, i, int.from_bytes(raw, "big"))
    raise Bad("unsupported marker %#x" % m)


def _arr(b, i, n):
    out = []
    for _ in range(n):
        v, i = _val(b, i)
        out.append(v)
    return out, i


def _map(b, i, n):
    out = []
    for _ in range(n):
        k, i = _val(b, i)
        v, i = _val(b, i)
        out.append((k, v))
    return out, i
