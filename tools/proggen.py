"""Programs over the span API for the fh-seq tier: generator + independent specification.

`Gen` builds a flat program (lines `<thread> <op> args`) and, alongside, the *expected*
outcome computed from the API contract alone (not from the Lean model, not from the
implementation): which spans are delivered, in which trace, under which parent, with which
properties/events, when each finished, which closures run, what contexts are returned.
Spans get unique names, so delivered records are identified by name.

Two streams: `tree` (fully specified programs; strong oracles) and `wild` (any call sequence
the guard-stack discipline allows, including re-entrant closures, drops under open scopes,
calls with no reporter …; oracle = no panic + generic invariants + correspondence).
"""
import common as C

QUEUE_CAP = 10240
STACK_CAP = 4096


def hx(s):
    return s.encode("utf-8").hex() if s else "-"


def wprops(p):
    return "&".join("%s=%s" % (hx(k), hx(v)) for k, v in p) if p else "_"


class Spec:
    """expected outcome of a program, tracked op by op"""

    def __init__(self):
        self.handle_attached = {}    # root key -> positions of attachments made through span handles (each parks at most one item)
        self.reporter = False
        self.cancelable = False
        self.spans = {}       # var -> None | dict
        self.lspans = {}      # var -> list of entries
        self.threads = {}     # t -> {"guards": [...], "scopes": [...], "alive": bool, "touched": bool}
        self.traces = {}      # root_key -> dict(trace, sampled, cancelled, commit_pos)
        self.expected = []    # expected delivered records
        self.ctx_obs = []     # (pos, expected ctx | None)
        self.closure_obs = []
        self.elapsed_obs = []   # (position, is the span recording?)  # (pos, expected invoked)
        self.nroots = 0
        self.pos = 0
        self.unspecified = set()   # names of records whose attachments are not specified
        self.adapters = {}
        self.lorphans = {}    # var -> attachments recorded in a collector scope with no local span open

    def th(self, t):
        return self.threads.setdefault(t, {"guards": [], "scopes": [], "alive": True, "touched": False})

    # -- helpers
    def issue(self, sp):
        return [dict(it, parent=("span", sp["name"])) for it in sp["items"]]

    def top(self, t):
        sc = self.th(t)["scopes"]
        return sc[-1] if sc else None

    def cur_token(self, t):
        s = self.top(t)
        if s is None or s["kind"] != "parent":
            return None
        par = ("span", s["open"][-1]["name"]) if s["open"] else None
        return [dict(it, parent=par or it["parent"]) for it in s["items"]]

    def ctx_of_items(self, items):
        if not items:
            return None
        it = items[0]
        return (it["trace"], it["parent"], it["sampled"])

    def deliver(self, name, item, parent, props, events, kind, born=None, fin=None):
        tr = self.traces.get(item["root"])
        if tr is not None and tr["commit_pos"] is not None:
            # finished after its trace's root: delivered (default configuration) but its attachments are not specified (C06)
            self.unspecified.add(name)
        self.expected.append({"name": name, "trace": item["trace"], "parent": parent, "props": list(props),
                              "events": list(events), "root": item["root"], "fin": self.pos if fin is None else fin, "kind": kind, "born": born})

    def close_guard(self, t, g):
        th = self.th(t)
        if g[0] == "local":
            e = g[1]
            if e is not None:
                sc = g[2]
                sc["open"].pop()
                e["closed"] = self.pos
        elif g[0] == "scope":
            sc = g[1]
            if sc is not None:
                th["scopes"].pop()
                for it in sc["items"]:
                    if not it["sampled"]:
                        continue
                    for e in sc["entries"]:
                        self.deliver(e["name"], it, e["parent"] or it["parent"], e["props"], e["events"], "local", born=e["born"], fin=None)
                        self.expected[-1]["closed"] = e["closed"]
                        self.expected[-1]["groups"] = self.local_groups(e)
                    # attachments made with no local span open go to the span set as local parent
                    owner = sc["owner"]
                    for a in sc["to_owner"]:
                        owner["attached"].append((it["root"], a, ("local", t)))
        elif g[0] == "coll":
            if g[1] is not None:
                th["scopes"].pop()

    # ---------------------------------------------------------------- interpreter
    def touch(self, t):
        self.th(t)["touched"] = True

    def new_span(self, v, name, items, root_key=None):
        self.spans[v] = {"name": name, "items": items, "root_key": root_key, "props": [], "events": [], "attached": [], "var": v, "born": self.pos}

    def apply(self, line, pos):
        """updates the expectation with one program line (`<thread> <op> args`)"""
        self.pos = pos
        w = line.split()
        t, op, a = int(w[0]), w[1], w[2:]
        th = self.th(t)
        # a background operation takes effect where the program waits for it (`bgEnd`): the programs that use them
        # start them where the call blocks (a thread's first use of its channel while a drain is in progress)
        if op in ("bgBegin", "bgAfter"):
            if not hasattr(self, "bg"):
                self.bg = {}
            self.bg[t] = " ".join(a if op == "bgBegin" else a[1:])
            return
        if op == "bgEnd":
            return self.apply("%d %s" % (t, self.bg.pop(t)), pos)
        # an `Event` built earlier (`evNew`, not a tracing call) and attached now is an event attached now
        if op == "evNew":
            return
        # the span name is a user value whose conversion uses the tracing API (wild stream: only panics are judged)
        if op == "localEnterRe":
            op = "localEnter"
        elif op == "childLocalRe":
            op = "childLocal"
        if op == "decodeTp":
            return
        if op == "dropLocalSpans":
            self.lspans.pop(a[0], None)
            self.lorphans.pop(a[0], None)
            return
        if op == "pushChildLast":
            # the caller's last handle of the set is moved into the call: pushed as by `pushChild`, the variable is gone
            self.apply("%d pushChild %s %s" % (t, a[0], a[1]), pos)
            if a[0] in self.spans:
                self.lspans.pop(a[1], None)
                self.lorphans.pop(a[1], None)
            return
        if op == "lAddEventPre":
            op, a = "lAddEvent", a[1:]
        elif op == "addEventPre":
            op, a = "addEvent", [a[0]] + a[2:]
        if op == "setReporter":
            self.reporter = True
            self.cancelable = a[0] == "1"
        elif op == "spawn":
            pass
        elif op == "touch":
            self.touch(t)
        elif op == "root":
            v, name, trace, span, sampled = a[0], unhx(a[1]), int(a[2], 16), int(a[3], 16), a[4] == "1"
            if not self.reporter:
                self.spans[v] = None
                return
            key = "c%d" % self.nroots if sampled else "U"
            if sampled:
                self.nroots += 1
                self.traces[key] = {"trace": trace, "sampled": True, "cancelled": False, "commit_pos": None, "start_pos": pos, "thread": t}
                self.touch(t)
            self.new_span(v, name, [{"trace": trace, "parent": ("remote", span), "root": key, "sampled": sampled}], key)
        elif op in ("rootFrom", "rootFromLocal"):
            # a root created from an extracted context: it continues that trace under that span (C11)
            v, name = a[0], unhx(a[1])
            if op == "rootFrom":
                src = self.spans[a[2]]
                it0 = src["items"][0] if src is not None and src["items"] else None
                parent = ("span", src["name"]) if it0 is not None else None
            else:
                tok = self.cur_token(t)
                it0 = tok[0] if tok else None
                parent = it0["parent"] if it0 is not None else None
            if it0 is None:
                raise ValueError("no context to create the root from")
            if not self.reporter:
                self.spans[v] = None
                return
            sampled = it0["sampled"]
            key = "c%d" % self.nroots if sampled else "U"
            if sampled:
                self.nroots += 1
                self.traces[key] = {"trace": it0["trace"], "sampled": True, "cancelled": False, "commit_pos": None, "start_pos": pos, "thread": t}
                self.touch(t)
            self.new_span(v, name, [{"trace": it0["trace"], "parent": parent, "root": key, "sampled": sampled}], key)
        elif op == "child1":
            v, name, p = a[0], unhx(a[1]), a[2]
            ps = self.spans[p]
            if ps is None:
                self.spans[v] = None
            else:
                self.new_span(v, name, self.issue(ps))
        elif op == "childN":
            v, name = a[0], unhx(a[1])
            items = []
            for p in ([] if a[2] == "_" else a[2].split(",")):
                if self.spans[p] is not None:
                    items += self.issue(self.spans[p])
            if items:
                self.new_span(v, name, items)
            else:
                self.spans[v] = None      # derived only from no-op spans: a no-op span (D16)
        elif op == "childLocal":
            v, name = a[0], unhx(a[1])
            tok = self.cur_token(t)
            if tok is None:
                self.spans[v] = None
            else:
                self.new_span(v, name, tok)
        elif op == "withProps":
            sp = self.spans[a[0]]
            kvs = rprops(a[1].split(":", 1)[1])
            self.closure_obs.append((pos, sp is not None))
            if sp is not None:
                sp["props"] += kvs
        elif op == "addProps":
            sp = self.spans[a[0]]
            kvs = rprops(a[1].split(":", 1)[1])
            self.closure_obs.append((pos, sp is not None))
            if sp is not None:
                for it in sp["items"]:
                    if it["sampled"]:
                        self.touch(t)
                        sp["attached"].append((it["root"], ("props", kvs), ("handle", t)))
                        self.handle_attached.setdefault(it["root"], []).append(pos)
        elif op == "addEvent":
            sp = self.spans[a[0]]
            name = unhx(a[1])
            props = [] if a[2] == "none" else rprops(a[2])
            if sp is not None:
                for it in sp["items"]:
                    if it["sampled"]:
                        self.touch(t)
                        sp["attached"].append((it["root"], ("event", name, props), ("handle", t)))
                        self.handle_attached.setdefault(it["root"], []).append(pos)
        elif op == "drop":
            self.drop_record(t, self.spans.pop(a[0]), pos)
        elif op == "cancel":
            sp = self.spans[a[0]]
            if sp is not None and sp["root_key"]:
                self.touch(t)
                if sp["root_key"] != "U" and self.cancelable:
                    self.traces[sp["root_key"]]["cancelled"] = True
        elif op == "elapsed":
            self.elapsed_obs.append((pos, self.spans[a[0]] is not None))
        elif op == "ctxOf":
            sp = self.spans[a[0]]
            exp = None
            if sp is not None and sp["items"]:
                it = sp["items"][0]
                exp = (it["trace"], ("span", sp["name"]), it["sampled"])
            self.ctx_obs.append((pos, exp))
        elif op == "ctxLocal":
            tok = self.cur_token(t)
            self.ctx_obs.append((pos, self.ctx_of_items(tok) if tok else None))
        elif op == "scope":
            self.open_scope(t, self.spans[a[0]])
        elif op == "collectorStart":
            if len(th["scopes"]) >= STACK_CAP:
                th["guards"].append(("coll", None))
                return
            sc = {"kind": "coll", "items": [], "sampled": True, "open": [], "entries": [], "qlen": 0, "owner": None, "to_owner": []}
            th["scopes"].append(sc)
            th["guards"].append(("coll", sc))
        elif op == "localEnter":
            name = unhx(a[0])
            sc = self.top(t)
            if sc is None or not sc["sampled"] or sc["qlen"] >= QUEUE_CAP:
                th["guards"].append(("local", None, None))
                return
            e = {"name": name, "parent": ("span", sc["open"][-1]["name"]) if sc["open"] else None, "props": [], "events": [], "born": pos, "closed": None}
            sc["entries"].append(e)
            sc["qlen"] += 1
            sc["open"].append(e)
            th["guards"].append(("local", e, sc))
        elif op == "close":
            g = th["guards"].pop()
            self.close_guard(t, g)
            if g[0] == "scope" and g[1] is not None and g[1]["sampled"]:
                self.touch(t)
        elif op == "collect":
            g = th["guards"].pop()
            ents = []
            if g[1] is not None:
                th["scopes"].pop()
                ents = g[1]["entries"]
                self.lorphans[a[0]] = list(g[1].get("orphans", []))
            self.lspans[a[0]] = ents
        elif op in ("closeUnder", "collectUnder"):
            # the scope / collector guard beneath still-open local spans is released first: those spans are
            # closed at this instant (C17), their guards become inert
            i = len(th["guards"]) - 1
            while i >= 0 and th["guards"][i][0] == "local":
                i -= 1
            if i < 0 or th["guards"][i][1] is None or len(th["scopes"]) != 1:
                raise ValueError("closeUnder: no real scope under the open local spans, or not the only span line")
            g = th["guards"].pop(i)
            if op == "collectUnder" and g[0] != "coll":
                raise ValueError("collectUnder: not a collector")
            for j in range(i, len(th["guards"])):
                lg = th["guards"][j]
                if lg[1] is not None:
                    lg[1]["closed"] = pos
                th["guards"][j] = ("local", None, "stale")
            g[1]["open"].clear()
            if op == "closeUnder":
                self.close_guard(t, g)
                if g[0] == "scope" and g[1]["sampled"]:
                    self.touch(t)
            else:
                th["scopes"].pop()
                self.lspans[a[0]] = g[1]["entries"]
                self.lorphans[a[0]] = list(g[1].get("orphans", []))
        elif op == "lWithProps":
            kvs = rprops(a[0].split(":", 1)[1])
            g = th["guards"][-1]
            if g[2] == "stale":
                raise ValueError("lWithProps on a local span whose scope has ended")
            self.closure_obs.append((pos, g[1] is not None))
            if g[1] is not None:
                g[1]["props"] += kvs
                g[1].setdefault("own_props", []).extend(kvs)
        elif op == "lWithPropsAt":
            # the local span that is the k-th guard from the top (newer scopes may be open): its own properties
            k = int(a[0])
            kvs = rprops(a[1].split(":", 1)[1])
            g = th["guards"][-1 - k]
            if g[0] != "local" or g[2] == "stale":
                raise ValueError("lWithPropsAt: guard is not an open local span")
            self.closure_obs.append((pos, g[1] is not None))
            if g[1] is not None:
                g[1]["props"] += kvs
                g[1].setdefault("own_props", []).extend(kvs)
        elif op == "lAddProps":
            kvs = rprops(a[0].split(":", 1)[1])
            sc = self.top(t)
            rec = sc is not None and sc["sampled"]
            self.closure_obs.append((pos, rec))
            if rec and sc["qlen"] < QUEUE_CAP:
                sc["qlen"] += 1
                self.attach_local(sc, ("props", kvs))
        elif op == "evToLocal":
            # deprecated Event::add_to_local_parent(name, closure): the closure runs only when a local parent is recording
            sc = self.top(t)
            rec = sc is not None and sc["sampled"]
            self.closure_obs.append((pos, rec))
            if rec:
                self.apply("%d lAddEvent %s %s" % (t, a[0], a[1].split(":", 1)[1] or "none"), pos)
        elif op == "evToParent":
            # deprecated Event::add_to_parent(name, &span, closure): the closure runs only when the span is recording
            sp = self.spans[a[0]]
            self.closure_obs.append((pos, sp is not None))
            if sp is not None:
                self.apply("%d addEvent %s %s %s" % (t, a[0], a[1], a[2].split(":", 1)[1] or "none"), pos)
        elif op == "lAddEvent":
            name = unhx(a[0])
            props = [] if a[1] == "none" else rprops(a[1])
            sc = self.top(t)
            if sc is not None and sc["sampled"] and sc["qlen"] < QUEUE_CAP:
                sc["qlen"] += 1
                self.attach_local(sc, ("event", name, props))
        elif op == "pushChild":
            sp = self.spans[a[0]]
            ents = self.lspans[a[1]]
            orphans = self.lorphans.get(a[1], [])
            if sp is None or not (ents or orphans):
                return
            # events / properties recorded in the collector's scope with no local span open attach to the span
            # the set is pushed to (once per sampled parent trace of that span)
            for it in sp["items"]:
                if it["sampled"]:
                    for o in orphans:
                        sp["attached"].append((it["root"], o, ("pushed", t)))
            if not ents:
                if any(it["sampled"] for it in sp["items"]):
                    self.touch(t)
                return
            for it in self.issue(sp):
                if it["sampled"]:
                    self.touch(t)
                    for e in ents:
                        self.deliver(e["name"], it, e["parent"] or it["parent"], e["props"], e["events"], "pushed", born=e["born"])
                        self.expected[-1]["closed"] = e["closed"]
                        self.expected[-1]["groups"] = self.local_groups(e)
        elif op == "unwindLocals":
            # a caught panic unwinds through the local spans above the innermost scope: they end as by `close`
            while th["guards"] and th["guards"][-1][0] == "local":
                self.close_guard(t, th["guards"].pop())
        elif op == "unwind":
            while th["guards"]:
                g = th["guards"].pop()
                self.close_guard(t, g)
                if g[0] == "scope" and g[1] is not None and g[1]["sampled"]:
                    self.touch(t)
        elif op == "exit":
            while th["guards"]:
                g = th["guards"].pop()
                self.close_guard(t, g)
                if g[0] == "scope" and g[1] is not None and g[1]["sampled"]:
                    self.touch(t)
            th["alive"] = False
        elif op == "spam":
            if self.reporter:
                self.touch(t)
        elif op == "adNew":
            name, kind, arg = a[0], a[1], a[2]
            if kind == "enterOnPoll":
                self.adapters[name] = {"kind": kind, "name": unhx(arg), "held": False, "span": None, "call": None}
            else:
                self.adapters[name] = {"kind": kind, "held": True, "span": self.spans.pop(arg), "call": None}
        elif op == "adPoll":
            ad = self.adapters[a[0]]
            ad["call"] = a[1]
            if ad["kind"] == "enterOnPoll":
                self.apply("%d localEnter %s" % (t, hx(ad["name"])), pos)
            elif ad["held"]:
                self.open_scope(t, ad["span"])
            else:
                th["guards"].append(("scope", None))
        elif op == "adEnd":
            ad = self.adapters[a[0]]
            self.apply("%d close" % t, pos)
            if ad_finishes(ad["kind"], ad["call"], a[1]) and ad["held"]:
                ad["held"] = False
                self.drop_record(t, ad["span"], pos)
            ad["call"] = None
        elif op == "adDrop":
            ad = self.adapters.pop(a[0])
            if ad["held"]:
                self.drop_record(t, ad["span"], pos)
        # toRecords, cycle, flush, cycBegin, cycStep, stats, cycleAtPush, inlineReport, procstats, tlsProbe: no effect on the expectation

    @staticmethod
    def local_groups(e):
        """a local span's own `with_properties` calls, and what was attached through the local parent while it was
        the innermost open span: each keeps its order (one thread, one route)"""
        return {("local-own", None): {"props": list(e.get("own_props", [])), "events": []},
                ("local-span", None): {"props": list(e.get("att_props", [])), "events": list(e["events"])}}

    def attach_local(self, sc, a):
        if sc["open"]:
            e = sc["open"][-1]
            if a[0] == "props":
                e["props"] += a[1]
                e.setdefault("att_props", []).extend(a[1])
            else:
                e["events"].append((a[1], a[2]))
        elif sc["kind"] == "parent":
            sc["to_owner"].append(a)
            # C06 fixes the order of attachments by the moment they were *made*; they travel when the scope ends
            self.att_seq = getattr(self, "att_seq", {})
            self.att_seq[id(a)] = len(self.att_seq) + 1
        else:
            sc.setdefault("orphans", []).append(a)   # collector scope, no local open: parent id 0

    def open_scope(self, t, sp):
        th = self.th(t)
        if sp is None or len(th["scopes"]) >= STACK_CAP:
            th["guards"].append(("scope", None))
            return
        sc = {"kind": "parent", "items": self.issue(sp), "sampled": any(it["sampled"] for it in sp["items"]),
              "open": [], "entries": [], "qlen": 0, "owner": sp, "to_owner": []}
        th["scopes"].append(sc)
        th["guards"].append(("scope", sc))

    def drop_record(self, t, sp, pos):
        if sp is None:
            return
        for it in sp["items"]:
            if it["sampled"]:
                self.touch(t)
                att = [(x, tag) for (rk, x, tag) in sp["attached"] if rk == it["root"]]
                props = list(sp["props"])
                events = []
                # order is specified per route and thread (C06): the span's own properties, then one group per
                # (route, thread) of later attachments
                groups = {("own", None): {"props": list(sp["props"]), "events": []}}
                seqs = getattr(self, "att_seq", {})
                for x, tag in att:
                    g = groups.setdefault(tag, {"props": [], "events": [], "pseq": [], "eseq": []})
                    if x[0] == "props":
                        props += x[1]
                        g["props"] += x[1]
                        g["pseq"] += [seqs.get(id(x), 0)] * len(x[1])
                    else:
                        events.append((x[1], x[2]))
                        g["events"].append((x[1], x[2]))
                        g["eseq"].append(seqs.get(id(x), 0))
                # the local route: the property speaks of the order in which the attachments were made.  They arrive in the
                # order in which their scopes ended, which differs when scopes of the same span are nested (D23)
                reordered = False
                for tag, g in groups.items():
                    if tag[0] != "local":
                        continue
                    for items, sq in (("props", "pseq"), ("events", "eseq")):
                        order = sorted(range(len(g[items])), key=lambda i: g[sq][i])
                        if order != list(range(len(order))):
                            g[items] = [g[items][i] for i in order]
                            reordered = True
                self.deliver(sp["name"], it, it["parent"], props, events, "span", born=sp["born"])
                self.expected[-1]["closed"] = pos
                self.expected[-1]["groups"] = groups
                self.expected[-1]["nested_same_owner"] = reordered
        if sp["root_key"]:
            self.touch(t)
            if sp["root_key"] != "U":
                tr = self.traces[sp["root_key"]]
                tr["commit_pos"] = pos
                tr["commit_thread"] = t


def ad_finishes(kind, call, result):
    return (kind == "inSpan" and call == "poll" and result != "pending") or \
           (kind == "stream" and call == "poll_next" and result == "none") or \
           (kind == "sink" and call == "poll_close" and result != "pending")


def spec_of(lines):
    """the expectation for a whole program (used for replay files, corpus and shrinking)"""
    s = Spec()
    for i, l in enumerate(lines):
        s.apply(l, i)
    return s


def unhx(h):
    return "" if h == "-" else bytes.fromhex(h).decode("utf-8")


def rprops(s):
    if s == "_":
        return []
    return [tuple(unhx(x) for x in kv.split("=")) for kv in s.split("&")]


class Gen:
    def __init__(self, rng, mode="tree", knobs=None):
        self.r = rng
        self.mode = mode
        self.k = dict(threads=1 + rng.below(3), ops=10 + rng.below(60), cycle_density=rng.below(4), cancelable=rng.chance(1, 2),
                      unsampled=rng.chance(1, 4), multi=rng.chance(1, 3), same_trace_multi=False, exits=rng.chance(1, 3),
                      late_reporter=rng.chance(1, 12), no_reporter=rng.chance(1, 25), adapters=False, late_children=rng.chance(1, 3))
        if knobs:
            self.k.update(knobs)
        if self.k.get("remote_children"):
            # roots created from extracted contexts share a trace id with another root; multi-parent spans over such
            # roots would have several copies with equal (name, trace, parent), which the oracles cannot tell apart
            self.k["multi"] = False
        self.s = Spec()
        self.lines = []
        self.evpool = {}
        self.n = 0
        self.vars = 0
        self.trace_ctr = 0
        self.pushed = {}
        self.calls = {}      # thread -> [(adapter, guard depth at entry)]
        self.done_ads = set()
        self.nad = 0
        self.reserve = []     # spawned threads that make no tracing call until a cycle is in its report phase
        self.step = None      # collector steps left in the stepped cycle in progress
        self.registered = 0   # receivers in the registry (stepped mode: every thread is registered explicitly)

    # ------------------------------------------------------------------ emit
    def emit(self, t, text):
        line = "%d %s" % (t, text)
        self.lines.append(line)
        self.s.apply(line, len(self.lines) - 1)

    def name(self, pfx="s"):
        self.n += 1
        return "%s%d" % (pfx, self.n)

    def var(self):
        self.vars += 1
        return "v%d" % self.vars

    def kvs(self, maxn=2):
        out = []
        for _ in range(self.r.below(maxn + 1)):
            out.append((self.r.pick(["k", "key", "a", "é", "", "x.y"]), self.r.pick(["v", "", "1", "日本", "val ue", "&=|@,~"])))
        return out

    def closure(self):
        re = 0
        if self.mode == "wild" and self.r.chance(1, 3):
            re = 1 + self.r.below(5)
        return "%d:%s" % (re, wprops(self.kvs()))

    def live_threads(self):
        return [t for t, th in self.s.threads.items() if th["alive"] and t not in self.reserve]

    # ------------------------------------------------------------------ ops (the expectation is updated by Spec.apply)
    def op_set_reporter(self):
        self.emit(0, "setReporter %d" % (1 if self.k["cancelable"] else 0))

    def op_spawn(self, t):
        self.emit(t, "spawn")

    def op_touch(self, t):
        self.emit(t, "touch")

    def op_root(self, t, sampled=True, ctx=None):
        v, name = self.var(), self.name("r")
        if ctx is None:
            self.trace_ctr += 1
            trace = self.r.pick([self.trace_ctr, (self.trace_ctr << 64) | self.r.next(), (1 << 128) - self.trace_ctr])
            span = self.r.pick([0, self.r.below(1000), (1 << 63) | self.r.next()])
        else:
            trace, span = ctx
        self.emit(t, "root %s %s %x %x %d" % (v, hx(name), trace, span, 1 if sampled else 0))
        return v

    def op_root_from(self, t, p):
        v = self.var()
        self.emit(t, "rootFrom %s %s %s %s" % (v, hx(self.name("r")), p, self.r.pick(["direct", "tp"])))
        return v

    def op_root_from_local(self, t):
        v = self.var()
        self.emit(t, "rootFromLocal %s %s %s" % (v, hx(self.name("r")), self.r.pick(["direct", "tp"])))
        return v

    def op_child1(self, t, p):
        v = self.var()
        self.emit(t, "child1 %s %s %s" % (v, hx(self.name()), p))
        return v

    def op_childN(self, t, ps):
        v = self.var()
        self.emit(t, "childN %s %s %s" % (v, hx(self.name()), ",".join(ps) if ps else "_"))
        return v

    def op_child_local(self, t):
        v = self.var()
        re = "Re" if (self.mode == "wild" or self.k.get("re_names")) and self.r.chance(1, 6) else ""
        self.emit(t, "childLocal%s %s %s" % (re, v, hx(self.name())))
        return v

    def op_with_props(self, t, v):
        self.emit(t, "withProps %s %s" % (v, self.closure()))

    def op_add_props(self, t, v):
        self.emit(t, "addProps %s %s" % (v, self.closure()))

    def maybe_prebuild(self, t):
        """knob `prebuilt`: an `Event` value is built here (before a span is entered) and attached by a later call"""
        if self.k.get("prebuilt") and self.r.chance(1, 3):
            props = None if self.r.chance(1, 3) else self.kvs()
            e = "ev%d" % (len(self.lines))
            txt = "%s %s" % (hx(self.name("e")), "none" if props is None else wprops(props))
            self.emit(t, "evNew %s %s" % (e, txt))
            self.evpool.setdefault(t, []).append((e, txt))

    def pooled(self, t):
        pool = self.evpool.get(t)
        if pool and self.r.chance(2, 3):
            return pool.pop(self.r.below(len(pool)))
        return None

    def op_add_event(self, t, v):
        if self.k.get("deprecated_events") and self.r.chance(1, 3):
            self.emit(t, "evToParent %s %s 0:%s" % (v, hx(self.name("e")), wprops(self.kvs())))
            return
        pre = self.pooled(t)
        if pre:
            self.emit(t, "addEventPre %s %s %s" % (v, pre[0], pre[1]))
            return
        props = None if self.r.chance(1, 3) else self.kvs()
        self.emit(t, "addEvent %s %s %s" % (v, hx(self.name("e")), "none" if props is None else wprops(props)))

    def op_drop(self, t, v):
        self.emit(t, "drop %s" % v)

    def op_cancel(self, t, v):
        self.emit(t, "cancel %s" % v)

    def op_elapsed(self, t, v):
        self.emit(t, "elapsed %s" % v)

    def op_ctx_of(self, t, v):
        self.emit(t, "ctxOf %s" % v)

    def op_ctx_local(self, t):
        self.emit(t, "ctxLocal")

    def op_scope(self, t, v):
        self.maybe_prebuild(t)
        self.emit(t, "scope %s" % v)

    def op_collector(self, t):
        self.emit(t, "collectorStart")

    def op_local_enter(self, t):
        self.maybe_prebuild(t)
        re = "Re" if (self.mode == "wild" or self.k.get("re_names")) and self.r.chance(1, 6) else ""
        self.emit(t, "localEnter%s %s" % (re, hx(self.name("l"))))

    def op_close(self, t):
        self.emit(t, "close")

    def op_collect(self, t):
        x = "x%d" % (len(self.s.lspans) + 1)
        self.emit(t, "collect %s" % x)
        return x

    def op_close_under(self, t):
        self.emit(t, "closeUnder")

    def op_collect_under(self, t):
        x = "x%d" % (len(self.s.lspans) + 1)
        self.emit(t, "collectUnder %s" % x)
        return x

    def under(self, t):
        """the real scope / collector guard under the open local spans on top of thread t's guard stack, when
        releasing it first is specified (it is the thread's only span line and no adapter call is in progress)"""
        th = self.s.th(t)
        g = th["guards"]
        if not self.k.get("open_at_close") or self.calls.get(t) or len(th["scopes"]) != 1 or not g or g[-1][0] != "local":
            return None
        i = len(g) - 1
        while i >= 0 and g[i][0] == "local":
            i -= 1
        if i < 0 or g[i][1] is None:
            return None
        return g[i]

    def op_unwind(self, t):
        self.emit(t, "unwind")

    def op_unwind_locals(self, t):
        self.emit(t, "unwindLocals")

    def op_l_with_props(self, t):
        self.emit(t, "lWithProps %s" % self.closure())

    def op_l_add_props(self, t):
        self.emit(t, "lAddProps %s" % self.closure())

    def op_l_add_event(self, t):
        if self.k.get("deprecated_events") and self.r.chance(1, 3):
            self.emit(t, "evToLocal %s 0:%s" % (hx(self.name("e")), wprops(self.kvs())))
            return
        pre = self.pooled(t)
        if pre:
            self.emit(t, "lAddEventPre %s %s" % (pre[0], pre[1]))
            return
        props = None if self.r.chance(1, 3) else self.kvs()
        self.emit(t, "lAddEvent %s %s" % (hx(self.name("e")), "none" if props is None else wprops(props)))

    def op_decode_tp(self, t):
        """a traceparent header as it may come from the network: well-formed, or of the right length with a multi-byte
        character at a random byte offset, or garbage"""
        r = self.r
        good = "00-%032x-%016x-%02x" % (r.below(1 << 62) * 7 + 1, r.below(1 << 62) + 1, r.below(2))
        k = r.below(4)
        if k == 0:
            text = good
        elif k == 1:
            ch = r.pick(["é", "€", "日", "😀", "ß"])
            b = good.encode()
            n = len(ch.encode())
            at = 1 + r.below(len(b) - n - 1)
            text = (b[:at].decode() + ch + b[at + n:].decode())
        elif k == 2:
            text = good[:r.below(len(good))] + r.pick(["", "-", "+", "é", "0x", " "]) + good[r.below(len(good)):]
        else:
            text = "".join(r.pick(list("0123456789abcdefABCDEF-+ x€é")) for _ in range(r.below(70)))
        self.emit(t, "decodeTp %s" % hx(text))

    def op_drop_local_spans(self, t, x):
        self.emit(t, "dropLocalSpans %s" % x)

    def op_push_child(self, t, v, x):
        last = self.k.get("move_sets") and self.r.chance(1, 3)
        self.emit(t, "pushChild%s %s %s" % ("Last" if last else "", v, x))

    def op_to_records(self, t, x):
        self.emit(t, "toRecords %s %x %x" % (x, 1 + self.r.below(5), self.r.below(50)))

    def op_cycle(self):
        self.emit(0, self.r.pick(["cycle", "cycle", "cycle", "flush"]))
        if self.k.get("overload") and self.s.reporter and self.r.chance(1, 3):
            self.op_fill()

    def op_fill(self):
        """overload: one live thread's command queue is filled to within a few slots of its capacity (or a little
        beyond: the surplus finish signals are parked), so that the calls that follow fall on a full queue"""
        lt = self.live_threads()
        if lt:
            self.emit(self.r.pick(lt), "spam %d" % (QUEUE_CAP - 6 + self.r.below(10)))

    def op_stats(self):
        self.emit(0, "stats")

    def op_exit(self, t):
        self.emit(t, "exit")

    # adapters (C13 / C14)
    CALLS = {"inSpan": ["poll"], "enterOnPoll": ["poll"], "stream": ["poll_next"],
             "sink": ["poll_ready", "start_send", "poll_flush", "poll_close"]}
    RESULTS = {"poll": ["pending", "ready"], "poll_next": ["pending", "item", "item_last", "none"], "poll_ready": ["pending", "ready", "err"],
               "start_send": ["ready", "err"], "poll_flush": ["pending", "ready", "err"], "poll_close": ["pending", "ready", "err"]}

    def op_ad_new(self, t, kind, arg):
        self.nad += 1
        a = "a%d" % self.nad
        self.emit(t, "adNew %s %s %s" % (a, kind, arg))
        return a

    def op_ad_poll(self, t, a):
        ad = self.s.adapters[a]
        call = self.r.pick(self.CALLS[ad["kind"]])
        self.calls.setdefault(t, []).append((a, len(self.s.th(t)["guards"])))
        self.emit(t, "adPoll %s %s" % (a, call))

    def op_ad_end(self, t):
        a, _ = self.calls[t].pop()
        ad = self.s.adapters[a]
        res = self.r.pick(self.RESULTS[ad["call"]])
        if ad_finishes(ad["kind"], ad["call"], res) and ad["held"] and not self.can_finish(ad["span"]):
            res = "pending" if "pending" in self.RESULTS[ad["call"]] else "ready"
            if ad_finishes(ad["kind"], ad["call"], res):
                res = self.RESULTS[ad["call"]][0]
        self.emit(t, "adEnd %s %s" % (a, res))
        if ad_finishes(ad["kind"], ad["call"] or "", res) or not self.s.adapters[a]["held"] and ad["kind"] != "enterOnPoll" and res != "pending":
            self.done_ads.add(a)

    def op_ad_drop(self, t, a):
        self.emit(t, "adDrop %s" % a)

    def in_call_top(self, t):
        """the adapter call whose guard is the most recent guard of thread t, if any"""
        c = self.calls.get(t) or []
        if c and len(self.s.th(t)["guards"]) == c[-1][1] + 1:
            return c[-1][0]
        return None

    def busy_ads(self):
        return set(a for cs in self.calls.values() for a, _ in cs)

    def can_finish(self, sp):
        """like can_drop, for a span held by an adapter"""
        if sp is None:
            return True
        if sp["var"] in self.scoped_owners_rec(exclude_top_of_call=True):
            return False
        if sp["root_key"] and sp["root_key"] != "U":
            key = sp["root_key"]
            for w, o in self.s.spans.items():
                if o is not None and any(it["root"] == key for it in o["items"]):
                    return False
            for b, ad in self.s.adapters.items():
                if ad["held"] and ad["span"] is not None and ad["span"] is not sp and any(it["root"] == key for it in ad["span"]["items"]):
                    return False
            n = 0
            for th in self.s.threads.values():
                for sc in th["scopes"]:
                    if any(it["root"] == key for it in sc["items"]):
                        n += 1
            if n > 1:      # only the adapter's own scope may be open
                return False
        return True

    def scoped_owners_rec(self, exclude_top_of_call=False):
        out = {}
        for th in self.s.threads.values():
            for sc in th["scopes"]:
                if sc["owner"] is not None:
                    out[sc["owner"]["var"]] = out.get(sc["owner"]["var"], 0) + 1
        return set(v for v, n in out.items() if n > (1 if exclude_top_of_call else 0))

    # ------------------------------------------------------------------ program shapes
    def prologue(self):
        nt = self.k["threads"]
        for t in range(nt):
            self.op_spawn(t)
        if self.k.get("stepped"):
            # stepped collector cycles with operations falling between the steps: every thread registers its queue up
            # front (a first use during a drain blocks on the registry lock, by design), two more threads are held back
            # for the report phase, when the lock is free again
            self.k["exits"] = False
            for t in range(nt):
                self.op_touch(t)
            self.registered = nt
            for t in range(nt, nt + 2):
                self.op_spawn(t)
                self.reserve.append(t)
        if not self.k["no_reporter"] and not self.k["late_reporter"]:
            self.op_set_reporter()
            if self.k.get("overload"):
                self.op_fill()
                if nt > 1 and self.r.chance(1, 3):
                    self.op_fill()

    def step_blocks_roots(self, t):
        return False

    def begin_step(self):
        self.emit(0, "cycBegin")
        self.step = 3 * self.registered + 1      # first pass: rx / empty per receiver; second pass: rx2 per receiver; then the report

    def advance_step(self, force=False):
        if not force and not self.r.chance(1, 2):
            return
        if self.step == 1 and self.reserve and self.r.chance(2, 3):
            # every receiver has been visited: the cycle is post-processing / reporting and no longer holds the
            # registry lock — a thread makes its first tracing call now
            t = self.reserve.pop(0)
            if self.r.chance(1, 2):
                self.op_touch(t)
            self.op_root(t, True)
            self.registered += 1
        flush = self.step == 1 and self.k.get("stepped_flush") and self.r.chance(1, 2)
        if flush:
            # flush() is called while the cycle is reporting: it waits for that cycle and then runs its own, so what
            # finished before the call is delivered when it returns
            self.emit(0, "flushBegin")
        self.emit(0, "cycStep")
        if flush:
            self.emit(0, "flushEnd")
        self.step -= 1
        if self.step == 0:
            self.step = None

    def finish_step(self):
        while self.step is not None:
            self.advance_step(force=True)

    def epilogue(self, drop_all=True):
        s = self.s
        self.finish_step()
        for t in list(self.live_threads()):
            while s.th(t)["guards"]:
                if self.in_call_top(t) is not None:
                    a, _ = self.calls[t].pop()
                    self.emit(t, "adEnd %s pending" % a if "pending" in self.RESULTS[s.adapters[a]["call"]] else "adEnd %s err" % a)
                else:
                    self.op_close(t)
        if drop_all:
            lt = self.live_threads() or [0]
            # adapters holding non-root spans first, then those holding roots
            order = sorted(s.adapters, key=lambda a: 1 if (s.adapters[a]["held"] and s.adapters[a]["span"] and s.adapters[a]["span"]["root_key"]) else 0)
            nonroot = [a for a in order if not (s.adapters[a]["held"] and s.adapters[a]["span"] and s.adapters[a]["span"]["root_key"])]
            for a in nonroot:
                self.op_ad_drop(self.r.pick(lt), a)
            self.root_ads = [a for a in order if a not in nonroot]
        if drop_all:
            # children first, roots last, so that everything finishes before its root
            order = [v for v, sp in s.spans.items() if sp is None or not sp["root_key"]] + \
                    [v for v, sp in s.spans.items() if sp is not None and sp["root_key"]]
            lt = self.live_threads() or [0]
            for v in order:
                sp = s.spans.get(v)
                if sp is not None and sp["root_key"] and getattr(self, "root_ads", None):
                    pass
                self.op_drop(self.r.pick(lt), v) if not (sp is not None and sp["root_key"]) else None
            # roots last: adapter-held roots and plain roots, children are all finished by now
            for a in getattr(self, "root_ads", []):
                self.op_ad_drop(self.r.pick(lt), a)
            for v in [v for v in order if s.spans.get(v) is not None and s.spans[v]["root_key"]]:
                self.op_drop(self.r.pick(lt), v)
        self.op_cycle()
        self.op_cycle()
        self.op_stats()

    def maybe_cycle(self):
        if self.step is not None:
            self.advance_step()
            return
        if self.k.get("stepped") and self.s.reporter and self.r.chance(1, 5):
            self.begin_step()
            return
        if self.k.get("sleeps") and self.r.chance(1, 5):
            self.emit(0, "sleep %d" % (300 + self.r.below(1500)))
        d = self.k["cycle_density"]
        if d and self.r.below(12) < d * 2:
            self.op_cycle()

    def gen_tree(self):
        """fully specified programs"""
        r, s = self.r, self.s
        self.prologue()
        for _ in range(self.k["ops"]):
            lt = self.live_threads()
            if not lt:
                break
            t = r.pick(lt)
            th = s.th(t)
            if self.k["late_reporter"] and not s.reporter and r.chance(1, 6):
                self.op_set_reporter()
                continue
            spans = list(s.spans)
            rec = [v for v in spans if s.spans[v] is not None]
            g = th["guards"]
            top = g[-1] if g else None
            choices = [("root", 6 if len(spans) < 6 else 1)]
            if spans:
                choices += [("child1", 6), ("ctxOf", 2), ("elapsed", 1), ("withProps", 2), ("scope", 5)]
                droppable = [v for v in spans if self.can_drop(v)]
                if droppable:
                    choices.append(("drop", 5))
                if rec:
                    choices += [("addProps", 2), ("addEvent", 2)]
                if self.k["multi"] and len(spans) >= 2:
                    choices.append(("childN", 3))
                if self.k.get("remote_children") and not self.step_blocks_roots(t):
                    if any(s.spans[v] is not None and s.spans[v]["items"] for v in spans):
                        choices.append(("rootFrom", 3))
                    if s.cur_token(t):
                        choices.append(("rootFromLocal", 2))
                roots = [v for v in rec if s.spans[v]["root_key"]]
                if roots and s.cancelable and (self.k.get("overload") or r.chance(1, 3)):
                    choices.append(("cancel", 8 if self.k.get("overload") else 2))
                elif spans and r.chance(1, 10):
                    choices.append(("cancel", 5 if self.k.get("overload") else 1))
                if s.lspans:
                    choices.append(("pushChild", 3))
                    if self.k.get("move_sets") and self.r.chance(1, 4):
                        choices.append(("dropLocalSpans", 1))
            choices += [("localEnter", 6), ("lAddEvent", 2), ("lAddProps", 2), ("ctxLocal", 3), ("childLocal", 3), ("collector", 1)]
            if top is not None:
                choices.append(("close", 9))
                if top[0] == "local" and top[2] != "stale":
                    choices.append(("lWithProps", 2))
                if top[0] == "coll":
                    choices.append(("collect", 4))
                if self.k.get("unwinds") and not self.calls.get(t):
                    choices.append(("unwind", 2))
                    if top[0] == "local" and top[2] != "stale":
                        choices.append(("unwindLocals", 3))
                u = self.under(t)
                if u is not None:
                    choices.append(("closeUnder", 5))
                    if u[0] == "coll":
                        choices.append(("collectUnder", 5))
            if s.lspans:
                choices.append(("toRecords", 1))
            incall = self.in_call_top(t)
            if incall is not None:
                # the adapter's own guard is on top: it is released by adEnd, never by close/collect
                choices = [(x, w) for x, w in choices if x not in ("close", "lWithProps", "collect")]
                choices.append(("adEnd", 8))
            if self.k["adapters"]:
                free = [a for a in s.adapters if a not in self.busy_ads() and a not in self.done_ads]
                movable = [v for v in spans if self.can_move(v)]
                if movable and len(s.adapters) < 4:
                    choices.append(("adNew", 4))
                if len(s.adapters) < 4:
                    choices.append(("adNewEop", 1))
                if free:
                    choices.append(("adPoll", 7))
                idle = [a for a in s.adapters if a not in self.busy_ads()]
                if idle and r.chance(1, 6):
                    choices.append(("adDrop", 2))
            if self.k["exits"] and len(lt) > 1 and r.chance(1, 25) and not self.calls.get(t):
                choices.append(("exit", 2))
            c = r.weighted(choices)
            if c == "adEnd":
                self.op_ad_end(t)
                self.probe(t)
            elif c == "adNew":
                self.op_ad_new(t, r.pick(self.k.get("adapter_kinds", ["inSpan"])), r.pick(movable))
            elif c == "adNewEop":
                self.op_ad_new(t, "enterOnPoll", hx(self.name("p")))
            elif c == "adPoll":
                self.probe(t)
                self.op_ad_poll(t, r.pick(free))
                self.probe(t)
            elif c == "adDrop":
                a = r.pick(idle)
                ad = s.adapters[a]
                if not ad["held"] or self.can_finish(ad["span"]):
                    self.op_ad_drop(t, a)
            elif c == "root":
                smp = not (self.k["unsampled"] and r.chance(1, 3))
                self.op_root(t, smp)
            elif c == "child1":
                self.op_child1(t, r.pick(spans))
            elif c == "childN":
                k = 1 + r.below(3)
                ps = [r.pick(spans) for _ in range(k)]
                if not self.k["same_trace_multi"]:
                    ps = self.distinct_traces(ps)
                self.op_childN(t, ps)
            elif c == "childLocal":
                self.op_child_local(t)
            elif c == "withProps":
                self.op_with_props(t, r.pick(spans))
            elif c == "addProps":
                self.op_add_props(t, r.pick(rec))
            elif c == "addEvent":
                self.op_add_event(t, r.pick(rec))
            elif c == "drop":
                self.op_drop(t, r.pick(droppable))
            elif c == "cancel":
                self.op_cancel(t, r.pick(roots) if roots and r.chance(4, 5) else r.pick(spans))
            elif c == "ctxOf":
                self.op_ctx_of(t, r.pick(spans))
            elif c == "elapsed":
                self.op_elapsed(t, r.pick(spans))
            elif c == "scope":
                cand = [v for v in spans if self.can_scope(v)]
                if cand:
                    self.probe(t)
                    self.op_scope(t, r.pick(cand))
            elif c == "rootFrom":
                self.op_root_from(t, r.pick([v for v in spans if s.spans[v] is not None and s.spans[v]["items"]]))
            elif c == "rootFromLocal":
                self.op_root_from_local(t)
            elif c == "collector":
                self.probe(t)
                self.op_collector(t)
            elif c == "localEnter":
                self.op_local_enter(t)
            elif c == "close":
                self.op_close(t)
                self.probe(t)
            elif c == "collect":
                self.op_collect(t)
                self.probe(t)
            elif c == "closeUnder":
                self.op_close_under(t)
                self.probe(t)
            elif c == "unwindLocals":
                self.op_unwind_locals(t)
            elif c == "unwind":
                self.op_unwind(t)
                self.probe(t)
            elif c == "collectUnder":
                self.op_collect_under(t)
                self.probe(t)
            elif c == "lWithProps":
                self.op_l_with_props(t)
            elif c == "lAddProps":
                if self.local_attach_ok(t):
                    self.op_l_add_props(t)
            elif c == "lAddEvent":
                if self.local_attach_ok(t):
                    self.op_l_add_event(t)
            elif c == "ctxLocal":
                self.op_ctx_local(t)
            elif c == "pushChild":
                v, x = r.pick(spans), r.pick(list(s.lspans))
                keys = set(it["root"] for it in (s.spans[v] or {"items": []})["items"] if it["sampled"])
                done = self.pushed.setdefault(x, set())
                # the same set delivered twice into one trace is the open finding D10: only on request
                if self.k["same_trace_multi"] or not (keys & done):
                    done |= keys
                    self.op_push_child(t, v, x)
            elif c == "dropLocalSpans":
                self.op_drop_local_spans(t, r.pick(list(s.lspans)))
            elif c == "toRecords":
                self.op_to_records(t, r.pick(list(s.lspans)))
            elif c == "exit":
                self.op_exit(t)
            self.maybe_cycle()
        self.epilogue()
        return self

    def probe(self, t):
        """C10: observe the local context around every scope open/close"""
        if self.r.chance(1, 2):
            self.op_ctx_local(t)

    def distinct_traces(self, ps):
        seen, out = set(), []
        for p in ps:
            sp = self.s.spans[p]
            keys = set(it["root"] for it in sp["items"]) if sp else set()
            if keys & seen:
                continue
            seen |= keys
            out.append(p)
        return out

    def scoped_owners(self):
        out = set()
        for th in self.s.threads.values():
            for sc in th["scopes"]:
                if sc["owner"] is not None:
                    out.add(sc["owner"]["var"])
        return out

    def can_drop(self, v):
        """tree mode keeps inside the side conditions of C03/C06: a span is not finished while
        a scope on it is open, and a root not before the other spans of its trace"""
        s = self.s
        if v in self.scoped_owners():
            return False
        sp = s.spans[v]
        if sp is not None and sp["root_key"] and sp["root_key"] != "U":
            key = sp["root_key"]
            if self.k.get("late_children") and self.r.chance(1, 3):
                return True      # the root finishes before other spans of its trace (C01: still delivered; C03: discarded)
            for w, o in s.spans.items():
                if w != v and o is not None and any(it["root"] == key for it in o["items"]):
                    return False
            for th in s.threads.values():
                for sc in th["scopes"]:
                    if any(it["root"] == key for it in sc["items"]):
                        return False
            for ad in s.adapters.values():
                if ad["held"] and ad["span"] is not None and any(it["root"] == key for it in ad["span"]["items"]):
                    return False
        return True

    def can_scope(self, v):
        return True

    def can_move(self, v):
        return v not in self.scoped_owners()

    def local_attach_ok(self, t):
        """an attachment with no local span open goes to the span set as local parent; in a
        collector scope it has no target at all — keep tree mode specified"""
        sc = self.s.top(t)
        if sc is None:
            return True
        if sc["kind"] == "coll" and not sc["open"]:
            return bool(self.k.get("orphans"))
        return True

    # ------------------------------------------------------------------ wild stream
    def gen_wild(self):
        r, s = self.r, self.s
        self.prologue()
        for _ in range(self.k["ops"]):
            lt = self.live_threads()
            if not lt:
                break
            t = r.pick(lt)
            th = s.th(t)
            if not s.reporter and not self.k["no_reporter"] and r.chance(1, 6):
                self.op_set_reporter()
                continue
            spans = list(s.spans)
            top = th["guards"][-1] if th["guards"] else None
            choices = [("root", 5), ("localEnter", 6), ("lAddEvent", 2), ("lAddProps", 3), ("ctxLocal", 3), ("childLocal", 3), ("collector", 2), ("childN0", 1), ("decodeTp", 1)]
            if spans:
                choices += [("child1", 5), ("childN", 3), ("ctxOf", 2), ("elapsed", 1), ("withProps", 3), ("scope", 6), ("drop", 5),
                            ("addProps", 3), ("addEvent", 2), ("cancel", 2)]
                if s.lspans:
                    choices.append(("pushChild", 3))
                    if self.k.get("move_sets") and self.r.chance(1, 4):
                        choices.append(("dropLocalSpans", 1))
            if top is not None:
                choices.append(("close", 9))
                if top[0] == "local" and top[2] != "stale":
                    choices.append(("lWithProps", 3))
                if top[0] == "coll":
                    choices.append(("collect", 4))
                if self.k.get("unwinds") and not self.calls.get(t):
                    choices.append(("unwind", 2))
                    if top[0] == "local" and top[2] != "stale":
                        choices.append(("unwindLocals", 3))
                u = self.under(t)
                if u is not None:
                    choices.append(("closeUnder", 5))
                    if u[0] == "coll":
                        choices.append(("collectUnder", 5))
            if s.lspans:
                choices.append(("toRecords", 1))
            if len(lt) > 1 and not self.k.get("stepped") and r.chance(1, 20):
                choices.append(("exit", 2))
            c = r.weighted(choices)
            if c == "root":
                self.op_root(t, not r.chance(1, 4))
            elif c == "child1":
                self.op_child1(t, r.pick(spans))
            elif c == "childN":
                self.op_childN(t, [r.pick(spans) for _ in range(r.below(4))])
            elif c == "childN0":
                self.op_childN(t, [])
            elif c == "childLocal":
                self.op_child_local(t)
            elif c == "withProps":
                self.op_with_props(t, r.pick(spans))
            elif c == "addProps":
                self.op_add_props(t, r.pick(spans))
            elif c == "addEvent":
                self.op_add_event(t, r.pick(spans))
            elif c == "drop":
                self.op_drop(t, r.pick(spans))
            elif c == "cancel":
                self.op_cancel(t, r.pick(spans))
            elif c == "ctxOf":
                self.op_ctx_of(t, r.pick(spans))
            elif c == "elapsed":
                self.op_elapsed(t, r.pick(spans))
            elif c == "scope":
                self.op_scope(t, r.pick(spans))
            elif c == "collector":
                self.op_collector(t)
            elif c == "localEnter":
                self.op_local_enter(t)
            elif c == "close":
                self.op_close(t)
            elif c == "collect":
                self.op_collect(t)
            elif c == "unwindLocals":
                self.op_unwind_locals(t)
            elif c == "unwind":
                self.op_unwind(t)
            elif c == "closeUnder":
                self.op_close_under(t)
            elif c == "collectUnder":
                self.op_collect_under(t)
            elif c == "lWithProps":
                self.op_l_with_props(t)
            elif c == "lAddProps":
                self.op_l_add_props(t)
            elif c == "lAddEvent":
                self.op_l_add_event(t)
            elif c == "decodeTp":
                self.op_decode_tp(t)
            elif c == "ctxLocal":
                self.op_ctx_local(t)
            elif c == "pushChild":
                self.op_push_child(t, r.pick(spans), r.pick(list(s.lspans)))
            elif c == "dropLocalSpans":
                self.op_drop_local_spans(t, r.pick(list(s.lspans)))
            elif c == "toRecords":
                self.op_to_records(t, r.pick(list(s.lspans)))
            elif c == "exit":
                self.op_exit(t)
            self.maybe_cycle()
        self.epilogue(drop_all=r.chance(2, 3))
        return self


def make(rng, mode="tree", knobs=None):
    g = Gen(rng, mode, knobs)
    return g.gen_tree() if mode == "tree" else g.gen_wild()
