"""Independent decoder of Thrift compact protocol messages (oracle side; not the model)."""


class Bad(Exception):
    pass


class Rd:
    def __init__(self, b):
        self.b, self.i = b, 0

    def u8(self):
        if self.i >= len(self.b):
            raise Bad("truncated")
        v = self.b[self.i]
        self.i += 1
        return v

    def varint(self):
        v, sh = 0, 0
        while True:
            x = self.u8()
            v |= (x & 0x7F) << sh
            sh += 7
            if not x & 0x80:
                return v
            if sh > 70:
                raise Bad("varint too long")

    def zz(self):
        v = self.varint()
        return (v >> 1) ^ -(v & 1)

    def binary(self):
        n = self.varint()
        if self.i + n > len(self.b):
            raise Bad("binary truncated")
        v = self.b[self.i:self.i + n]
        self.i += n
        return bytes(v)

    def value(self, kind):
        if kind in (1, 2):
            return kind == 1
        if kind == 3:
            return self.u8()
        if kind in (4, 5, 6):
            return self.zz()
        if kind == 8:
            return self.binary()
        if kind == 9:
            h = self.u8()
            n, ek = h >> 4, h & 0xF
            if n == 15:
                n = self.varint()
            return [self.value(ek) for _ in range(n)]
        if kind == 12:
            return self.struct()
        raise Bad("unsupported kind %d" % kind)

    def struct(self):
        out, prev = {}, 0
        while True:
            h = self.u8()
            if h == 0:
                return out
            delta, kind = h >> 4, h & 0xF
            fid = prev + delta if delta else self.zz()
            if fid in out:
                raise Bad("duplicate field %d" % fid)
            out[fid] = (kind, self.value(kind))
            prev = fid


def decode_message(b):
    r = Rd(b)
    if r.u8() != 0x82:
        raise Bad("protocol id")
    vt = r.u8()
    if vt & 0x1F != 1:
        raise Bad("version")
    kind = vt >> 5
    seq = r.varint()
    name = r.binary().decode("utf-8")
    body = r.struct()
    if r.i != len(b):
        raise Bad("trailing bytes")
    return kind, seq, name, body


def u64(v):
    return v & ((1 << 64) - 1)


def decode_emit_batch(b):
    """→ (service, [span dict]) with ids as unsigned"""
    kind, seq, name, body = decode_message(b)
    if kind != 4 or name != "emitBatch":
        raise Bad("not a oneway emitBatch: kind=%d name=%r" % (kind, name))
    batch = body[1][1]
    proc = batch[1][1]
    svc = proc[1][1].decode("utf-8")
    spans = []

    def tags(lst):
        out = []
        for t in lst:
            if t[2][1] != 0:
                raise Bad("tag kind not string")
            out.append((t[1][1].decode("utf-8"), t[3][1].decode("utf-8")))
        return out
    for s in batch[2][1]:
        if s[1][0] != 6 or s[5][0] != 8 or s[7][0] != 5:
            raise Bad("field kinds")
        spans.append({
            "trace": (u64(s[2][1]) << 64) | u64(s[1][1]), "span": u64(s[3][1]), "parent": u64(s[4][1]),
            "name": s[5][1].decode("utf-8"), "flags": s[7][1], "start_us": s[8][1], "dur_us": s[9][1],
            "refs": s.get(6), "tags": tags(s[10][1]) if 10 in s else [],
            "logs": [(l[1][1], tags(l[2][1])) for l in s[11][1]] if 11 in s else [],
        })
    return svc, spans
