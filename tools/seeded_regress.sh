#!/bin/bash
# re-runs every kept seeded change against the current checks: tools/seeded_regress.sh [ids…]
cd /verif
ids="$@"; [ -z "$ids" ] && ids=$(ls seeded)
for id in $ids; do
  prop=${id:0:3}
  if ! git -C /repo apply --check /verif/seeded/$id/patch.diff 2>/dev/null; then echo "$id DOES-NOT-APPLY"; continue; fi
  git -C /repo apply /verif/seeded/$id/patch.diff
  out=$(timeout 1500 ./check $prop 2>&1 | grep -c "^VIOLATION property=$prop replay=.*" )

  git -C /repo checkout -- .
  echo "$id violations=$out"
done
git -C /repo status --porcelain
