"""record batches for the reporter tier (C19, C20): wire syntax + generators"""
import common as C

STRS = ["", "a", "name", "k", "v", "é", "日本語", "😀", "a b", "x=y&z", "\x00", "\u007f", "ß" * 3, "key.with.dots", "\n", '"q"']


def hx(s):
    return s.encode("utf-8").hex() if s else "-"


def wire_props(p):
    return "&".join("%s=%s" % (hx(k), hx(v)) for k, v in p) if p else "_"


def wire_record(r):
    ev = "|".join("%s@%x@%s" % (hx(e["name"]), e["ts"], wire_props(e["props"])) for e in r["events"]) if r["events"] else "_"
    return "%x,%x,%x,%x,%x,%s,%s,%s" % (r["trace"], r["span"], r["parent"], r["begin"], r["dur"], hx(r["name"]), wire_props(r["props"]), ev)


def wire_records(rs):
    return ";".join(wire_record(r) for r in rs) if rs else "_"


def gen_str(r, maxlen=12):
    k = r.below(6)
    if k == 0:
        return r.pick(STRS)
    n = r.below(maxlen)
    return "".join(r.pick("abcdefghijklmnopqrstuvwxyz0123456789_-. /é日😀") for _ in range(n))


def gen_num(r, bits):
    k = r.below(8)
    if k == 0:
        return 0
    if k == 1:
        return (1 << bits) - 1
    if k == 2:
        return 1 << (bits - 1)
    if k == 3:
        return (1 << (bits - 1)) - 1
    if k == 4:
        return r.below(1000)
    v = 0
    for _ in range((bits + 63) // 64):
        v = (v << 64) | r.next()
    return v & ((1 << bits) - 1)


def gen_props(r, maxn=4, distinct_keys=False):
    n = r.below(maxn + 1)
    out = []
    for _ in range(n):
        k = gen_str(r)
        if distinct_keys and any(k == kk for kk, _ in out):
            continue
        out.append((k, gen_str(r)))
    return out


def gen_time(r, wf=True):
    """(begin, dur) with begin+dur < 2^64 when wf"""
    k = r.below(6)
    if k == 0:
        b = 1_700_000_000_000_000_000 + r.below(10 ** 12)
        d = r.below(10 ** 10)
    elif k == 1:
        b, d = r.below(3000), r.below(3000)
    elif k == 2:
        b = (1 << 63) + r.below(1000)
        d = r.below(1000)
    elif k == 3:
        b = gen_num(r, 64)
        d = ((1 << 64) - 1 - b) if wf else gen_num(r, 64)
    else:
        b = gen_num(r, 63)
        d = gen_num(r, 62)
    if wf and b + d >= (1 << 64):
        d = (1 << 64) - 1 - b
    return b, d


def gen_record(r, idx, name=None):
    b, d = gen_time(r)
    evs = []
    for _ in range(r.weighted([(0, 5), (1, 3), (2, 1), (3, 1)])):
        evs.append({"name": gen_str(r), "ts": gen_time(r)[0], "props": gen_props(r, 3)})
    return {"trace": gen_num(r, 128), "span": gen_num(r, 64) if r.chance(1, 2) else idx + 1, "parent": gen_num(r, 64),
            "begin": b, "dur": d, "name": gen_str(r, 20) if name is None else name,
            "props": gen_props(r), "events": evs, "idx": idx}
