#!/bin/bash
# runs every claimed quick check for several seeds on the current tree; prints every VIOLATION
cd /verif
seeds="$@"; [ -z "$seeds" ] && seeds="2 3 4 5 6"
for seed in $seeds; do
  for c in $(python3 -c "import json;print(' '.join(x['property_id'] for x in json.load(open('MANIFEST.json'))['checks']))"); do
    out=$(VERIF_SEED=$seed ./check $c 2>&1 | grep VIOLATION | cut -c1-260 | head -2)
    [ -n "$out" ] && echo "seed=$seed $c :: $out"
  done
  echo "seed $seed done $(date +%T)"
done
git -C /verif checkout evidence 2>/dev/null
