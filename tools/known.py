"""Open known findings that are identified by one specific witness program (read-only at run time)."""
import os

import common as C


def load(name):
    f = os.path.join(C.VERIF, "corpus", "known", name)
    return [l.rstrip("\n") for l in open(f) if l.strip() and not l.startswith("#")]


WITNESS = {("C07", "D20"): "kf-C07-D20-with-properties-under-a-newer-scope.txt"}   # (D21 was the first; fixed in da73ac0)


def case(prop, fid, oracles, with_model=True):
    return ("%s/%s-witness" % ("kf" if with_model else "nomodel/kf", fid), load(WITNESS[(prop, fid)]), oracles)


def known(prop, fid):
    w = load(WITNESS[(prop, fid)])

    def k(lines, oracle, msg):
        # the witness history itself, nothing else
        return "id=%s" % fid if list(lines) == w else None
    return k
