"""Open known findings that are identified by one specific witness program (read-only at run time)."""
import os

import common as C


def load(name):
    f = os.path.join(C.VERIF, "corpus", "known", name)
    return [l.rstrip("\n") for l in open(f) if l.strip() and not l.startswith("#")]


D14 = {"C03": "kf-C03-D14-child-consumed-before-the-start-of-its-trace.txt",
       "C04": "kf-C04-D14-cancel-consumed-before-the-start-of-its-trace.txt",
       "C06": "kf-C06-D14-event-consumed-before-the-start-of-its-trace.txt"}


def d14_case(prop, oracles):
    return ("kf/D14-witness", load(D14[prop]), oracles)


def d14_known(prop):
    w = load(D14[prop])

    def known(lines, oracle, msg):
        # D14: the witness history itself, nothing else
        return "id=D14" if list(lines) == w else None
    return known
