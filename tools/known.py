"""Open known findings that are identified by one specific witness program (read-only at run time)."""
import os

import common as C


def load(name):
    f = os.path.join(C.VERIF, "corpus", "known", name)
    return [l.rstrip("\n") for l in open(f) if l.strip() and not l.startswith("#")]


WITNESS = {("C04", "D21"): "kf-C04-D21-parked-cancel-overtaken-by-the-commit-from-another-thread.txt"}


def case(prop, fid, oracles):
    return ("kf/%s-witness" % fid, load(WITNESS[(prop, fid)]), oracles)


def known(prop, fid):
    w = load(WITNESS[(prop, fid)])

    def k(lines, oracle, msg):
        # the witness history itself, nothing else
        return "id=%s" % fid if list(lines) == w else None
    return k
