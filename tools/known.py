"""Open known findings that are identified by one specific witness program (read-only at run time)."""
import os

import common as C


def load(name):
    f = os.path.join(C.VERIF, "corpus", "known", name)
    return [l.rstrip("\n") for l in open(f) if l.strip() and not l.startswith("#")]


WITNESS = {}   # no witness-identified open finding at the moment (D21 was the first; fixed in da73ac0)


def case(prop, fid, oracles):
    return ("kf/%s-witness" % fid, load(WITNESS[(prop, fid)]), oracles)


def known(prop, fid):
    w = load(WITNESS[(prop, fid)])

    def k(lines, oracle, msg):
        # the witness history itself, nothing else
        return "id=%s" % fid if list(lines) == w else None
    return k
