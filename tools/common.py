"""Shared machinery of ./check: paths, PRNG, builds, Lean audit, evidence, verdicts."""
import fcntl
import hashlib
import json
import os
import re
import subprocess
import sys
import time

VERIF = os.path.dirname(os.path.dirname(os.path.abspath(__file__)))
REPO = os.environ.get("VERIF_REPO", "/repo")
LEAN = os.path.join(VERIF, "lean")
HARNESS = os.path.join(VERIF, "harness")
BUILD = os.path.join(VERIF, ".build")
TARGET = os.path.join(BUILD, "target")
EVID = os.path.join(VERIF, "evidence")
REPLAY = os.path.join(EVID, "replay")
FMODEL = os.path.join(LEAN, ".lake", "build", "bin", "fmodel")
CARGO = ["cargo", "+1.80.0"]
GUARD = "fastrace_verif"
ALLOWED_AXIOMS = {"propext", "Classical.choice", "Quot.sound"}
M64 = (1 << 64) - 1


class Rng:
    """splitmix64; every random choice of a run derives from VERIF_SEED through this."""

    def __init__(self, seed):
        self.s = seed & M64

    def next(self):
        self.s = (self.s + 0x9E3779B97F4A7C15) & M64
        z = self.s
        z = ((z ^ (z >> 30)) * 0xBF58476D1CE4E5B9) & M64
        z = ((z ^ (z >> 27)) * 0x94D049BB133111EB) & M64
        return z ^ (z >> 31)

    def below(self, n):
        return self.next() % n if n > 0 else 0

    def chance(self, num, den):
        return self.below(den) < num

    def pick(self, xs):
        return xs[self.below(len(xs))]

    def weighted(self, pairs):
        tot = sum(w for _, w in pairs)
        r = self.below(tot)
        for x, w in pairs:
            if r < w:
                return x
            r -= w
        return pairs[-1][0]

    def fork(self):
        return Rng(self.next())


def sh(cmd, cwd=None, env=None, timeout=None, input=None):
    e = dict(os.environ)
    e["CARGO_NET_OFFLINE"] = "true"
    if env:
        e.update(env)
    p = subprocess.run(cmd, cwd=cwd, env=e, input=input, capture_output=True, text=True,
                       timeout=timeout)
    return p.returncode, p.stdout, p.stderr


class BuildLock:
    def __enter__(self):
        os.makedirs(BUILD, exist_ok=True)
        self.f = open(os.path.join(BUILD, "lock"), "w")
        fcntl.flock(self.f, fcntl.LOCK_EX)
        return self

    def __exit__(self, *a):
        fcntl.flock(self.f, fcntl.LOCK_UN)
        self.f.close()


def repo_state():
    rc, head, _ = sh(["git", "-C", REPO, "rev-parse", "HEAD"])
    rc, diff, _ = sh(["git", "-C", REPO, "diff", "HEAD"])
    rc, vhead, _ = sh(["git", "-C", VERIF, "rev-parse", "HEAD"])
    return {"repo_head": head.strip(), "repo_diff_sha": hashlib.sha256(diff.encode()).hexdigest()[:16],
            "verif_head": vhead.strip()}


# --------------------------------------------------------------------------- Lean side

def regenerate_params():
    """translator (small): numeric/literal contract of /repo → lean/FastraceModel/Gen/Params.lean"""
    import extract_params
    return extract_params.write()


def prop_theorems(module):
    """names of the property theorems declared in Props/<module>.lean (the obligations)"""
    path = os.path.join(LEAN, "FastraceModel", "Props", module + ".lean")
    src = open(path).read()
    src_nc = strip_lean_comments(src)
    return re.findall(r"^theorem\s+([A-Za-z0-9_'.]+)", src_nc, flags=re.M)


def strip_lean_comments(src):
    out = []
    i, depth, n = 0, 0, len(src)
    while i < n:
        if src.startswith("/-", i):
            depth += 1
            i += 2
        elif depth > 0 and src.startswith("-/", i):
            depth -= 1
            i += 2
        elif depth > 0:
            if src[i] == "\n":
                out.append("\n")
            i += 1
        elif src.startswith("--", i):
            while i < n and src[i] != "\n":
                i += 1
        else:
            out.append(src[i])
            i += 1
    return "".join(out)


FORBIDDEN = re.compile(r"\b(sorry|admit|native_decide|bv_decide|implemented_by|unsafe)\b|^\s*axiom\s|maxHeartbeats\s+0", re.M)


def lean_source_scan():
    """no sorry/admit/axiom/native_decide/... outside comments anywhere in the Lean tree"""
    hits = []
    for root, _, files in os.walk(os.path.join(LEAN, "FastraceModel")):
        for f in files:
            if f.endswith(".lean"):
                p = os.path.join(root, f)
                src = strip_lean_comments(open(p).read())
                # the driver is allowed `partial` but nothing else; Main.lean is outside this tree
                for m in FORBIDDEN.finditer(src):
                    hits.append("%s: %s" % (os.path.relpath(p, LEAN), m.group(0).strip()))
    return hits


def lean_check(modules, tier):
    """Builds the property modules (kernel-checks every theorem), audits axioms.
    Returns dict(obligations, discharged, failures[list of str], theorems[list])."""
    res = {"obligations": 0, "discharged": 0, "failures": [], "theorems": [], "axioms": {}}
    with BuildLock():
        try:
            regenerate_params()
        except Exception as ex:  # extractor cannot find a literal: a broken obligation
            res["failures"].append("params-extraction: %s" % ex)
        targets = ["FastraceModel.Props.%s" % m for m in modules] + ["FastraceModel.Props.ParamsOk", "fmodel"]
        rc, out, err = sh(["lake", "build"] + targets, cwd=LEAN, timeout=3600)
        build_ok = rc == 0
        if not build_ok:
            lines = [l for l in (out + err).splitlines() if l.startswith("error") or "error:" in l]
            res["failures"].append("lake build failed: " + " | ".join(lines[:6]))
        thms = []
        for m in modules:
            thms += [(m, t) for t in prop_theorems(m)]
        res["theorems"] = [t for _, t in thms]
        res["obligations"] = len(thms) + 1  # + ParamsOk (all parameter side conditions)
        if build_ok:
            scan = lean_source_scan()
            if scan:
                res["failures"].append("forbidden token(s): " + "; ".join(scan[:5]))
            nss = []
            for m in modules:
                src = strip_lean_comments(open(os.path.join(LEAN, "FastraceModel", "Props", m + ".lean")).read())
                nss += [x for x in re.findall(r"^namespace\s+(\S+)", src, flags=re.M) if x not in nss]
            audit = "\n".join(["import FastraceModel.Props.%s" % m for m in modules]) + "\nopen %s\n" % " ".join(nss or ["Fastrace"])
            audit += "\n".join("#print axioms %s" % t for _, t in thms) + "\n"
            os.makedirs(BUILD, exist_ok=True)
            ap = os.path.join(BUILD, "Audit_%s.lean" % "_".join(modules))
            open(ap, "w").write(audit)
            rc, out, err = sh(["lake", "env", "lean", ap], cwd=LEAN, timeout=1800)
            text = out + err
            if rc != 0:
                res["failures"].append("axiom audit failed to run: " + text[:300])
            else:
                for blk in re.finditer(r"'([^']+)' (does not depend on any axioms|depends on axioms: \[([^\]]*)\])", text):
                    name = blk.group(1)
                    ax = set(a.strip() for a in (blk.group(3) or "").replace("\n", " ").split(",") if a.strip())
                    res["axioms"][name] = sorted(ax)
                ok = 0
                full = res["axioms"]
                res["axioms"] = {}
                for _, t in thms:
                    hit = [k for k in full if k == t or k.endswith("." + t)]
                    if not hit:
                        res["failures"].append("no axiom report for %s" % t)
                        continue
                    res["axioms"][t] = full[hit[0]]
                    if set(full[hit[0]]) - ALLOWED_AXIOMS:
                        res["failures"].append("%s uses axioms %s" % (t, full[hit[0]]))
                    else:
                        ok += 1
                res["discharged"] = ok + (1 if not scan else 0)
            if tier == "thorough" and not res["failures"]:
                for m in modules:
                    rc, out, err = sh(["lake", "env", "leanchecker", "FastraceModel.Props.%s" % m], cwd=LEAN, timeout=3600)
                    if rc != 0:
                        res["failures"].append("leanchecker rejected Props.%s: %s" % (m, (out + err)[:300]))
                        res["discharged"] = 0
    return res


# --------------------------------------------------------------------------- Rust side

def cargo_build(crate, bins, features_env=None):
    """(re)builds harness binaries against /repo's working tree with the guard on."""
    cdir = os.path.join(HARNESS, crate)
    with BuildLock():
        lock_src = os.path.join(REPO, "Cargo.lock")
        lock_dst = os.path.join(cdir, "Cargo.lock")
        # always start from the repository's lock so the same dependency versions are used
        if os.path.exists(lock_src):
            open(lock_dst, "w").write(open(lock_src).read())
        cmd = CARGO + ["build", "--offline"]
        for b in bins:
            cmd += ["--bin", b]
        env = {"RUSTFLAGS": "--cfg %s" % GUARD}
        rc, out, err = sh(cmd, cwd=cdir, env=env, timeout=3600)
    if rc != 0:
        lines = [l for l in err.splitlines() if l.startswith("error")]
        return False, " | ".join(lines[:6]) or err[-400:]
    return True, ""


def bin_path(name):
    return os.path.join(TARGET, "debug", name)


def run_lines(exe, mode, lines, timeout=3600, extra_args=None):
    data = "mode %s\n" % mode + "\n".join(lines) + "\n"
    p = subprocess.run([exe] + (extra_args or []), input=data, capture_output=True, text=True, timeout=timeout)
    return p.returncode, p.stdout.splitlines(), p.stderr


# --------------------------------------------------------------------------- verdicts

class Verdict:
    def __init__(self, prop, tier, seed):
        self.prop, self.tier, self.seed = prop, tier, seed
        self.t0 = time.time()
        self.violations = []     # (what, replay_path, found_input: bool)
        self.known = []          # strings
        self.coverage = {}
        self.assumptions = []

    def replay_file(self, tag, payload):
        os.makedirs(REPLAY, exist_ok=True)
        p = os.path.join(REPLAY, "%s-%s-%s.json" % (self.prop, self.seed, tag))
        json.dump(payload, open(p, "w"), indent=1)
        return p

    def violation(self, what, payload, found_input=True, tag=None):
        tag = tag or ("v%d" % len(self.violations))
        payload = dict(payload)
        payload.update({"property": self.prop, "what": what, "failing_input_found": found_input})
        self.violations.append((what, self.replay_file(tag, payload), found_input))

    def finish(self, level="proof"):
        os.makedirs(EVID, exist_ok=True)
        ev = {"property_id": self.prop, "tier": self.tier, "seed": self.seed, "level": level,
              "coverage": self.coverage, "assumptions": self.assumptions,
              "wall_s": round(time.time() - self.t0, 2), "violations": len(self.violations),
              "known_findings_replayed": self.known, "state": repo_state()}
        json.dump(ev, open(os.path.join(EVID, self.prop + ".json"), "w"), indent=1, default=str)
        for k in self.known:
            print("KNOWN-FINDING: property=%s %s" % (self.prop, k))
        for what, path, found in self.violations:
            print("VIOLATION property=%s replay=%s :: %s%s" % (self.prop, path, what, "" if found else " no-failing-input-found"))
        sys.stdout.flush()
        return 1 if self.violations else 0


def known_findings():
    """open/fixed entries of KNOWN_FINDINGS.txt (read-only at run time)"""
    out = []
    p = os.path.join(VERIF, "KNOWN_FINDINGS.txt")
    if os.path.exists(p):
        for line in open(p):
            line = line.strip()
            if not line or line.startswith("#"):
                continue
            m = re.match(r"(open|fixed): property=(C\d+)\s+(.*)", line)
            if m:
                kv = dict(re.findall(r"(\w+)=(\S+)", m.group(3).split("::")[0]))
                out.append({"state": m.group(1), "property": m.group(2), "kv": kv,
                            "text": m.group(3).split("::")[-1].strip(), "raw": line})
    return out


TRUSTED_BASE = [
    "Lean 4.33.0 kernel + elaborator (leanchecker re-check in thorough tier)",
    "axioms allowed: propext, Classical.choice, Quot.sound; no native_decide/bv_decide/sorry/own axioms",
    "hand-written Lean model, tied to /repo by the differential correspondence run of this check",
    "Rust harness + python driver (generators, canonicaliser, oracles); Lean compiler for fmodel",
    "tools/extract_params.py (regenerates Gen/Params.lean from /repo on every run)",
]
