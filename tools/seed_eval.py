#!/usr/bin/env python3
"""seed_eval.py <ID> [--checks C01,C02,...]
Confirms a seeded change produced by a sub-agent in its scratch worktree /tmp/mut/<ID> (compiles, the
47 baseline tests pass with it, its demonstration fails with it and passes without it), then applies
the patch to /repo, runs the checks against it, undoes it, and records everything under /verif/seeded/<ID>/."""
import json
import os
import shutil
import subprocess
import sys
import time

ID = sys.argv[1]
T0 = time.time()
only = None
if "--checks" in sys.argv:
    only = sys.argv[sys.argv.index("--checks") + 1].split(",")
W, O, S = "/tmp/mut/%s" % ID, "/tmp/mut/%s-out" % ID, "/verif/seeded/%s" % ID


def sh(cmd, cwd=None, timeout=3600):
    p = subprocess.run(cmd, shell=True, cwd=cwd, capture_output=True, text=True, timeout=timeout)
    return p.returncode, p.stdout + p.stderr


meta = {"id": ID, "property": ID[:3], "ran": []}
patch = open(os.path.join(O, "patch.diff")).read()
# demonstration files present in the worktree (untracked)
rc, st = sh("git status --porcelain -uall", W)
demos = [l.split()[-1] for l in st.splitlines() if l.startswith("??") and "demo" in l]
helper = os.path.exists(os.path.join(O, "helper.diff"))
meta["demo_files"] = demos
# (1) baseline suite with the change, demos moved aside
aside = "/tmp/mut/aside-%s" % ID
os.makedirs(aside, exist_ok=True)
for d in demos:
    shutil.move(os.path.join(W, d), os.path.join(aside, os.path.basename(d)))
rc, out = sh("cargo +1.80.0 nextest run --workspace --no-fail-fast --offline 2>&1 | tail -4", W)
meta["baseline_with_change"] = out.strip().splitlines()[-1] if out.strip() else ""
ok_suite = "47 passed" in out
for d in demos:
    shutil.move(os.path.join(aside, os.path.basename(d)), os.path.join(W, d))
# (2) demo with the change must fail, (3) without must pass
results = {}
for d in demos:
    name = os.path.basename(d)[:-3]
    crate = d.split("/")[0]
    kind = "--test" if "/tests/" in d else "--example"
    cmd = "cargo +1.80.0 %s --manifest-path %s/Cargo.toml --offline %s %s 2>&1 | tail -15" % ("test" if kind == "--test" else "run", crate, kind, name)
    if crate == "fastrace-futures":
        # feature unification: fastrace's `enable` comes from the workspace
        cmd = "cargo +1.80.0 test --workspace --offline --test %s 2>&1 | tail -15" % name
    rc1, o1 = sh(cmd, W, 1800)
    failed_with = ("test result: FAILED" in o1) or ("panicked" in o1) or ("error: test failed" in o1)
    sh("git apply -R %s/patch.diff" % O, W)
    rc2, o2 = sh(cmd, W, 1800)
    passed_without = ("test result: ok" in o2) and "FAILED" not in o2
    sh("git apply %s/patch.diff" % O, W)
    results[d] = {"cmd": cmd, "fails_with_change": failed_with, "passes_without_change": passed_without, "with": o1[-600:], "without": o2[-300:]}
meta["demo"] = results
meta["confirmed"] = bool(ok_suite and results and all(r["fails_with_change"] and r["passes_without_change"] for r in results.values()))
print("suite:", meta["baseline_with_change"], "| confirmed:", meta["confirmed"])
# (4) run the checks against the change in /repo
rc, out = sh("git -C /repo status --porcelain")
assert not out.strip(), "/repo is not clean"
rc, out = sh("git -C /repo apply %s/patch.diff" % O)
assert rc == 0, out
checks = only or [c["property_id"] for c in json.load(open("/verif/MANIFEST.json"))["checks"]]
det = {}
try:
    for c in checks:
        t0 = time.time()
        rc, out = sh("./check %s --tier quick" % c, "/verif", 3600)
        lines = [l for l in out.splitlines() if l.startswith("VIOLATION")]
        det[c] = {"rc": rc, "violations": [l[:400] for l in lines[:3]], "s": round(time.time() - t0, 1)}
        print(c, rc, (lines[0][:200] if lines else ""))
finally:
    sh("git -C /repo checkout -- .")
    sh("cd /verif && git checkout -- evidence lean/FastraceModel/Gen/Params.lean harness/fh-macro/src/gen.rs 2>/dev/null")
meta["checks"] = det
meta["detected_by"] = [c for c, d in det.items() if d["rc"] != 0]
def with_input(c):
    import glob
    for f in glob.glob("/verif/evidence/replay/%s-*.json" % c):
        try:
            if json.load(open(f)).get("failing_input_found") and os.path.getmtime(f) > T0:
                return True
        except Exception:
            pass
    return False


meta["detected_with_input"] = [c for c, d in det.items() if d["rc"] != 0 and with_input(c)]
os.makedirs(S, exist_ok=True)
shutil.copy(os.path.join(O, "patch.diff"), os.path.join(S, "patch.diff"))
for f in os.listdir(O):
    if f.startswith("demo") or f in ("README.txt", "helper.diff"):
        shutil.copy(os.path.join(O, f), os.path.join(S, f))
json.dump(meta, open(os.path.join(S, "meta.json"), "w"), indent=1)
print("detected by:", meta["detected_by"], "with input:", meta["detected_with_input"])
