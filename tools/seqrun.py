"""runs API programs through fh-seq (implementation) and fmodel (Lean model)"""
import concurrent.futures as cf
import os
import subprocess

import common as C


def strip_times(line):
    """drop the `~times` suffix of every record (times are compared relationally, C18)"""
    if line.startswith("rep ") or line.startswith("recs ") or line.startswith("elapsed "):
        return " ".join(tok.split("~")[0] for tok in line.split(" "))
    return line


def _run_chunk(exe, mode, cases, timeout, env=None):
    data = "mode %s\n" % mode
    for i, c in enumerate(cases):
        data += "case %d\n" % i + "\n".join(c) + "\n"
    e = dict(os.environ)
    if env:
        e.update(env)
    p = subprocess.run([exe], input=data, capture_output=True, text=True, timeout=timeout, env=e)
    out, cur = [], None
    for l in p.stdout.splitlines():
        if l == "case":
            cur = []
            out.append(cur)
        elif cur is not None:
            cur.append(l)
    while len(out) < len(cases):
        out.append(["<no-output>"])
    return out


def split_times(outs):
    """separates the ` @mono0:mono1:wall0:wall1` suffix written with FH_TIMES=1"""
    plain, times = [], []
    for o in outs:
        if " @" in o:
            a, _, b = o.rpartition(" @")
            plain.append(a)
            times.append(tuple(int(x) for x in b.split(":")))
        else:
            plain.append(o)
            times.append(None)
    return plain, times


def run_impl(cases, exe=None, jobs=12, timeout=3600, env=None):
    exe = exe or C.bin_path("fh-seq")
    if not cases:
        return []
    n = max(1, min(jobs, len(cases) // 4 or 1))
    size = (len(cases) + n - 1) // n
    chunks = [cases[i:i + size] for i in range(0, len(cases), size)]
    with cf.ThreadPoolExecutor(max_workers=n) as ex:
        res = list(ex.map(lambda ch: _run_chunk(exe, "seq", ch, timeout, env), chunks))
    return [c for ch in res for c in ch]


def run_model(cases, timeout=3600, mode="seq", jobs=12):
    """the Lean driver on every case; the cases are dealt round-robin to up to `jobs` driver processes (every case
    starts from the initial state, so the split does not matter) and the transcripts are put back in order"""
    if not cases or not os.path.exists(C.FMODEL):
        return None
    n = max(1, min(jobs, len(cases) if len(cases) < 48 else len(cases) // 4))
    if n == 1:
        return _run_chunk(C.FMODEL, mode, cases, timeout)
    idx = [list(range(k, len(cases), n)) for k in range(n)]
    with cf.ThreadPoolExecutor(max_workers=n) as ex:
        res = list(ex.map(lambda ix: _run_chunk(C.FMODEL, mode, [cases[i] for i in ix], timeout), idx))
    out = [None] * len(cases)
    for ix, rs in zip(idx, res):
        for i, r in zip(ix, rs):
            out[i] = r
    return out


def first_mismatch(impl, model):
    for i, (a, b) in enumerate(zip(impl, model)):
        if strip_times(a) != strip_times(b):
            return i
    if len(impl) != len(model):
        return min(len(impl), len(model))
    return None
