"""Property oracles evaluated on an *implementation* transcript of a generated program, using
the generator's independent specification (tools/proggen.py).  Each returns a list of
human-readable failure strings (empty = property held on this case)."""


def unhex(s):
    return "" if s == "-" else bytes.fromhex(s).decode("utf-8")


def parse_props(s):
    if s == "_":
        return []
    out = []
    for kv in s.split("&"):
        k, v = kv.split("=")
        out.append((unhex(k), unhex(v)))
    return out


def parse_record(tok):
    body, _, times = tok.partition("~")
    f = body.split(",")
    evs = []
    if f[5] != "_":
        for e in f[5].split("|"):
            n, p = e.split("@")
            evs.append((unhex(n), parse_props(p)))
    tb = times.split(":") if times else ["0", "0", ""]
    return {"trace": int(f[0], 16), "id": f[1], "parent": f[2], "name": unhex(f[3]), "props": parse_props(f[4]), "events": evs,
            "begin": int(tb[0]), "dur": int(tb[1]), "evt": [int(x) for x in tb[2].split("/") if x]}


class Transcript:
    def __init__(self, lines, outs):
        self.lines, self.outs = lines, outs
        self.reports = []       # (pos, [records]) for every cycle/flush/cycStep that reported
        self.panics = []
        self.missing = []       # a cycle completed / flush() returned without the reporter having been called (or the reverse)
        self.dead = False
        self.ctx = {}           # pos -> None | (trace, id, sampled)
        self.cl = {}            # pos -> bool
        self.recs = {}          # pos -> [records] (toRecords)
        self.stats = {}         # pos -> (active list, rx)
        self.parked = {}        # pos -> notes in PARKED_CANCELS
        self.elapsed = {}       # pos -> ns
        self.el = {}            # pos -> did elapsed() return Some
        for i, o in enumerate(outs):
            if i >= len(lines):
                break
            if o == "panic":
                self.panics.append(i)
            elif o in ("<dead>", "timeout", "<no-output>"):
                self.dead = True
            elif o.startswith("rep "):
                body = o[4:]
                if body == "none":
                    continue
                if body in ("missing", "unexpected-report"):
                    self.missing.append((i, body))
                    continue
                self.reports.append((i, [] if body == "-" else [parse_record(t) for t in body.split(" ")]))
            elif o.startswith("recs "):
                body = o[5:]
                self.recs[i] = [] if body == "-" else [parse_record(t) for t in body.split(" ")]
            elif o.startswith("ctx "):
                f = o.split()
                self.ctx[i] = None if f[1] == "none" else (int(f[1], 16), f[2], f[3] == "1")
            elif o.startswith("elapsed 1~"):
                self.elapsed[i] = int(o.split("~")[1])
                self.el[i] = True
            elif o.startswith("elapsed "):
                self.el[i] = o.split()[1].startswith("1")
            elif o.startswith("cl "):
                self.cl[i] = o == "cl 1"
            elif o.startswith("stats "):
                f = o.split()
                a = f[1][2:]
                self.stats[i] = ([] if a == "-" else [tuple(int(x) for x in e.split(":")) for e in a.split(",")], int(f[2][3:]))
                self.parked[i] = int(f[3][3:]) if len(f) > 3 and f[3].startswith("pc=") else 0

    def delivered(self):
        return [(pos, r) for pos, rs in self.reports for r in rs]

    def cycle_positions(self):
        return [i for i, l in enumerate(self.lines) if l.split()[1] in ("cycle", "flush", "flushEnd")]

    def cycles(self):
        """(position where the cycle began, position of its report); a stepped cycle begins at cycBegin"""
        out, begin = [], None
        for i, l in enumerate(self.lines):
            op = l.split()[1]
            if op in ("cycle", "flush", "flushEnd"):
                out.append((i, i))
            elif op == "cycBegin":
                begin = i
            elif op == "cycStep" and i < len(self.outs) and self.outs[i].startswith("rep ") and begin is not None:
                out.append((begin, i))
                begin = None
        return out


def idmap(spec, tr):
    """name -> set of ids, from delivered records and from context observations"""
    m = {}
    for _, r in tr.delivered():
        m.setdefault(r["name"], set()).add(r["id"])
    # spans that are never delivered (unsampled, cancelled, still open) are only known through the contexts that name
    # them; a delivered record is authoritative, a context observation must not add a second id for its name
    seen = set(m)
    # (`enter_on_poll` records one span per poll under one name: such a name denotes several spans, delivered or not)
    for l in tr.lines:
        w = l.split()
        if len(w) >= 5 and w[1] == "adNew" and w[3] == "enterOnPoll":
            try:
                seen.discard(bytes.fromhex(w[4]).decode("utf-8", "replace"))
            except ValueError:
                pass
    for pos, exp in spec.ctx_obs:
        got = tr.ctx.get(pos)
        if exp is not None and got is not None and exp[1][0] == "span" and exp[1][1] not in seen:
            m.setdefault(exp[1][1], set()).add(got[1])
    return m


def pref(parent, ids):
    """expected parent reference -> canonical id text, or None if unknown"""
    if parent[0] == "remote":
        return "0" if parent[1] == 0 else "x%x" % parent[1]
    s = ids.get(parent[1])
    if s and len(s) == 1:
        return next(iter(s))
    return None


def o_no_panic(spec, tr):
    out = []
    for i in tr.panics:
        out.append("call %r panicked" % tr.lines[i])
    for i, what in tr.missing:
        if what == "missing":
            out.append("%r: the collector cycle completed%s but the reporter was not called" % (tr.lines[i], " and flush() returned" if "flush" in tr.lines[i] else ""))
        else:
            out.append("%r: the reporter was called although no reporter / no cycle was expected" % tr.lines[i])
    for i, o in enumerate(tr.outs):
        if o.startswith("timeout waiting for the start-up cycle"):
            out.append("%r: the background collector did not run (and report) a cycle after set_reporter — nothing would be delivered without a further call" % tr.lines[i])
            break
    if tr.dead:
        k = next((i for i, o in enumerate(tr.outs) if o in ("<dead>", "timeout", "<no-output>")), None)
        where = ""
        if k is not None and k < len(tr.lines):
            where = ": %r %s" % (tr.lines[k], "did not return within the deadline (the calling thread is blocked)" if tr.outs[k] == "timeout" else "(the process died)")
        out.append("process died or a call did not return within the deadline" + where)
    return out


def o_ids(spec, tr):
    """C02: ids non-zero, one id per span, distinct spans have distinct ids"""
    out = []
    ids = idmap(spec, tr)
    seen = {}
    for name, s in ids.items():
        if len(s) != 1 and not name.startswith("p"):   # enter_on_poll: one span per poll under one name
            out.append("span %r appears with several ids %s" % (name, sorted(s)))
        for i in s:
            if i == "0":
                out.append("span %r has the zero id" % name)
            if i in seen and seen[i] != name and not name.startswith("p"):
                out.append("spans %r and %r share id %s" % (seen[i], name, i))
            seen[i] = name
    return out


def expected_final(spec, tr=None):
    """expected entries that must have been delivered by the end of the program, those that must
    never be (cancelable: cancelled traces, roots never finished, spans finished after the cycle
    that delivered their trace), and those that may be (cancelable: finished after the root but
    before the cycle that consumed the root's commit — then only in that cycle's report)"""
    must, never, maybe = [], [], []
    cyc = tr.cycles() if tr is not None else []
    for e in spec.expected:
        t = spec.traces.get(e["root"])
        if t is None:
            continue
        if not spec.cancelable:
            must.append(e)
        elif t["cancelled"] or t["commit_pos"] is None:
            never.append(e)
        elif e["fin"] <= t["commit_pos"]:
            must.append(e)
        else:
            # finished after its root: never on its own — at most in the one report that delivers the trace
            maybe.append((e, None))
    return must, never, maybe


def o_tree(spec, tr, strict_unknown=True):
    """C02: every delivered record has the trace id and parent the program gave it; C05: and
    belongs to a sampled trace"""
    out = []
    ids = idmap(spec, tr)
    exp = {}
    for e in spec.expected:
        exp.setdefault((e["name"], e["trace"]), []).append(e)
    for pos, r in tr.delivered():
        es = exp.get((r["name"], r["trace"]))
        if es is None:
            names = [e for e in spec.expected if e["name"] == r["name"]]
            if names:
                out.append("record %r delivered in trace %x; the program puts it in trace(s) %s" % (r["name"], r["trace"], sorted(set("%x" % e["trace"] for e in names))))
            elif strict_unknown:
                out.append("record %r (trace %x) delivered but no sampled span of that name finished" % (r["name"], r["trace"]))
            continue
        want = set()
        unknown = False
        for e in es:
            p = pref(e["parent"], ids)
            if p is None:
                unknown = True
            else:
                want.add(p)
        if r["parent"] not in want and not unknown:
            out.append("record %r in trace %x has parent %s; its parent at creation was %s" % (r["name"], r["trace"], r["parent"], sorted(want)))
    return out


def o_exactly_once(spec, tr):
    """C01 (default) / C03+C04 (cancelable): delivered multiset == expected multiset, each in
    the report of the first cycle after it was due"""
    out = []
    ids = idmap(spec, tr)
    must, never, maybe = expected_final(spec, tr)
    cyc = tr.cycles()

    def key(name, trace, parent):
        return (name, trace, parent)
    got = {}
    for pos, r in tr.delivered():
        got.setdefault(key(r["name"], r["trace"], r["parent"]), []).append(pos)
    want = {}
    for e in must:
        # only what is already due: a cycle has begun after the span finished (default) / after the root's commit (cancelable)
        due_after = e["fin"] if not spec.cancelable else spec.traces[e["root"]]["commit_pos"]
        if not any(b > due_after for (b, rp) in cyc):
            continue
        p = pref(e["parent"], ids)
        want.setdefault(key(e["name"], e["trace"], p), []).append(e)
    for k, es in want.items():
        if k[2] is None:
            # parent id never observed: fall back to (name, trace)
            n = sum(len(v) for kk, v in got.items() if kk[0] == k[0] and kk[1] == k[1])
            if n < len(es):
                out.append("span %r of trace %x delivered %d times, expected %d" % (k[0], k[1], n, len(es)))
            continue
        g = got.get(k, [])
        if len(g) != len(es):
            out.append("span %r (trace %x, parent %s) delivered %d times, expected exactly %d" % (k[0], k[1], k[2], len(g), len(es)))
            continue
        # timing: due at the first cycle after the span finished (default) / after the root's commit (cancelable)
        for e, pos in zip(sorted(es, key=lambda e: e["fin"]), sorted(g)):
            due_after = e["fin"] if not spec.cancelable else spec.traces[e["root"]]["commit_pos"]
            # at the latest in the first cycle that *begins* after it was due; a cycle already in
            # progress (stepped drain) may pick it up earlier, never before it was due
            due = next((rp for (b, rp) in cyc if b > due_after), None)
            if due is not None and not (due_after < pos <= due):
                out.append("span %r (trace %x) was due by the report of the cycle at line %d (finished at line %d) but was delivered at line %d" % (k[0], k[1], due, due_after, pos))
    wantkeys = set((k[0], k[1]) for k in want)
    # cancelable: the report position(s) at which each trace's due records arrived
    trace_pos = {}
    if spec.cancelable:
        for k, es in want.items():
            for e in es:
                if k[2] is None:
                    # the parent's id was never observed (a root created from the context of a span that is still open):
                    # the record is recognised by name and trace alone
                    for kk, v in got.items():
                        if kk[0] == k[0] and kk[1] == k[1]:
                            trace_pos.setdefault(e["root"], set()).update(v)
                else:
                    trace_pos.setdefault(e["root"], set()).update(got.get(k, []))
        for root, ps in trace_pos.items():
            if len(ps) > 1:
                out.append("trace %x was delivered in %d report calls (lines %s), not in a single one" % (spec.traces[root]["trace"], len(ps), sorted(ps)))
    for e, _ in maybe:
        wantkeys.add((e["name"], e["trace"]))
        allowed = trace_pos.get(e["root"], set())
        ep = pref(e["parent"], ids)
        for kk, v in got.items():
            # (two roots may share a trace id — a root created from an extracted context: tell the copies apart by parent)
            if kk[0] == e["name"] and kk[1] == e["trace"] and (ep is None or kk[2] == ep) and any(p not in allowed for p in v):
                out.append("span %r of trace %x finished after its root; it may only be delivered together with the trace (line %s), was delivered at %s" % (e["name"], e["trace"], sorted(allowed), v))
    for e in never:
        ep = pref(e["parent"], ids)
        n = sum(len(v) for kk, v in got.items() if kk[0] == e["name"] and kk[1] == e["trace"] and (ep is None or kk[2] == ep))
        if n and (e["name"], e["trace"]) not in wantkeys:
            trc = spec.traces[e["root"]]
            why = "its trace was cancelled" if trc["cancelled"] else "its root never finished" if trc["commit_pos"] is None else "it finished after its root"
            out.append("span %r of trace %x was delivered although %s (cancelable)" % (e["name"], e["trace"], why))
    return out


def o_omission_only(spec, tr):
    """C09: under overload the result may lack spans, but nothing is delivered twice, nothing is delivered that must
    never be (cancelled trace, root never finished — cancelable), and nothing the program did not produce"""
    out = []
    ids = idmap(spec, tr)
    must, never, maybe = expected_final(spec, tr)
    got = {}
    for pos, r in tr.delivered():
        got.setdefault((r["name"], r["trace"]), []).append(pos)
    want = {}
    for e in list(must) + [e for e, _ in maybe]:
        want[(e["name"], e["trace"])] = want.get((e["name"], e["trace"]), 0) + 1
    for k, ps in got.items():
        n = want.get(k, 0)
        if len(ps) > n:
            nv = [e for e in never if (e["name"], e["trace"]) == k]
            if nv and not n:
                trc = spec.traces[nv[0]["root"]]
                why = "its trace was cancelled" if trc["cancelled"] else "its root never finished"
                out.append("span %r of trace %x was delivered although %s (cancelable, overloaded queue)" % (k[0], k[1], why))
            else:
                out.append("span %r of trace %x delivered %d times, the program produced it %d times (overloaded queue: omission only)" % (k[0], k[1], len(ps), n))
    return out


def o_attachments(spec, tr):
    """C06: properties and events on each delivered record are exactly the attached ones"""
    out = []
    exp = {}
    for e in spec.expected:
        exp.setdefault((e["name"], e["trace"]), []).append(e)
    for pos, r in tr.delivered():
        es = exp.get((r["name"], r["trace"]))
        if not es or r["name"] in spec.unspecified:
            continue
        ok = False
        for e in es:
            if sorted(e["props"]) == sorted(r["props"]) and sorted((n, tuple(p)) for n, p in e["events"]) == sorted((n, tuple(p)) for n, p in r["events"]):
                ok = True
        if not ok:
            e = es[0]
            out.append("record %r (trace %x) carries properties %r events %r; attached were properties %r events %r" % (r["name"], r["trace"], r["props"], r["events"], e["props"], e["events"]))
            continue
        # order: attachments made through the same route by the same thread keep their order
        for e in es:
            groups = []
            if e.get("groups"):
                groups = [(tag, g["props"], g["events"]) for tag, g in e["groups"].items()]
            bad = None
            for tag, gp, ge in groups:
                if not is_subsequence([tuple(x) for x in gp], [tuple(x) for x in r["props"]]):
                    bad = "properties %r attached through %s in this order are delivered as %r" % (gp, tag_text(tag), r["props"])
                if not is_subsequence([(n, tuple(map(tuple, p))) for n, p in ge], [(n, tuple(map(tuple, p))) for n, p in r["events"]]):
                    bad = "events %r attached through %s in this order are delivered as %r" % ([n for n, _ in ge], tag_text(tag), [n for n, _ in r["events"]])
            if bad is None:
                break
        else:
            if es and bad:
                d23 = any(e.get("nested_same_owner") for e in es)
                out.append("record %r (trace %x): %s%s" % (r["name"], r["trace"], bad, " [nested local-parent scopes of the same span: D23]" if d23 else ""))
    return out


def o_attachments_owner(spec, tr):
    """the attachments oracle for properties that speak of *where* an attachment lands, not of the order on the record
    (C04, C10, C13, C14): the order clause of C06 in the one situation where the implementation breaks it (D23, judged
    and listed under C06) is left out"""
    return [m for m in o_attachments(spec, tr) if "[nested local-parent scopes of the same span: D23]" not in m]


def is_subsequence(a, b):
    it = iter(b)
    return all(any(x == y for y in it) for x in a)


def tag_text(tag):
    route, t = tag
    return {"own": "the span's own with_properties calls", "handle": "the span handle by thread %s" % t, "local": "the local parent on thread %s" % t,
            "pushed": "a pushed local-span set on thread %s" % t, "local-span": "the local parent while this local span was innermost",
            "local-own": "the local span's own with_properties calls"}.get(route, str(tag))


def o_contexts(spec, tr):
    """C10/C11/C05: every extracted context is the expected one"""
    out = []
    ids = idmap(spec, tr)
    for pos, exp in spec.ctx_obs:
        if pos not in tr.ctx:
            continue
        got = tr.ctx[pos]
        if exp is None:
            if got is not None:
                out.append("%r returned %r, expected None" % (tr.lines[pos], got))
            continue
        if got is None:
            out.append("%r returned None, expected trace %x span %r" % (tr.lines[pos], exp[0], exp[1]))
            continue
        p = pref(exp[1], ids)
        if got[0] != exp[0] or got[2] != exp[2] or (p is not None and got[1] != p):
            out.append("%r returned (trace %x, span %s, sampled %s); expected (trace %x, span %s = %s, sampled %s)" % (tr.lines[pos], got[0], got[1], got[2], exp[0], exp[1], p, exp[2]))
    return out


def o_closures(spec, tr):
    """C16: a property closure runs iff its span/scope is recording"""
    out = []
    for pos, exp in spec.closure_obs:
        if pos in tr.cl and tr.cl[pos] != exp:
            out.append("%r: closure %s, expected %s" % (tr.lines[pos], "invoked" if tr.cl[pos] else "not invoked", "invoked" if exp else "not invoked"))
    return out + o_elapsed_some(spec, tr)


def o_elapsed_some(spec, tr):
    """C16/C18: elapsed() is Some exactly for a recording span"""
    out = []
    for pos, exp in getattr(spec, "elapsed_obs", []):
        if pos in tr.el and tr.el[pos] != exp:
            out.append("%r returned %s, but the span is %s" % (tr.lines[pos], "Some" if tr.el[pos] else "None", "recording" if exp else "not recording (no-op)"))
    return out


def o_retained(spec, tr):
    """C08: after the final cycles nothing is retained for finished/cancelled traces or exited threads"""
    out = []
    if not tr.stats:
        return out
    pos = max(tr.stats)
    active, rx = tr.stats[pos]
    open_roots = set()
    for k, t in spec.traces.items():
        if t["commit_pos"] is None and not (spec.cancelable and t["cancelled"]):
            open_roots.add(int(k[1:]))
    got = set(a[0] for a in active)
    if got - open_roots:
        out.append("collector still holds entries for finished/cancelled traces %s (open traces: %s)" % (sorted(got - open_roots), sorted(open_roots)))
    if open_roots - got and spec.reporter:
        out.append("collector holds no entry for open traces %s" % sorted(open_roots - got))
    # what is parked for a trace was attached to a span of that trace through its handle — nothing is inherited from
    # earlier traces (checked at every `stats` line)
    for p2, (act2, _) in sorted(tr.stats.items()):
        for a in act2:
            n = sum(1 for k, ps in getattr(spec, "handle_attached", {}).items() if k and k != "U" and int(k[1:]) == a[0] for q in ps if q <= p2)
            if a[2] > n:
                out.append("line %d: collector keeps %d parked events/properties for trace %d; %d were attached through span handles of that trace" % (p2, a[2], a[0], n))
                break
    for a in active:
        if a[0] in open_roots and a[1] != 0 and not spec.cancelable:
            out.append("collector keeps %d buffered span sets for trace %d in the default configuration" % (a[1], a[0]))
    # a parked-cancel note lives until the commit of its trace is handled: none may be left for a finished trace
    open_cancelled = sum(1 for t in spec.traces.values() if t["cancelled"] and t["commit_pos"] is None)
    if tr.parked.get(pos, 0) > open_cancelled:
        out.append("collector keeps %d parked-cancel notes; %d cancelled traces are still open" % (tr.parked.get(pos, 0), open_cancelled))
    live = sum(1 for th in spec.threads.values() if th["alive"] and th["touched"])
    if rx != live:
        out.append("%d receivers registered, %d live threads have used their queue" % (rx, live))
    return out


def o_unsampled_silent(spec, tr):
    """C05: nothing is delivered for a span none of whose token items is sampled — covered by
    o_tree's unknown-record rule; here: contexts of unsampled traces carry sampled=false"""
    return []


def o_copies(spec, tr):
    """C17: copies of a pushed local-span set are identical up to trace and root parent"""
    out = []
    by = {}
    for pos, r in tr.delivered():
        by.setdefault(r["name"], []).append(r)
    for name, rs in by.items():
        if len(rs) < 2:
            continue
        base = rs[0]
        for r in rs[1:]:
            ev = lambda x: sorted((n, tuple(p)) for n, p in x["events"])
            if r["id"] != base["id"] or (sorted(r["props"]) != sorted(base["props"]) or ev(r) != ev(base)) and name not in spec.unspecified:
                out.append("copies of %r differ: id %s/%s props %r/%r events %r/%r" % (name, base["id"], r["id"], base["props"], r["props"], base["events"], r["events"]))
            if abs(r["dur"] - base["dur"]) > 2000:
                out.append("copies of %r have durations %d and %d" % (name, base["dur"], r["dur"]))
    # a copy may lack attachments when it arrives after its trace's root (C06 leaves that open), but no copy ever carries an
    # event or property more often than it was attached: the nested events of one copy are not mounted on another
    exp = {}
    for e in spec.expected:
        exp.setdefault((e["name"], e["trace"]), []).append(e)
    for pos, r in tr.delivered():
        es = exp.get((r["name"], r["trace"]))
        if not es or r["name"] not in spec.unspecified:
            continue            # (records that are fully specified are judged by the attachments oracle)
        for what, key in (("events", lambda x: [(n, tuple(map(tuple, p))) for n, p in x["events"]]), ("props", lambda x: [tuple(p) for p in x["props"]])):
            got = key(r)
            for item in set(got):
                most = max(key(e).count(item) for e in es)
                if got.count(item) > most:
                    out.append("copy of %r in trace %x carries %s %r %d times; it was attached %d times (attachments of another copy were mounted on this one)"
                               % (r["name"], r["trace"], what[:-1], item[0] if what == "events" else item, got.count(item), most))
                    break
    return out


def o_idsweep(spec, tr):
    """C02: span ids of distinct spans are distinct across threads — each thread's ids start at an independent
    32-bit prefix.  For n sequential threads the number of pairs sharing a prefix is Poisson(n^2 / 2^33); more than
    eight pairs has probability < 1e-9 for n = 70000 and means prefixes are being reused systematically."""
    out = []
    for i, o in enumerate(tr.outs):
        if o.startswith("sweep "):
            f = dict(x.split("=") for x in o.split()[1:])
            n, k = int(f["n"]), int(f["dup_pairs"])
            if k > 8 + n * n / 2 ** 33 * 4:
                out.append("%d threads created one after another: %d pairs of them drew the same first span id (about %.2f expected for independent 32-bit "
                           "prefixes): distinct spans on different threads get equal span ids" % (n, k, n * n / 2 ** 33))
    return out


def o_times(spec, tr, times):
    """C18: durations, begin times, containment, sibling order, event timestamps, elapsed()"""
    out = []
    if not times:
        return out
    T = times

    def ok_pos(p):
        return p is not None and p < len(T) and T[p] is not None
    names = {}
    for e in spec.expected:
        names.setdefault((e["name"], e["trace"]), []).append(e)
    by_report = {}
    for pos, r in tr.delivered():
        by_report.setdefault(pos, []).append(r)
        es = names.get((r["name"], r["trace"]))
        if not es or len(es) != 1 or r["name"].startswith("p"):
            continue
        e = es[0]
        b, c = e.get("born"), e.get("closed")
        if c is None:
            c = e["fin"]          # still open when its set was collected: ends at collection time
        if ok_pos(b) and ok_pos(c):
            lo = T[c][0] - T[b][1]
            hi = T[c][1] - T[b][0]
            tol = 150_000 + r["dur"] // 1000      # TSC calibration of the library's clock against std's: up to 0.1 %
            if not (lo - tol <= r["dur"] <= hi + tol):
                out.append("record %r: duration %d ns, but its span started during [%d,%d] and finished during [%d,%d] of the run (monotonic ns): expected %d..%d"
                           % (r["name"], r["dur"], T[b][0], T[b][1], T[c][0], T[c][1], lo, hi))
            wtol = 3_000_000 + r["dur"] // 500   # the anchor is taken at report time: calibration error grows with the distance
            if not (T[b][2] - wtol <= r["begin"] <= T[b][3] + wtol):
                out.append("record %r: begin time %d is outside the wall-clock window [%d,%d] of the call that created the span" % (r["name"], r["begin"], T[b][2], T[b][3]))
        # events recorded in a LocalCollector scope with no local span open and pushed to this span later were recorded
        # before the span existed: only events recorded in / attached to the span itself are bound by its interval
        pushed = any(k[0] == "pushed" for x in (es or []) for k in x.get("groups", {}))
        for ts in ([] if pushed else r["evt"]):
            if not (r["begin"] - 100_000 <= ts <= r["begin"] + r["dur"] + 100_000):
                out.append("record %r: event timestamp %d outside the span's interval [%d,%d]" % (r["name"], ts, r["begin"], r["begin"] + r["dur"]))
    # containment and sibling order among local spans of one report (one clock anchor)
    for pos, rs in by_report.items():
        byid = {}
        for r in rs:
            byid.setdefault(r["id"], r)
        kids = {}
        for r in rs:
            p = byid.get(r["parent"])
            es = names.get((r["name"], r["trace"]))
            # (a record named `cl` that the specification does not know is the local span entered by a user closure or
            # by a span-name conversion: a local span like any other)
            if p is None or (es and es[0]["kind"] == "span") or (not es and r["name"] != "cl"):
                continue
            pes = names.get((p["name"], p["trace"]))
            if not pes or pes[0]["kind"] == "span":
                continue        # parent is a thread-safe span: may legitimately finish on another schedule
            if r["begin"] + 1 < p["begin"] or r["begin"] + r["dur"] > p["begin"] + p["dur"] + 1:
                out.append("local span %r [%d,+%d] is not within its enclosing local span %r [%d,+%d]" % (r["name"], r["begin"], r["dur"], p["name"], p["begin"], p["dur"]))
            kids.setdefault((p["id"], r["trace"]), []).append(r)
        for k, lst in kids.items():
            # siblings under one local span, in the order they began: each ends before the next begins
            lst.sort(key=lambda x: (x["begin"], x["begin"] + x["dur"]))
            for a, b in zip(lst, lst[1:]):
                if a["id"] != b["id"] and a["begin"] + a["dur"] > b["begin"] + 1:
                    out.append("sibling local spans %r [%d,+%d] and %r [%d,+%d] overlap" % (a["name"], a["begin"], a["dur"], b["name"], b["begin"], b["dur"]))
    # elapsed()
    out += o_elapsed_some(spec, tr)
    for pos, ns in tr.elapsed.items():
        v = tr.lines[pos].split()[2]
        born = None
        for i in range(pos, -1, -1):
            w = tr.lines[i].split()
            if len(w) > 2 and w[2] == v and w[1] in ("root", "child1", "childN", "childLocal"):
                born = i
                break
        if born is not None and ok_pos(born) and ok_pos(pos):
            lo, hi = T[pos][0] - T[born][1], T[pos][1] - T[born][0]
            if not (lo - 150_000 <= ns <= hi + 150_000):
                out.append("elapsed() of %s returned %d ns; the span was created %d..%d ns before" % (v, ns, lo, hi))
    return out


ALL = {"idsweep": o_idsweep, "no_panic": o_no_panic, "ids": o_ids, "tree": o_tree, "exactly_once": o_exactly_once, "attachments": o_attachments,
       "contexts": o_contexts, "closures": o_closures, "retained": o_retained, "copies": o_copies, "omission_only": o_omission_only, "attachments_owner": o_attachments_owner}
