"""Writes MANIFEST.json from the table below (kept in one place so it stays valid)."""
import json
import os

VERIF = os.path.dirname(os.path.dirname(os.path.abspath(__file__)))
ALL = ["C%02d" % i for i in range(1, 21)]

CLAIMED = {
    "C12": dict(
        technique="Lean 4 theorems (round trip, fixed shape, decode characterised against a parser-independent HexFits spec) + differential correspondence fh-codec vs fmodel + independent python oracle",
        text="Kernel-checked theorems over the Lean model of encode/decode/Display/FromStr for all 2^128 x 2^64 x 2 contexts and all strings (C12_decode_encode, C12_encode_shape, C12_decode_some_iff, C12_decode_none, id round trips). "
             "The model is tied to /repo on every run: format literals regenerated into Gen/Params.lean (ParamsOk), and the real functions are run against the model's compiled definitions on generated contexts and valid/near-valid/arbitrary UTF-8 strings under catch_unwind.",
        note="Trusted: Lean kernel; axioms propext/Classical.choice/Quot.sound only; hand-written model of u128/u64/u8::from_str_radix and format! (validated differentially, not proved against rustc's libcore); harness + python oracle. "
             "A leading '+' in a field is accepted by Rust and by the model; the property text does not decide it and the oracle accepts either.",
        design="§4 C12"),
    "C20": dict(
        technique="Lean 4 theorems over try_report's loop for an arbitrary size function (termination by well-founded definition, partition, size bound, only-oversize-skipped) + byte-exact differential run of the real JaegerReporter over loopback UDP + independent python Thrift decoder as oracle",
        text="Kernel-checked theorems about the model of JaegerReporter::try_report for every batch, every size function and every limit: outputs partition the batch in order (C20_partition), every datagram is below the limit (C20_sizes, C20_real_sizes with the regenerated MAX_UDP_PACKAGE_SIZE <= 8000), only spans that do not fit alone are skipped (C20_skipped_only_oversize, C20_fitting_never_skipped), the loop terminates (accepted well-founded definition). "
             "Tie: the real reporter sends to a loopback socket; its datagrams must equal the model's byte for byte on batches straddling the limit, and an independent decoder checks size/partition/order on the real bytes; every skipped span is re-sent alone to confirm it does not fit.",
        note="Trusted: Lean kernel; hand-written model of thrift_codec's compact encoding (compared byte-for-byte, not proved); loopback UDP delivery; send_to/serialize assumed not to fail.",
        design="§4 C20"),
    "C19": dict(
        technique="Lean 4 theorems (OpenTelemetry conversion invertible; Jaeger id split, varint and zigzag round trips; µs loss bound; Datadog meta keys) + byte-exact differential run of the three real reporters (loopback UDP, loopback HTTP, capturing exporter) against the Lean encoders + independent python Thrift/msgpack decoders as oracle",
        text="Kernel-checked: C19_otel_faithful (every field of every well-formed record is recoverable from the exported SpanData), C19_jaeger_ids_lossless, C19_varint_roundtrip, C19_zigzag_roundtrip, C19_jaeger_time_loss, C19_meta_keys_subset. "
             "Tie and remaining assurance: the Lean models of thrift_codec's compact encoding, rmp-serde's struct-map encoding and the OTel conversion must reproduce the real reporters' output byte for byte (Datadog: equal after decoding, meta is a HashMap) on every generated batch, and independent decoders check on the real bytes that each record appears exactly once, in order, with ids/name/times/properties/events unchanged up to the stated format limits.",
        note="Partial: whole-message Thrift and msgpack decode(encode)=id theorems are not yet proved in Lean (primitives are); that half is covered by decoding the real bytes with independent decoders on every run. Trusted: Lean kernel; models of thrift_codec/rmp-serde/opentelemetry_sdk (compared, not proved); reqwest and the loopback stack; records with begin+duration >= 2^64 are excluded (no collector cycle produces them; D11).",
        design="§4 C19"),
}

REASON_PENDING = "not claimed yet in this revision: model/harness slice for this property is still being built (see DESIGN.md §6 work order)"


def main():
    checks = []
    for pid in ALL:
        if pid in CLAIMED:
            c = CLAIMED[pid]
            checks.append({
                "property_id": pid,
                "quick_cmd": "./check %s --tier quick" % pid,
                "thorough_cmd": "./check %s --tier thorough" % pid,
                "evidence_file": "/verif/evidence/%s.json" % pid,
                "replay_cmd_template": "./check %s --replay {path}" % pid,
                "engine": "lean4-proof+correspondence",
                "level_claimed": {"category": "proof", "text": c["text"], "design_ref": c["design"]},
                "level_note": c["note"],
                "technique": c["technique"],
            })
    m = {
        "version": 1,
        "setup_cmd": "./setup.sh",
        "hooks": {
            "guard": "fastrace_verif",
            "enable": "RUSTFLAGS=\"--cfg fastrace_verif\" (set by tools/common.py for every harness build)",
            "baseline_off_cmd": "cd /repo/$(cat /w/out/cargo_root.txt) && cargo nextest run --workspace --no-fail-fast --tool-config-file pb:/w/lib/nextest.toml --profile pb --test-threads 8 --offline",
            "source_commits": HOOK_COMMITS,
            "add_only": True,
        },
        "engines": [{
            "name": "lean4-proof+correspondence", "path": "/verif/check",
            "serves_properties": sorted(CLAIMED),
            "kind_free_text": "Lean 4 model + kernel-checked theorems (lean/), parameters regenerated from /repo, differential correspondence harness in Rust (harness/) driven by python (tools/)",
        }],
        "checks": checks,
        "not_applicable": [{"property_id": p, "reason": NA.get(p, REASON_PENDING)} for p in ALL if p not in CLAIMED],
        "notes": "See DESIGN.md. KNOWN_FINDINGS.txt lists open/fixed findings; evidence/replay/ holds replay files (not committed).",
    }
    json.dump(m, open(os.path.join(VERIF, "MANIFEST.json"), "w"), indent=1)


HOOK_COMMITS = []
NA = {}

if __name__ == "__main__":
    main()
