"""Writes MANIFEST.json from the table below (kept in one place so it stays valid)."""
import json
import os

VERIF = os.path.dirname(os.path.dirname(os.path.abspath(__file__)))
ALL = ["C%02d" % i for i in range(1, 21)]

CLAIMED = {
    "C12": dict(
        technique="Lean 4 theorems (round trip, fixed shape, decode characterised against a parser-independent HexFits spec) + differential correspondence fh-codec vs fmodel + independent python oracle",
        text="Kernel-checked theorems over the Lean model of encode/decode/Display/FromStr for all 2^128 x 2^64 x 2 contexts and all strings (C12_decode_encode, C12_encode_shape, C12_decode_some_iff, C12_decode_none, id round trips). "
             "The model is tied to /repo on every run: format literals regenerated into Gen/Params.lean (ParamsOk), and the real functions are run against the model's compiled definitions on generated contexts and valid/near-valid/arbitrary UTF-8 strings under catch_unwind.",
        note="Trusted: Lean kernel; axioms propext/Classical.choice/Quot.sound only; hand-written model of u128/u64/u8::from_str_radix and format! (validated differentially, not proved against rustc's libcore); harness + python oracle. "
             "A leading '+' in a field is accepted by Rust and by the model; the property text does not decide it and the oracle accepts either.",
        design="§4 C12"),
    "C20": dict(
        technique="Lean 4 theorems over try_report's loop for an arbitrary size function (termination by well-founded definition, partition, size bound, only-oversize-skipped) + byte-exact differential run of the real JaegerReporter over loopback UDP + independent python Thrift decoder as oracle",
        text="Kernel-checked theorems about the model of JaegerReporter::try_report for every batch, every size function and every limit: outputs partition the batch in order (C20_partition), every datagram is below the limit (C20_sizes, C20_real_sizes with the regenerated MAX_UDP_PACKAGE_SIZE <= 8000), only spans that do not fit alone are skipped (C20_skipped_only_oversize, C20_fitting_never_skipped), the loop terminates (accepted well-founded definition). "
             "Tie: the real reporter sends to a loopback socket; its datagrams must equal the model's byte for byte on batches straddling the limit, and an independent decoder checks size/partition/order on the real bytes; every skipped span is re-sent alone to confirm it does not fit.",
        note="Trusted: Lean kernel; hand-written model of thrift_codec's compact encoding (compared byte-for-byte, not proved); loopback UDP delivery; send_to/serialize assumed not to fail. One JaegerReporter is reused for all batches of a run (a reporter that sizes its packets from the previous batch is exercised across batches).",
        design="§4 C20"),
    "C19": dict(
        technique="Lean 4 theorems (OpenTelemetry conversion invertible; Jaeger id split, varint and zigzag round trips; µs loss bound; Datadog meta keys) + byte-exact differential run of the three real reporters (loopback UDP, loopback HTTP, capturing exporter) against the Lean encoders + independent python Thrift/msgpack decoders as oracle",
        text="Kernel-checked: C19_otel_faithful (every field of every well-formed record is recoverable from the exported SpanData), C19_jaeger_ids_lossless, C19_varint_roundtrip, C19_zigzag_roundtrip, C19_jaeger_time_loss, C19_meta_keys_subset. "
             "Tie and remaining assurance: the Lean models of thrift_codec's compact encoding, rmp-serde's struct-map encoding and the OTel conversion must reproduce the real reporters' output byte for byte (Datadog: equal after decoding, meta is a HashMap) on every generated batch, and independent decoders check on the real bytes that each record appears exactly once, in order, with ids/name/times/properties/events unchanged up to the stated format limits.",
        note="Whole-message round trips are proved (C19_thrift_roundtrip, C19_jaeger_roundtrip, C19_datadog_roundtrip) under explicit well-formedness guards; the proved decoders and independent python decoders both run on the real bytes. Trusted: Lean kernel; models of thrift_codec/rmp-serde/opentelemetry_sdk (compared, not proved); reqwest and the loopback stack; records with begin+duration >= 2^64 are excluded (no collector cycle produces them; D11). The harness keeps one JaegerReporter per service for the whole run (state between report() calls is carried from batch to batch) and reports a batch through a reporter whose previous batch met a closed agent port (round-11 changes C19g, C20g).",
        design="§4 C19"),

    "C01": dict(
        technique="Lean 4: whole-program end-to-end theorems over `run` with history variables (E2E_conservation: accepted = in flight + consumed + discarded + lost at exit, per token item; E2E_default_flush_exactly_once: after a flush the reported records are exactly the records of every accepted span set, once), built on the collector conservation theorem (report of a default-configuration cycle is a permutation of exactly the submitted span sets, one per token item; Flushed/KeysNodup invariants) + drain lemmas; differential fh-seq vs model incl. stepped drains and thread exit; independent python spec oracle (exactly-once, due cycle)",
        text="Kernel-checked for every collector state and every drained batch: C01_cycle_reports_everything_once (nothing drained is held back, duplicated or invented; the stale path for late spans gives the same result), with the invariants it needs proved preserved and initially true. Drain: C08_drain_batch / C08_drain_removes_dead. Over EVERY program of the model (Props/E2E.lean, invariants ChanInv / Dflt / HasRep proved preserved by all 51 operations): E2E_conservation, E2E_overflow_only_signals, E2E_default_reports_consumed, E2E_flush_delivers(_starts/_collections), E2E_default_flush_exactly_once (default configuration, reporter installed first: when flush() returns, reported records = records of every span set any channel accepted, each exactly once). E2E_nothing_invented (any configuration: nothing is reported or buffered that is not a copy of a consumed span set). "
             "Tie: programs with 1-3 logical threads (real OS threads, real TLS destructors), hand-off of spans between threads, thread exit, cycles at every position (whole, or stepped through the verif hook points incl. the empty-pop/abandoned-check window), run against the real crate and the Lean model; an independent specification checks that every finished sampled span is delivered exactly once, in the report of the first cycle after it finished.",
        note="The end-to-end composition over `run` is now one theorem (E2E_default_flush_exactly_once) at the model's operation granularity; interleavings of single ring pushes with pops are the channel theorems of C09; the wall-clock bound (one report interval) is outside the model. History variables (Sys.g) are written by sendCmd/finishCycle/exitThread only and read by no operation. Trusted: rtrb as a sequentially consistent FIFO; python spec.",
        design="§4 C01"),
    "C02": dict(
        technique="Lean 4: id generator lemmas (non-zero, distinct in a thread for <2^32 draws, distinct across prefixes), token lemmas, collector stamping lemma (postprocess_core / C02_collection_stamps), whole-program trace-id provenance invariant over `run` (C02_trace_ids_from_roots); differential fh-seq vs model; python spec oracle comparing every delivered (trace, parent) with the parent at creation",
        text="Kernel-checked: C02_nth_id, C02_id_nonzero, C02_ids_distinct_in_thread, C02_ids_distinct_across_threads; C02_issueToken, C02_childN_token, C02_childN_noop (D16 fix), C02_currentToken_parent, C02_startSpan, C02_finishSpan_restores (with the frame theorem C10 this is 'innermost open local span'); C02_postprocess_cores + C02_collection_stamps (for every batch and collector state each record carries its token item's trace id and the raw or token parent; mounting never changes ids/parents); C02_trace_ids_from_roots: for EVERY program of the model (all ops, threads, cycle placements, overload, exit) every reported record's trace id was supplied to a sampled root op (invariant Prov over span handles, adapters, span lines, rings, overflow lists, drain buffer, collections). "
             "Tie: generated programs (multi-parent spans across traces, nested scopes with open local spans, spans finished on any thread, cycles anywhere) on the real crate vs the model; oracle with unique span names checks trace id, parent id, id uniqueness of every delivered record.",
        note="Assumes fewer than 2^32 ids per thread and distinct random thread prefixes (D12, environmental; the idSweep scenario measures prefix reuse over 70000 real threads). Trace ids are proved end-to-end over whole programs; the parent-id part of the end-to-end statement is still the composition of the proved parts (token lemmas + C10 frame + collector stamping), validated by the spec oracle.",
        design="§4 C02"),
    "C03": dict(
        technique="Lean 4: exact characterisation of a cancelable cycle's report (cancelable_cycle_records / commitGroups) + per-id buffering lemma; differential fh-seq vs model; python spec oracle (nothing before commit, single report, completeness)",
        text="Kernel-checked for every collector state and batch: C03_report_is_emitted (report = buffered span sets of the ids committed in this batch), C03_only_at_commit, C03_no_commit_no_records, C03_single_report (each id once, not retained afterwards), C03_whole (emitted group = everything buffered before ++ everything routed in this batch, in order), C03_held_accumulates; the drain: C03_second_pass_collects_all, C03_finish_defers_second_pass_commits, C03_split_no_commit, C03_second_pass_waits_for_start (D14 repair: a cancel / span set first seen in the second pass is consumed in this cycle only if its trace is active; otherwise it is carried to the next cycle). "
             "Tie: cancelable programs with children finishing on other threads before the root, cycles between every pair of events; oracle checks per trace: no record before the root's commit, all earlier-finished spans in that one report, nothing afterwards.",
        note="Completeness across threads needs every command pushed before the root's commit to be drained no later than it, and no command to be consumed before older commands of its own trace: defects D4 (two-pass drain, bd94330) and D14 (second-pass commands carried to the next cycle, e2fbc0a), both replayed on the unfixed code and fixed in /repo; the model has the same passes (Sys.cycStep phases atRx2, deferred commits, Sys.carried / splitSecond). The theorems characterise the report relative to the batch a cycle hands to the processing loops; that this batch is causally closed is argued in DESIGN.md and exercised by stepped cycles with operations of all threads between the steps (random streams and witnesses), not one Lean theorem over histories (the model has no happens-before relation). A thread's first tracing call during a drain blocks (background operations bgBegin/bgEnd).",
        design="§4 C03"),
    "C04": dict(
        technique="Lean 4: drop-before-submit-before-commit lemmas, default-configuration no-op theorem (C04_noop_default_cycle), whole-program per-thread order (Fifo_no_overtaking), parked-cancel theorem (C04_parked_cancel_suppresses); differential fh-seq vs model; python spec oracle",
        text="Kernel-checked: C04_dropped_not_emitted (a consumed drop suppresses the id in that cycle even with the commit in the same batch, and releases it), C04_late_submits_discarded, C04_others_unaffected, C04_noop_default / C04_noop_default_cycle (D9 fix: in the default configuration removing all drop commands from a batch changes nothing). "
             "Tie: programs cancelling roots at arbitrary points in both configurations, multi-parent spans shared with non-cancelled traces; oracle checks nothing of a cancelled trace is ever delivered, every other trace exactly as specified, and that cancel() without cancelable(true) changes nothing (attachments parked before the cancel survive).",
        note="'Once cancel() has been called' needs the drop to be drained no later than the commit: same thread by FIFO of forced commands (C09, D2 fix) and, over whole programs, Fifo_no_overtaking (Props/Fifo.lean: a command the thread's channel accepted earlier is popped earlier); across threads by the two-pass drain (D4 fix bd94330, witness corpus/C04/D4-*.txt) and the carried second-pass commands (D14 fix e2fbc0a, witness corpus/C04/D14-*.txt). D21 (a cancel() parked in the calling thread's overflow list because its queue is full was overtaken by the root's commit sent from another thread) is fixed in /repo (da73ac0: PARKED_CANCELS note consulted by the collector before every commit; theorem C04_parked_cancel_suppresses for every state and drain result, C04_cancel_in_queue_or_noted; witness corpus/C04/D21-*.txt and four directed scenarios on the real queue). D3 (a thread exiting with parked commands and a full queue can lose the drop) remains noted.",
        design="§4 C04"),
    "C05": dict(
        technique="Lean 4: whole-program invariant Prov proved preserved by every operation (C05_only_sampled_roots_delivered, C05_unsampled_trace_silent: for every program, no report contains a record of a trace that has no sampled root), plus flag-copy lemmas, submit filter theorem, unsampled-root theorem, scope any-sampled lemma; differential fh-seq vs model; python spec oracle",
        text="Kernel-checked: C05_issue_copies_flag, C05_scope_copies_flag, C05_scope_sampled_any, C05_unsampled_scope_inert, C05_unsampled_root (no start command, reserved collect id), C05_submit_filters / C05_filter_sampled_only / C05_all_unsampled_silent, C05_ctx_flag, C05_records_only_for_submitted; and over `run Sys.init p` for every program p: C05_only_sampled_roots_delivered, C05_unsampled_trace_silent, C05_contexts_carry_decision, C05_unsampled_context (every context extracted anywhere in any program carries sampled=true only with a sampled root's trace id and sampled=false only with an unsampled root's) (non-vacuity examples by `decide` on a concrete mixed program). "
             "Tie: programs mixing sampled and unsampled roots with descendants through every propagation path and mixed parent sets; oracle: a delivered record must belong to a sampled token item of the program, contexts carry the root's flag.",
        note="The whole-program statement (no record whose trace id is not that of a sampled root) is one kernel-checked theorem over the model. Both sentences of the property are whole-program theorems over the model; the model is tied to the crate by the differential run and the contexts oracle.",
        design="§4 C05"),
    "C06": dict(
        technique="Lean 4: parking/mounting theorems (C06_park_order, C06_mount_exact under DistinctIds, C06_apply_items, D10 witness); differential fh-seq vs model; python spec oracle on properties/events of every record; known finding D10 replayed",
        text="Kernel-checked for every record list, parked map and string content: parking keeps per-target arrival order and does not disturb other targets; mounting gives each record exactly the items parked under its id, in order, after its own, removes them, and leaves other ids' items untouched (under DistinctIds); strings are only moved. C06_D10_witness shows the open finding. "
             "Tie: attachments through every route (creation, span handle from any thread, local parent), arbitrary UTF-8 keys/values/names, cycles between attachment and finish, both configurations.",
        note="Open finding D10 (KNOWN_FINDINGS.txt): a span set delivered twice into one trace. Cross-thread attachments relied on the consistent cut: defects D4 (bd94330), D14 and D14b (e2fbc0a: without cancelable the record of a thread-safe span first seen in the second pass waits one cycle for attachments made before it finished), witnesses corpus/C06/D4-*, D14-*, D14b-*.txt. Open known finding D23 (nested local-parent scopes of one span deliver local-route attachments in scope-end order, not in attachment order; witness tools/props/c06.py:D23).",
        design="§4 C06"),
    "C07": dict(
        technique="Lean 4: assertion-validity theorems derived from the frame invariant (C07_local_drop_asserts, C07_scope_drop_asserts), totality/limit theorems for the repaired paths (D6, D7, D8), bounded send; implementation run under catch_unwind + deadline on wild call sequences incl. TLS-teardown calls, 4100 nested scopes, 10245 local spans, full ring",
        text="Kernel-checked: at every guard drop of a well-nested program the handle is in range, epochs agree, next_parent_id is the span being closed, the scope token is present (so no debug_assert or index panic on those paths); current_local_parent() is total; the scope/queue limits yield no-op guards; closures run outside the stack borrow; send/force_send push at most pending+1 times. "
             "Tie: every generated call sequence (incl. re-entrant closures, no reporter, no-op/unsampled spans, empty parent sets, calls from thread-local destructors) runs on a debug build under catch_unwind with a per-call deadline; corpus holds the D6/D7/D7b/D8 witnesses (panic on the unfixed code, confirmed); a probe in a thread-local registered before the thread's first tracing call runs a battery of API calls after fastrace's own thread-locals are destroyed (incl. SpanContext::random(): defect D18, fixed in /repo 275e7dd).",
        note="Partial: blocking in allocator/OS/parking_lot and lock ordering are not expressible in the functional model (source-level argument in DESIGN.md). Open known finding D20 (KNOWN-FINDING line, witness corpus/known/kf-C07-D20-*.txt): LocalSpan::with_properties while a newer local-parent scope is open trips a debug assertion and aborts; not repaired because a #[should_panic] unit test of the baseline suite pins the assertion. The harness installs a `log` logger that re-enters the tracing API, so a library path that logs under one of its own borrows panics visibly (round-10 change C07f).",
        design="§4 C07"),
    "C08": dict(
        technique="Lean 4: exact retained-key-set theorem for a cycle and its corollaries over batch histories; drain lemmas for receivers; differential incl. verif::collector_stats(); python oracle on final stats",
        text="Kernel-checked for every state/batch/history: C08_retained_ids (retained = (old ∪ started) \\ committed \\ dropped-when-cancelable), C08_commit_releases, C08_drop_releases, C08_only_started, C08_history; C08_drain_removes_dead / C08_drain_batch for receivers of exited threads. "
             "Tie: collector_stats() (active ids with buffered/parked counts, registered receivers) compared with the model after every program and checked against the open-trace / live-thread count of the specification.",
        note="Defect D4 (a start drained after its commit was never removed) is fixed in /repo by the two-pass drain (bd94330); witness corpus/C08/D4-*.txt. Whole programs: E2E_conservation accounts for every accepted start/commit/drop (E2E_flush_delivers_starts). D3 (thread exit with parked commands on a full queue) remains noted. The retained oracle checks at every stats line that what is parked for a trace was attached through handles of that trace; parked-cancel notes are counted in stats.",
        design="§4 C08"),
    "C10": dict(
        technique="Lean 4: frame theorem by mutual structural induction over well-nested block programs (C10_frame), thread isolation (exec_th_other), inertness; differential fh-seq vs model with ctxLocal probes around every scope; spec oracle",
        text="Kernel-checked: C10_frame / C10_frame_restored — for every well-nested program of a thread (scopes, local spans, collectors to any depth, any other operations incl. re-entrant closures, cycles and other threads' operations in between) the thread's frame (open scopes, tokens, sampling, innermost open local span per scope) and guard stack are exactly restored; C10_observations_of_frame; C10_other_threads; C10_inert; C10_good_initially. "
             "Tie: probes of current_local_parent() before/after scopes and child/local spans created afterwards, compared with the model and with the independent specification.",
        note="Hypothesis Good (non-zero thread prefix, hence non-zero ids) holds initially and is preserved; observations must not be bad-op (operations refer to existing variables).",
        design="§4 C10"),
    "C11": dict(
        technique="Lean 4: from_span / current_local_parent characterisation theorems, root-token theorem, collector stamping, traceparent round trip (C12); differential fh-seq vs model; spec oracle on every extracted context",
        text="Kernel-checked: C11_from_span, C11_from_noop, C11_local (incl. None for empty token, D6 fix), C11_root_token, C11_rootFrom_token, C11_record_of_item, C11_via_traceparent; over whole programs: C11_context_belongs_to_a_root (any context extracted anywhere in any program names a trace created by a root op of that program, with that root's sampling decision). Tie: contexts extracted at every program point compared with model and specification (trace id, span id of the named span, sampled flag).",
        note="The link 'root created from an extracted context is delivered under that span' is the composition C11_root_token + C11_record_of_item; roots created from observed contexts (`rootFrom` / `rootFromLocal`: SpanContext::from_span / current_local_parent, directly or through a real traceparent encode/decode) are generated dynamically and checked by the tree / exactly-once / contexts oracles; C11_rootFrom_token is the model-level statement. In those programs (every second one) multi-parent spans are switched off (copies with equal name, trace and parent could not be told apart by the oracle); the others, and two directed scenarios, have mixed sampled/unsampled multi-parent scopes. Programs include a caught panic that unwinds through the local spans above the innermost scope only (op unwindLocals).",
        design="§4 C11"),
    "C16": dict(
        technique="Lean 4: inertness/laziness theorems for non-recording spans and empty local context, stateless disabled model; differential: the same programs on the real crate built with and without `enable` (fh-seq / fh-off) vs the two models; closure-invocation oracle; /proc thread count",
        text="Kernel-checked: C16_*_noop family (no closure call, state unchanged / SameWire), C16_child_of_noop, C16_root_before_reporter, C16_scope_noop, C16_local_inert, C16_disabled; whole programs: C16_no_reporter_program_inert (a program that never installs a reporter — any threads, scopes, collectors, adapters, cycles — never returns a report with records, a context, an elapsed() value, nor runs a closure given to a span handle; invariant NoRep; since the D16 repair this includes enter_with_parents over no-op parents). Tie: every program also runs against fastrace compiled without the enable feature: every answer must be the no-op answer, no closure runs, no fastrace thread exists, the reporter is never called.",
        note="Event::with_properties evaluates eagerly when enabled (closure passed to an Event, not to a span); the deprecated Event::add_to_parent / add_to_local_parent are built on it and are not exercised. Defect D16 (a span derived only from no-op spans was live: closures ran, elapsed() was Some) fixed in /repo (4d8ed8e), witness corpus/C16/D16-*.txt.",
        design="§4 C16"),
    "C17": dict(
        technique="Lean 4: to_span_records = postprocess of the same set; copies identical up to trace/root parent; open spans closed at collection time; differential + copy-comparison oracle; known finding D10",
        text="Kernel-checked: C17_to_records_is_postprocess, C17_copies_identical, C17_parents, C17_open_span_closed_at_collect. Tie: random forests captured by LocalCollector, pushed to several parents across traces and converted with to_span_records; copies compared id-by-id; a timed sub-run (every call bracketed by clock readings) checks that spans open at collection are closed at the collection time in every copy.",
        note="Open finding D10 when two of the N parents share a trace. Absolute times use different anchors (durations compared with tolerance). Captured sets are also pushed with the caller's last handle moved into the call (op pushChildLast), incl. in the timed sub-run.",
        design="§4 C17"),

    "C09": dict(
        technique="Lean 4: step-granularity channel model with universally quantified pop placements; refinement-to-queue theorem, forced-never-dropped, FIFO, lossy-only-when-full, capacity, drop-sublist; differential on the real spsc::bounded(k) with pops injected before individual ring pushes (SenderBeforePush hook), exhaustive short sequences; overload scenarios on the real 10240-slot queue",
        text="Kernel-checked for every capacity and every interleaving of the sender's individual ring pushes with consumer pops: C09_channel_is_a_queue (received ++ ring ++ parked grows by exactly the accepted value), C09_forced_never_dropped, C09_forced_fifo (finish/cancel signals exactly once, in order, never overtaken: D2 fix), C09_lossy_only_when_full, C09_capacity, C09_pops_preserve, C09_drop_sublist (thread exit only deletes). Local limits: C07_queue_at_limit / C07_scope_at_limit. Whole programs (Props/E2E.lean): E2E_conservation (nothing accepted is lost or duplicated anywhere between channel and processing loops), E2E_overflow_only_signals (a best-effort send is never parked), E2E_nothing_invented (in either configuration every reported record is a record of a copy of a span set the processing loops were handed: overload can only omit); Props/Fifo.lean: Fifo_per_thread_order (for every program and every thread that has not exited: accepted in order = popped by the collector in order ++ ring ++ overflow list, through every collector step incl. both drain passes), Fifo_drained_is_prefix, Fifo_no_overtaking. "
             "Tie: the real Sender/Receiver with capacities 1-8: all op sequences up to length 4 (quick) / 6 (thorough) over {send, force_send, pop, force_send with a pop before every push} plus random longer ones with random pop placements and sender drop, compared with the model and checked by an independent FIFO oracle; four scenarios that fill the real 10240-slot queue (cancel / finish / start while full, recovery afterwards) compared with the system model and with explicit expectations.",
        note="Open finding D3: Sender::drop at thread exit loses parked commands when the ring is full (C09 limits itself to 'while the thread lives'; witness in Props/C09.lean). rtrb is modelled as a FIFO with exact capacity.",
        design="§4 C09"),
    "C13": dict(
        technique="Lean 4: frame theorem extended to adapter calls (Blk.adCall), local-parent-during-poll, finish-once, guard-before-span (D5 fix), enter_on_poll = one local span per poll; differential with driver-scripted inner futures polled by hand on any thread; impl-only scenarios with a collector cycle between the queue pushes of the finishing call",
        text="Kernel-checked: C13_local_parent_during_poll, C13_context_restored (for every well-nested inner behaviour, any thread), C13_finishes_iff, C13_finish_once, C13_drop_finishes_if_held, C13_guard_before_span, C13_enter_on_poll. "
             "Tie: programs with adapters created from arbitrary spans (incl. roots), any number of Pending polls, migration between threads, nesting of adapters, drop before completion, cycles inside polls, both configurations; oracles: exactly-once/tree/contexts incl. probes inside and after polls; plus the D5 witness family (cycle before the 1st/2nd/3rd push of the finishing call).",
        note="The cycle-inside-the-finishing-call schedules are finer than the model's operation granularity and are checked on the implementation only. A recovery scenario runs the adapter after an overload episode whose queue has drained while a finish signal is still parked (round-11 change C13g).",
        design="§4 C13"),
    "C14": dict(
        technique="Lean 4: C13's theorems are kind-agnostic; finishing table for poll_next / poll_close proved; differential with scripted Stream/Sink inners (futures-core / futures-sink) on all five methods",
        text="Kernel-checked: C14_stream_finishes_iff, C14_sink_finishes_iff, C14_sink_other_calls_never_finish, C14_stream_items_never_finish, C14_local_parent_during_call, C14_context_restored (+ C13_finish_once, C13_guard_before_span, C13_drop_finishes_if_held which do not depend on the adapter kind). "
             "Tie: as C13 with the call alphabets poll_next and poll_ready/start_send/poll_flush/poll_close incl. error results.",
        note="fastrace-futures has no tests in the pinned suite; everything here is new coverage.",
        design="§4 C14"),

    "C15": dict(
        technique="Lean 4: decision-logic theorems of the attribute macro (rejection table, name expression, wrapper choice, unescape_format_string); wrapper semantics by C10/C13; translation-style differential: annotated/plain twin functions compiled with the real macro and compared on results, side effects, panics, recorded spans; Lean decision model compared with the real macro's observable decisions",
        text="Kernel-checked: C15_rejections, C15_name, C15_wrapper, C15_unescape_plain, C15_unescape_format_unchanged, C15_unescape_examples; the run-time behaviour of the three wrappers is C10_frame (LocalSpan guard), C13 (in_span / enter_on_poll). "
             "Tie: twins over sync / async (with and without a Pending poll, the await written out or generated by a macro; also two calls in flight polled alternately) / generic / lifetime / &self,&mut self,self methods / async methods / async-trait impls × attribute forms × bodies (plain, early return, `?`, panic) are generated from the seed, compiled against /repo's macro and executed with and without a local parent: equal return values, side-effect logs and unwind payloads; exactly one span (one per poll with enter_on_poll) with the configured/short/func_path!() name, the configured properties with format strings evaluated, parent = the caller's local parent; nothing without a local parent.",
        note="Defect D15 (statements before a Box::pin(async move {..}) tail were dropped by the macro) fixed in /repo (e541291), witness twin boxed_plain/boxed_traced; annotated functions called during thread-local teardown are covered by the tls_teardown twins. Partial by nature: that the expansion equals 'wrapper around the unchanged body' for all Rust functions is validated on generated twins, not proved (no Lean semantics of Rust). Rejections of malformed attributes are covered by the repository's trybuild ui test (baseline) and by C15_rejections on the model.",
        design="§4 C15"),
    "C18": dict(
        technique="Lean 4: duration/begin formulas of the collector, strictly increasing logical clock, finish-after-begin, begin instants strictly increasing along a scope's queue, nesting/disjointness of local-span intervals by induction over block trees, elapsed(); relational tie: every API call bracketed by monotonic and wall-clock readings, window checks on every delivered record",
        text="Kernel-checked: C18_duration_span, C18_duration_local (open spans end at collection time), C18_begin_plus_duration (monotone conversion), C18_clock_strict, C18_finish_after_begin, C18_queue_begins_increase, C18_elapsed; C18_local_spans_nest and C18_siblings_disjoint: for every well-nested tree of local spans / events / properties (any depth, unbounded), everything recorded inside a local span lies strictly inside its (begin, end) and sibling blocks do not overlap (mutual induction over the block structure, Lemmas/Nesting.lean). "
             "Tie: the harness brackets every call with std Instant / SystemTime readings; per delivered record: duration within the window between creating and finishing call, begin inside the creating call's wall-clock window, event timestamps inside the span's interval (also for Event values built before the span was entered), elapsed() Some exactly for recording spans, local children inside local parents and siblings disjoint (same report = same anchor), elapsed() in its window; and the implementation's zero/non-zero durations agree with the model's clock readings.",
        note="Partial: the real clock cannot be injected, so model instants and real instants are related through windows, not equated; fastant's conversion is assumed monotone and its TSC consistent across cores. Interval containment of nested local spans and sibling disjointness are theorems of the model (C18_local_spans_nest, C18_siblings_disjoint) and are checked on the implementation's records. Timed programs include span names whose conversion records local spans, and empty span names.",
        design="§4 C18"),
}

REASON_PENDING = "not claimed yet in this revision: model/harness slice for this property is still being built (see DESIGN.md §6 work order)"


def main():
    checks = []
    for pid in ALL:
        if pid in CLAIMED:
            c = CLAIMED[pid]
            checks.append({
                "property_id": pid,
                "quick_cmd": "./check %s --tier quick" % pid,
                "thorough_cmd": "./check %s --tier thorough" % pid,
                "evidence_file": "/verif/evidence/%s.json" % pid,
                "replay_cmd_template": "./check %s --replay {path}" % pid,
                "engine": "lean4-proof+correspondence",
                "level_claimed": {"category": "proof", "text": c["text"], "design_ref": c["design"]},
                "level_note": c["note"],
                "technique": c["technique"],
            })
    m = {
        "version": 1,
        "setup_cmd": "./setup.sh",
        "hooks": {
            "guard": "fastrace_verif",
            "enable": "RUSTFLAGS=\"--cfg fastrace_verif\" (set by tools/common.py for every harness build)",
            "baseline_off_cmd": "cd /repo/$(cat /w/out/cargo_root.txt) && cargo nextest run --workspace --no-fail-fast --tool-config-file pb:/w/lib/nextest.toml --profile pb --test-threads 8 --offline",
            "source_commits": HOOK_COMMITS,
            "add_only": True,
        },
        "engines": [{
            "name": "lean4-proof+correspondence", "path": "/verif/check",
            "serves_properties": sorted(CLAIMED),
            "kind_free_text": "Lean 4 model + kernel-checked theorems (lean/), parameters regenerated from /repo, differential correspondence harness in Rust (harness/) driven by python (tools/)",
        }],
        "checks": checks,
        "not_applicable": [{"property_id": p, "reason": NA.get(p, REASON_PENDING)} for p in ALL if p not in CLAIMED],
        "notes": "See DESIGN.md. KNOWN_FINDINGS.txt lists open/fixed findings; evidence/replay/ holds replay files (not committed).",
    }
    json.dump(m, open(os.path.join(VERIF, "MANIFEST.json"), "w"), indent=1)


HOOK_COMMITS = ["64597a6 verif hooks: cfg(fastrace_verif) hook points in spsc and handle_commands, run_collector_cycle, collector_stats, touch_sender",
                "3b742b8 verif hooks: Point::SecondPass in the second drain pass of handle_commands (cfg fastrace_verif)",
                "c35ac0e verif hooks: collector_stats reports the number of parked-cancel notes (cfg fastrace_verif)"]
NA = {}

if __name__ == "__main__":
    main()
