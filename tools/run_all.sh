#!/bin/sh
# runs every claimed check (quick tier) and prints a one-line summary per property
cd "$(dirname "$0")/.."
for p in $(python3 -c "import json;print(' '.join(c['property_id'] for c in json.load(open('MANIFEST.json'))['checks']))"); do
  s=$(date +%s); out=$(./check $p --tier ${1:-quick} 2>&1); rc=$?; e=$(( $(date +%s) - s ))
  echo "$p rc=$rc ${e}s $(echo "$out" | grep -E 'VIOLATION|KNOWN-FINDING' | head -2 | cut -c1-160)"
done
