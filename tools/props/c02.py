"""C02 — delivered records reproduce the program's span tree."""
import seqcheck


def knobs(r, i):
    return {"multi": i % 2 == 0, "threads": 1 + i % 3, "cycle_density": i % 4, "ops": 20 + r.below(80), "unsampled": i % 5 == 0, "same_trace_multi": i % 3 == 0, "open_at_close": i % 4 == 1, "remote_children": i % 3 == 1}


def extra(r):
    # ids across threads: 70000 short-lived threads, one after another (implementation only)
    return [("nomodel/id-prefix-sweep", ["0 spawn", "0 idSweep 70000"], ["no_panic", "idsweep"])]


def run(v, tier, seed, replay):
    seqcheck.run(v, tier, seed, replay, "C02", ["C02"], tree_oracles=["no_panic", "tree", "ids", "contexts", "exactly_once"], knobs=knobs, extra_cases=extra,
                 n_quick=(2100, 300), n_thorough=(80000, 5000))
