"""C14 — Stream and Sink adapters scope spans the same way."""
import seqcheck
from props import c13

KINDS = ["stream", "sink"]


def knobs(r, i):
    return {"adapters": True, "adapter_kinds": KINDS, "threads": 1 + i % 3, "cycle_density": 1 + i % 3, "cancelable": i % 2 == 0, "ops": 30 + r.below(90)}


def run(v, tier, seed, replay):
    cases, impl, model = seqcheck.run(v, tier, seed, replay, "C14", ["C14"], tree_oracles=["no_panic", "exactly_once", "tree", "contexts", "attachments_owner", "retained"],
                                      knobs=knobs, extra_cases=c13.extra_for(KINDS), n_quick=(1800, 300), n_thorough=(60000, 5000),
                                      nontrivial=lambda lines, tr: any(" adPoll " in l for l in lines),
                                      assumptions=["scripted inner stream/sink (futures-core / futures-sink traits), polled by hand"])
    if not v.violations:
        c13.check_last_poll(v, cases, impl)
    if not replay and not v.violations:
        from props import c09
        c09.run_scenarios(v, {"recovery-adapter-%s-%d" % (k, c): c09.sc_recovery_adapter(c, k) for k in KINDS for c in (0, 1)}, with_model=True, jobs=4)
