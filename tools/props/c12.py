"""C12 — traceparent and id text codecs round-trip and never panic."""
import re

import common as C

PROP = "C12"
HEXNUM = re.compile(r"[0-9a-fA-F]+")


def hx(s):
    return s.encode("utf-8").hex() if s else "-"


def spec_parse(field, bits):
    """independent reading of "a hexadecimal number that fits": returns ('some', v) / ('none',) /
    ('unspecified',) for a leading '+' (accepted by Rust's from_str_radix; C12 does not say)"""
    if field.startswith("+") and HEXNUM.fullmatch(field[1:] or "x"):
        return ("unspecified",)
    if HEXNUM.fullmatch(field) and int(field, 16) < (1 << bits):
        return ("some", int(field, 16))
    return ("none",)


def spec_decode(s):
    f = s.split("-")
    if len(f) != 4 or f[0] != "00":
        return ("none",)
    parts = [spec_parse(f[1], 128), spec_parse(f[2], 64), spec_parse(f[3], 8)]
    if any(p[0] == "none" for p in parts):
        return ("none",)
    if any(p[0] == "unspecified" for p in parts):
        return ("unspecified",)
    return ("some", parts[0][1], parts[1][1], parts[2][1] & 1)


def gen_ctx(r):
    def val(bits):
        k = r.below(8)
        if k == 0:
            return 0
        if k == 1:
            return (1 << bits) - 1
        if k == 2:
            return 1 << (bits - 1)
        if k == 3:
            return r.below(256)
        if k == 4:
            return (1 << r.below(bits))
        v = 0
        for _ in range((bits + 63) // 64):
            v = (v << 64) | r.next()
        return v & ((1 << bits) - 1)
    return val(128), val(64), r.below(2)


ALPH = list("0123456789abcdefABCDEF") + ["-", "-", "+", "g", " ", "x", "é", "０", "ß", "😀", "_", "\t"]


def gen_string(r):
    k = r.below(10)
    if k <= 2:  # valid
        t, s, b = gen_ctx(r)
        base = "00-%032x-%016x-%02x" % (t, s, r.below(256))
        return base
    if k <= 6:  # near-valid mutation
        t, s, b = gen_ctx(r)
        fields = ["00", "%032x" % t, "%016x" % s, "%02x" % r.below(256)]
        for _ in range(1 + r.below(2)):
            m = r.below(14)
            i = r.below(len(fields))
            if m == 0:
                fields[i] = ""
            elif m == 1:
                fields[i] = fields[i].upper()
            elif m == 2:
                fields[i] = "+" + fields[i]
            elif m == 3:
                fields[i] = "-" + fields[i]
            elif m == 4:
                fields[i] = fields[i].lstrip("0")
            elif m == 5:
                fields[i] = "0" * r.below(40) + fields[i]
            elif m == 6:
                fields[i] = fields[i] + r.pick(ALPH)
            elif m == 7:
                fields.append(r.pick(["", "00", "1"]))
            elif m == 8 and len(fields) > 1:
                fields.pop(r.below(len(fields)))
            elif m == 9:
                fields[i] = "1" + fields[i]          # one digit too many → overflow
            elif m == 10:
                fields[i] = "f" * (len(fields[i]) + r.below(3))
            elif m == 11:
                fields[0] = r.pick(["01", "0", "000", "ff", "0O", " 00", "+0"])
            elif m == 12:
                j = r.below(max(1, len(fields[i])))
                fields[i] = fields[i][:j] + r.pick(ALPH) + fields[i][j + 1:]
            else:
                fields[i] = r.pick(["+", "-", "+-1", "++1", "0x1f", " 1", "1 "])
        return "-".join(fields)
    n = r.below(12) if k < 9 else r.below(80)
    return "".join(r.pick(ALPH) for _ in range(n))


def gen_idstr(r, width):
    k = r.below(8)
    if k == 0:
        return ""
    if k <= 3:
        v = gen_ctx(r)[0 if width == 32 else 1]
        s = "%0*x" % (width, v)
        return r.pick([s, s.upper(), s.lstrip("0"), "+" + s, "0" + s, "1" + s, s[:-1] + "g", " " + s])
    return "".join(r.pick(ALPH) for _ in range(r.below(width + 4)))


def run(v, tier, seed, replay):
    lean = C.lean_check(["C12"], tier)
    ok, err = C.cargo_build("fh-core", ["fh-codec"])
    n = 12000 if tier == "quick" else 300000
    r = C.Rng(seed * 1000003 + 12)
    lines, expect = [], []
    # corpus first: past/handwritten edge cases
    corpus = ["", "-", "---", "00---", "00-+f-+1-+1", "00-1-1-1", "00-1-1-1-", "00-1-1-100", "00-1-1-ff",
              "00-" + "f" * 32 + "-" + "f" * 16 + "-01", "00-" + "f" * 33 + "-1-1", "00-0-" + "1" + "0" * 16 + "-0",
              "00-é-1-1", "00-1-1-1\n", "0０-1-1-1", "00-" + "0" * 200 + "1-1-1", "00-1-2-3-4", "00--1-1--"]
    # a sign anywhere inside a field (only a leading '+' is what `from_str_radix` tolerates): every position of every field
    base_fields = ["00", "0af7651916cd43dd8448eb211c80319c", "b7ad6b7169203331", "01"]
    for fi in (1, 2, 3):
        f = base_fields[fi]
        for j in range(len(f) + 1):
            for variant in (f[:j] + "+" + f[j:], f[:j] + "+" + f[j + 1:]):
                corpus.append("-".join(base_fields[:fi] + [variant] + base_fields[fi + 1:]))
    # every 7-bit byte (control characters included) and a few wider characters at every position of a valid traceparent,
    # as a replacement and as an insertion: only hexadecimal digits (either case) may keep it decodable
    valid = "-".join(base_fields)
    sweep_chars = [chr(c) for c in range(128)] + ["\u0660", "\uff10", "\u00e9", "\u0131"]
    for j in range(len(valid)):
        for ch in sweep_chars:
            corpus.append(valid[:j] + ch + valid[j + 1:])
        for ch in ("\x10", "\x19", " ", "\t", "0", "_", "\u0660"):
            corpus.append(valid[:j] + ch + valid[j:])
    # the same for the id parsers
    for ch in sweep_chars:
        for j in (0, 7, 15):
            corpus.append(("sid", base_fields[2][:j] + ch + base_fields[2][j + 1:]))
        for j in (0, 16, 31):
            corpus.append(("tid", base_fields[1][:j] + ch + base_fields[1][j + 1:]))
    if replay:
        import json
        rp = json.load(open(replay))
        corpus = [rp["input"]] if "input" in rp else corpus
        n = 0
    for s in corpus:
        if isinstance(s, tuple):
            lines.append("%s_parse %s" % (s[0], hx(s[1]))); expect.append(("%s_parse" % s[0], s[1]))
        else:
            lines.append("dec " + hx(s)); expect.append(("dec", s))
    for i in range(n):
        k = r.below(10)
        if k < 3:
            t, s, b = gen_ctx(r)
            lines.append("enc %x %x %d" % (t, s, b)); expect.append(("enc", t, s, b))
            e = "00-%032x-%016x-%02x" % (t, s, b)
            lines.append("dec " + hx(e)); expect.append(("dec", e))
        elif k < 7:
            s = gen_string(r)
            lines.append("dec " + hx(s)); expect.append(("dec", s))
        elif k == 7:
            t, s, b = gen_ctx(r)
            lines.append("tid_display %x" % t); expect.append(("tid_display", t))
            lines.append("sid_display %x" % s); expect.append(("sid_display", s))
            lines.append("tid_parse " + hx("%032x" % t)); expect.append(("tid_parse", "%032x" % t))
            lines.append("sid_parse " + hx("%016x" % s)); expect.append(("sid_parse", "%016x" % s))
        elif k == 8:
            s = gen_idstr(r, 32)
            lines.append("tid_parse " + hx(s)); expect.append(("tid_parse", s))
        else:
            s = gen_idstr(r, 16)
            lines.append("sid_parse " + hx(s)); expect.append(("sid_parse", s))

    impl = model = None
    if ok:
        rc, impl, e2 = C.run_lines(C.bin_path("fh-codec"), "codec", lines)
    if not lean["failures"] or True:
        import os
        if os.path.exists(C.FMODEL):
            rc, model, e3 = C.run_lines(C.FMODEL, "codec", lines)

    mism, oracle_fail, kinds = [], [], {}
    nontrivial = set()
    if impl is not None:
        for i, (ln, ex) in enumerate(zip(lines, expect)):
            out = impl[i] if i < len(impl) else "<missing>"
            kind = ex[0]
            bad = None
            if out == "panic":
                bad = "implementation panicked"
            elif kind == "enc":
                want = "00-%032x-%016x-%02x" % (ex[1], ex[2], ex[3])
                if out != want or len(out) != 55:
                    bad = "encoding is %r, the fixed form is %r" % (out, want)
                nontrivial.add(ln)
            elif kind == "dec":
                sp = spec_decode(ex[1])
                kinds[sp[0]] = kinds.get(sp[0], 0) + 1
                if sp[0] == "none" and out != "none":
                    bad = "decode accepted text that is not 00-<hex128>-<hex64>-<hex8>: %r" % out
                elif sp[0] == "some" and out != "some %x %x %d" % (sp[1], sp[2], sp[3]):
                    bad = "decode of a well-formed traceparent gave %r" % out
                if ex[1].count("-") >= 2:
                    nontrivial.add(ln)
            elif kind in ("tid_display", "sid_display"):
                w = 32 if kind[0] == "t" else 16
                if out != "%0*x" % (w, ex[1]):
                    bad = "Display/serde text is %r" % out
                nontrivial.add(ln)
            else:
                bits = 128 if kind[0] == "t" else 64
                sp = spec_parse(ex[1], bits)
                if sp[0] == "none" and out != "err":
                    bad = "FromStr/serde accepted %r" % ex[1]
                elif sp[0] == "some" and out != "ok %x" % sp[1]:
                    bad = "FromStr/serde of %r gave %r" % (ex[1], out)
                if ex[1]:
                    nontrivial.add(ln)
            if bad:
                oracle_fail.append((i, ln, ex, out, bad))
            if model is not None and i < len(model) and model[i] != out:
                mism.append((i, ln, ex, out, model[i]))

    for i, ln, ex, out, bad in oracle_fail[:3]:
        v.violation(bad, {"input": ex[1] if isinstance(ex[1], str) else None, "request": ln, "case": [str(x) for x in ex],
                          "implementation": out, "model": model[i] if model and i < len(model) else None,
                          "how_to_replay": "./check C12 --replay <this file>"})
    if not oracle_fail:
        if not ok:
            v.violation("harness does not build against /repo: " + err, {"obligation": "fh-codec builds", "stderr": err}, found_input=False, tag="build")
        elif mism:
            i, ln, ex, out, mo = mism[0]
            v.violation("model/implementation correspondence broken at request %r: implementation %r, model %r; oracle found no property failure in %d requests"
                        % (ln, out, mo, len(lines)), {"correspondence": "fh-codec vs fmodel codec", "request": ln, "case": [str(x) for x in ex], "implementation": out, "model": mo,
                                                      "mismatches": len(mism)}, found_input=False, tag="corr")
        elif lean["failures"]:
            v.violation("proof obligation no longer checks: " + "; ".join(lean["failures"])[:400],
                        {"theorem_or_obligation": lean["failures"], "searched_requests": len(lines)}, found_input=False, tag="proof")
        elif model is None or impl is None or len(impl) != len(lines) or len(model) != len(lines):
            v.violation("driver produced incomplete output", {"impl_lines": len(impl or []), "model_lines": len(model or []), "requests": len(lines)}, found_input=False, tag="driver")

    v.coverage = {
        "obligations": lean["obligations"], "discharged": lean["discharged"] if not lean["failures"] else min(lean["discharged"], lean["obligations"] - 1),
        "checker_cmd": "cd lean && lake build FastraceModel.Props.C12 FastraceModel.Props.ParamsOk && lake env lean <#print axioms of every theorem>" + (" && lake env leanchecker FastraceModel.Props.C12" if tier == "thorough" else ""),
        "trusted_base": C.TRUSTED_BASE, "theorems": lean["theorems"], "axioms": lean["axioms"],
        "evaluations": len(lines), "distinct_nontrivial": len(nontrivial),
        "rule": "requests derived from VERIF_SEED by splitmix64: contexts with boundary/all-ones/top-bit/random ids (encode + decode-of-encoding), "
                "decode of valid / near-valid mutated (field count, widths, case, signs, empty, overflow, non-ASCII) / arbitrary UTF-8 strings, "
                "Display/FromStr/serde of ids; non-trivial = distinct request that is an encode, a display, a non-empty id parse, or a decode with at least two dashes",
        "samples": lines[len(corpus):len(corpus) + 6] + [expect[j][1] for j in range(min(3, len(corpus)))],
        "traces_validated_against_impl": len(lines) if impl is not None else 0,
        "decode_spec_outcomes": kinds, "correspondence_mismatches": len(mism), "oracle_failures": len(oracle_fail),
    }
    v.assumptions = ["C12 does not say whether a leading '+' is a hexadecimal number; Rust's from_str_radix accepts it, the model reproduces that, the oracle accepts either answer for such fields (D13)",
                     "serde is exercised through serde_json only (from_str = borrowed, from_value = owned, from_reader = transient strings)"]
