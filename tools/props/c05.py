"""C05 — unsampled traces are never delivered and the decision propagates."""
import seqcheck


def knobs(r, i):
    return {"unsampled": True, "multi": True, "threads": 1 + i % 3, "cycle_density": i % 3}


def run(v, tier, seed, replay):
    seqcheck.run(v, tier, seed, replay, "C05", ["C05"], tree_oracles=["no_panic", "tree", "exactly_once", "contexts", "closures"], knobs=knobs,
                 n_quick=(700, 100), n_thorough=(80000, 5000),
                 nontrivial=lambda lines, tr: any(l.split()[1] == "root" and l.endswith(" 0") for l in lines))
