"""C05 — unsampled traces are never delivered and the decision propagates."""
import seqcheck


def knobs(r, i):
    return {"unsampled": True, "multi": True, "threads": 1 + i % 3, "cycle_density": i % 3, "remote_children": i % 2 == 0}


def mixed(first_unsampled):
    """a span with a sampled and an unsampled parent is the local parent, a local span is open in its scope:
    contexts and children taken there belong to the first parent's trace with that trace's own flag, and only the
    sampled parent's trace receives records"""
    ps = "u,a" if first_unsampled else "a,u"
    return ["0 spawn", "1 spawn", "0 setReporter 0", "0 root a 7261 a1 1 1", "0 root u 7275 b2 2 0", "0 childN m 6d %s" % ps, "0 scope m", "0 ctxLocal",
            "0 localEnter 6c", "0 ctxLocal", "0 childLocal c 63", "0 ctxOf c", "0 lAddEvent 65 none", "0 localEnter 6c32", "0 ctxLocal", "0 childLocal d 64",
            "0 close", "0 close", "0 close", "1 child1 g 67 c", "1 ctxOf g", "1 drop g", "0 drop d", "0 drop c", "0 drop m", "0 drop u", "0 drop a", "0 cycle", "0 stats"]


def extra(r):
    return [("mixed/unsampled-first", mixed(True), ["no_panic", "tree", "exactly_once", "contexts"]),
            ("mixed/sampled-first", mixed(False), ["no_panic", "tree", "exactly_once", "contexts"])]


def run(v, tier, seed, replay):
    seqcheck.run(v, tier, seed, replay, "C05", ["C05"], tree_oracles=["no_panic", "tree", "exactly_once", "contexts", "closures"], knobs=knobs, extra_cases=extra,
                 n_quick=(2100, 300), n_thorough=(80000, 5000),
                 nontrivial=lambda lines, tr: any(l.split()[1] == "root" and l.endswith(" 0") for l in lines))
