"""C10 — local parent scopes nest and restore exactly."""
import seqcheck


def knobs(r, i):
    return {"ops": 30 + r.below(120), "threads": 1 + i % 2, "cycle_density": i % 2, "multi": i % 3 == 0, "unsampled": i % 4 == 0, "unwinds": i % 3 == 1, "open_at_close": i % 5 == 2}


def queue_fills_under_open_span(n):
    """a local span is entered while the scope's span queue has room and dropped after it has filled up (per-scope limit,
    C09): its drop still restores the context — contexts and parents afterwards are those of the scope"""
    p = ["0 spawn", "0 setReporter 0", "0 root r 72 1 0 1", "0 scope r", "0 localEnter 61"]
    p += ["0 localEnter 78", "0 close"] * n
    return p + ["0 ctxLocal", "0 lAddEvent 65 none", "0 close", "0 ctxLocal", "0 childLocal d 64", "0 ctxOf d", "0 drop d", "0 localEnter 62", "0 close",
                "0 close", "0 ctxLocal", "0 drop r", "0 cycle", "0 stats"]


def extra(r):
    return [("focus/queue-fills-under-an-open-local-span", queue_fills_under_open_span(10245), ["no_panic", "contexts", "tree"])]


def run(v, tier, seed, replay):
    seqcheck.run(v, tier, seed, replay, "C10", ["C10"], tree_oracles=["no_panic", "contexts", "tree", "attachments_owner"], knobs=knobs, extra_cases=extra,
                 n_quick=(2100, 450), n_thorough=(80000, 10000),
                 nontrivial=lambda lines, tr: sum(1 for l in lines if l.endswith("ctxLocal")) >= 2)
