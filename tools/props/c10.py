"""C10 — local parent scopes nest and restore exactly."""
import seqcheck


def knobs(r, i):
    return {"ops": 30 + r.below(120), "threads": 1 + i % 2, "cycle_density": i % 2, "multi": i % 3 == 0, "unsampled": i % 4 == 0, "unwinds": i % 3 == 1, "open_at_close": i % 5 == 2}


def run(v, tier, seed, replay):
    seqcheck.run(v, tier, seed, replay, "C10", ["C10"], tree_oracles=["no_panic", "contexts", "tree", "attachments"], knobs=knobs,
                 n_quick=(2100, 450), n_thorough=(80000, 10000),
                 nontrivial=lambda lines, tr: sum(1 for l in lines if l.endswith("ctxLocal")) >= 2)
