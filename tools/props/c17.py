"""C17 — detached local spans attach identically wherever they are pushed."""
import common as C
import oracles as O
import proggen
import seqcheck
import seqrun
from props import c06


def knobs(r, i):
    return {"ops": 30 + r.below(100), "multi": True, "cycle_density": i % 3, "threads": 1 + i % 2, "open_at_close": i % 2 == 1, "orphans": i % 3 != 0, "prebuilt": i % 4 == 1, "move_sets": i % 3 != 2}


D10_PUSHED = """0 spawn
0 setReporter 0
0 collectorStart
0 localEnter 6c31
0 lAddEvent 6531 none
0 close
0 collect x1
0 root v1 7231 1 0 1
0 child1 v2 7332 v1
0 pushChild v1 x1
0 pushChild v2 x1
0 drop v2
0 drop v1
0 cycle
0 stats""".split("\n")


ORPHANS = """0 spawn
0 setReporter 0
0 collectorStart
0 lAddEvent 6531 6b=76
0 lAddProps 0:6b32=7632
0 collect x1
0 collectorStart
0 lAddEvent 6532 none
0 localEnter 6c31
0 close
0 collect x2
0 root a 7261 1 0 1
0 root b 7262 2 0 1
0 child1 c 63 b
0 pushChild a x1
0 pushChild c x1
0 pushChild a x2
0 drop c
0 drop b
0 drop a
0 cycle
0 stats""".split("\n")


def extra(r):
    # the open finding D10 seen from C17: one captured set pushed to two parents of the same trace
    return [("kf/D10-pushed-twice-into-one-trace", D10_PUSHED, ["no_panic", "copies"]),
            # a captured set that holds only events / properties recorded with no local span open (and one that also
            # holds a span): they attach to every span the set is pushed to
            ("orphans/span-less-set", ORPHANS, ["no_panic", "attachments_owner", "tree", "exactly_once"])]


# a set collected while spans recorded in it are still open: the open spans are closed at the collection time,
# whatever was recorded after they were entered (a finished child, an event, nothing)
def open_at_collect(tail):
    return ["0 spawn", "0 setReporter 0", "0 collectorStart", "0 localEnter 6f31", "0 localEnter 6f32"] + tail + \
           ["0 sleep 3000", "0 collectUnder x1", "0 root a 7261 1 0 1", "0 root b 7262 2 0 1", "0 pushChild a x1", "0 pushChild b x1",
            "0 toRecords x1 5 7", "0 drop a", "0 drop b", "0 cycle", "0 stats"]


OPEN_SCEN = {"open-then-finished-child": open_at_collect(["0 localEnter 63", "0 close"]),
             "open-then-event": open_at_collect(["0 localEnter 63", "0 close", "0 lAddEvent 65 none"]),
             "open-only": open_at_collect([])}


def timed(v, tier, seed):
    """the last clause of C17 needs real time: programs with sets collected under open local spans (and scopes closed under
    them), run with every call bracketed by clock readings; durations of the delivered copies against the calls' windows"""
    n = 150 if tier == "quick" else 8000
    r = C.Rng(seed * 1000003 + 1717)
    gens = [proggen.make(r.fork(), "tree", {"ops": 25 + r.below(60), "multi": True, "cycle_density": 1 + i % 2, "threads": 1 + i % 2, "open_at_close": True, "sleeps": True, "move_sets": True,
                                            "orphans": i % 3 == 0}) for i in range(n)]
    cases = [g.lines for g in gens] + list(OPEN_SCEN.values())
    specs = [g.s for g in gens] + [proggen.spec_of(x) for x in OPEN_SCEN.values()]
    impl = seqrun.run_impl(cases, env={"FH_TIMES": "1"})
    bad, used = 0, 0
    for lines, spec, outs in zip(cases, specs, impl):
        plain, times = seqrun.split_times(outs)
        if any(l.split()[1] in ("collectUnder", "closeUnder") for l in lines):
            used += 1
        try:
            tr = O.Transcript(lines, plain)
            f = O.o_no_panic(spec, tr) + O.o_times(spec, tr, times) + O.o_copies(spec, tr)
        except Exception as ex:
            f = ["unparsable transcript: %s" % ex]
        f = [x for x in f if not c06.known(lines, "copies", x)]
        if f and bad < 2:
            bad += 1
            v.violation(f[0], {"program": lines, "stream": "timed", "implementation_transcript": outs, "how_to_replay": "./check C17 --replay <this file> (timed)"})
    v.coverage["timed_programs"] = len(cases)
    v.coverage["timed_programs_collecting_under_open_spans"] = used


def run(v, tier, seed, replay):
    if replay:
        import json
        rp = json.load(open(replay))
        if rp.get("stream") == "timed":
            C.lean_check(["C17"], tier)
            C.cargo_build("fh-core", ["fh-seq"])
            lines = rp["program"]
            outs = seqrun.run_impl([lines], env={"FH_TIMES": "1"})[0]
            plain, times = seqrun.split_times(outs)
            spec = proggen.spec_of(lines)
            tr = O.Transcript(lines, plain)
            for x in O.o_no_panic(spec, tr) + O.o_times(spec, tr, times) + O.o_copies(spec, tr):
                v.violation(x, {"program": lines, "stream": "timed", "implementation_transcript": outs})
                break
            v.coverage = {"obligations": 1, "discharged": 1, "checker_cmd": "replay", "trusted_base": C.TRUSTED_BASE, "evaluations": 1, "distinct_nontrivial": 1,
                          "rule": "replay of one timed program", "samples": [{"program": lines[:30]}]}
            return
    seqcheck.run(v, tier, seed, replay, "C17", ["C17"], tree_oracles=["no_panic", "copies", "tree", "exactly_once", "attachments_owner"], knobs=knobs,
                 n_quick=(2100, 300), n_thorough=(80000, 5000), known=c06.known, extra_cases=extra,
                 nontrivial=lambda lines, tr: any(l.split()[1] in ("pushChild", "toRecords") for l in lines),
                 assumptions=["absolute times of to_span_records and of delivered copies use different clock anchors; durations are compared with a 2 µs tolerance"])
    if not replay and not v.violations:
        timed(v, tier, seed)
