"""C17 — detached local spans attach identically wherever they are pushed."""
import seqcheck
from props import c06


def knobs(r, i):
    return {"ops": 30 + r.below(100), "multi": True, "cycle_density": i % 3, "threads": 1 + i % 2}


def run(v, tier, seed, replay):
    seqcheck.run(v, tier, seed, replay, "C17", ["C17"], tree_oracles=["no_panic", "copies", "tree", "exactly_once", "attachments"], knobs=knobs,
                 n_quick=(700, 100), n_thorough=(80000, 5000), known=c06.known,
                 nontrivial=lambda lines, tr: any(l.split()[1] in ("pushChild", "toRecords") for l in lines),
                 assumptions=["absolute times of to_span_records and of delivered copies use different clock anchors; durations are compared with a 2 µs tolerance"])
