"""C17 — detached local spans attach identically wherever they are pushed."""
import seqcheck
from props import c06


def knobs(r, i):
    return {"ops": 30 + r.below(100), "multi": True, "cycle_density": i % 3, "threads": 1 + i % 2, "open_at_close": i % 2 == 1, "orphans": i % 3 != 0}


D10_PUSHED = """0 spawn
0 setReporter 0
0 collectorStart
0 localEnter 6c31
0 lAddEvent 6531 none
0 close
0 collect x1
0 root v1 7231 1 0 1
0 child1 v2 7332 v1
0 pushChild v1 x1
0 pushChild v2 x1
0 drop v2
0 drop v1
0 cycle
0 stats""".split("\n")


ORPHANS = """0 spawn
0 setReporter 0
0 collectorStart
0 lAddEvent 6531 6b=76
0 lAddProps 0:6b32=7632
0 collect x1
0 collectorStart
0 lAddEvent 6532 none
0 localEnter 6c31
0 close
0 collect x2
0 root a 7261 1 0 1
0 root b 7262 2 0 1
0 child1 c 63 b
0 pushChild a x1
0 pushChild c x1
0 pushChild a x2
0 drop c
0 drop b
0 drop a
0 cycle
0 stats""".split("\n")


def extra(r):
    # the open finding D10 seen from C17: one captured set pushed to two parents of the same trace
    return [("kf/D10-pushed-twice-into-one-trace", D10_PUSHED, ["no_panic", "copies"]),
            # a captured set that holds only events / properties recorded with no local span open (and one that also
            # holds a span): they attach to every span the set is pushed to
            ("orphans/span-less-set", ORPHANS, ["no_panic", "attachments", "tree", "exactly_once"])]


def run(v, tier, seed, replay):
    seqcheck.run(v, tier, seed, replay, "C17", ["C17"], tree_oracles=["no_panic", "copies", "tree", "exactly_once", "attachments"], knobs=knobs,
                 n_quick=(700, 100), n_thorough=(80000, 5000), known=c06.known, extra_cases=extra,
                 nontrivial=lambda lines, tr: any(l.split()[1] in ("pushChild", "toRecords") for l in lines),
                 assumptions=["absolute times of to_span_records and of delivered copies use different clock anchors; durations are compared with a 2 µs tolerance"])
