"""C01 — every finished span of a sampled trace is delivered exactly once (default configuration)."""
import seqcheck


def knobs(r, i):
    return {"cancelable": False, "threads": 1 + i % 3, "exits": i % 2 == 0, "cycle_density": i % 4, "multi": i % 3 == 0}


def run(v, tier, seed, replay):
    seqcheck.run(v, tier, seed, replay, "C01", ["C01"], tree_oracles=["no_panic", "exactly_once", "tree", "ids"], knobs=knobs,
                 n_quick=(600, 150), n_thorough=(60000, 10000),
                 assumptions=["'within about one report interval' is wall-clock: the background collector is `loop { cycle; sleep(interval) }`, one cycle suffices by C01_cycle_reports_everything_once; the interval itself is measured by the C18 tier, not proved",
                              "omissions permitted by C09 (full queue, per-scope limits) do not occur in these programs"])
