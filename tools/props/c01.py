"""C01 — every finished span of a sampled trace is delivered exactly once (default configuration)."""
import seqcheck
import seqrun
from props import c09


def knobs(r, i):
    return {"cancelable": False, "threads": 1 + i % 3, "exits": i % 2 == 0, "cycle_density": i % 4, "multi": i % 3 == 0, "unwinds": i % 4 == 1, "stepped": i % 3 == 2, "stepped_flush": True}


def run(v, tier, seed, replay):
    cases, impl, model = seqcheck.run(v, tier, seed, replay, "C01", ["C01", "E2E"], tree_oracles=["no_panic", "exactly_once", "tree", "ids"], knobs=knobs,
                 n_quick=(1800, 450), n_thorough=(60000, 10000),
                 assumptions=["'within about one report interval' is wall-clock: the background collector is `loop { cycle; sleep(interval) }`, one cycle suffices by C01_cycle_reports_everything_once; the interval itself is measured by the C18 tier, not proved",
                              "omissions permitted by C09 (full queue, per-scope limits) do not occur in these programs"])
    if not replay and not v.violations:
        scen = {"big-trace-%d" % 0: c09.sc_big_trace(0), "recovery-%d" % 0: c09.sc_recovery(0)}
        tags = list(scen)
        s_impl = seqrun.run_impl([scen[t] for t in tags], jobs=2)
        s_model = seqrun.run_model([scen[t] for t in tags])
        for tag, bad in c09.check_scenarios({t: (scen[t], s_impl[i]) for i, t in enumerate(tags)})[:2]:
            v.violation(bad, {"program": scen[tag][:60] + ["…"] + scen[tag][-8:], "scenario": tag, "stream": "wild", "implementation_transcript_tail": [seqrun.strip_times(x)[:300] for x in s_impl[tags.index(tag)][-6:]]})
        if not v.violations and s_model:
            for i, t in enumerate(tags):
                k = seqrun.first_mismatch(s_impl[i], s_model[i])
                if k is not None:
                    v.violation("scenario %s: model/implementation correspondence broken at %r" % (t, scen[t][k] if k < len(scen[t]) else "<end>"), {"scenario": t, "line": k}, found_input=False, tag="corr-scen")
                    break
        v.coverage["scenarios"] = tags
