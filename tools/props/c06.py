"""C06 — properties and events are delivered on the span they were attached to."""
import proggen
import seqcheck

D10 = """0 spawn
0 setReporter 0
0 root v1 7231 1 0 1
0 child1 v2 7332 v1
0 child1 v3 7333 v1
0 childN v4 7334 v2,v3
0 addProps v4 0:6b=76
0 drop v4
0 drop v3
0 drop v2
0 drop v1
0 cycle
0 stats""".split("\n")


def knobs(r, i):
    return {"cycle_density": 1 + i % 3, "threads": 1 + i % 3, "cancelable": i % 2 == 0, "multi": i % 3 == 0, "unsampled": i % 3 == 0 or i % 7 == 0, "prebuilt": i % 2 == 1, "stepped": i % 3 == 1, "deprecated_events": i % 4 == 0}


D23 = """0 spawn
0 setReporter 0
0 root r 72 1 0 1
0 scope r
0 lAddEvent 6531 none
0 scope r
0 lAddEvent 6532 none
0 close
0 lAddEvent 6533 none
0 close
0 drop r
0 cycle
0 stats""".split("\n")


def known(lines, oracle, msg):
    # D23: local-parent scopes of the same span nested on one thread — the attachments arrive in the order the scopes end
    if oracle == "attachments" and "[nested local-parent scopes of the same span: D23]" in msg:
        return "id=D23"
    # D10: one span set delivered twice into one trace — attachments all go to the first copy
    if oracle in ("attachments", "copies"):
        spec = proggen.spec_of(lines)
        seen, dup = {}, set()
        for e in spec.expected:
            k = (e["name"], e["trace"])
            seen[k] = seen.get(k, 0) + 1
        dup = set(k[0] for k, n in seen.items() if n > 1)
        if any(("'%s'" % n) in msg for n in dup):
            return "id=D10"
    return None


MIXED = """0 spawn
1 spawn
0 setReporter 0
0 root a 7261 1 0 1
0 root u 7275 2 0 0
0 childN m 6d a,u
0 withProps m 0:6b=76
0 addProps m 0:6b32=7632
1 addProps m 0:6b33=7633
0 addEvent m 65 6b=76
0 drop m
0 drop u
0 drop a
0 cycle
0 stats""".split("\n")


def extra(r):
    return [("kf/D10-witness", D10, ["no_panic", "attachments"]),
            ("kf/D23-witness", D23, ["no_panic", "attachments"]),
            # a span with a sampled and an unsampled parent: its one delivered copy carries every attachment
            ("mixed/sampled-and-unsampled-parents", MIXED, ["no_panic", "attachments", "tree", "exactly_once"])]


def run(v, tier, seed, replay):
    seqcheck.run(v, tier, seed, replay, "C06", ["C06"], tree_oracles=["no_panic", "attachments", "tree", "closures"], knobs=knobs,
                 n_quick=(2100, 300), n_thorough=(80000, 5000), known=known, extra_cases=extra,
                 nontrivial=lambda lines, tr: any(r["props"] or r["events"] for _, r in tr.delivered()),
                 assumptions=["order of attachments is compared per record as a multiset; per-route order is a model theorem (C06_park_order, C06_mount_exact)",
                              "side conditions of C06 are respected by the generator: a span is not finished while a scope on it is open, a root not before the other spans of its trace"])
