"""C19 — bundled reporters transmit records faithfully."""
import json
import os

import common as C
import msgpackpy as M
import recgen as G
import thriftpy as T

PROP = "C19"
NS = 10 ** 9


def gen_batch(r):
    k = r.below(12)
    n = 0 if k == 0 else 1 if k <= 2 else 1 + r.below(20) if k <= 9 else 1 + r.below(300)
    return [G.gen_record(r, i) for i in range(n)]


def small(batch):
    """records small enough that the Jaeger reporter must not skip any"""
    return all(len(G.wire_record(x)) < 1500 for x in batch)


def exp_jaeger(x):
    return {"trace": x["trace"], "span": x["span"], "parent": x["parent"], "name": x["name"], "flags": 1,
            "start_us": x["begin"] // 1000, "dur_us": x["dur"] // 1000, "refs": None, "tags": [tuple(p) for p in x["props"]],
            "logs": [(e["ts"] // 1000, [("name", e["name"])] + [tuple(p) for p in e["props"]]) for e in x["events"]]}


def s64(u):
    return u - (1 << 64) if u >= (1 << 63) else u


def exp_dd(x, svc, res, ty):
    d = {"name": x["name"], "service": svc, "type": ty, "resource": res, "start": s64(x["begin"]), "duration": s64(x["dur"]),
         "error_code": 0, "span_id": x["span"], "trace_id": x["trace"] & ((1 << 64) - 1), "parent_id": x["parent"]}
    if x["props"]:
        m = {}
        for k, v in x["props"]:
            m[k] = v
        d["meta"] = m
    return d


def tm(n):
    return "%x.%x" % (n // NS, n % NS)


def exp_otel(x):
    def kvs(p):
        return "&".join("%s=%s" % (G.hx(k), G.hx(v)) for k, v in p) if p else "_"
    ev = "|".join("%s@%s@%s" % (G.hx(e["name"]), tm(e["ts"]), kvs(e["props"])) for e in x["events"]) if x["events"] else "_"
    return "%032x,%016x,%016x,%s,%s,%s,%s,%s" % (x["trace"], x["span"], x["parent"], tm(x["begin"]), tm(x["begin"] + x["dur"]), G.hx(x["name"]), kvs(x["props"]), ev)


def check_jaeger(batch, out):
    if not out.startswith("dg"):
        return "jaeger reporter answered %r" % out[:60]
    spans = []
    for h in out.split()[1:]:
        try:
            svc, sp = T.decode_emit_batch(bytes.fromhex(h))
        except Exception as ex:
            return "datagram is not a well-formed Thrift compact emitBatch: %s" % ex
        if svc != "svc":
            return "service name %r" % svc
        spans += sp
    # a record whose own encoding cannot fit a datagram is legitimately skipped (C20); everything else is transmitted
    want = [exp_jaeger(x) for x in batch if len(x["name"].encode()) < 7900]
    if spans != want:
        for i, (a, b) in enumerate(zip(spans, want)):
            if a != b:
                diff = [k for k in b if a.get(k) != b[k]]
                return "record %d transmitted with %s changed: sent %r, record has %r" % (i, diff, {k: a.get(k) for k in diff}, {k: b[k] for k in diff})
        return "transmitted %d spans for %d records" % (len(spans), len(want))
    return None


def check_dd(batch, out, svc, res, ty):
    if not batch:
        return None if out == "dd none" else "datadog reporter sent a request for an empty batch: %r" % out[:60]
    f = out.split()
    if len(f) != 4 or f[0] != "dd":
        return "datadog reporter answered %r" % out[:60]
    first, ct, body = bytes.fromhex(f[1]).decode(), bytes.fromhex(f[2]).decode(), bytes.fromhex(f[3])
    if first != "POST /v0.4/traces HTTP/1.1" or "application/msgpack" not in ct:
        return "request line/content type: %r %r" % (first, ct)
    try:
        if body[:1] != b"\x91":
            return "body does not start with a one-element trace array"
        v = M.decode(body)
    except Exception as ex:
        return "body is not well-formed msgpack: %s" % ex
    if not (isinstance(v, list) and len(v) == 1 and isinstance(v[0], list)):
        return "body is not [[span,…]]"
    got = []
    for sp in v[0]:
        if not isinstance(sp, list):
            return "span is not a map"
        keys = [k for k, _ in sp]
        if len(set(keys)) != len(keys):
            return "duplicate key in span map"
        d = dict(sp)
        if "meta" in d:
            mk = [k for k, _ in d["meta"]]
            if len(set(mk)) != len(mk):
                return "duplicate key in meta"
            d["meta"] = dict(d["meta"])
        got.append(d)
    want = [exp_dd(x, svc, res, ty) for x in batch]
    if got != want:
        for i, (a, b) in enumerate(zip(got, want)):
            if a != b:
                diff = [k for k in set(a) | set(b) if a.get(k) != b.get(k)]
                return "record %d transmitted with %s changed: sent %r, record has %r" % (i, diff, {k: a.get(k) for k in diff}, {k: b.get(k) for k in diff})
        return "transmitted %d spans for %d records" % (len(got), len(want))
    return None


def check_otel(batch, out):
    f = out.split()
    if not f or f[0] != "otel":
        return "otel reporter answered %r" % out[:60]
    want = [exp_otel(x) for x in batch]
    if f[1:] != want:
        for i, (a, b) in enumerate(zip(f[1:], want)):
            if a != b:
                return "record %d exported as %r, record is %r" % (i, a[:300], b[:300])
        return "exported %d spans for %d records" % (len(f) - 1, len(want))
    return None


def run(v, tier, seed, replay):
    lean = C.lean_check(["C19"], tier)
    ok, err = C.cargo_build("fh-rep", ["fh-rep"])
    n = 500 if tier == "quick" else 8000
    r = C.Rng(seed * 1000003 + 19)
    cases = []
    if replay:
        rp = json.load(open(replay))
        cases = [(rp["reporter"], rp["batch"])]
        n = 0
    for i in range(n):
        b = gen_batch(r.fork())
        which = ["jaeger", "datadog", "otel"][i % 3]
        if which == "jaeger" and not small(b):
            b = [x for x in b if len(G.wire_record(x)) < 1500]
        cases.append((which, b))
    if not replay:
        # ordinary records next to one that cannot fit a datagram, at every position: the ordinary ones are all transmitted
        rr = r.fork()
        for k, after in ((1, 0), (1, 1), (2, 0), (2, 1), (3, 1), (4, 0), (0, 2)):
            small_recs = [dict(G.gen_record(rr.fork(), i, "s%d" % i), span=i + 1, props=[("k", "v")], events=[]) for i in range(k + after)]
            # larger than (k+1) datagrams, so that even the average of the batch it is first tried in exceeds one
            huge = dict(G.gen_record(rr.fork(), 9, "H" * ((k + 1) * 8000 + 2000)), span=99, props=[], events=[])
            cases.append(("jaeger", small_recs[:k] + [huge] + small_recs[k:]))
    svc, res, ty = "svc", "res/ource", "web"
    lines = []
    for which, b in cases:
        if which == "jaeger":
            lines.append("jaeger %s %s" % (G.hx(svc), G.wire_records(b)))
        elif which == "datadog":
            lines.append("datadog %s %s %s %s" % (G.hx(svc), G.hx(res), G.hx(ty), G.wire_records(b)))
        else:
            lines.append("otel %s" % G.wire_records(b))
    impl = model = None
    if ok:
        rc, impl, _ = C.run_lines(C.bin_path("fh-rep"), "report", lines)
    if os.path.exists(C.FMODEL):
        rc, model, _ = C.run_lines(C.FMODEL, "report", lines)
    fails, mism, nontriv = [], [], set()
    per = {"jaeger": 0, "datadog": 0, "otel": 0}
    recs = 0
    if impl is not None:
        for ci, ((which, b), out) in enumerate(zip(cases, impl + ["<missing>"] * (len(cases) - len(impl)))):
            per[which] += 1
            recs += len(b)
            if out == "panic":
                bad = "%s reporter panicked" % which
            elif which == "jaeger":
                bad = check_jaeger(b, out)
            elif which == "datadog":
                bad = check_dd(b, out, svc, res, ty)
            else:
                bad = check_otel(b, out)
            if bad:
                fails.append((ci, bad))
            if any(x["props"] or x["events"] for x in b):
                nontriv.add(lines[ci])
            if model is not None and ci < len(model):
                mo, io = model[ci], out
                if which == "datadog" and out.startswith("dd ") and len(out.split()) == 4:
                    # meta is a HashMap: compare after decoding, with meta as a dict
                    try:
                        a = M.decode(bytes.fromhex(out.split()[3]))
                        m2 = M.decode(bytes.fromhex(mo.split()[1]))
                        canon = lambda t: [[sorted((k, (sorted(vv) if k == "meta" else vv)) for k, vv in sp) for sp in tr] for tr in t]
                        if canon(a) != canon(m2):
                            mism.append((ci, io[:100], mo[:100]))
                    except Exception as ex:
                        mism.append((ci, io[:100], "undecodable: %s" % ex))
                elif mo != io:
                    mism.append((ci, io[:100], mo[:100]))
    # the proved decoder (C19_jaeger_roundtrip) on the REAL datagrams must give the model's view of the records
    jd_lines, jd_meta = [], []
    if impl is not None:
        for ci, ((which, b), out) in enumerate(zip(cases, impl)):
            if which == "jaeger" and out.startswith("dg") and len(out.split()) == 2:
                jd_lines.append("jdec " + out.split()[1]); jd_meta.append(ci)
                jd_lines.append("jview %s %s" % (G.hx(svc), G.wire_records([x for x in b if len(x["name"].encode()) < 7900]))); jd_meta.append(ci)
    if impl is not None:
        for ci, ((which, b), out) in enumerate(zip(cases, impl)):
            if which == "datadog" and out.startswith("dd ") and len(out.split()) == 4:
                jd_lines.append("ddec " + out.split()[3]); jd_meta.append(ci)
                jd_lines.append("dview %s %s %s %s" % (G.hx(svc), G.hx(res), G.hx(ty), G.wire_records(b))); jd_meta.append(ci)
    decoded_ok = 0
    if jd_lines and os.path.exists(C.FMODEL):
        rc, jo, _ = C.run_lines(C.FMODEL, "report", jd_lines)
        for k in range(0, len(jo) - 1, 2):
            if jo[k] != jo[k + 1]:
                fails.append((jd_meta[k], "the proved decoder reads the real bytes as %r; the records are %r" % (jo[k][:300], jo[k + 1][:300])))
            else:
                decoded_ok += 1
    # one reporter, two batches: the first while nothing listens on the agent's port (lost, as UDP allows), the second once the
    # agent is up — every record of the second batch is transmitted (an error left over from the first batch must not eat it)
    late_cases = 0
    if ok and not replay and not fails:
        rr = r.fork()
        late = []
        for k in (1, 3, 7):
            b1 = [dict(G.gen_record(rr.fork(), i, "a%d" % i), span=i + 1, props=[("k", "v")], events=[]) for i in range(2)]
            b2 = [dict(G.gen_record(rr.fork(), i, "b%d" % i), span=i + 11, props=[("k", "v%d" % i)], events=[]) for i in range(k)]
            late.append((b1, b2))
        l2 = ["jaegerLate %s %s %s" % (G.hx(svc), G.wire_records(b1), G.wire_records(b2)) for b1, b2 in late]
        rc, o2, _ = C.run_lines(C.bin_path("fh-rep"), "report", l2)
        for (b1, b2), out in zip(late, o2 + ["<missing>"] * (len(late) - len(o2))):
            late_cases += 1
            bad = "jaeger reporter panicked" if out == "panic" else check_jaeger(b2, out)
            if bad:
                v.violation("second batch through a reporter whose first batch met a closed agent port: " + bad,
                            {"reporter": "jaeger", "first_batch_to_closed_port": b1, "batch": b2, "implementation": out[:3000]})
                break
    for ci, bad in fails[:3]:
        v.violation(bad, {"reporter": cases[ci][0], "batch": cases[ci][1], "request": lines[ci][:3000],
                          "implementation": impl[ci][:3000] if impl and ci < len(impl) else None, "model": model[ci][:3000] if model and ci < len(model) else None})
    if not fails:
        if not ok:
            v.violation("harness does not build against /repo: " + err, {"obligation": "fh-rep builds", "stderr": err}, found_input=False, tag="build")
        elif mism:
            ci, a, b = mism[0]
            v.violation("model/implementation correspondence broken for the %s reporter on batch %d; the oracle found no C19 failure in %d batches" % (cases[ci][0], ci, len(cases)),
                        {"correspondence": "fh-rep vs fmodel report", "reporter": cases[ci][0], "batch": cases[ci][1], "implementation": a, "model": b, "mismatches": len(mism)}, found_input=False, tag="corr")
        elif lean["failures"]:
            v.violation("proof obligation no longer checks: " + "; ".join(lean["failures"])[:400], {"theorem_or_obligation": lean["failures"], "searched_batches": len(cases)}, found_input=False, tag="proof")
        elif impl is None or model is None or len(impl) != len(cases) or len(model) != len(cases):
            v.violation("driver produced incomplete output", {"impl": len(impl or []), "model": len(model or [])}, found_input=False, tag="driver")
    v.coverage = {
        "obligations": lean["obligations"], "discharged": lean["discharged"] if not lean["failures"] else min(lean["discharged"], lean["obligations"] - 1),
        "checker_cmd": "cd lean && lake build FastraceModel.Props.C19 FastraceModel.Props.ParamsOk && lake env lean <#print axioms>" + (" && lake env leanchecker FastraceModel.Props.C19" if tier == "thorough" else ""),
        "trusted_base": C.TRUSTED_BASE + ["thrift_codec / rmp-serde / opentelemetry_sdk byte and struct formats: modelled and compared on every batch, not proved",
                                         "independent python decoders (tools/thriftpy.py, tools/msgpackpy.py) as oracle"],
        "theorems": lean["theorems"], "axioms": lean["axioms"],
        "evaluations": len(cases), "distinct_nontrivial": len(nontriv),
        "rule": "batches of 0-300 records from VERIF_SEED (ids with top bit set / all ones / zero, UTF-8 names keys values incl. empty and multi-byte, repeated property keys, 0-3 events, times up to 2^64-1 with begin+duration < 2^64), round-robin over the three reporters; non-trivial = distinct batch with at least one property or event",
        "samples": [{"reporter": w, "records": len(b), "first": (G.wire_record(b[0])[:200] if b else None)} for w, b in cases[:5]],
        "traces_validated_against_impl": len(cases) if impl is not None else 0, "batches_per_reporter": per, "records": recs,
        "correspondence_mismatches": len(mism), "oracle_failures": len(fails), "real_datagrams_decoded_by_proved_decoder": decoded_ok,
        "late_agent_cases": late_cases, "reporter_reuse": "one JaegerReporter per service for all batches of the run",
    }
    v.assumptions = ["records satisfy begin+duration < 2^64 (every record a collector cycle produces does; OpenTelemetryReporter::convert overflows otherwise — D11)",
                     "Datadog: start/duration are i64 on the wire (values >= 2^63 wrap, a limit of the format as implemented); meta order is the hash map's and is compared as a map",
                     "Jaeger batches are kept below the per-span size limit here; splitting is C20"]
