"""C13 — future adapters scope spans to polls and completion."""
import oracles as O
import seqcheck
import seqrun

KINDS = ["inSpan"]


def knobs(r, i):
    return {"adapters": True, "adapter_kinds": KINDS, "threads": 1 + i % 3, "cycle_density": 1 + i % 3, "cancelable": i % 2 == 0, "ops": 30 + r.below(90)}


def last_poll_scenario(kind, k, cancelable=1):
    """root in an adapter; a local span recorded during the final call; one complete collector cycle
    placed right before the k-th queue push of the finishing call (impl only: finer than the model)"""
    call, res = {"inSpan": ("poll", "ready"), "stream": ("poll_next", "none"), "sink": ("poll_close", "ready")}[kind]
    return ["0 spawn", "0 setReporter %d" % cancelable, "0 touch", "0 root r 72 1 0 1", "0 adNew f %s r" % kind,
            "0 adPoll f %s" % call, "0 localEnter 6c617374", "0 close", "0 cycleAtPush %d" % k, "0 adEnd f %s" % res, "0 inlineReport",
            "0 cycle", "0 cycle", "0 adDrop f", "0 stats"]


def extra_for(kinds):
    def extra(r):
        out = []
        for kind in kinds:
            for k in (1, 2, 3):
                for c in (0, 1):
                    out.append(("nomodel/last-poll-%s-k%d-c%d" % (kind, k, c), last_poll_scenario(kind, k, c), ["no_panic"]))
        return out
    return extra


def check_last_poll(v, cases, impl):
    for (kind, tag, lines, names), outs in zip(cases, impl or []):
        if not tag.startswith("nomodel/last-poll"):
            continue
        tr = O.Transcript(lines, [o if not o.startswith("rep ") else o for o in outs])
        names_d = [r["name"] for _, r in tr.delivered()]
        if sorted(names_d) != ["last", "r"]:
            v.violation("the local span recorded during the final call is not part of the delivered trace (delivered: %s) when a collector cycle falls inside the finishing call" % names_d,
                        {"program": lines, "stream": "wild", "implementation_transcript": [seqrun.strip_times(o)[:300] for o in outs], "scenario": tag})
            return


def run(v, tier, seed, replay):
    cases, impl, model = seqcheck.run(v, tier, seed, replay, "C13", ["C13"], tree_oracles=["no_panic", "exactly_once", "tree", "contexts", "attachments_owner", "retained"],
                                      knobs=knobs, extra_cases=extra_for(KINDS), n_quick=(1800, 300), n_thorough=(60000, 5000),
                                      nontrivial=lambda lines, tr: any(" adPoll " in l for l in lines),
                                      assumptions=["adapters are polled by hand with a no-op waker; the inner future is scripted by the driver and runs arbitrary API calls inside the adapter's poll",
                                                   "a collector cycle *inside* the finishing call (between its queue pushes) is exercised on the implementation only (cycleAtPush scenarios)"])
    if not v.violations:
        check_last_poll(v, cases, impl)
    if not replay and not v.violations:
        from props import c09
        c09.run_scenarios(v, {"recovery-adapter-%d" % c: c09.sc_recovery_adapter(c) for c in (0, 1)}, with_model=True, jobs=2)
