"""C15 — #[trace] changes nothing but adds exactly one span per call."""
import os
import subprocess

import common as C
import macrogen


def unhex(s):
    return "" if s == "-" else bytes.fromhex(s).decode("utf-8")


def parse_pair(line):
    f = line.split(" ")
    d = {"id": f[1]}
    for tok in f[2:]:
        k, _, v = tok.partition("=")
        d[k] = v
    for k in ("plain", "plainlog", "traced", "tracedlog", "bare", "barelog"):
        d[k] = unhex(d[k])

    def recs(s):
        s = s.strip("[]")
        out = []
        if s:
            for r in s.split(","):
                n, par, props = r.split("/")
                out.append((unhex(n), par, [tuple(unhex(x) for x in kv.split("=")) for kv in props.split("&")] if props else []))
        return out
    d["recs"] = recs(d["recs"])
    d["barerecs"] = recs(d["barerecs"])
    return d


def run(v, tier, seed, replay):
    lean = C.lean_check(["C15"], tier)
    r = C.Rng(seed * 1000003 + 15)
    n = 240 if tier == "quick" else 1500
    cases = macrogen.gen_cases(r, n)
    cdir = os.path.join(C.HARNESS, "fh-macro")
    with C.BuildLock():
        open(os.path.join(cdir, "src", "gen.rs"), "w").write(macrogen.render(cases))
    ok, err = C.cargo_build("fh-macro", ["fh-macro"])
    out = []
    if ok:
        p = subprocess.run([C.bin_path("fh-macro")], capture_output=True, text=True, timeout=1800)
        out = [parse_pair(l) for l in p.stdout.splitlines() if l.startswith("pair ")]
    fails = []
    tls_fails, tls_seen = [], 0
    if ok:
        for l in p.stdout.splitlines():
            if l.startswith("tls "):
                f = l.split(" ")
                d = dict(x.split("=", 1) for x in f[2:])
                tls_seen += 1
                if unhex(d["plain"]) != unhex(d["traced"]) or unhex(d["plainlog"]) != unhex(d["tracedlog"]):
                    tls_fails.append("annotated function `tls_%s` called while the thread's local storage is torn down gave %r (side effects %r); the plain twin %r (%r)"
                                     % (f[1], unhex(d["traced"]), unhex(d["tracedlog"]), unhex(d["plain"]), unhex(d["plainlog"])))
            elif l.startswith("tlsrecs ") and l.split()[1] != "0":
                tls_fails.append("spans were recorded by calls made during thread-local teardown (no local parent there)")
        if tls_seen != 4:
            tls_fails.append("the thread-local teardown scenario reported %d of 4 twins (process aborted in a destructor?)" % tls_seen)
    by = {d["id"]: d for d in out}
    shapes = {}
    # two calls polled alternately on one thread: same results and side effects as the plain twins, two spans per call
    # position (one per poll with enter_on_poll), each a child of the caller's local parent
    for c in cases:
        d = by.get(c.id + "-il")
        if d is None:
            continue
        _, _, name, props, nsp = macrogen.expected(c)
        if d["plain"] != d["traced"] or d["plain"] != d["bare"]:
            fails.append((c, "two interleaved calls of the annotated function returned/panicked %r, the plain twins %r" % (d["traced"], d["plain"])))
        elif d["plainlog"] != d["tracedlog"] or d["plainlog"] != d["barelog"]:
            fails.append((c, "interleaved calls: side effects differ: annotated %r, plain %r" % (d["tracedlog"], d["plainlog"])))
        if d["barerecs"]:
            fails.append((c, "interleaved calls: a span was recorded without a local parent: %r" % d["barerecs"]))
        if not d["plain"].startswith("panic") and len(d["recs"]) != 2 * nsp:
            fails.append((c, "interleaved calls: %d spans recorded for two calls, expected %d" % (len(d["recs"]), 2 * nsp)))
        for (rn, par, rp) in d["recs"]:
            if par != "root":
                fails.append((c, "interleaved calls: span %r is not a child of the caller's local parent (it was recorded under the other call's span)" % rn))
    for c in cases:
        shapes[c.shape + "/" + c.attr] = shapes.get(c.shape + "/" + c.attr, 0) + 1
        d = by.get(c.id)
        if d is None:
            if ok:
                fails.append((c, "no result for this function pair (harness died?)"))
            continue
        eo, elog, name, props, nsp = macrogen.expected(c)
        if d["plain"] != d["traced"] or d["plain"] != d["bare"]:
            fails.append((c, "annotated function returned/panicked %r, the plain twin %r" % (d["traced"], d["plain"])))
        elif d["plainlog"] != d["tracedlog"] or d["plainlog"] != d["barelog"]:
            fails.append((c, "side effects differ: annotated %r, plain %r" % (d["tracedlog"], d["plainlog"])))
        elif d["plain"] != eo or d["plainlog"].split("|") != (elog or [""]):
            fails.append((c, "generator expectation broken (plain twin gave %r / %r, expected %r / %r)" % (d["plain"], d["plainlog"], eo, elog)))
        if d["barerecs"]:
            fails.append((c, "a span was recorded without a local parent: %r" % d["barerecs"]))
        if len(d["recs"]) != nsp:
            fails.append((c, "%d spans recorded for one call, expected %d" % (len(d["recs"]), nsp)))
        for (rn, par, rp) in d["recs"]:
            if par != "root":
                fails.append((c, "span %r is not a child of the caller's local parent" % rn))
            if name[0] == "eq" and rn != name[1]:
                fails.append((c, "span name %r, configured %r" % (rn, name[1])))
            if name[0] == "path" and not ("fh_macro::gen::" in rn and rn.endswith(name[1])):
                fails.append((c, "span name %r is not the function's full path (…%s)" % (rn, name[1])))
            if rp != props:
                fails.append((c, "span properties %r, configured %r" % (rp, props)))
    # the Lean decision model on the same attributes: wrapper, name expression, literal-vs-format per property
    mlines = []
    for c in cases:
        props = "&".join("%s=%s" % (k.encode().hex() or "-", v.encode().hex() or "-") for k, v, _ in c.props) or "_"
        mlines.append("expand %s %d %d %s %d %d %s" % ((c.id + "_traced").encode().hex(), 1 if c.is_async and c.shape != "async_trait" else 0, 1 if c.shape == "async_trait" else 0,
                                                     c.name.encode().hex() if c.name is not None else "_", 1 if c.short else 0, 1 if c.eop else 0, props))
    mism = []
    if os.path.exists(C.FMODEL) and ok:
        rc, mo, _ = C.run_lines(C.FMODEL, "macro", mlines)
        for c, m in zip(cases, mo):
            d = by.get(c.id)
            if d is None or not d["recs"]:
                continue
            if not m.startswith("ok "):
                mism.append((c, "model rejects an attribute the real macro accepted: %s" % m)); continue
            kv = dict(x.split("=", 1) for x in m.split()[1:])
            rn, _, rp = d["recs"][0]
            want_n = {"lit": lambda h: rn == unhex(h), "ident": lambda h: rn == unhex(h)}
            nk, _, nh = kv["name"].partition(":")
            if nk in want_n and not want_n[nk](nh):
                mism.append((c, "model name %s, real span name %r" % (kv["name"], rn)))
            if nk == "path" and "::" not in rn:
                mism.append((c, "model says func_path!(), real span name %r" % rn))
            wrap = kv["wrapper"]
            if (wrap == "enter_on_poll") != c.eop or (wrap == "sync") != (not c.is_async):
                mism.append((c, "model wrapper %s for shape %s" % (wrap, c.shape)))
            if kv["props"] != "_":
                for item, (rk, rv) in zip(kv["props"].split(","), rp):
                    k, _, val = item.partition("=")
                    kind, _, h = val.partition(":")
                    if kind == "lit" and unhex(h) != rv:
                        mism.append((c, "model emits literal %r for property %r, the real macro produced %r" % (unhex(h), rk, rv)))
    # an annotated function panics, the panic is caught inside the caller's scope, further annotated calls follow
    d = by.get("caught")
    if ok:
        if d is None:
            tls_fails.append("the caught-panic twin produced no result (harness died?)")
        else:
            if d["plain"] != d["traced"] or d["plain"] != d["bare"] or d["plainlog"] != d["tracedlog"] or d["plainlog"] != d["barelog"]:
                tls_fails.append("annotated functions around a caught panic returned %r with side effects %r; the plain twins %r / %r" % (d["traced"], d["tracedlog"], d["plain"], d["plainlog"]))
            names = sorted(rn.rsplit("::", 1)[-1] for rn, _, _ in d["recs"])
            if names != ["follow_traced", "follow_traced", "panicky_traced"] or d["barerecs"]:
                tls_fails.append("a caught panic in an annotated function: recorded %r (without a local parent: %r); expected one span for the panicking call and one per later call" % (d["recs"], d["barerecs"]))
            for rn, par, _ in d["recs"]:
                if par != "root":
                    tls_fails.append("after a panic in an annotated function was caught inside the caller's scope, span %r is not a child of the caller's local parent" % rn)
                    break
    # D15 (fixed): a hand-written function returning a boxed future, with statements before the `Box::pin(async move ..)` tail
    d = by.get("boxed")
    if ok:
        if d is None:
            tls_fails.append("the boxed-future twin (statements before a Box::pin(async move { .. }) tail) produced no result")
        else:
            if d["plain"] != d["traced"] or d["plainlog"] != d["tracedlog"] or d["plain"] != d["bare"] or d["plainlog"] != d["barelog"]:
                tls_fails.append("annotated `boxed_traced` (statements before a Box::pin(async move { .. }) tail) returned %r with side effects %r; the plain twin %r / %r"
                                 % (d["traced"], d["tracedlog"], d["plain"], d["plainlog"]))
            if len(d["recs"]) != 1 or d["recs"][0][1] != "root" or not d["recs"][0][0].endswith("::boxed_traced") or d["barerecs"]:
                tls_fails.append("`boxed_traced` recorded %r (without a local parent: %r); expected exactly one span `…::boxed_traced` under the caller's local parent" % (d["recs"], d["barerecs"]))
    for msg in tls_fails[:2]:
        v.violation(msg, {"scenario": "harness/fh-macro/src/main.rs: tls_teardown (a thread-local registered before the thread's first tracing call; its destructor calls the twins)"})
    if not fails and not tls_fails and mism:
        c, msg = mism[0]
        v.violation("macro decision model/implementation correspondence broken: " + msg, {"function": {"id": c.id, "attribute": macrogen.attr_text(c)}, "mismatches": len(mism)}, found_input=False, tag="corr")
    seen = set()
    for c, msg in fails:
        if c.id in seen or len(seen) >= 3:
            continue
        seen.add(c.id)
        v.violation(msg, {"function": {"id": c.id, "shape": c.shape, "attribute": macrogen.attr_text(c), "body": c.body, "a": c.a, "s": c.s, "yields": c.yields},
                          "source": "harness/fh-macro/src/gen.rs (regenerated from VERIF_SEED)", "observed": {k: (by[c.id][k] if c.id in by else None) for k in ("plain", "traced", "tracedlog", "recs")}})
    if not fails and not tls_fails:
        if not ok:
            v.violation("generated annotated functions do not compile against /repo's macro: " + err[:600], {"stderr": err}, found_input=False, tag="build")
        elif lean["failures"]:
            v.violation("proof obligation no longer checks: " + "; ".join(lean["failures"])[:400], {"theorem_or_obligation": lean["failures"]}, found_input=False, tag="proof")
    v.coverage = {
        "obligations": lean["obligations"], "discharged": lean["discharged"] if not lean["failures"] else min(lean["discharged"], lean["obligations"] - 1),
        "checker_cmd": "cd lean && lake build FastraceModel.Props.C15 FastraceModel.Props.ParamsOk && lake env lean <#print axioms>" + (" && lake env leanchecker FastraceModel.Props.C15" if tier == "thorough" else ""),
        "trusted_base": C.TRUSTED_BASE + ["rustc's macro expansion and drop order; the generated twins cover the listed signature shapes, not all Rust functions"],
        "theorems": lean["theorems"], "axioms": lean["axioms"],
        "evaluations": len(cases), "distinct_nontrivial": len(set((c.shape, c.attr, c.body, c.a % 4, c.yields) for c in cases)),
        "rule": "annotated/plain twin functions generated from VERIF_SEED over signature shapes (sync, async with and without a Pending poll, generic, lifetimes, &self/&mut self/self methods, async methods, async-trait impls) × "
                "attribute forms (none, name, short_name, enter_on_poll, properties with literal / escaped-brace / format strings) × bodies (plain, early return, `?`, panic); compiled with the real macro and run with and without a local parent. "
                "non-trivial = distinct (shape, attribute, body, argument class, yields)",
        "samples": [{"id": c.id, "shape": c.shape, "attribute": macrogen.attr_text(c), "body": c.body} for c in cases[:5]],
        "traces_validated_against_impl": len(out), "shape_histogram": shapes, "oracle_failures": len(fails),
    }
    v.assumptions = ["the order in which unused by-value arguments are dropped is not claimed (C15)", "rejections of invalid attribute forms are covered by the repository's own trybuild ui test (part of the baseline) and by the decision-table theorems"]
