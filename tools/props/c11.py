"""C11 — extracted span contexts identify the right span."""
import seqcheck
from props import c05


def knobs(r, i):
    return {"ops": 20 + r.below(80), "threads": 1 + i % 2, "multi": i % 2 == 0, "unsampled": i % 3 == 0, "late_reporter": i % 7 == 0, "remote_children": i % 2 == 1, "unwinds": i % 3 == 1}


def run(v, tier, seed, replay):
    seqcheck.run(v, tier, seed, replay, "C11", ["C11"], tree_oracles=["no_panic", "contexts", "tree", "ids"], knobs=knobs, extra_cases=c05.extra,
                 n_quick=(2100, 450), n_thorough=(80000, 10000),
                 nontrivial=lambda lines, tr: any(c is not None for c in tr.ctx.values()))
