"""C04 — cancel() suppresses the whole trace and nothing else."""
import seqcheck


def knobs(r, i):
    return {"cancelable": i % 3 != 2, "threads": 1 + i % 3, "cycle_density": 1 + i % 3, "multi": i % 2 == 0}


def run(v, tier, seed, replay):
    seqcheck.run(v, tier, seed, replay, "C04", ["C04"], tree_oracles=["no_panic", "exactly_once", "tree", "attachments", "retained"], knobs=knobs,
                 n_quick=(600, 100), n_thorough=(60000, 5000),
                 assumptions=["queue-full episodes around cancel/finish are exercised in the C09 tier (forced commands FIFO, D2 fix)",
                              "a thread exiting with parked commands and a full queue can lose the drop (open finding D3); a start drained after its drop re-creates the entry (open finding D4)"])
