"""C04 — cancel() suppresses the whole trace and nothing else."""
import seqcheck
import seqrun
from props import c09


def knobs(r, i):
    return {"cancelable": i % 3 != 2, "threads": 1 + i % 3, "cycle_density": 1 + i % 3, "multi": i % 2 == 0, "stepped": i % 2 == 1}


def run(v, tier, seed, replay):
    cases, impl, model = seqcheck.run(v, tier, seed, replay, "C04", ["C04", "Fifo", "Parked"], tree_oracles=["no_panic", "exactly_once", "tree", "attachments_owner", "retained"], knobs=knobs,
                 n_quick=(1800, 300), n_thorough=(60000, 5000),
                 assumptions=["queue-full episodes around cancel/finish are exercised in the C09 tier (forced commands FIFO, D2 fix)",
                              "a thread exiting with parked commands and a full queue can lose the drop (open finding D3, outside the stated property)"])
    # cancel()/finish on a really full 10240-slot queue (fault quantifier of C04)
    if not replay and not v.violations:
        scen = {"cancel-on-full-1": c09.sc_cancel_on_full(1), "cancel-on-full-0": c09.sc_cancel_on_full(0)}
        tags = list(scen)
        s_impl = seqrun.run_impl([scen[t] for t in tags], jobs=2)
        s_model = seqrun.run_model([scen[t] for t in tags])
        for tag, bad in c09.check_scenarios({t: (scen[t], s_impl[i]) for i, t in enumerate(tags)})[:2]:
            v.violation(bad, {"program": scen[tag], "scenario": tag, "stream": "wild", "implementation_transcript": [seqrun.strip_times(x)[:300] for x in s_impl[tags.index(tag)]]})
        if not v.violations:
            for i, t in enumerate(tags):
                k = seqrun.first_mismatch(s_impl[i], s_model[i]) if s_model else None
                if k is not None:
                    v.violation("overload scenario %s: model/implementation correspondence broken at %r" % (t, scen[t][k] if k < len(scen[t]) else "<end>"),
                                {"program": scen[t], "line": k}, found_input=False, tag="corr-overload")
                    break
        v.coverage["overload_scenarios"] = tags
    if not replay and not v.violations:
        c09.run_scenarios(v, {"cancel-split-%d" % k: c09.sc_cancel_split(k) for k in (1, 2, 3)}, with_model=False, jobs=3)
    # D21: the cancel is parked on its thread, the root finishes elsewhere (model: Sys.parkedCancels / takeParked)
    if not replay and not v.violations:
        c09.run_scenarios(v, {"cancel-parked-%s" % k: c09.sc_cancel_parked_elsewhere(k) for k in c09.PARKED_VARIANTS},
                          with_model=True, jobs=6)
    # cancelable programs on (nearly) full queues: nothing of a cancelled trace, nothing twice; the model agrees
    if not replay and not v.violations:
        import common as C
        v.coverage["overload_programs"] = c09.overload_stream(v, C.Rng(seed * 1000003 + 4004), tier, 16, 1000, True)
