"""C16 — disabled tracing is inert and lazy."""
import common as C
import proggen
import seqcheck
import seqrun

OFF_OK = {"ok", "cl 0", "ctx none", "elapsed 0", "recs -", "rep none", "stats a=- rx=0", "phase done"}


def knobs(r, i):
    # spans that are not recording: no / late reporter, no-op ancestry, no local parent
    return {"no_reporter": i % 5 == 0, "late_reporter": i % 5 == 1, "unsampled": i % 3 == 0, "deprecated_events": True}


def run(v, tier, seed, replay):
    cases, impl, model = seqcheck.run(v, tier, seed, replay, "C16", ["C16"], tree_oracles=["no_panic", "closures", "tree", "exactly_once"],
                                      wild_oracles=["no_panic", "closures"], knobs=knobs, wild_knobs=knobs,
                                      n_quick=(1200, 900), n_thorough=(30000, 20000),
                                      nontrivial=lambda lines, tr: any(l.split()[1] in ("withProps", "addProps", "lWithProps", "lAddProps") for l in lines))
    # the statically disabled configuration: same programs, fastrace built without `enable`
    ok, err = C.cargo_build("fh-off", ["fh-off"])
    progs = [c[2] + ["0 procstats"] for c in cases]
    off_fail, off_mism = [], []
    if ok:
        off = seqrun.run_impl(progs, exe=C.bin_path("fh-off"))
        offm = seqrun.run_model([p[:-1] for p in progs], mode="off")
        for ci, (p, o) in enumerate(zip(progs, off)):
            for i, (l, x) in enumerate(zip(p, o + ["<missing>"] * (len(p) - len(o)))):
                if l.endswith("procstats"):
                    if x != "proc closures=0 fastrace_threads=0":
                        off_fail.append((ci, i, l, x))
                elif x not in OFF_OK:
                    off_fail.append((ci, i, l, x))
                elif offm and i < len(offm[ci]) and offm[ci][i] != x:
                    off_mism.append((ci, i, l, x, offm[ci][i]))
        for ci, i, l, x in off_fail[:2]:
            v.violation("without the enable feature %r answered %r (must be a no-op: no context, no closure call, no report, no thread)" % (l, x),
                        {"program": progs[ci], "stream": "off", "line": i, "implementation_transcript": off[ci]})
        if not off_fail and off_mism:
            ci, i, l, x, m = off_mism[0]
            v.violation("disabled-build correspondence broken at %r: implementation %r, model %r" % (l, x, m), {"program": progs[ci]}, found_input=False, tag="corr-off")
    else:
        v.violation("fh-off does not build against /repo without the enable feature: " + err, {"stderr": err}, found_input=False, tag="build-off")
    v.coverage["disabled_build"] = {"programs": len(progs), "failures": len(off_fail), "mismatches": len(off_mism), "built": ok}
    v.assumptions.append("Event::with_properties evaluates its closure eagerly when enabled: it is a closure passed to an Event, not to a span (modelled as such)")
