"""C20 — the Jaeger reporter sends every span once in packets below the UDP limit."""
import json

import common as C
import recgen as G
import thriftpy as T

PROP = "C20"
LIMIT = 8000


def gen_batch(r):
    """batches straddling the 8000-byte boundary, oversize spans at any position"""
    k = r.below(10)
    recs = []
    if k == 0:
        n = r.below(4)
    elif k <= 3:      # n spans of about LIMIT/m bytes each
        m = 1 + r.below(10)
        n = 1 + r.below(3 * m + 2)
    elif k <= 5:
        n = 1 + r.below(40)
    else:
        n = 1 + r.below(300 if k == 9 else 120)
    m = 1 + r.below(10)
    for i in range(n):
        mode = r.below(10)
        if k <= 3 and mode < 7:
            ln = max(0, LIMIT // m - 60 + r.below(50) - 25)
            name = "n" * ln
        elif mode == 7:
            name = "o" * (LIMIT - 80 + r.below(160))      # around the limit alone
        elif mode == 8 and r.chance(1, 3):
            name = "O" * (LIMIT + r.below(3000))           # certainly oversize
        else:
            name = None
        rec = G.gen_record(r, i, name)
        rec["span"] = i + 1                               # unique → positions identifiable
        if name is not None and len(name) > 1000:
            rec["props"], rec["events"] = [], []
        recs.append(rec)
        # the loopback receive queue (SO_RCVBUF raised to rmem_max = 4 MB) must hold the batch
        if sum(len(x["name"]) + 200 for x in recs) > 900_000:
            break
    return recs


def exact_batches(r, svc):
    """boundary-directed: batches of m small spans whose joint encoding is exactly LIMIT-1, LIMIT, LIMIT+1 bytes
    (the size is measured with the model's encoder, then one name is padded to the byte)"""
    import os
    out = []
    if not os.path.exists(C.FMODEL):
        return out
    probes = []
    # (the compact-protocol list header grows at 15 elements, its varint length again at 128)
    for m in (2, 3, 5, 14, 15, 16, 40, 127, 128, 130):
        base = []
        for i in range(m):
            rec = G.gen_record(r.fork(), i, "b%d" % i)
            rec["span"] = i + 1
            if m > 5:
                # many small spans: no properties, no events, so that the whole batch stays near the limit
                rec = dict(rec, props=[], events=[], name="b%d" % i)
            base.append(rec)
        base[-1] = dict(base[-1], name="p" * 200)
        probes.append(base)
    rc, mo, _ = C.run_lines(C.FMODEL, "report", ["jaeger %s %s" % (G.hx(svc), G.wire_records(b)) for b in probes])
    for base, o in zip(probes, mo):
        f = o.split()
        if len(f) != 2:
            continue            # already more than one datagram: not a usable probe
        size = len(f[1]) // 2
        for target in (LIMIT - 1, LIMIT, LIMIT + 1):
            pad = 200 + target - size
            if 128 <= pad < 16000:
                out.append(base[:-1] + [dict(base[-1], name="p" * pad)])
    return out


def run(v, tier, seed, replay):
    lean = C.lean_check(["C20"], tier)
    ok, err = C.cargo_build("fh-rep", ["fh-rep"])
    n = 400 if tier == "quick" else 6000
    r = C.Rng(seed * 1000003 + 20)
    cases = []
    if replay:
        cases = [json.load(open(replay))["batch"]]
        n = 0
    svc = "svc"
    if not replay:
        cases += exact_batches(r.fork(), svc)
    for _ in range(n):
        cases.append(gen_batch(r.fork()))
    lines = ["jaeger %s %s" % (G.hx(svc), G.wire_records(b)) for b in cases]
    impl = model = None
    if ok:
        rc, impl, _ = C.run_lines(C.bin_path("fh-rep"), "report", lines)
    import os
    if os.path.exists(C.FMODEL):
        rc, model, _ = C.run_lines(C.FMODEL, "report", lines)

    fails, mism, stats = [], [], {"datagrams": 0, "skipped": 0, "halvings_seen": 0, "max_dg": 0, "spans": 0}
    nontriv = set()
    recheck = []   # (case index, record) missing spans to be re-sent alone
    if impl is not None:
        for ci, (batch, out) in enumerate(zip(cases, impl + ["<missing>"] * (len(cases) - len(impl)))):
            stats["spans"] += len(batch)
            bad = None
            if out.startswith("hang"):
                fails.append((ci, "JaegerReporter::report did not return within 10 s for this batch of %d spans (the call must terminate)" % len(batch)))
                break           # the harness stops after a hang: later batches were not run
            if not out.startswith("dg"):
                bad = "reporter answered %r" % out[:60]
                fails.append((ci, bad)); continue
            dgs = [bytes.fromhex(h) for h in out.split()[1:]]
            stats["datagrams"] += len(dgs)
            seen = []
            for d in dgs:
                stats["max_dg"] = max(stats["max_dg"], len(d))
                if len(d) >= LIMIT:
                    bad = "datagram of %d bytes (limit: smaller than %d)" % (len(d), LIMIT)
                try:
                    s, spans = T.decode_emit_batch(d)
                    seen += [x["span"] for x in spans]
                    if not spans:
                        bad = bad or "empty datagram"
                except Exception as ex:  # malformed thrift
                    bad = bad or "datagram is not a well-formed emitBatch: %s" % ex
            want = [x["span"] for x in batch]
            # order-preserving, each at most once, only missing ones are candidates for 'oversize'
            it = iter(want)
            if not all(any(s == w for w in it) for s in seen) or len(set(seen)) != len(seen):
                bad = bad or "datagrams carry spans %s..., not an in-order sub-sequence without repeats of the batch" % seen[:8]
            missing = [x for x in batch if x["span"] not in set(seen)]
            stats["skipped"] += len(missing)
            for x in missing:
                recheck.append((ci, x))
            if len(dgs) > 1 or missing:
                nontriv.add(lines[ci])
            if bad:
                fails.append((ci, bad))
            if model is not None and ci < len(model) and model[ci] != out:
                mism.append((ci, out[:80], model[ci][:80]))
        # a skipped span must not fit alone: ask the implementation itself
        if recheck:
            l2 = ["jaeger %s %s" % (G.hx(svc), G.wire_record(x)) for _, x in recheck]
            rc, o2, _ = C.run_lines(C.bin_path("fh-rep"), "report", l2)
            for (ci, x), o in zip(recheck, o2):
                if len(o.split()) > 1:
                    fails.append((ci, "span #%d was skipped although it fits in a datagram alone (%d bytes)" % (x["span"], len(o.split()[1]) // 2)))

    for ci, bad in fails[:3]:
        v.violation(bad, {"batch": cases[ci], "request": lines[ci][:2000], "implementation": (impl[ci][:2000] if impl and ci < len(impl) else None),
                          "model": (model[ci][:2000] if model and ci < len(model) else None)})
    if not fails:
        if not ok:
            v.violation("harness does not build against /repo: " + err, {"obligation": "fh-rep builds", "stderr": err}, found_input=False, tag="build")
        elif mism:
            ci, a, b = mism[0]
            v.violation("model/implementation correspondence broken (datagram bytes differ) on batch %d; the oracle found no C20 failure in %d batches" % (ci, len(cases)),
                        {"correspondence": "fh-rep jaeger vs fmodel Jaeger.datagrams", "batch": cases[ci], "implementation": a, "model": b, "mismatches": len(mism)}, found_input=False, tag="corr")
        elif lean["failures"]:
            v.violation("proof obligation no longer checks: " + "; ".join(lean["failures"])[:400], {"theorem_or_obligation": lean["failures"], "searched_batches": len(cases)}, found_input=False, tag="proof")
        elif impl is None or model is None or len(impl) != len(cases) or len(model) != len(cases):
            v.violation("driver produced incomplete output", {"impl": len(impl or []), "model": len(model or [])}, found_input=False, tag="driver")
    v.coverage = {
        "obligations": lean["obligations"], "discharged": lean["discharged"] if not lean["failures"] else min(lean["discharged"], lean["obligations"] - 1),
        "checker_cmd": "cd lean && lake build FastraceModel.Props.C20 FastraceModel.Props.ParamsOk && lake env lean <#print axioms>" + (" && lake env leanchecker FastraceModel.Props.C20" if tier == "thorough" else ""),
        "trusted_base": C.TRUSTED_BASE + ["thrift_codec 0.3.2 byte format: modelled (Model/Report/Thrift.lean), compared byte-for-byte on every batch, not proved", "UDP loopback delivers every datagram of a batch before report() returns"],
        "theorems": lean["theorems"], "axioms": lean["axioms"],
        "evaluations": len(cases), "distinct_nontrivial": len(nontriv),
        "rule": "boundary-directed batches of 2/3/5/14/15/16/40/127/128/130 spans encoding to exactly 7999/8000/8001 bytes (sizes measured with the model's encoder); batches from VERIF_SEED: 0-300 records, name lengths chosen so that spans are ~8000/m bytes (m=1..10), spans within ±80 bytes of the limit alone, certainly-oversize spans at random positions, random small records; non-trivial = distinct batch that needed more than one datagram or had a skipped span",
        "samples": [{"spans": len(b), "name_lengths": [len(x["name"]) for x in b][:12]} for b in cases[:4]],
        "traces_validated_against_impl": len(cases) if impl is not None else 0, "stats": stats,
        "correspondence_mismatches": len(mism), "oracle_failures": len(fails), "skipped_spans_rechecked_alone": len(recheck),
    }
    v.assumptions = ["send_to and serialize do not fail (environment)", "loopback socket receive buffer holds one batch's datagrams"]
